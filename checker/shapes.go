package main

// shapes.go — E5: the finite abstract domain of protobuf field shapes and the
// answers it gives to the descriptor questions generator code asks about a
// *protogen.Field. Used to evaluate validators and emitter guards per shape by
// walking the generator's syntax tree with those answers fixed (no execution).

import (
	"fmt"
	"strings"
)

type Shape struct {
	Kind string // proto kind name: bool,int32,...,string,bytes,enum,message,timestamp
	Card string // singular | list | map (Kind is then the map VALUE kind)
	Pres string // singular only: implicit | optional | oneof
}

func (s Shape) String() string {
	switch s.Card {
	case "list":
		return "repeated " + s.Kind
	case "map":
		return "map<string," + s.Kind + ">"
	}
	switch s.Pres {
	case "optional":
		return "optional " + s.Kind
	case "oneof":
		return "oneof-member " + s.Kind
	}
	return s.Kind
}

var scalarKinds = []string{"bool", "int32", "sint32", "sfixed32", "uint32", "fixed32", "int64", "sint64", "sfixed64", "uint64", "fixed64", "float", "double", "string", "bytes", "enum"}
var allKinds = append(append([]string{}, scalarKinds...), "message", "timestamp")

// AllShapes enumerates the domain (18 kinds x {implicit, optional, oneof, list, map}).
func AllShapes() []Shape {
	var out []Shape
	for _, k := range allKinds {
		out = append(out, Shape{k, "singular", "implicit"}, Shape{k, "singular", "optional"}, Shape{k, "singular", "oneof"},
			Shape{k, "list", ""}, Shape{k, "map", ""})
	}
	return out
}

// descriptor-level kind (what field.Desc.Kind() returns)
func (s Shape) descKind() string {
	if s.Card == "map" {
		return "message" // the synthetic map-entry message
	}
	if s.Kind == "timestamp" {
		return "message"
	}
	return s.Kind
}

var kindConst = map[string]string{
	"bool": "BoolKind", "int32": "Int32Kind", "sint32": "Sint32Kind", "sfixed32": "Sfixed32Kind", "uint32": "Uint32Kind",
	"fixed32": "Fixed32Kind", "int64": "Int64Kind", "sint64": "Sint64Kind", "sfixed64": "Sfixed64Kind", "uint64": "Uint64Kind",
	"fixed64": "Fixed64Kind", "float": "FloatKind", "double": "DoubleKind", "string": "StringKind", "bytes": "BytesKind",
	"enum": "EnumKind", "message": "MessageKind", "group": "GroupKind",
}

// Answer resolves a decision about the field whose provenance key is prefix.
// Facts (protobuf-go): Field.Message != nil iff Desc.Kind() is Message/Group
// (map fields: the entry message); Field.Enum != nil iff EnumKind; Field.Oneof
// != nil for members of real AND synthetic (proto3 optional) oneofs
// (compiler/protogen/protogen.go: ContainingOneof()); Desc.HasOptionalKeyword()
// only for proto3 optional.
func (s Shape) Answer(prefix, dk, constRepr string) (int, bool) {
	b := func(v bool) (int, bool) {
		if v {
			return 1, true
		}
		return 0, true
	}
	if len(dk) < 3 {
		return 0, false
	}
	kind, key := dk[:2], dk[2:]
	has := func(suffix string) bool { return key == prefix+suffix }
	switch kind {
	case "b:":
		switch {
		case has(".Desc.IsList()"):
			return b(s.Card == "list")
		case has(".Desc.IsMap()"):
			return b(s.Card == "map")
		case has(".Desc.HasOptionalKeyword()"):
			return b(s.Card == "singular" && s.Pres == "optional")
		case has(".Desc.HasPresence()"):
			return b(s.Card == "singular" && (s.Pres != "implicit" || s.Kind == "message" || s.Kind == "timestamp"))
		case has(".Desc.IsPacked()"):
			return 0, false
		case key == "isnil("+prefix+".Oneof)":
			return b(!(s.Card == "singular" && (s.Pres == "oneof" || s.Pres == "optional")))
		case key == "isnil("+prefix+".Message)":
			return b(s.descKind() != "message")
		case key == "isnil("+prefix+".Enum)":
			return b(s.descKind() != "enum")
		case key == "isnil("+prefix+")":
			return b(false)
		case has(".Message.Desc.IsMapEntry()"):
			return b(s.Card == "map")
		case key == "isnil("+prefix+".Desc.ContainingOneof())":
			return b(!(s.Card == "singular" && (s.Pres == "oneof" || s.Pres == "optional")))
		case has(".Oneof.Desc.IsSynthetic()"):
			return b(s.Pres == "optional")
		}
	case "v:":
		switch {
		case has(".Desc.Kind()"):
			return b(kindConst[s.descKind()] == constRepr)
		case has(".Desc.Kind().String()"):
			return b(`"`+s.descKind()+`"` == constRepr)
		case has(".Message.Desc.FullName()"):
			if constRepr == `"google.protobuf.Timestamp"` {
				return b(s.Kind == "timestamp" && s.Card != "map")
			}
			return b(false)
		case has(".Desc.Cardinality()"):
			return b((constRepr == "Repeated") == (s.Card != "singular"))
		}
	}
	return 0, false
}

// GoType: the Go type protoc-gen-go gives x.<GoName> for the shape (open struct
// API). Reference: protobuf-go generated-code guide ("Singular scalar fields
// (proto3)", "Singular message fields", "Repeated fields", "Map fields",
// "Oneof fields": members have no direct struct field, only Get<Name>()).
func (s Shape) GoType(msgType, enumType string) (typ string, direct bool) {
	base := map[string]string{"bool": "bool", "int32": "int32", "sint32": "int32", "sfixed32": "int32", "uint32": "uint32",
		"fixed32": "uint32", "int64": "int64", "sint64": "int64", "sfixed64": "int64", "uint64": "uint64", "fixed64": "uint64",
		"float": "float32", "double": "float64", "string": "string", "bytes": "[]byte"}[s.Kind]
	switch s.Kind {
	case "enum":
		base = enumType
	case "message":
		base = "*" + msgType
	case "timestamp":
		base = "*timestamppb.Timestamp"
	}
	switch s.Card {
	case "list":
		return "[]" + base, true
	case "map":
		return "map[string]" + base, true
	}
	switch s.Pres {
	case "oneof":
		return base, false
	case "optional":
		if s.Kind == "bytes" || strings.HasPrefix(base, "*") {
			return base, true
		}
		return "*" + base, true
	}
	return base, true
}

func shapeKey(s Shape) string { return fmt.Sprintf("%s/%s/%s", s.Kind, s.Card, s.Pres) }

var fieldSuffixes = []string{".Desc.IsList()", ".Desc.IsMap()", ".Desc.HasOptionalKeyword()", ".Desc.HasPresence()", ".Message.Desc.IsMapEntry()",
	".Oneof.Desc.IsSynthetic()", ".Desc.Kind()", ".Desc.Kind().String()", ".Message.Desc.FullName()", ".Desc.Cardinality()"}

// AnswerAny answers descriptor questions about ANY field (single-field worlds):
// the field's provenance key is recovered from the decision key by suffix.
func (s Shape) AnswerAny(dk, constRepr string) (int, bool) {
	if len(dk) < 3 {
		return 0, false
	}
	key := dk[2:]
	for _, suf := range fieldSuffixes {
		if strings.HasSuffix(key, suf) {
			return s.Answer(strings.TrimSuffix(key, suf), dk, constRepr)
		}
	}
	for _, link := range []string{".Oneof)", ".Message)", ".Enum)"} {
		if strings.HasPrefix(key, "isnil(") && strings.HasSuffix(key, link) {
			return s.Answer(strings.TrimSuffix(strings.TrimPrefix(key, "isnil("), link), dk, constRepr)
		}
	}
	return 0, false
}
