#!/bin/sh
# bin/suitecmp.sh [ref-file] — run /repo's test suite and compare the per-test pass/fail/skip set with a reference set
# (default: the set recorded for the unchanged tree in /tmp/seed/suite-ref.txt; created on first use).
HERE=$(cd "$(dirname "$0")/.." && pwd)
. "$HERE/bin/env.sh"
ref=${1:-/tmp/seed/suite-ref.txt}
out=$(mktemp)
(cd /repo && go test -vet=off -count=1 -json ./... 2>/dev/null) | python3 -c "
import sys,json
res={}
for l in sys.stdin:
    try: e=json.loads(l)
    except: continue
    if e.get('Action') in ('pass','fail','skip') and e.get('Test'): res[e['Package']+'::'+e['Test']]=e['Action']
for k in sorted(res): print(k,res[k])
" > "$out"
if [ ! -f "$ref" ]; then cp "$out" "$ref"; echo "reference created: $(wc -l < "$ref") tests"; rm -f "$out"; exit 0; fi
if diff -q "$ref" "$out" >/dev/null; then echo "suite: identical to reference ($(grep -c ' pass$' "$out") pass, $(grep -c ' fail$' "$out") fail, $(grep -c ' skip$' "$out") skip)"; rm -f "$out"; exit 0; fi
echo "suite DIFFERS:"; diff "$ref" "$out" | head -20; rm -f "$out"; exit 1
