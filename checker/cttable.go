package main

// cttable.go — content-type dispatch tables of emitted Go code (server runtime
// and client helpers): which codec each content-type string selects.

import (
	"go/ast"
	"go/parser"
	"go/token"
	"go/types"
	"sort"
	"strconv"
	"strings"
)

type ctArm struct {
	Labels []string // resolved content-type strings; nil = default
	Codec  string   // json | binary | mixed | none
	Sets   []string // string constants assigned in the arm (response content type)
}

type ctTable struct {
	Fn   string
	Arms []ctArm
	Pos  token.Pos
}

// constStrings collects top-level string constants of parsed files.
func constStrings(files ...*ast.File) map[string]string {
	out := map[string]string{}
	for _, f := range files {
		for _, d := range f.Decls {
			gd, ok := d.(*ast.GenDecl)
			if !ok || gd.Tok != token.CONST {
				continue
			}
			for _, sp := range gd.Specs {
				vs := sp.(*ast.ValueSpec)
				for i, n := range vs.Names {
					if i < len(vs.Values) {
						if bl, ok := vs.Values[i].(*ast.BasicLit); ok && bl.Kind == token.STRING {
							s, _ := strconv.Unquote(bl.Value)
							out[n.Name] = s
						}
					}
				}
			}
		}
	}
	return out
}

func codecOf(n ast.Node) string {
	json, bin := false, false
	ast.Inspect(n, func(m ast.Node) bool {
		if call, ok := m.(*ast.CallExpr); ok {
			s := types.ExprString(call.Fun)
			switch {
			case strings.HasPrefix(s, "protojson."), strings.HasSuffix(s, ".MarshalJSON"), strings.HasSuffix(s, ".UnmarshalJSON"),
				s == "bindDataFromJSONRequest":
				json = true
			case s == "proto.Marshal", s == "proto.Unmarshal", s == "bindDataFromBinaryRequest":
				bin = true
			case strings.HasPrefix(s, "proto.MarshalOptions{") || strings.HasPrefix(s, "proto.UnmarshalOptions{") || strings.HasPrefix(s, "(proto.MarshalOptions{") || strings.HasPrefix(s, "(proto.UnmarshalOptions{"):
				// proto.MarshalOptions{…}.Marshal / MarshalAppend, proto.UnmarshalOptions{…}.Unmarshal: the binary wire codec
				bin = true
			}
		}
		return true
	})
	switch {
	case json && bin:
		return "mixed"
	case json:
		return "json"
	case bin:
		return "binary"
	}
	return "none"
}

// extractCTTable finds the switch over the content type in fd.
func extractCTTable(fd *ast.FuncDecl, consts map[string]string) *ctTable {
	var t *ctTable
	ast.Inspect(fd.Body, func(n ast.Node) bool {
		sw, ok := n.(*ast.SwitchStmt)
		if !ok || sw.Tag == nil || t != nil {
			return true
		}
		tag := types.ExprString(sw.Tag)
		if !strings.Contains(strings.ToLower(tag), "contenttype") {
			return true
		}
		t = &ctTable{Fn: fd.Name.Name, Pos: sw.Pos()}
		for _, st := range sw.Body.List {
			cc := st.(*ast.CaseClause)
			arm := ctArm{Codec: codecOf(&ast.BlockStmt{List: cc.Body})}
			for _, e := range cc.List {
				switch x := ast.Unparen(e).(type) {
				case *ast.Ident:
					if v, ok := consts[x.Name]; ok {
						arm.Labels = append(arm.Labels, v)
					} else {
						arm.Labels = append(arm.Labels, "?"+x.Name)
					}
				case *ast.BasicLit:
					s, _ := strconv.Unquote(x.Value)
					arm.Labels = append(arm.Labels, s)
				default:
					arm.Labels = append(arm.Labels, "?"+types.ExprString(e))
				}
			}
			sort.Strings(arm.Labels)
			ast.Inspect(&ast.BlockStmt{List: cc.Body}, func(m ast.Node) bool {
				if as, ok := m.(*ast.AssignStmt); ok {
					for _, rh := range as.Rhs {
						if bl, ok := rh.(*ast.BasicLit); ok && bl.Kind == token.STRING {
							s, _ := strconv.Unquote(bl.Value)
							arm.Sets = append(arm.Sets, s)
						}
					}
				}
				return true
			})
			t.Arms = append(t.Arms, arm)
		}
		return false
	})
	return t
}

// codecFor returns the codec the table selects for a content-type string.
func (t *ctTable) codecFor(ct string) (string, []string) {
	var def *ctArm
	for i := range t.Arms {
		a := &t.Arms[i]
		if a.Labels == nil {
			def = a
			continue
		}
		for _, l := range a.Labels {
			if l == ct {
				return a.Codec, a.Sets
			}
		}
	}
	if def != nil {
		return def.Codec, def.Sets
	}
	return "none", nil
}

func (t *ctTable) labels() []string {
	var out []string
	for _, a := range t.Arms {
		out = append(out, a.Labels...)
	}
	sort.Strings(out)
	return out
}

// ParseUnit parses one emitted Go unit (syntax only).
func ParseUnit(u *Unit) (*token.FileSet, *ast.File, error) {
	fset := token.NewFileSet()
	f, err := parser.ParseFile(fset, "unit"+u.Suffix(), u.Text(), parser.ParseComments)
	return fset, f, err
}
