#!/bin/bash
# bin/trybenign.sh <patch.diff> — apply a behaviour-preserving change to a scratch copy of /repo and run EVERY check (quick)
# against it; every check must stay silent (exit 0). Prints the checks that do not, with their reports.
HERE=$(cd "$(dirname "$0")/.." && pwd)
. "$HERE/bin/env.sh"
patchf=$1
dir=$(mktemp -d /var/tmp/sebuf-b.XXXXXX)
cp -r /repo/. "$dir"/ && rm -rf "$dir/.git"
(cd "$dir" && patch -p1 -s < "$patchf") || { echo "patch does not apply"; rm -rf "$dir"; exit 3; }
props=$(python3 -c "import json;print(' '.join(sorted(c['property_id'] for c in json.load(open('$HERE/MANIFEST.json'))['checks'])))")
tmp=$(mktemp -d)
for p in $props; do ( out=$(mktemp -d /var/tmp/sebuf-o.XXXXXX); VERIF_REPO="$dir" VERIF_OUT="$out" "$HERE/bin/run" $p quick > $tmp/$p.out 2>&1; echo $? > $tmp/$p.code; rm -rf "$out" ) & done
wait
bad=0
for p in $props; do
  code=$(cat $tmp/$p.code)
  if [ "$code" != "0" ]; then bad=1; echo "ALARM $p exit=$code"; sed "s#$dir/##g" $tmp/$p.out | grep -v "^KNOWN-FINDING" | grep -A1 -E "^VIOLATION|^UNRESOLVED|^UNDECIDED|^VACUOUS|rule=" | grep -v "^--" | cut -c1-400 | head -12; fi
done
[ $bad = 0 ] && echo "silent on all $(echo $props | wc -w) checks"
rm -rf "$dir" "$tmp"
exit $bad
