package main

// C04 — generated Go JSON codecs round-trip every message value.

import (
	"fmt"
	"go/ast"
	"go/token"
	"go/types"
	"regexp"
	"sort"
	"strings"
)

func init() { props["C04"] = checkC04 }

var keyAccessorRe = regexp.MustCompile(`(JSONName\(\)|Desc\.Name\(\)|GoName|\.Prefix|\.DiscriminatorVal|\.Discriminator|GetFlattenPrefix\([^)]*\))$`)

var anyAccessorRe = regexp.MustCompile(`JSONName\(\)|Desc\.Name\(\)|\.DiscriminatorVal|\.Discriminator|\.Prefix`)

func accessorClass(key string) string {
	if strings.HasPrefix(key, "append(") {
		// a list of key strings collected at generation time: classify by what was appended
		if ms := anyAccessorRe.FindAllString(key, -1); len(ms) > 0 {
			return ms[len(ms)-1]
		}
	}
	if m := keyAccessorRe.FindString(eraseIters(key)); m != "" {
		if strings.HasPrefix(m, "GetFlattenPrefix") {
			return ".Prefix"
		}
		return m
	}
	k := eraseIters(key)
	if len(k) > 40 {
		k = "…" + k[len(k)-40:]
	}
	return k
}

func checkC04(c *Ctx) {
	r := c.R
	r.Explain = "Round-trip equality quantifies over message VALUES (float text, NaN, huge integers, documented truncation) and is not decidable from the shape of the code; the following structural necessary conditions are decided on every variant of every emitted codec unit (both Go plugins). R04a lost write in decoders: a store into the receiver (x.F = …, json.Unmarshal(…, x.F)) that can be followed by protojson.Unmarshal(…, x) — which resets x — is a violation unless the stored datum is re-inserted into the map that is re-decoded or was read from a key that is still in that map. R04e every flattened-oneof case arm sets the oneof unconditionally. R04b the key accessors used by a feature's encoder and decoder agree (JSONName vs Name, prefix, discriminator). R04d timestamp/bytes format arms exist on both sides for the same constants. R04c codec discipline: in the shape worlds (type-checked stand-ins) encoding/json Marshal/Unmarshal applied to a generated message that has no custom codec uses Go struct tags instead of the proto3 JSON mapping; the sites are listed. R04f no overflow-prone time API (UnixNano) in emitted conversions. R04g encoders do not drop a child's marshalling error. Not decided: equality for concrete values; behaviour of protojson itself."
	r.Trusted = []string{"protojson.Unmarshal resets its target; encoding/json on a generated struct uses its `json:` tags (proto field names, omitempty) and encodes 64-bit integers as numbers and enums as numbers"}
	r.Rule("R04a", "no store into the message is erased by the resetting protojson decode that follows", 8)
	r.Rule("R04e", "flattened-oneof case arms set the oneof unconditionally", 2)
	r.Rule("R04b", "encoder and decoder of a feature use the same key accessors", 8)
	r.Rule("R04d", "format arms (timestamp_format, bytes_encoding) are symmetric between encoder and decoder", 4)
	r.Rule("R04c", "encoding/json is not applied to generated messages without a custom codec (sites listed)", 2)
	r.Rule("R04f", "no overflow-prone time API in emitted conversions", 2)
	r.Rule("R04g", "encoders do not swallow a child's marshalling error", 2)
	r.Rule("R04h", "scenario messages: the keys the emitted encoder writes are the keys the documented mapping (and the decoder) use", 4)
	crossScenarioKeys(c, "R04h", "go")
	r.Rule("R04i", "codec collectors visit nested declarations unconditionally (a nested annotated message must get its codec)", 14)
	collectorRecursion(c, "R04i")
	r.Rule("R04j", "reads of the run-wide unwrap table fall back to the descriptor (shared with C15/R15f): the encoding of a message must not depend on which files are generated together", 2)
	c.checkGlobalTableReads("R04j")
	r.Rule("R04k", "empty_behavior: every key written as null by the emitted encoder is mapped back by the emitted decoder, whatever the order of the settings", 14)
	emptyBehaviorPairing(c, "R04k")
	r.Rule("R04l", "bytes decoded by a child's own UnmarshalJSON are not decoded again by the final protojson decode (shared with C05/R05k)", 2)
	customFormReachesProtojson(c, "R04l")
	r.Rule("R04m", "enum_value tables: the decoder table reads every string the encoder table writes (partially annotated enums, both plugins)", 6)
	enumTables(c, "R04m")
	r.Rule("R04n", "timestamp_format decoders keep sub-second precision", 2)
	timestampDecoderPrecision(c, "R04n")
	r.Rule("R04o", "timestamp_format encoders format instants in UTC (the zone the decoder parses in)", 2)
	timestampEncoderUTC(c, "R04o")
	r.Rule("R04p", "integer codecs: no emitted conversion of the field's value changes its sign or narrows it (type-checked shape worlds, every 64-bit kind x cardinality)", 4)
	checkWorldConversions(c, "R04p")
	r.Rule("R04q", "a flattened oneof whose variant children share a JSON key with a parent field (plain, proto3-optional, member of another oneof, discriminator) is refused: two fields writing one key cannot round-trip (scenarios shared with C12/R12g)", 5)
	c12ScenariosRule(c, "R04q", func(fn, rule string) bool { return fn == "validateOneofFlatten" })
	r.Rule("R04r", "an emitted encoder writes one entry for every element of the collection it ranges over: inside the loop the store is guarded by nil tests only (an entry skipped for being empty cannot be restored by the decoder)", 2)
	encoderKeepsEveryElement(c, "R04r")
	r.Rule("R04v", "a scratch map an emitted codec function serialises per child is fresh for each child", 1)
	scratchMapsPerChild(c, "R04v")
	r.Rule("R04u", "emitted codec units keep no package-level pool or cache: the JSON form of a message depends on the message alone", 1)
	codecsKeepNoState(c, "R04u")
	r.Rule("R04t", "per message type, the emitted encoder consults a nested value's own codec exactly when the emitted decoder does", 1)
	codecPairShape(c, "R04t", "")
	r.Rule("R04s", "a slice or map that an emitted decoder fills inside a loop and stores per entry is declared inside the loop (a target declared once is aliased by every entry)", 1)
	decodeTargetsPerIteration(c, "R04s")

	type siteAgg struct {
		pos  string
		text string
	}
	for _, ri := range c.goUnitRoots() {
		ex := c.ExploreT(ri.Fn, 6000)
		declares := unitDeclaresCodec(ex)
		if !declares {
			continue
		}
		unitKey := pkgShort(ri.Pkg) + " *" + ri.Suffix
		lost := map[string]siteAgg{}
		nStores, nFuncs := 0, 0
		unsetArm := ""
		unsetPos := ""
		nanoSite, nanoPos := "", ""
		swallow := map[string]siteAgg{}
		encKeys, decKeys := map[string]bool{}, map[string]bool{}
		for _, v := range ex.Variants {
			for _, u := range v.Units {
				// ---- line-level facts (provenance)
				dir := ""
				for _, l := range u.Lines {
					t := lineText(l.Segs)
					if strings.HasPrefix(t, "func (x ") {
						switch {
						case strings.Contains(t, "MarshalJSON()"):
							dir = "enc"
						case strings.Contains(t, "UnmarshalJSON("):
							dir = "dec"
						default:
							dir = ""
						}
					}
					if dir == "" {
						continue
					}
					if strings.Contains(t, ".UnixNano()") && nanoSite == "" {
						nanoSite, nanoPos = holeFree(t), c.P.Pos(l.Pos)
					}
					// keys: holes inside a string literal that is a map index / delete argument / case label
					if strings.Contains(t, `["`) || strings.Contains(t, `delete(`) || strings.HasPrefix(strings.TrimSpace(t), `case "`) {
						off := 0
						for _, sg := range l.Segs {
							if sg.Hole == nil {
								off += len(sg.Const)
								continue
							}
							before := t[:off]
							off += len(HoleName(sg.Hole))
							if strings.Count(before, `"`)%2 == 1 {
								cls := accessorClass(sg.Hole.Key)
								if dir == "enc" {
									encKeys[cls] = true
								} else {
									decKeys[cls] = true
								}
							}
						}
					}
					// format arms: which generator switch arm emitted the line (the constant compared on the Format/Encoding key)
				}
				// ---- AST-level facts
				fset, f, err := ParseUnit(u)
				if err != nil {
					continue
				}
				gen := func(p token.Pos) string {
					line := fset.Position(p).Line
					if line >= 1 && line <= len(u.Lines) {
						return c.P.Pos(u.Lines[line-1].Pos)
					}
					return ""
				}
				emitter := func(p token.Pos) string {
					line := fset.Position(p).Line
					if line >= 1 && line <= len(u.Lines) && u.Lines[line-1].Fn != nil {
						return u.Lines[line-1].Fn.Name()
					}
					return "?"
				}
				for _, d := range f.Decls {
					fd, ok := d.(*ast.FuncDecl)
					if !ok || fd.Body == nil || fd.Recv == nil {
						continue
					}
					nFuncs++
					parents := parentMap(fd.Body)
					if fd.Name.Name == "UnmarshalJSON" {
						// stores into x
						type store struct {
							pos  token.Pos
							node ast.Node
							what string
						}
						var stores []store
						ast.Inspect(fd.Body, func(n ast.Node) bool {
							switch x := n.(type) {
							case *ast.AssignStmt:
								for _, l := range x.Lhs {
									if sel, ok := ast.Unparen(l).(*ast.SelectorExpr); ok {
										if id, ok := sel.X.(*ast.Ident); ok && id.Name == "x" {
											stores = append(stores, store{x.Pos(), x, "x." + holeFree(sel.Sel.Name) + " = …"})
										}
									}
								}
							case *ast.CallExpr:
								fn := types.ExprString(x.Fun)
								if (fn == "json.Unmarshal" || fn == "protojson.Unmarshal") && len(x.Args) == 2 {
									a := ast.Unparen(x.Args[1])
									if un, ok := a.(*ast.UnaryExpr); ok && un.Op == token.AND {
										a = ast.Unparen(un.X)
									}
									if sel, ok := a.(*ast.SelectorExpr); ok {
										if id, ok := sel.X.(*ast.Ident); ok && id.Name == "x" {
											stores = append(stores, store{x.Pos(), x, fn + "(…, x." + holeFree(sel.Sel.Name) + ")"})
										}
									}
								}
							}
							return true
						})
						// resets of x
						var resets []token.Pos
						ast.Inspect(fd.Body, func(n ast.Node) bool {
							if call, ok := n.(*ast.CallExpr); ok && types.ExprString(call.Fun) == "protojson.Unmarshal" && len(call.Args) == 2 {
								if id, ok := ast.Unparen(call.Args[1]).(*ast.Ident); ok && id.Name == "x" {
									resets = append(resets, call.Pos())
								}
							}
							return true
						})
						for _, st := range stores {
							nStores++
							// reachable reset after the store?
							erased := false
							for _, rp := range resets {
								if rp > st.pos && cfgReaches(fd.Body, st.pos, rp) {
									erased = true
								}
							}
							if !erased {
								continue
							}
							// excused: datum re-inserted into raw after the store in the same statement list …
							excused := false
							stmt := st.node
							for {
								if _, ok := stmt.(ast.Stmt); ok {
									break
								}
								stmt = parents[stmt]
							}
							var list []ast.Stmt
							switch b := parents[stmt].(type) {
							case *ast.BlockStmt:
								list = b.List
							case *ast.CaseClause:
								list = b.Body
							}
							for _, later := range list {
								if later.Pos() <= stmt.Pos() {
									continue
								}
								if as, ok := later.(*ast.AssignStmt); ok {
									for _, l := range as.Lhs {
										if ix, ok := l.(*ast.IndexExpr); ok && types.ExprString(ix.X) == "raw" {
											excused = true
										}
									}
								}
							}
							// … or read from a key of raw that is never deleted
							for p := parents[stmt]; p != nil && !excused; p = parents[p] {
								if ifs, ok := p.(*ast.IfStmt); ok && ifs.Init != nil {
									if as, ok := ifs.Init.(*ast.AssignStmt); ok && len(as.Rhs) == 1 {
										if ix, ok := as.Rhs[0].(*ast.IndexExpr); ok && types.ExprString(ix.X) == "raw" {
											key := types.ExprString(ix.Index)
											deleted := false
											ast.Inspect(fd.Body, func(m ast.Node) bool {
												if call, ok := m.(*ast.CallExpr); ok && types.ExprString(call.Fun) == "delete" && len(call.Args) == 2 &&
													types.ExprString(call.Args[0]) == "raw" && types.ExprString(call.Args[1]) == key {
													deleted = true
												}
												return true
											})
											if !deleted {
												excused = true
											}
										}
									}
								}
							}
							if !excused {
								k := unitKey + " " + emitter(st.pos) + ": " + st.what + " precedes protojson.Unmarshal(…, x)"
								if _, ok := lost[k]; !ok {
									lost[k] = siteAgg{gen(st.pos), holeFree(strings.TrimSpace(strings.Split(u.Text(), "\n")[fset.Position(st.pos).Line-1]))}
								}
							}
						}
						// R04e flattened oneof arms
						ast.Inspect(fd.Body, func(n ast.Node) bool {
							cc, ok := n.(*ast.CaseClause)
							if !ok {
								return true
							}
							flat := false
							for _, st := range cc.Body {
								if as, ok := st.(*ast.AssignStmt); ok && len(as.Lhs) == 1 && types.ExprString(as.Lhs[0]) == "variantMap" {
									flat = true
								}
							}
							if !flat {
								return true
							}
							set := false
							for _, st := range cc.Body {
								if as, ok := st.(*ast.AssignStmt); ok {
									for _, l := range as.Lhs {
										if strings.HasPrefix(types.ExprString(l), "x.") {
											set = true
										}
									}
								}
							}
							if !set && unsetArm == "" {
								unsetArm = holeFree(types.ExprString(cc.List[0]))
								unsetPos = gen(cc.Pos())
							}
							return true
						})
					}
					if fd.Name.Name == "MarshalJSON" {
						// R04g: `v, err := json.Marshal(<non-constant>)` handled on the success arm only
						ast.Inspect(fd.Body, func(n ast.Node) bool {
							call, ok := n.(*ast.CallExpr)
							if !ok || types.ExprString(call.Fun) != "json.Marshal" || len(call.Args) != 1 {
								return true
							}
							kind := classifyByName(call, parents)
							arg := types.ExprString(call.Args[0])
							scalarArg := strings.HasPrefix(arg, "x.") || strings.HasPrefix(arg, `"`) || strings.Contains(arg, "Format(") || strings.Contains(arg, "EncodeToString(") ||
								strings.Contains(arg, "Unix") || arg == "raw" || arg == "out" || arg == "strs" || strings.HasPrefix(arg, "strconv.")
							if (kind == "success-arm-only" || kind == "discarded" || kind == "untested") && !scalarArg {
								k := unitKey + ": error of json.Marshal(" + holeFree(arg) + ") is dropped"
								_ = emitter
								if _, ok := swallow[k]; !ok {
									swallow[k] = siteAgg{gen(call.Pos()), kind}
								}
							}
							return true
						})
					}
				}
			}
		}
		for _, k := range sortedKeys(lost) {
			r.Bad("R04a", k, lost[k].pos, "the decoder stores a decoded part into the message and afterwards decodes the remainder with protojson.Unmarshal(…, x), which resets x: the stored part is lost (emitted: "+lost[k].text+")", nil)
		}
		r.OKd("R04a", unitKey+": stores into the receiver checked against later resets", "", map[string]any{"stores": nStores, "functions": nFuncs, "lost": len(lost)})
		if strings.Contains(ri.Suffix, "oneof") {
			r.Check(unsetArm == "", "R04e", unitKey+": every flattened variant arm sets the oneof", unsetPos,
				"case "+unsetArm+" of a flattened discriminated oneof does not set the oneof on every path: a variant without (non-zero) fields decodes to an unset oneof")
		}
		ek, dk := sortedKeys(encKeys), sortedKeys(decKeys)
		// selector-position GoName is not a key
		filter := func(xs []string) []string {
			var o []string
			for _, x := range xs {
				if x != "GoName" {
					o = append(o, x)
				}
			}
			return o
		}
		ek, dk = filter(ek), filter(dk)
		if len(ek)+len(dk) > 0 {
			r.CheckD(strings.Join(ek, ",") == strings.Join(dk, ","), "R04b", unitKey+": encoder and decoder key accessors agree", c.P.Pos(c.P.Decls[ri.Fn].Pos()),
				fmt.Sprintf("the encoder writes keys spelled by %v, the decoder reads keys spelled by %v: for fields where the two spellings differ a value does not round-trip", ek, dk), map[string]any{"encoder": ek, "decoder": dk})
		}
		r.Check(nanoSite == "", "R04f", unitKey+": time conversions avoid UnixNano", nanoPos,
			"emitted conversion uses time.Time.UnixNano, whose result is undefined outside 1678..2262: legal Timestamp values outside that range encode to garbage ("+nanoSite+")")
		for _, k := range sortedKeys(swallow) {
			r.Bad("R04g", k, swallow[k].pos, "the encoder ignores a failure of the child's marshalling ("+swallow[k].text+"): the child's fields are silently dropped from the output", nil)
		}
		if len(swallow) == 0 {
			r.OK("R04g", unitKey+": child marshalling errors are propagated", "")
		}
	}

	// ---- R04d symmetric format arms, read from the units reconstructed on the concrete corpus
	formatArmsSymmetric(c, "R04d")

	// ---- R04c encoding/json on generated messages (typed worlds)
	checkJSONOnMessages(c, "R04c")
	_ = sort.Strings
}

// cfgReaches: position `to` is reachable from position `from` in the CFG of body.
func cfgReaches(body *ast.BlockStmt, from, to token.Pos) bool {
	g := buildCFG(body)
	var start *struct{}
	_ = start
	type blk = int
	// find blocks containing from / to
	find := func(p token.Pos) (int, int) {
		for bi, b := range g.Blocks {
			for ni, n := range b.Nodes {
				if nodeContains(n, p) {
					return bi, ni
				}
			}
		}
		return -1, -1
	}
	fb, fn := find(from)
	tb, tn := find(to)
	if fb < 0 || tb < 0 {
		return to > from
	}
	if fb == tb && tn >= fn {
		return true
	}
	seen := map[int32]bool{}
	var dfs func(i int32) bool
	dfs = func(i int32) bool {
		if seen[i] {
			return false
		}
		seen[i] = true
		if int(i) == tb {
			return true
		}
		for _, s := range g.Blocks[i].Succs {
			if dfs(s.Index) {
				return true
			}
		}
		return false
	}
	for _, s := range g.Blocks[fb].Succs {
		if dfs(s.Index) {
			return true
		}
	}
	return false
}

// checkJSONOnMessages lists encoding/json calls on generated message values.
func checkJSONOnMessages(c *Ctx, rule string) {
	r := c.R
	// typed information is only available in the shape worlds; use message-kind worlds of flatten and oneof, and the unwrap unit by name
	sites := map[string]string{}
	for _, ri := range c.goUnitRoots() {
		ex := c.ExploreT(ri.Fn, 6000)
		if !unitDeclaresCodec(ex) {
			continue
		}
		for _, v := range ex.Variants {
			for _, u := range v.Units {
				fset, f, err := ParseUnit(u)
				if err != nil {
					continue
				}
				ast.Inspect(f, func(n ast.Node) bool {
					call, ok := n.(*ast.CallExpr)
					if !ok {
						return true
					}
					fn := types.ExprString(call.Fun)
					if fn != "json.Marshal" && fn != "json.Unmarshal" {
						return true
					}
					arg := call.Args[len(call.Args)-1]
					if fn == "json.Marshal" {
						arg = call.Args[0]
					}
					a := types.ExprString(arg)
					// message-valued arguments by the emitters' own naming: the flatten child, the oneof variant, `inner`, `variant`
					line := fset.Position(call.Pos()).Line
					em := "?"
					var lfn *types.Func
					if line >= 1 && line <= len(u.Lines) {
						lfn = u.Lines[line-1].Fn
					}
					if lfn != nil {
						em = lfn.Name()
					}
					isMsg := a == "inner" || a == "variant" || a == "item" ||
						(strings.HasPrefix(a, "x.") && (em == "generateFlattenFieldMarshal" || em == "generateFlattenFieldUnmarshal")) ||
						(strings.HasPrefix(a, "flat"))
					// unwrap siblings: json.Marshal(x.F) for scalar/regular-map/repeated-scalar siblings uses encoding/json number/enum forms
					isSibling := strings.HasPrefix(a, "x.") || strings.HasPrefix(a, "&x.")
					switch {
					case isMsg:
						k := pkgShort(ri.Pkg) + " *" + ri.Suffix + ": " + fn + " on a generated message (" + holeFree(a) + ")"
						sites[k] = c.P.Pos(u.Lines[line-1].Pos)
					case isSibling && strings.Contains(ri.Suffix, "unwrap") && (em == "generateScalarFieldMarshal" || em == "generateScalarFieldUnmarshal" || em == "generateRegularMapMarshal" || em == "generateRegularMapUnmarshal" || em == "generateRepeatedFieldMarshal" || em == "generateRepeatedFieldUnmarshal"):
						k := pkgShort(ri.Pkg) + " *" + ri.Suffix + ": " + fn + " on a sibling field of an unwrap container (" + holeFree(a) + ")"
						sites[k] = c.P.Pos(u.Lines[line-1].Pos)
					}
					return true
				})
			}
		}
	}
	for _, k := range sortedKeys(sites) {
		r.Bad(rule, k, sites[k], "encoding/json is applied to a value whose proto3 JSON form differs from its Go json-tag form: keys are the proto field names (snake_case) instead of JSON names, 64-bit integers and enums become numbers, zero values follow omitempty — the output is not the contract's JSON and multi-word field names do not round-trip through the flattened form", nil)
	}
	r.OKd(rule, "encoding/json call sites in codec units inventoried", "", map[string]any{"message_or_sibling_sites": len(sites)})
}

// encoderKeepsEveryElement — R04r. In every emitted MarshalJSON (all variants of every codec unit, both Go plugins): a
// `for … range x.<F>` loop whose body stores into a map or appends to a slice is the element-wise encoding of a repeated
// or map field. Between the loop and the store the only admissible conditions are nil tests and error tests; a condition on
// the element's length or content (`len(wrapper.GetBars()) > 0`) drops elements — a map key with an empty list, an empty
// string in a list — which the decoder then cannot give back.
func encoderKeepsEveryElement(c *Ctx, rid string) {
	r := c.R
	nLoops := 0
	reported := map[string]bool{}
	for _, ri := range c.goUnitRoots() {
		ex := c.ExploreT(ri.Fn, 6000)
		for _, v := range ex.Variants {
			for _, u := range v.Units {
				fset, f, err := ParseUnit(u)
				if err != nil {
					continue
				}
				gen := func(p token.Pos) string {
					line := fset.Position(p).Line
					if line >= 1 && line <= len(u.Lines) {
						return c.P.Pos(u.Lines[line-1].Pos)
					}
					return ""
				}
				for _, d := range f.Decls {
					fd, ok := d.(*ast.FuncDecl)
					if !ok || fd.Body == nil || fd.Recv == nil || fd.Name.Name != "MarshalJSON" || len(fd.Recv.List[0].Names) == 0 {
						continue
					}
					recv := fd.Recv.List[0].Names[0].Name
					parents := parentMap(fd.Body)
					ast.Inspect(fd.Body, func(nd ast.Node) bool {
						rs, ok := nd.(*ast.RangeStmt)
						if !ok {
							return true
						}
						// ranges over a field of the receiver (directly or through a getter)
						if root := rootIdentOf(rs.X); root == nil || root.Name != recv {
							if call, isCall := ast.Unparen(rs.X).(*ast.CallExpr); !isCall || rootIdentOf(call.Fun) == nil || rootIdentOf(call.Fun).Name != recv {
								return true
							}
						}
						ast.Inspect(rs.Body, func(m ast.Node) bool {
							as, ok := m.(*ast.AssignStmt)
							if !ok || len(as.Lhs) != 1 {
								return true
							}
							store := false
							if ix, ok := as.Lhs[0].(*ast.IndexExpr); ok && rootIdentOf(ix.X) != nil {
								store = true
							}
							if call, ok := ast.Unparen(as.Rhs[0]).(*ast.CallExpr); ok && types.ExprString(call.Fun) == "append" {
								store = true
							}
							if !store {
								return true
							}
							nLoops++
							for p := parents[ast.Node(as)]; p != nil && p != ast.Node(rs); p = parents[p] {
								ifs, ok := p.(*ast.IfStmt)
								if !ok || !nodeContains(ifs.Body, as.Pos()) {
									continue
								}
								cond := types.ExprString(ifs.Cond)
								okCond := true
								ast.Inspect(ifs.Cond, func(q ast.Node) bool {
									switch y := q.(type) {
									case *ast.BinaryExpr:
										if y.Op == token.LAND || y.Op == token.LOR {
											return true
										}
										if !((y.Op == token.NEQ || y.Op == token.EQL) && (isNilIdent(y.X) || isNilIdent(y.Y))) {
											okCond = false
										}
										return false
									case *ast.CallExpr, *ast.UnaryExpr:
										okCond = false
										return false
									}
									return true
								})
								if !okCond {
									k := fmt.Sprintf("%s *%s: element-wise encoding of %s keeps every element", pkgShort(ri.Pkg), ri.Suffix, holeFree(types.ExprString(rs.X)))
									if !reported[k] {
										reported[k] = true
										r.Bad(rid, k, gen(ifs.Pos()), "the emitted MarshalJSON encodes "+holeFree(types.ExprString(rs.X))+" element by element but writes an element only under `"+holeFree(cond)+"`: elements for which the condition is false (a map key whose list is empty, an empty element) vanish from the JSON, and the decoder rebuilds the message without them", nil)
									}
								}
							}
							return true
						})
						return true
					})
				}
			}
		}
	}
	r.OKd(rid, "element-wise encoder loops inspected", "", map[string]any{"stores_in_loops": nLoops, "conditional": len(reported)})
}

// wrapperKeyAlwaysRemoved — R06n. The flatten and discriminated-oneof encoders replace a wrapper key of the protojson form by
// promoted keys. The schema and the TypeScript type describe the promoted form only, so the wrapper key must be deleted
// whenever the field is set: in the emitted MarshalJSON of those units a `delete(<raw map>, "<key>")` may be conditional on
// nil tests and comma-ok tests only, never on the child's content (`len(childRaw) > 0` leaves `"shipping":{}` on the wire).
func wrapperKeyAlwaysRemoved(c *Ctx, rid string) {
	r := c.R
	nDel := 0
	reported := map[string]bool{}
	for _, ri := range c.goUnitRoots() {
		if ri.Suffix != "_flatten.pb.go" && ri.Suffix != "_oneof_discriminator.pb.go" {
			continue
		}
		ex := c.ExploreT(ri.Fn, 6000)
		for _, v := range ex.Variants {
			for _, u := range v.Units {
				fset, f, err := ParseUnit(u)
				if err != nil {
					continue
				}
				gen := func(p token.Pos) string {
					line := fset.Position(p).Line
					if line >= 1 && line <= len(u.Lines) {
						return c.P.Pos(u.Lines[line-1].Pos)
					}
					return ""
				}
				for _, d := range f.Decls {
					fd, ok := d.(*ast.FuncDecl)
					if !ok || fd.Body == nil || fd.Recv == nil || fd.Name.Name != "MarshalJSON" {
						continue
					}
					parents := parentMap(fd.Body)
					ast.Inspect(fd.Body, func(nd ast.Node) bool {
						call, ok := nd.(*ast.CallExpr)
						if !ok || types.ExprString(call.Fun) != "delete" || len(call.Args) != 2 {
							return true
						}
						if _, isLit := call.Args[1].(*ast.BasicLit); !isLit {
							return true // a computed key (the promoted children of a variant), not the wrapper
						}
						nDel++
						for p := parents[ast.Node(call)]; p != nil; p = parents[p] {
							ifs, ok := p.(*ast.IfStmt)
							if !ok || !nodeContains(ifs.Body, call.Pos()) {
								continue
							}
							okCond := true
							ast.Inspect(ifs.Cond, func(q ast.Node) bool {
								switch y := q.(type) {
								case *ast.BinaryExpr:
									if y.Op == token.LAND || y.Op == token.LOR {
										return true
									}
									if !((y.Op == token.NEQ || y.Op == token.EQL) && (isNilIdent(y.X) || isNilIdent(y.Y))) {
										okCond = false
									}
									return false
								case *ast.CallExpr, *ast.UnaryExpr:
									okCond = false
									return false
								}
								return true
							})
							if !okCond {
								k := fmt.Sprintf("%s *%s: the wrapper key is removed whenever the field is set", pkgShort(ri.Pkg), ri.Suffix)
								if !reported[k] {
									reported[k] = true
									r.Bad(rid, k, gen(ifs.Pos()), "the emitted MarshalJSON deletes the wrapper key "+holeFree(types.ExprString(call.Args[1]))+" only under `"+holeFree(types.ExprString(ifs.Cond))+"`: when the condition is false (a set but empty child) the un-promoted wrapper stays on the wire, a property neither the component schema nor the TypeScript type describes", nil)
								}
							}
						}
						return true
					})
				}
			}
		}
	}
	if nDel == 0 {
		r.Unres(rid, "wrapper-key deletions in the flatten / oneof encoders", "", "no delete(raw, \"key\") found")
		return
	}
	r.OKd(rid, "wrapper-key deletions inspected", "", map[string]any{"deletes": nDel, "conditional_on_content": len(reported)})
}

// decodeTargetsPerIteration — R04s. In every emitted UnmarshalJSON: a slice or map variable that json.Unmarshal fills inside
// a loop and whose value is then stored into the message (one wrapper per map key, one element per list entry) must be
// declared inside the loop body. Declared once outside, json.Unmarshal reuses its backing array on every iteration, so all
// stored values alias one array and every entry ends up with the contents of the last one decoded.
func decodeTargetsPerIteration(c *Ctx, rid string) {
	r := c.R
	nTargets := 0
	reported := map[string]bool{}
	for _, ri := range c.goUnitRoots() {
		ex := c.ExploreT(ri.Fn, 6000)
		for _, v := range ex.Variants {
			for _, u := range v.Units {
				fset, f, err := ParseUnit(u)
				if err != nil {
					continue
				}
				gen := func(p token.Pos) string {
					line := fset.Position(p).Line
					if line >= 1 && line <= len(u.Lines) {
						return c.P.Pos(u.Lines[line-1].Pos)
					}
					return ""
				}
				for _, d := range f.Decls {
					fd, ok := d.(*ast.FuncDecl)
					if !ok || fd.Body == nil || fd.Name.Name != "UnmarshalJSON" {
						continue
					}
					// declarations of slice / map typed locals: name -> position
					type decl struct {
						pos token.Pos
					}
					decls := map[string][]decl{}
					ast.Inspect(fd.Body, func(nd ast.Node) bool {
						if ds, ok := nd.(*ast.DeclStmt); ok {
							if gd, ok := ds.Decl.(*ast.GenDecl); ok && gd.Tok == token.VAR {
								for _, sp := range gd.Specs {
									vs := sp.(*ast.ValueSpec)
									isAgg := false
									switch t := vs.Type.(type) {
									case *ast.ArrayType:
										isAgg = t.Len == nil
									case *ast.MapType:
										isAgg = true
									}
									if isAgg {
										for _, nm := range vs.Names {
											decls[nm.Name] = append(decls[nm.Name], decl{nm.Pos()})
										}
									}
								}
							}
						}
						return true
					})
					if len(decls) == 0 {
						continue
					}
					ast.Inspect(fd.Body, func(nd ast.Node) bool {
						var body *ast.BlockStmt
						switch x := nd.(type) {
						case *ast.RangeStmt:
							body = x.Body
						case *ast.ForStmt:
							body = x.Body
						default:
							return true
						}
						ast.Inspect(body, func(m ast.Node) bool {
							call, ok := m.(*ast.CallExpr)
							if !ok || len(call.Args) != 2 {
								return true
							}
							if fun := types.ExprString(call.Fun); fun != "json.Unmarshal" && fun != "protojson.Unmarshal" {
								return true
							}
							ue, ok := ast.Unparen(call.Args[1]).(*ast.UnaryExpr)
							if !ok || ue.Op != token.AND {
								return true
							}
							id, ok := ast.Unparen(ue.X).(*ast.Ident)
							if !ok || len(decls[id.Name]) == 0 {
								return true
							}
							nTargets++
							// the nearest declaration of that name ahead of the call
							var dpos token.Pos
							for _, dd := range decls[id.Name] {
								if dd.pos < call.Pos() && dd.pos > dpos {
									dpos = dd.pos
								}
							}
							if dpos >= body.Pos() && dpos < body.End() {
								return true // declared per iteration
							}
							// is the value stored in this loop (any other mention of the identifier than &v)?
							stored := false
							ast.Inspect(body, func(q ast.Node) bool {
								if q2, ok := q.(*ast.Ident); ok && q2.Name == id.Name && q2 != id {
									stored = true
								}
								return true
							})
							if stored {
								k := fmt.Sprintf("%s *%s: decode target %s is declared per iteration", pkgShort(ri.Pkg), ri.Suffix, holeFree(id.Name))
								if !reported[k] {
									reported[k] = true
									r.Bad(rid, k, gen(call.Pos()), "the emitted UnmarshalJSON declares the slice/map `"+holeFree(id.Name)+"` once, ahead of the loop, decodes every entry into it with "+types.ExprString(call.Fun)+" and stores it per entry: json.Unmarshal reuses the backing array, so all entries share one array and read back as the last entry decoded", nil)
								}
							}
							return true
						})
						return true
					})
				}
			}
		}
	}
	r.OKd(rid, "aggregate decode targets filled inside loops inspected", "", map[string]any{"targets_in_loops": nTargets, "declared_outside_and_stored": len(reported)})
}

// codecPairShape — R04t / R11k over every emitted Go unit variant.
// R04t (ridSym): per receiver type, MarshalJSON consults a nested value's own codec (a type assertion to json.Marshaler)
// exactly when UnmarshalJSON consults the nested value's own decoder (json.Unmarshaler): an encoder that writes the
// element's annotated form while the decoder reads it with plain protojson cannot read back what it wrote.
// R11k (ridRec): a method never hands its own receiver to the encoding/json entry point that calls that very method
// (json.Unmarshal(data, x) inside x's UnmarshalJSON, json.Marshal(x) inside x's MarshalJSON): unbounded recursion, which
// ends the process with a stack overflow that net/http cannot recover.
func codecPairShape(c *Ctx, ridSym, ridRec string) {
	r := c.R
	nPairs, nFuncs := 0, 0
	reported := map[string]bool{}
	for _, ri := range c.goUnitRoots() {
		ex := c.ExploreT(ri.Fn, 6000)
		for _, v := range ex.Variants {
			for _, u := range v.Units {
				fset, f, err := ParseUnit(u)
				if err != nil {
					continue
				}
				gen := func(p token.Pos) string {
					line := fset.Position(p).Line
					if line >= 1 && line <= len(u.Lines) {
						return c.P.Pos(u.Lines[line-1].Pos)
					}
					return ""
				}
				type pair struct{ enc, dec *ast.FuncDecl }
				pairs := map[string]*pair{}
				for _, d := range f.Decls {
					fd, ok := d.(*ast.FuncDecl)
					if !ok || fd.Body == nil || fd.Recv == nil || len(fd.Recv.List) == 0 {
						continue
					}
					rt := types.ExprString(fd.Recv.List[0].Type)
					if pairs[rt] == nil {
						pairs[rt] = &pair{}
					}
					switch fd.Name.Name {
					case "MarshalJSON":
						pairs[rt].enc = fd
					case "UnmarshalJSON":
						pairs[rt].dec = fd
					default:
						continue
					}
					nFuncs++
					if ridRec != "" && len(fd.Recv.List[0].Names) == 1 {
						recv := fd.Recv.List[0].Names[0].Name
						entry := map[string]string{"MarshalJSON": "json.Marshal", "UnmarshalJSON": "json.Unmarshal"}[fd.Name.Name]
						ast.Inspect(fd.Body, func(n ast.Node) bool {
							call, ok := n.(*ast.CallExpr)
							if !ok || types.ExprString(call.Fun) != entry || len(call.Args) == 0 {
								return true
							}
							arg := ast.Unparen(call.Args[len(call.Args)-1])
							if ue, ok := arg.(*ast.UnaryExpr); ok && ue.Op == token.AND {
								arg = ast.Unparen(ue.X)
							}
							if id, ok := arg.(*ast.Ident); ok && id.Name == recv {
								k := fmt.Sprintf("%s *%s: %s does not hand its receiver back to %s", pkgShort(ri.Pkg), ri.Suffix, fd.Name.Name, entry)
								if !reported[k] {
									reported[k] = true
									r.Bad(ridRec, k, gen(call.Pos()), "the emitted "+fd.Name.Name+" calls "+entry+" on its own receiver: encoding/json calls this method again, without bound; the goroutine's stack overflows and the whole server process dies instead of answering 400", nil)
								}
							}
							return true
						})
					}
				}
				if ridSym == "" {
					continue
				}
				mentions := func(fd *ast.FuncDecl, iface string) bool {
					hit := false
					ast.Inspect(fd.Body, func(n ast.Node) bool {
						if ta, ok := n.(*ast.TypeAssertExpr); ok && ta.Type != nil && types.ExprString(ta.Type) == iface {
							hit = true
						}
						return !hit
					})
					return hit
				}
				// the flatten and discriminated-oneof units emit the consultation per field / per variant kind, and an explored
				// variant may combine an encoder arm for one field list with a decoder arm for another: their symmetry is
				// decided key by key on the concrete corpus (R04d); here the units that must not consult at all, or both ways
				if ri.Suffix == "_flatten.pb.go" || ri.Suffix == "_oneof_discriminator.pb.go" {
					continue
				}
				for rt, p := range pairs {
					if p.enc == nil || p.dec == nil {
						continue
					}
					nPairs++
					e, d := mentions(p.enc, "json.Marshaler"), mentions(p.dec, "json.Unmarshaler")
					if e != d {
						k := fmt.Sprintf("%s *%s: encoder and decoder of %s agree on consulting a nested value's own codec", pkgShort(ri.Pkg), ri.Suffix, holeFree(rt))
						if !reported[k] {
							reported[k] = true
							r.Bad(ridSym, k, gen(p.enc.Pos()), fmt.Sprintf("the emitted MarshalJSON of %s %s a nested value's own MarshalJSON (json.Marshaler) while its UnmarshalJSON %s the nested value's own UnmarshalJSON: an element with its own codec (timestamp_format, bytes_encoding=HEX …) is written in its annotated form and read back with plain protojson — the decode fails or silently yields other bytes", holeFree(rt), map[bool]string{true: "consults", false: "does not consult"}[e], map[bool]string{true: "consults", false: "does not consult"}[d]), nil)
						}
					}
				}
			}
		}
	}
	if ridSym != "" {
		r.OKd(ridSym, "encoder/decoder pairs of emitted codecs compared", "", map[string]any{"pairs": nPairs, "asymmetric": len(reported)})
	}
	if ridRec != "" {
		r.OKd(ridRec, "emitted MarshalJSON/UnmarshalJSON methods inspected for self-recursion through encoding/json", "", map[string]any{"methods": nFuncs})
	}
}

// codecsKeepNoState — R04u. The JSON form of a message is a function of the message alone: a codec unit declares no
// package-level pool or cache (sync.Pool, sync.Map). A scratch map taken from a pool and handed back uncleared carries the
// keys of the previous message into the next encode (json.Unmarshal into a non-nil map keeps existing keys), so what is
// decoded is not what was encoded.
func codecsKeepNoState(c *Ctx, rid string) {
	r := c.R
	nVars := 0
	reported := map[string]bool{}
	for _, ri := range c.goUnitRoots() {
		if strings.HasSuffix(ri.Suffix, "_client.pb.go") || strings.Contains(ri.Suffix, "_http") {
			continue // the client and the server runtime are C17's subject; here the codec units
		}
		ex := c.ExploreT(ri.Fn, 6000)
		for _, v := range ex.Variants {
			for _, u := range v.Units {
				fset, f, err := ParseUnit(u)
				if err != nil {
					continue
				}
				for _, d := range f.Decls {
					gd, ok := d.(*ast.GenDecl)
					if !ok || gd.Tok != token.VAR {
						continue
					}
					for _, sp := range gd.Specs {
						vs := sp.(*ast.ValueSpec)
						nVars += len(vs.Names)
						txt := ""
						if vs.Type != nil {
							txt += types.ExprString(vs.Type)
						}
						for _, val := range vs.Values {
							txt += " " + types.ExprString(val)
						}
						for _, kind := range []string{"sync.Pool", "sync.Map"} {
							if strings.Contains(txt, kind) {
								k := fmt.Sprintf("%s *%s: no package-level %s", pkgShort(ri.Pkg), ri.Suffix, kind)
								if !reported[k] {
									reported[k] = true
									pos := ""
									if line := fset.Position(vs.Pos()).Line; line >= 1 && line <= len(u.Lines) {
										pos = c.P.Pos(u.Lines[line-1].Pos)
									}
									r.Bad(rid, k, pos, "the emitted codec unit keeps a package-level "+kind+" ("+holeFree(vs.Names[0].Name)+"): scratch state that survives from one encode or decode to the next — keys a previous message left in a pooled map are written into the next message's JSON", nil)
								}
							}
						}
					}
				}
			}
		}
	}
	r.OKd(rid, "package-level variables of the emitted codec units inspected", "", map[string]any{"variables": nVars, "pools_or_caches": len(reported)})
}

// scratchMapsPerChild — R04v / R05q. In an emitted codec function, a local map that is filled and then serialised
// (json.Marshal(m)) for one child must not be serialised again for the next child without having been re-made or cleared:
// a scratch map declared once for the whole function still holds the first child's keys when the second child is decoded
// from it, so the second child receives members the body never contained (or the decode fails on a key it does not know).
func scratchMapsPerChild(c *Ctx, rid string) {
	r := c.R
	nMaps := 0
	reported := map[string]bool{}
	for _, ri := range c.goUnitRoots() {
		ex := c.ExploreT(ri.Fn, 6000)
		for _, v := range ex.Variants {
			for _, u := range v.Units {
				fset, f, err := ParseUnit(u)
				if err != nil {
					continue
				}
				for _, d := range f.Decls {
					fd, ok := d.(*ast.FuncDecl)
					if !ok || fd.Body == nil {
						continue
					}
					// local maps: name -> number of definitions, reassignments / clears, Marshal uses
					type info struct {
						defs, resets, marshals, stores int
						pos                            token.Pos
					}
					maps := map[string]*info{}
					isMapExpr := func(e ast.Expr) bool {
						switch x := ast.Unparen(e).(type) {
						case *ast.CompositeLit:
							_, ok := x.Type.(*ast.MapType)
							return ok
						case *ast.CallExpr:
							if id, ok := x.Fun.(*ast.Ident); ok && id.Name == "make" && len(x.Args) >= 1 {
								_, ok := x.Args[0].(*ast.MapType)
								return ok
							}
						}
						return false
					}
					ast.Inspect(fd.Body, func(n ast.Node) bool {
						switch x := n.(type) {
						case *ast.AssignStmt:
							for i, l := range x.Lhs {
								if id, ok := l.(*ast.Ident); ok && i < len(x.Rhs) && isMapExpr(x.Rhs[i]) {
									if maps[id.Name] == nil {
										maps[id.Name] = &info{}
									}
									if x.Tok == token.DEFINE {
										maps[id.Name].defs++
									} else {
										maps[id.Name].resets++
									}
								}
								if ix, ok := l.(*ast.IndexExpr); ok {
									if id, ok := ast.Unparen(ix.X).(*ast.Ident); ok && maps[id.Name] != nil {
										maps[id.Name].stores++
									}
								}
							}
						case *ast.CallExpr:
							fun := types.ExprString(x.Fun)
							if len(x.Args) == 1 {
								if id, ok := ast.Unparen(x.Args[0]).(*ast.Ident); ok && maps[id.Name] != nil {
									switch fun {
									case "json.Marshal":
										maps[id.Name].marshals++
										if maps[id.Name].pos == token.NoPos {
											maps[id.Name].pos = x.Pos()
										}
									case "clear":
										maps[id.Name].resets++
									}
								}
							}
						}
						return true
					})
					for name, m := range maps {
						if m.stores == 0 || m.marshals == 0 {
							continue
						}
						nMaps++
						if m.defs == 1 && m.resets == 0 && m.marshals >= 2 {
							k := fmt.Sprintf("%s *%s %s: scratch map %s is fresh for every child it is serialised for", pkgShort(ri.Pkg), ri.Suffix, fd.Name.Name, holeFree(name))
							if !reported[k] {
								reported[k] = true
								pos := ""
								if line := fset.Position(m.pos).Line; line >= 1 && line <= len(u.Lines) {
									pos = c.P.Pos(u.Lines[line-1].Pos)
								}
								r.Bad(rid, k, pos, fmt.Sprintf("the emitted %s makes the map %s once and serialises it %d times (once per child) without re-making or clearing it in between: the keys collected for an earlier child are still in it when a later child is decoded from it", fd.Name.Name, holeFree(name), m.marshals), nil)
							}
						}
					}
				}
			}
		}
	}
	r.OKd(rid, "scratch maps of emitted codec functions inspected", "", map[string]any{"scratch_maps": nMaps, "reused_across_children": len(reported)})
}
