package main

// c12scen.go — R12g: message-level validators decide documented rule instances
// (concrete scenarios interpreted by the walker; see cdesc.go).

import (
	"fmt"
	"go/ast"
	"go/types"
	"strings"
)

func inspectCalls(decl *ast.FuncDecl, info *types.Info, f func(*types.Func)) {
	ast.Inspect(decl.Body, func(n ast.Node) bool {
		if call, ok := n.(*ast.CallExpr); ok {
			if cal := Callee(info, call); cal != nil {
				f(cal)
			}
		}
		return true
	})
}

type c12Scenario struct {
	Rule   string // documented rule instance
	Pkg    string
	Fn     string
	Args   func() map[string]Val
	Reject bool
}

func fld(name, kind string) *cField { return &cField{Name: name, Kind: kind} }

func (f *cField) list() *cField          { f.List = true; return f }
func (f *cField) mapf() *cField          { f.Map = true; f.List = false; return f }
func (f *cField) msg(m *VStruct) *cField { f.Kind = "message"; f.Msg = m; return f }
func (f *cField) ann(k string, v Val) *cField {
	if f.Ann == nil {
		f.Ann = map[string]Val{}
	}
	f.Ann["@"+k] = v
	return f
}

func c12ScenarioTable() []c12Scenario {
	tru := VBool{B: true}
	methodArgs := func(path, verb string, cfgAbsent bool, qps [][2]string, fields ...*cField) func() map[string]Val {
		return func() map[string]Val {
			in := cMessage("Req", fields...)
			in.Fields["@GetQueryParams"] = cQueryParams(qps...)
			var cfg Val = cHTTPConfig(path, verb)
			if cfgAbsent {
				cfg = VNil{}
			}
			m := cMethod("Get", in, cMessage("Resp"), map[string]Val{"@GetMethodHTTPConfig": cfg})
			return map[string]Val{"service": cService("Svc", m), "method": m}
		}
	}
	var out []c12Scenario
	add := func(rule, pkg, fn string, reject bool, args func() map[string]Val) {
		out = append(out, c12Scenario{rule, pkg, fn, args, reject})
	}
	H := pkgHTTP
	add("path variable bound to a string field, all fields carried (GET)", H, "ValidateMethodConfig", false,
		methodArgs("/x/{zid}", "GET", false, [][2]string{{"q", "q"}}, fld("zid", "string"), fld("q", "string")))
	add("path variable without a matching field", H, "ValidateMethodConfig", true,
		methodArgs("/x/{nope}", "POST", false, nil, fld("zid", "string")))
	add("path variable spelled as the JSON name of a field whose proto name differs (POST)", H, "ValidateMethodConfig", true,
		methodArgs("/x/{userId}", "POST", false, nil, fld("user_id", "string")))
	add("path variable spelled as the JSON name of a field that is carried by the query (GET)", H, "ValidateMethodConfig", true,
		methodArgs("/x/{userId}", "GET", false, [][2]string{{"user_id", "uid"}}, fld("user_id", "string")))
	add("path variable spelled as the proto name of a multi-word field (PUT)", H, "ValidateMethodConfig", false,
		methodArgs("/x/{user_id}", "PUT", false, nil, fld("user_id", "string")))
	add("path variable bound to a message field", H, "ValidateMethodConfig", true,
		methodArgs("/x/{zid}", "POST", false, nil, fld("zid", "message").msg(cMessage("Inner"))))
	add("path variable bound to a repeated field", H, "ValidateMethodConfig", true,
		methodArgs("/x/{zid}", "POST", false, nil, fld("zid", "string").list()))
	add("path variable bound to an int64 field", H, "ValidateMethodConfig", false,
		methodArgs("/x/{zid}", "POST", false, nil, fld("zid", "int64")))
	add("field bound to both a path variable and a query parameter (parameter named differently)", H, "ValidateMethodConfig", true,
		methodArgs("/x/{zid}", "GET", false, [][2]string{{"zid", "q"}}, fld("zid", "string")))
	add("query parameter named like a path variable but bound to another field", H, "ValidateMethodConfig", false,
		methodArgs("/x/{zid}", "GET", false, [][2]string{{"other", "zid"}}, fld("zid", "string"), fld("other", "string")))
	add("GET with a field bound to neither path nor query", H, "ValidateMethodConfig", true,
		methodArgs("/x/{zid}", "GET", false, nil, fld("zid", "string"), fld("extra", "string")))
	add("DELETE with a field bound to neither path nor query", H, "ValidateMethodConfig", true,
		methodArgs("/x/{zid}", "DELETE", false, nil, fld("zid", "string"), fld("extra", "string")))
	add("POST with fields carried by the body", H, "ValidateMethodConfig", false,
		methodArgs("/x/{zid}", "POST", false, nil, fld("zid", "string"), fld("extra", "string")))
	add("verb unset (POST) with fields carried by the body", H, "ValidateMethodConfig", false,
		methodArgs("/x", "", false, nil, fld("extra", "string")))
	add("RPC without (sebuf.http.config)", H, "ValidateMethodConfig", false,
		methodArgs("", "", true, nil, fld("extra", "string")))

	// ValidateService: a service is refused when ANY of its methods breaks a rule, wherever the method stands
	svcArgs := func(badAt, n int) func() map[string]Val {
		return func() map[string]Val {
			var ms []*VStruct
			for i := 0; i < n; i++ {
				in := cMessage(fmt.Sprintf("Req%d", i), fld("zid", "string"))
				in.Fields["@GetQueryParams"] = cQueryParams()
				path := "/x/{zid}"
				if i == badAt {
					path = "/x/{nope}" // no field of that name
				}
				ms = append(ms, cMethod(fmt.Sprintf("M%d", i), in, cMessage("Resp"), map[string]Val{"@GetMethodHTTPConfig": cHTTPConfig(path, "POST")}))
			}
			return map[string]Val{"service": cService("Svc", ms...)}
		}
	}
	add("service whose only method has a path variable without a field", H, "ValidateService", true, svcArgs(0, 1))
	add("service of three methods, the FIRST has a path variable without a field", H, "ValidateService", true, svcArgs(0, 3))
	add("service of three methods, the SECOND has a path variable without a field", H, "ValidateService", true, svcArgs(1, 3))
	add("service of three methods, the LAST has a path variable without a field", H, "ValidateService", true, svcArgs(2, 3))
	add("service of three valid methods", H, "ValidateService", false, svcArgs(-1, 3))

	A := "internal/annotations"
	discArgs := func(build func(m *VStruct) (*VStruct, []*cField), fields ...*cField) func() map[string]Val {
		return func() map[string]Val {
			m := cMessage("Event", fields...)
			o, _ := build(m)
			return map[string]Val{"message": m, "oneof": o, "discriminator": constStr("kind")}
		}
	}
	add("discriminator equal to the JSON name of a plain field", A, "validateDiscriminatorNameCollision", true, func() map[string]Val {
		a, b, k := fld("text", "string"), fld("image", "string"), fld("kind", "string")
		m := cMessage("Event", k, a, b)
		o := cOneof(m, "content", a, b)
		return map[string]Val{"message": m, "oneof": o, "discriminator": constStr("kind")}
	})
	add("discriminator equal to the JSON name of a member of ANOTHER oneof", A, "validateDiscriminatorNameCollision", true, func() map[string]Val {
		a, b, k, z := fld("text", "string"), fld("image", "string"), fld("kind", "string"), fld("zed", "string")
		m := cMessage("Event", k, z, a, b)
		cOneof(m, "other", k, z)
		o := cOneof(m, "content", a, b)
		return map[string]Val{"message": m, "oneof": o, "discriminator": constStr("kind")}
	})
	add("discriminator distinct from every field", A, "validateDiscriminatorNameCollision", false, func() map[string]Val {
		a, b, k := fld("text", "string"), fld("image", "string"), fld("id", "string")
		m := cMessage("Event", k, a, b)
		o := cOneof(m, "content", a, b)
		return map[string]Val{"message": m, "oneof": o, "discriminator": constStr("kind")}
	})
	_ = discArgs
	add("discriminator equal to the JSON name of a proto3 optional field (synthetic oneof)", A, "validateDiscriminatorNameCollision", true, func() map[string]Val {
		a, b, k := fld("text", "string"), fld("image", "string"), fld("kind", "string")
		k.Opt = true
		m := cMessage("Event", k, a, b)
		so := cOneof(m, "_kind", k)
		so.Fields["Desc"].(*VStruct).Fields["IsSynthetic()"] = VBool{B: true}
		o := cOneof(m, "content", a, b)
		return map[string]Val{"message": m, "oneof": o, "discriminator": constStr("kind")}
	})
	add("a member of ANOTHER oneof and a proto3 optional field, neither named like the discriminator", A, "validateDiscriminatorNameCollision", false, func() map[string]Val {
		a, b, k, z := fld("text", "string"), fld("image", "string"), fld("label", "string"), fld("zed", "string")
		k.Opt = true
		m := cMessage("Event", k, z, a, b)
		so := cOneof(m, "_label", k)
		so.Fields["Desc"].(*VStruct).Fields["IsSynthetic()"] = VBool{B: true}
		cOneof(m, "other", z)
		o := cOneof(m, "content", a, b)
		return map[string]Val{"message": m, "oneof": o, "discriminator": constStr("kind")}
	})
	add("flattened oneof with a scalar variant", A, "validateOneofFlatten", true, func() map[string]Val {
		a, b := fld("text", "message").msg(cMessage("T", fld("body", "string"))), fld("count", "int32")
		m := cMessage("Event", fld("id", "string"), a, b)
		o := cOneof(m, "content", a, b)
		return map[string]Val{"message": m, "oneof": o, "discriminator": constStr("kind")}
	})
	add("flattened oneof whose variant child collides with a parent field", A, "validateOneofFlatten", true, func() map[string]Val {
		a := fld("text", "message").msg(cMessage("T", fld("id", "string")))
		m := cMessage("Event", fld("id", "string"), a)
		o := cOneof(m, "content", a)
		return map[string]Val{"message": m, "oneof": o, "discriminator": constStr("kind")}
	})
	add("flattened oneof whose variant child collides with a proto3 optional parent field (synthetic oneof)", A, "validateOneofFlatten", true, func() map[string]Val {
		a := fld("text", "message").msg(cMessage("T", fld("note", "string")))
		k := fld("note", "string")
		k.Opt = true
		m := cMessage("Event", fld("id", "string"), k, a)
		so := cOneof(m, "_note", k)
		so.Fields["Desc"].(*VStruct).Fields["IsSynthetic()"] = VBool{B: true}
		o := cOneof(m, "content", a)
		return map[string]Val{"message": m, "oneof": o, "discriminator": constStr("kind")}
	})
	add("flattened oneof whose variant child collides with a member of ANOTHER oneof", A, "validateOneofFlatten", true, func() map[string]Val {
		a := fld("text", "message").msg(cMessage("T", fld("zed", "string")))
		z := fld("zed", "string")
		m := cMessage("Event", fld("id", "string"), z, a)
		cOneof(m, "other", z)
		o := cOneof(m, "content", a)
		return map[string]Val{"message": m, "oneof": o, "discriminator": constStr("kind")}
	})
	add("flattened oneof beside another oneof and an optional field, no name shared", A, "validateOneofFlatten", false, func() map[string]Val {
		a := fld("text", "message").msg(cMessage("T", fld("body", "string")))
		z, k := fld("zed", "string"), fld("note", "string")
		k.Opt = true
		m := cMessage("Event", fld("id", "string"), z, k, a)
		cOneof(m, "other", z)
		so := cOneof(m, "_note", k)
		so.Fields["Desc"].(*VStruct).Fields["IsSynthetic()"] = VBool{B: true}
		o := cOneof(m, "content", a)
		return map[string]Val{"message": m, "oneof": o, "discriminator": constStr("kind")}
	})
	add("flattened oneof whose variant child collides with the discriminator", A, "validateOneofFlatten", true, func() map[string]Val {
		a := fld("text", "message").msg(cMessage("T", fld("kind", "string")))
		m := cMessage("Event", fld("id", "string"), a)
		o := cOneof(m, "content", a)
		return map[string]Val{"message": m, "oneof": o, "discriminator": constStr("kind")}
	})
	add("flattened oneof with message variants sharing child names among themselves only", A, "validateOneofFlatten", false, func() map[string]Val {
		a := fld("text", "message").msg(cMessage("T", fld("body", "string")))
		b := fld("image", "message").msg(cMessage("I", fld("body", "string")))
		m := cMessage("Event", fld("id", "string"), a, b)
		o := cOneof(m, "content", a, b)
		return map[string]Val{"message": m, "oneof": o, "discriminator": constStr("kind")}
	})
	add("flattened child colliding with a parent field", A, "ValidateFlattenCollisions", true, func() map[string]Val {
		m := cMessage("User", fld("street", "string"), fld("addr", "message").msg(cMessage("Addr", fld("street", "string"))).ann("IsFlattenField", tru))
		return map[string]Val{"message": m}
	})
	add("two flattened fields without prefix sharing a child name", A, "ValidateFlattenCollisions", true, func() map[string]Val {
		m := cMessage("User", fld("home", "message").msg(cMessage("Addr", fld("street", "string"))).ann("IsFlattenField", tru),
			fld("work", "message").msg(cMessage("Addr2", fld("street", "string"))).ann("IsFlattenField", tru))
		return map[string]Val{"message": m}
	})
	add("two flattened fields with distinct prefixes sharing a child name", A, "ValidateFlattenCollisions", false, func() map[string]Val {
		m := cMessage("User", fld("home", "message").msg(cMessage("Addr", fld("street", "string"))).ann("IsFlattenField", tru).ann("GetFlattenPrefix", constStr("home_")),
			fld("work", "message").msg(cMessage("Addr2", fld("street", "string"))).ann("IsFlattenField", tru).ann("GetFlattenPrefix", constStr("work_")))
		return map[string]Val{"message": m}
	})
	add("flattened child colliding with a parent field declared AFTER the flattened field", A, "ValidateFlattenCollisions", true, func() map[string]Val {
		m := cMessage("Order", fld("shipping", "message").msg(cMessage("Addr", fld("city", "string"))).ann("IsFlattenField", tru), fld("city", "string"))
		return map[string]Val{"message": m}
	})
	add("flattened child colliding with a parent field between two flattened fields", A, "ValidateFlattenCollisions", true, func() map[string]Val {
		m := cMessage("Order", fld("shipping", "message").msg(cMessage("Addr", fld("zip", "string"))).ann("IsFlattenField", tru), fld("city", "string"),
			fld("billing", "message").msg(cMessage("Addr2", fld("city", "string"))).ann("IsFlattenField", tru))
		return map[string]Val{"message": m}
	})
	add("two flattened fields with the same prefix sharing a child name", A, "ValidateFlattenCollisions", true, func() map[string]Val {
		m := cMessage("User", fld("home", "message").msg(cMessage("Addr", fld("street", "string"))).ann("IsFlattenField", tru).ann("GetFlattenPrefix", constStr("a_")),
			fld("work", "message").msg(cMessage("Addr2", fld("street", "string"))).ann("IsFlattenField", tru).ann("GetFlattenPrefix", constStr("a_")))
		return map[string]Val{"message": m}
	})
	add("prefixed and unprefixed flattened fields sharing a child name", A, "ValidateFlattenCollisions", false, func() map[string]Val {
		m := cMessage("User", fld("home", "message").msg(cMessage("Addr", fld("street", "string"))).ann("IsFlattenField", tru).ann("GetFlattenPrefix", constStr("home_")),
			fld("work", "message").msg(cMessage("Addr2", fld("street", "string"))).ann("IsFlattenField", tru))
		return map[string]Val{"message": m}
	})
	add("unprefixed and prefixed flattened fields sharing a child name (other order)", A, "ValidateFlattenCollisions", false, func() map[string]Val {
		m := cMessage("User", fld("work", "message").msg(cMessage("Addr2", fld("street", "string"))).ann("IsFlattenField", tru),
			fld("home", "message").msg(cMessage("Addr", fld("street", "string"))).ann("IsFlattenField", tru).ann("GetFlattenPrefix", constStr("home_")))
		return map[string]Val{"message": m}
	})
	add("prefix + child of one flattened field equals an unprefixed child of another", A, "ValidateFlattenCollisions", true, func() map[string]Val {
		c1 := cMessage("Addr", fld("street", "string"))
		c2 := cMessage("Addr2", fld("h_street", "string"))
		c2.Fields["Fields"].(VList).Elems[0].(*VStruct).Fields["Desc"].(*VStruct).Fields["JSONName()"] = constStr("h_street")
		m := cMessage("User", fld("home", "message").msg(c1).ann("IsFlattenField", tru).ann("GetFlattenPrefix", constStr("h_")),
			fld("work", "message").msg(c2).ann("IsFlattenField", tru))
		return map[string]Val{"message": m}
	})
	add("prefix makes a flattened child collide with a parent field", A, "ValidateFlattenCollisions", true, func() map[string]Val {
		m := cMessage("User", fld("home_street", "string"), fld("home", "message").msg(cMessage("Addr", fld("street", "string"))).ann("IsFlattenField", tru).ann("GetFlattenPrefix", constStr("home_")))
		m.Fields["Fields"].(VList).Elems[0].(*VStruct).Fields["Desc"].(*VStruct).Fields["JSONName()"] = constStr("home_street")
		return map[string]Val{"message": m}
	})
	add("message without flatten fields", A, "ValidateFlattenCollisions", false, func() map[string]Val {
		return map[string]Val{"message": cMessage("User", fld("a", "string"), fld("b", "string"))}
	})
	add("unwrap on a singular field", A, "GetUnwrapField", true, func() map[string]Val {
		return map[string]Val{"message": cMessage("L", fld("items", "string").ann("HasUnwrapAnnotation", tru))}
	})
	add("unwrap on two fields of one message", A, "GetUnwrapField", true, func() map[string]Val {
		return map[string]Val{"message": cMessage("L", fld("a", "string").list().ann("HasUnwrapAnnotation", tru), fld("b", "string").list().ann("HasUnwrapAnnotation", tru))}
	})
	add("map unwrap beside another field", A, "GetUnwrapField", true, func() map[string]Val {
		return map[string]Val{"message": cMessage("L", fld("m", "message").mapf().ann("HasUnwrapAnnotation", tru), fld("other", "string"))}
	})
	add("repeated unwrap beside other fields", A, "GetUnwrapField", false, func() map[string]Val {
		return map[string]Val{"message": cMessage("L", fld("items", "string").list().ann("HasUnwrapAnnotation", tru), fld("other", "string"))}
	})
	add("root map unwrap (single field)", A, "GetUnwrapField", false, func() map[string]Val {
		return map[string]Val{"message": cMessage("L", fld("m", "message").mapf().ann("HasUnwrapAnnotation", tru))}
	})
	add("message without unwrap", A, "GetUnwrapField", false, func() map[string]Val {
		return map[string]Val{"message": cMessage("L", fld("items", "string").list())}
	})
	// every explicitly written value of a value-carrying field annotation on a field of the wrong type (the enum's
	// default-meaning members included: `timestamp_format = RFC3339` on a string is as misplaced as UNIX_SECONDS)
	A = "internal/annotations"
	ts := func() *VStruct {
		m := cMessage("Timestamp")
		m.Fields["Desc"].(*VStruct).Fields["FullName()"] = constStr("google.protobuf.Timestamp")
		return m
	}
	for _, va := range []struct {
		fn, acc, what string
		vals          []string
		wrong, right  func() *cField
	}{
		{"ValidateTimestampFormatAnnotation", "GetTimestampFormat", "timestamp_format", []string{"RFC3339", "UNIX_SECONDS", "UNIX_MILLIS", "DATE"},
			func() *cField { return fld("ts", "string") }, func() *cField { return fld("ts", "message").msg(ts()) }},
		{"ValidateBytesEncodingAnnotation", "GetBytesEncoding", "bytes_encoding", []string{"BASE64", "BASE64_RAW", "BASE64URL", "BASE64URL_RAW", "HEX"},
			func() *cField { return fld("b", "string") }, func() *cField { return fld("b", "bytes") }},
		{"ValidateEmptyBehaviorAnnotation", "GetEmptyBehavior", "empty_behavior", []string{"PRESERVE", "NULL", "OMIT"},
			func() *cField { return fld("e", "int32") }, func() *cField { return fld("e", "message").msg(cMessage("Inner")) }},
	} {
		va := va
		for i, name := range va.vals {
			n := int64(i + 1)
			name := name
			add(va.what+" = "+name+" on a field of the wrong type", A, va.fn, true, func() map[string]Val {
				return map[string]Val{"field": va.wrong().ann(va.acc, VInt{N: n, Label: name}).val(), "messageName": constStr("Req")}
			})
			add(va.what+" = "+name+" on a field of the right type", A, va.fn, false, func() map[string]Val {
				return map[string]Val{"field": va.right().ann(va.acc, VInt{N: n, Label: name}).val(), "messageName": constStr("Req")}
			})
		}
		add(va.what+" absent on any field", A, va.fn, false, func() map[string]Val {
			return map[string]Val{"field": va.wrong().val(), "messageName": constStr("Req")}
		})
	}
	// TS server
	T := pkgTSServer
	add("TS server: path variable without a matching field", T, "resolvePathParamFields", true, func() map[string]Val {
		m := cMethod("Get", cMessage("Req", fld("zid", "string")), cMessage("Resp"), nil)
		return map[string]Val{"pathParams": VList{Key: "pp", Elems: []Val{constStr("nope")}}, "method": m}
	})
	add("TS server: path variable with a matching field", T, "resolvePathParamFields", false, func() map[string]Val {
		m := cMethod("Get", cMessage("Req", fld("zid", "string")), cMessage("Resp"), nil)
		return map[string]Val{"pathParams": VList{Key: "pp", Elems: []Val{constStr("zid")}}, "method": m}
	})
	cov := func(hasBody bool, pp []string, qps [][2]string, fields ...*cField) func() map[string]Val {
		return func() map[string]Val {
			pl := VList{Key: "pp", Elems: []Val{}}
			for _, p := range pp {
				pl.Elems = append(pl.Elems, constStr(p))
			}
			cfg := cstruct("rpcRouteConfig", map[string]Val{"hasBody": VBool{B: hasBody}, "pathParams": pl, "queryParams": cQueryParams(qps...), "httpMethod": constStr("GET"), "fullPath": constStr("/x")})
			m := cMethod("Get", cMessage("Req", fields...), cMessage("Resp"), nil)
			return map[string]Val{"cfg": cfg, "method": m}
		}
	}
	add("TS server: bodiless verb with an unbound field", T, "validateFieldCoverage", true, cov(false, []string{"zid"}, nil, fld("zid", "string"), fld("extra", "string")))
	add("TS server: bodiless verb with every field bound", T, "validateFieldCoverage", false, cov(false, []string{"zid"}, [][2]string{{"q", "q"}}, fld("zid", "string"), fld("q", "string")))
	add("TS server: body verb with unbound fields", T, "validateFieldCoverage", false, cov(true, nil, nil, fld("extra", "string")))
	return out
}

func c12Scenarios(c *Ctx) {
	c.R.Rule("R12g", "message-level validators give the documented verdict on concrete rule instances (interpreted, not executed)", 30)
	c12ScenariosRule(c, "R12g", nil)
}

// c12ScenariosRule runs the scenario table (or the part selected by only) under the given rule id.
func c12ScenariosRule(c *Ctx, rid string, only func(fn, rule string) bool) {
	r := c.R
	prevConcrete := c.W.Concrete
	c.W.Concrete = true
	defer func() { c.W.Concrete = prevConcrete }()
	for _, sc := range c12ScenarioTable() {
		if only != nil && !only(sc.Fn, sc.Rule) {
			continue
		}
		fn := c.P.Func(sc.Pkg, sc.Fn)
		key := fmt.Sprintf("%s: %s → %s", sc.Fn, sc.Rule, map[bool]string{true: "refused", false: "accepted"}[sc.Reject])
		if fn == nil {
			r.Unres(rid, key, "", sc.Pkg+"."+sc.Fn+" not found")
			continue
		}
		pos := c.P.Pos(c.P.Decls[fn].Pos())
		run := c.W.NewRun(map[string]int{}, false)
		run.InlineAll = true
		run.FollowSlices = true
		run.CallHook = c.cdescHook
		run.StartArgs(fn, sc.Args())
		if len(run.Used) > 0 || len(run.Problems) > 0 {
			var free []string
			for _, u := range run.Used {
				free = append(free, u.Key)
			}
			r.Undec(rid, key, pos, fmt.Sprintf("the validator's evaluation on the concrete scenario left decisions open %v (problems %v): the scenario model does not cover a construct the validator now uses", free, run.Problems))
			continue
		}
		verdict := "?"
		res := run.Result
		if tup, ok := res.(VTuple); ok && len(tup) > 0 {
			res = tup[len(tup)-1]
		}
		switch x := res.(type) {
		case VNil:
			verdict = "accepted"
		case *VStruct:
			verdict = "refused"
		case VList:
			if x.Elems != nil {
				verdict = "accepted"
				if len(x.Elems) > 0 {
					verdict = "refused"
				}
			}
		}
		if verdict == "?" && res == nil {
			r.Undec(rid, key, pos, "the validator's evaluation on the concrete scenario produced no result (aborted at "+run.Aborted+")")
			continue
		}
		if verdict == "?" {
			r.Undec(rid, key, pos, fmt.Sprintf("the validator's result on the concrete scenario is not a concrete value (%T %s)", res, res.key()))
			continue
		}
		want := map[bool]string{true: "refused", false: "accepted"}[sc.Reject]
		msg := fmt.Sprintf("%s %s a definition with: %s — the documented rule says it must be %s", sc.Fn, map[string]string{"accepted": "accepts", "refused": "refuses"}[verdict], sc.Rule, want)
		if !sc.Reject {
			msg += " (a valid definition is refused)"
		} else {
			msg += " (the offending definition passes generation and produces broken or misleading output)"
		}
		r.Check(verdict == want, rid, key, pos, msg)
	}
	_ = strings.Join
	if only == nil {
		c.W.Concrete = false
		c12MethodConfigGrid(c)
	}
}

// c12MethodConfigGrid: ValidateMethodConfig against the documented rules over a small
// exhaustive grid: request fields {a, b}; each field is carried by the path, by the query, by both, or
// by neither; field a is a string or a message; five verbs plus unset. The expected verdict is computed
// from the documented rules, not from the code.
func c12MethodConfigGrid(c *Ctx) {
	r := c.R
	fn := c.P.Func(pkgHTTP, "ValidateMethodConfig")
	if fn == nil {
		return
	}
	pos := c.P.Pos(c.P.Decls[fn].Pos())
	c.W.Concrete = true
	defer func() { c.W.Concrete = false }()
	carriers := []string{"none", "path", "query", "both"}
	n, bad := 0, 0
	for _, verb := range []string{"", "GET", "POST", "PUT", "DELETE", "PATCH"} {
		for _, ca := range carriers {
			for _, cb := range carriers {
				for _, aKind := range []string{"string", "message"} {
					for _, ghost := range []bool{false, true} { // a path variable without a field
						path := "/x"
						var qps [][2]string
						if ca == "path" || ca == "both" {
							path += "/{a}"
						}
						if cb == "path" || cb == "both" {
							path += "/{b}"
						}
						if ghost {
							path += "/{ghost}"
						}
						if ca == "query" || ca == "both" {
							qps = append(qps, [2]string{"a", "qa"})
						}
						if cb == "query" || cb == "both" {
							qps = append(qps, [2]string{"b", "qb"})
						}
						fa := fld("a", aKind)
						if aKind == "message" {
							fa = fa.msg(cMessage("Inner"))
						}
						in := cMessage("Req", fa, fld("b", "string"))
						in.Fields["@GetQueryParams"] = cQueryParams(qps...)
						m := cMethod("Do", in, cMessage("Resp"), map[string]Val{"@GetMethodHTTPConfig": cHTTPConfig(path, verb)})
						bodiless := verb == "GET" || verb == "DELETE"
						want := ghost ||
							((ca == "path" || ca == "both") && aKind == "message") ||
							ca == "both" || cb == "both" ||
							(bodiless && (ca == "none" || cb == "none"))
						run := c.W.NewRun(map[string]int{}, false)
						run.InlineAll, run.FollowSlices = true, true
						run.CallHook = c.cdescHook
						run.StartArgs(fn, map[string]Val{"service": cService("Svc", m), "method": m})
						n++
						got := false
						switch x := run.Result.(type) {
						case VList:
							got = len(x.Elems) > 0
						case VNil:
						default:
							r.Undec("R12g", "ValidateMethodConfig grid", pos, fmt.Sprintf("result not concrete for verb=%q a:%s/%s b:%s ghost=%v", verb, ca, aKind, cb, ghost))
							return
						}
						if len(run.Used) > 0 {
							r.Undec("R12g", "ValidateMethodConfig grid", pos, fmt.Sprintf("open decisions %v", usedKeys(run)))
							return
						}
						if got != want && bad < 5 {
							bad++
							r.Bad("R12g", fmt.Sprintf("ValidateMethodConfig grid: verb=%q a(%s) carried by %s, b carried by %s, ghost path variable=%v → %s", verb, aKind, ca, cb, ghost, map[bool]string{true: "refused", false: "accepted"}[want]), pos,
								fmt.Sprintf("ValidateMethodConfig %s this definition; the documented rules (path variable needs a scalar field; a field is bound to path or query, not both; a bodiless verb leaves no field unbound) say it must be %s", map[bool]string{true: "refuses", false: "accepts"}[got], map[bool]string{true: "refused", false: "accepted"}[want]), nil)
						}
					}
				}
			}
		}
	}
	if bad == 0 {
		r.OKd("R12g", fmt.Sprintf("ValidateMethodConfig agrees with the documented rules on an exhaustive grid of %d definitions", n), pos, nil)
	}
	r.Count("method-config grid points", n)
}
