package main

// c18.go — C18: each OpenAPI document is well-formed, complete and
// format-independent.
//
// The OpenAPI generator builds a libopenapi object graph, it prints no text, so
// the emission reconstruction (E1) does not apply. What is decided here is read
// off the type-resolved syntax tree of internal/openapiv3 and of the plugin's
// main package, plus the abstract evaluation of extractMethodHTTPInfo (shared
// with C03):
//
//   R18a  naming agreement: every $ref / discriminator-mapping target is spelled
//         by the same name function as the key the target schema is stored under
//   R18b  closure: the set of messages that get a component schema is closed
//         under the reference edges (collector follows field types and nested
//         declarations, roots are Input and Output of every RPC, main wires the
//         collector before rendering)
//   R18c  parameters: one required path parameter per template variable and
//         vice versa (evaluated on the C03 grid), constant location strings,
//         header list deduplicated by name
//   R18d  one document per service, operation ids from RPC names
//   R18e  format independence: every rendering derives from one yaml.Marshal of
//         the same document; the format parameter vocabulary and the extension
//   R18f  injectivity of the schema key (short names collide)

import (
	"fmt"
	"go/ast"
	"go/constant"
	"go/token"
	"go/types"
	"regexp"
	"sort"
	"strings"
)

const cmdOpenAPI = "cmd/protoc-gen-openapiv3"

// oaDecls: non-test function declarations of a package, by FuncName.
func (c *Ctx) oaDecls(rel string) map[*types.Func]*ast.FuncDecl {
	out := map[*types.Func]*ast.FuncDecl{}
	for fn, decl := range c.P.Decls {
		if decl.Body == nil || fn.Pkg() == nil || fn.Pkg().Path() != modPath+"/"+rel {
			continue
		}
		if strings.HasSuffix(c.P.Pos(decl.Pos()), "_test.go") || strings.Contains(c.P.Pos(decl.Pos()), "_test.go:") {
			continue
		}
		out[fn] = decl
	}
	return out
}

// localDef resolves an identifier to the expression of its single defining
// assignment inside the function (nil when it has none or several).
func localDef(info *types.Info, body *ast.BlockStmt, id *ast.Ident) ast.Expr {
	obj := info.ObjectOf(id)
	if obj == nil {
		return nil
	}
	var def ast.Expr
	n := 0
	ast.Inspect(body, func(nd ast.Node) bool {
		as, ok := nd.(*ast.AssignStmt)
		if !ok {
			return true
		}
		for i, l := range as.Lhs {
			if li, ok := l.(*ast.Ident); ok && info.ObjectOf(li) == obj {
				n++
				switch {
				case len(as.Rhs) == len(as.Lhs):
					def = as.Rhs[i]
				case len(as.Rhs) == 1 && i == 0:
					def = as.Rhs[0] // v, err := f()
				default:
					def = nil
				}
			}
		}
		return true
	})
	if n == 1 {
		return def
	}
	return nil
}

// refNameCanon reduces a string-valued expression (the name argument of a
// "#/components/schemas/%s" reference, a schema key) to a canonical form that does
// not depend on how the string is put together: constants are folded, `a + b`,
// fmt.Sprintf with %s verbs and repository helpers with a single return statement
// (func componentRef(n string) string { return prefix + n }) are all reduced to a
// sequence of constant and NAME<accessor>(message) segments, rendered as
//
//	const:<text>                       — all constant
//	fmt(<consts joined by %s>;t1;t2…)  — mixed
//	<term>                             — a single non-constant term
func (c *Ctx) refNameCanon(info *types.Info, body *ast.BlockStmt, e ast.Expr, depth int) string {
	segs := c.refSegs(info, body, e, nil, depth)
	// merge adjacent constants
	var m []string
	for _, sg := range segs {
		if strings.HasPrefix(sg, "c:") && len(m) > 0 && strings.HasPrefix(m[len(m)-1], "c:") {
			m[len(m)-1] += sg[2:]
			continue
		}
		m = append(m, sg)
	}
	if len(m) == 0 {
		return "const:"
	}
	if len(m) == 1 {
		if strings.HasPrefix(m[0], "c:") {
			return "const:" + m[0][2:]
		}
		return m[0]
	}
	format, terms := "", []string{}
	for _, sg := range m {
		if strings.HasPrefix(sg, "c:") {
			format += sg[2:]
		} else {
			format += "%s"
			terms = append(terms, sg)
		}
	}
	return "fmt(" + format + ";" + strings.Join(terms, ";") + ")"
}

// refSegs: env maps parameter names of an inlined helper to the segments of the argument.
func (c *Ctx) refSegs(info *types.Info, body *ast.BlockStmt, e ast.Expr, env map[string][]string, depth int) []string {
	e = ast.Unparen(e)
	if tv, ok := info.Types[e]; ok && tv.Value != nil {
		if tv.Value.Kind() == constant.String {
			return []string{"c:" + constant.StringVal(tv.Value)}
		}
		return []string{"c:" + tv.Value.ExactString()}
	}
	switch x := e.(type) {
	case *ast.Ident:
		if sg, ok := env[x.Name]; ok {
			return sg
		}
		if depth < 5 && body != nil {
			if d := localDef(info, body, x); d != nil {
				return c.refSegs(info, body, d, env, depth+1)
			}
		}
		return []string{"var:" + x.Name}
	case *ast.BinaryExpr:
		if x.Op == token.ADD {
			return append(c.refSegs(info, body, x.X, env, depth), c.refSegs(info, body, x.Y, env, depth)...)
		}
	case *ast.CallExpr:
		// conversion string(…)
		if tv, ok := info.Types[x.Fun]; ok && tv.IsType() && len(x.Args) == 1 {
			return c.refSegs(info, body, x.Args[0], env, depth)
		}
		if fn := Callee(info, x); fn != nil {
			if fn.Name() == "Sprintf" && fn.Pkg() != nil && fn.Pkg().Path() == "fmt" && len(x.Args) >= 1 {
				if tv, ok := info.Types[x.Args[0]]; ok && tv.Value != nil && tv.Value.Kind() == constant.String {
					f := constant.StringVal(tv.Value)
					pieces := strings.Split(f, "%s")
					if len(pieces) == len(x.Args) && !strings.Contains(strings.Join(pieces, ""), "%") {
						var out []string
						for i, pc := range pieces {
							if pc != "" {
								out = append(out, "c:"+pc)
							}
							if i < len(x.Args)-1 {
								out = append(out, c.refSegs(info, body, x.Args[i+1], env, depth)...)
							}
						}
						return out
					}
					return []string{"fmtv(" + f + ")"}
				}
			}
			// a repository function with a single return statement: substitute its result, parameters bound to the arguments
			if decl := c.P.Decls[fn]; decl != nil && decl.Body != nil && len(decl.Body.List) == 1 && depth < 5 {
				if ret, ok := decl.Body.List[0].(*ast.ReturnStmt); ok && len(ret.Results) == 1 {
					var params []string
					for _, p := range decl.Type.Params.List {
						for _, n := range p.Names {
							params = append(params, n.Name)
						}
					}
					if len(params) == len(x.Args) {
						env2 := map[string][]string{}
						for i, pn := range params {
							env2[pn] = c.refSegs(info, body, x.Args[i], env, depth+1)
						}
						return c.refSegs(c.P.DeclPkg[fn].TypesInfo, nil, ret.Results[0], env2, depth+1)
					}
				}
			}
			// method value like X.Desc.Name()
			if sel, ok := x.Fun.(*ast.SelectorExpr); ok && len(x.Args) == 0 {
				if in, ok := sel.X.(*ast.SelectorExpr); ok && in.Sel.Name == "Desc" {
					if t := info.TypeOf(in.X); t != nil && typeIsNamed(t, "compiler/protogen", "Message") {
						return []string{"NAME." + sel.Sel.Name + "(M)"}
					}
				}
			}
			return []string{"call:" + fn.Name()}
		}
	case *ast.SelectorExpr:
		// r.field where r ranges over a literal table of structs: one alternative per row
		if id, ok := ast.Unparen(x.X).(*ast.Ident); ok && body != nil && depth < 5 {
			if rows := tableRows(info, body, id); len(rows) > 0 {
				var alts []string
				for _, row := range rows {
					fe := rowField(info, row, x.Sel.Name)
					if fe == nil {
						alts = nil
						break
					}
					sub := c.refNameCanon(info, body, fe, depth+1)
					alts = append(alts, sub)
				}
				if len(alts) > 0 {
					return []string{"alts(" + strings.Join(alts, "||") + ")"}
				}
			}
		}
		return []string{"sel:" + types.ExprString(x)}
	}
	return []string{"expr:" + types.ExprString(e)}
}

// tableRows: id is the value variable of `for _, id := range T` where T is (a local defined as) a composite literal
// of struct rows; the rows are returned.
func tableRows(info *types.Info, body *ast.BlockStmt, id *ast.Ident) []*ast.CompositeLit {
	obj := info.ObjectOf(id)
	var rows []*ast.CompositeLit
	ast.Inspect(body, func(n ast.Node) bool {
		rs, ok := n.(*ast.RangeStmt)
		if !ok {
			return true
		}
		v, ok := rs.Value.(*ast.Ident)
		if !ok || info.ObjectOf(v) != obj {
			return true
		}
		src := ast.Unparen(rs.X)
		if sid, ok := src.(*ast.Ident); ok {
			if d := localDef(info, body, sid); d != nil {
				src = ast.Unparen(d)
			}
		}
		if cl, ok := src.(*ast.CompositeLit); ok {
			for _, el := range cl.Elts {
				if row, ok := ast.Unparen(el).(*ast.CompositeLit); ok {
					rows = append(rows, row)
				}
			}
		}
		return true
	})
	return rows
}

// rowField: the expression a struct row gives to the named field (keyed or positional).
func rowField(info *types.Info, row *ast.CompositeLit, name string) ast.Expr {
	for _, el := range row.Elts {
		if kv, ok := el.(*ast.KeyValueExpr); ok {
			if k, ok := kv.Key.(*ast.Ident); ok && k.Name == name {
				return kv.Value
			}
		}
	}
	if t := info.TypeOf(row); t != nil {
		if st, ok := t.Underlying().(*types.Struct); ok {
			for i := 0; i < st.NumFields() && i < len(row.Elts); i++ {
				if st.Field(i).Name() == name {
					if _, keyed := row.Elts[i].(*ast.KeyValueExpr); !keyed {
						return row.Elts[i]
					}
				}
			}
		}
	}
	return nil
}

var c18TemplateVar = regexp.MustCompile(`\{([^}/]+)\}`)

func checkC18(c *Ctx) {
	r := c.R
	r.Explain = "Decides structural clauses of C18 on the type-resolved syntax tree of internal/openapiv3 and cmd/protoc-gen-openapiv3 (the generator builds a libopenapi object graph, so no emitted text exists to reconstruct) and on the abstract evaluation of extractMethodHTTPInfo. R18a: every reference target (CreateSchemaProxyRef and discriminator mapping) is spelled with the same name function as the Set key of the schema it points to, constants point to built-in keys. R18b: the set of messages with a component schema is closed under reference edges: collectMessageRecursive registers the message, follows Field.Message for every field and every nested declaration under nil guards only, its roots are Input and Output of every RPC, processMessage registers nested declarations, and main calls the collector on the generator it renders; reference targets are always Field.Message / Method.Input / Method.Output values. R18c: on the C03 configuration grid the variables of the evaluated path template and the evaluated path-parameter list coincide as multisets; buildPathParameters emits one parameter per list element with constant in:path and required:true, query and header builders use their constant locations; the header list goes through name-keyed deduplication. R18d: one generator, one Render and one output file per service, file name from the service name and the format, operationId from the RPC name. R18e: every Render arm returns bytes derived from yaml.Marshal(g.doc) (JSON by conversion of those bytes), the format parameter accepts exactly json|yaml|yml and the extension follows the format. R18f: the schema key function must be injective over messages (it is not: known finding). Not decided: OpenAPI 3.1 validity of schema bodies (libopenapi rendering), YAML 1.1/1.2 scalar typing in the JSON conversion, uniqueness of query parameter names (validator, C12)."

	r.Rule("R18a", "every reference target is spelled by the name function of the key its schema is stored under", 8)
	r.Rule("R18b", "the messages with a component schema are closed under reference edges and contain every RPC's input and output", 8)
	r.Rule("R18c", "template variables and declared path parameters coincide; parameter locations are constant; path parameters are unconditionally required", 20)
	r.Rule("R18j", "the visited set of the schema collector is keyed injectively (full name or descriptor pointer): two messages with the same short name are both collected, so no reference dangles (shared with C16/R16d)", 1)
	visitedKeysInjective(c, "R18j", func(fn *types.Func) bool { return strings.HasSuffix(fn.Pkg().Path(), pkgOpenAPI) })
	r.Rule("R18k", "no package-level variable of the OpenAPI generator holds a document model value: every service's document is built from values of its own", 1)
	c18NoSharedDocumentState(c, "R18k")
	r.Rule("R18i", "every key of the paths object begins with a slash, whatever slashes the base path and the method path carry", 10)
	c18PathKeys(c, "R18i")
	r.Rule("R18d", "one document per service; operation ids are RPC names", 3)
	r.Rule("R18e", "all renderings derive from one marshalled document; format vocabulary and extension agree", 3)
	c18OperationParameters(c)
	r.Rule("R18g", "the documents of different services share no mutable state: no package-level variable of the OpenAPI generator or its plugin main is written while generating (a schema built by one service's generator registers its side schemas there only; shared with C15/R15c)", 1)
	for _, rel := range []string{pkgOpenAPI, cmdOpenAPI} {
		pk := c.P.Pkg(rel)
		if pk == nil {
			r.Unres("R18g", rel, "", "package not loaded")
			continue
		}
		vars, written := writtenPkgVars(pk)
		nW := 0
		for _, v := range vars {
			if pos, w := written[v]; w {
				nW++
				r.Bad("R18g", fmt.Sprintf("package variable %s.%s is never written after initialisation", rel, v.Name()), c.P.Pos(pos),
					"a package-level variable of the OpenAPI generator is written while documents are generated: every service gets its own Generator, so whatever one generator caches there (a built schema whose variant or nested schemas it registered in ITS component map) is reused by the next service's document without those registrations — references of the later document dangle", nil)
			}
		}
		r.OKd("R18g", "package "+rel+": package-level variables inventoried", "", map[string]any{"variables": len(vars), "written": nW})
	}
	r.Rule("R18f", "the schema key is injective over messages", 1)

	decls := c.oaDecls(pkgOpenAPI)
	if len(decls) < 20 {
		r.Unres("R18a", "package internal/openapiv3", "", fmt.Sprintf("only %d functions found", len(decls)))
		return
	}
	pk := c.P.Pkg(pkgOpenAPI)
	info := pk.TypesInfo

	// ---------------- R18a
	// keys: every schemas.Set(k, …) on the generator's schema map
	type site struct {
		canon, pos, fn string
	}
	var keys, refs []site
	const prefix = "#/components/schemas/"
	for fn, decl := range decls {
		ast.Inspect(decl.Body, func(n ast.Node) bool {
			call, ok := n.(*ast.CallExpr)
			if !ok {
				return true
			}
			sel, _ := call.Fun.(*ast.SelectorExpr)
			if sel != nil && sel.Sel.Name == "Set" && len(call.Args) == 2 {
				recv := types.ExprString(sel.X)
				if recv == "g.schemas" || recv == "schemas" {
					keys = append(keys, site{c.refNameCanon(info, decl.Body, call.Args[0], 0), c.P.Pos(call.Pos()), fn.Name()})
				}
				if recv == "mapping" {
					refs = append(refs, site{c.refNameCanon(info, decl.Body, call.Args[1], 0), c.P.Pos(call.Pos()), fn.Name()})
				}
			}
			if cal := Callee(info, call); cal != nil && cal.Name() == "CreateSchemaProxyRef" && len(call.Args) == 1 {
				refs = append(refs, site{c.refNameCanon(info, decl.Body, call.Args[0], 0), c.P.Pos(call.Pos()), fn.Name()})
			}
			return true
		})
	}
	keySet := map[string]bool{}
	for _, k := range keys {
		kc := k.canon
		// normalise the message expression of NAME forms
		kc = regexp.MustCompile(`\((\w+)\)$`).ReplaceAllString(kc, "(M)")
		keySet[kc] = true
	}
	// a reference taken from a row of a literal table stands for one reference per row
	var expanded []site
	for _, rf := range refs {
		if strings.HasPrefix(rf.canon, "alts(") && strings.HasSuffix(rf.canon, ")") {
			for _, a := range strings.Split(rf.canon[5:len(rf.canon)-1], "||") {
				expanded = append(expanded, site{a, rf.pos, rf.fn})
			}
			continue
		}
		expanded = append(expanded, rf)
	}
	refs = expanded
	sort.Slice(refs, func(i, j int) bool { return refs[i].pos < refs[j].pos })
	for _, rf := range refs {
		rc := rf.canon
		target := ""
		switch {
		case strings.HasPrefix(rc, "const:"+prefix):
			target = "const:" + strings.TrimPrefix(rc, "const:"+prefix)
		case strings.HasPrefix(rc, "fmt("+prefix):
			rest := strings.TrimSuffix(strings.TrimPrefix(rc, "fmt("+prefix), ")")
			if strings.HasPrefix(rest, "%s;") && !strings.Contains(rest[3:], ";") {
				target = rest[3:] // prefix + one term
			} else {
				target = "fmt(" + rest + ")" // prefix + composed name (per-variant schemas)
			}
			target = regexp.MustCompile(`\((\w+)\)$`).ReplaceAllString(target, "(M)")
		default:
			r.Unres("R18a", "reference in "+rf.fn+" ("+rc+")", rf.pos, "reference target is not a constant or a Sprintf of the schema prefix: "+rc)
			continue
		}
		r.Check(keySet[target], "R18a", "reference in "+rf.fn+" spelled "+target, rf.pos,
			fmt.Sprintf("%s builds a reference named by %s, but component schemas are stored under %v: when the two spellings differ for a message the reference does not resolve", rf.fn, target, sortedKeys(keySet)))
	}
	r.Count("reference sites", len(refs))
	r.Count("schema key sites", len(keys))

	// ---------------- R18f
	if gs := c.P.Func(pkgOpenAPI, "Generator.getSchemaName"); gs != nil {
		decl := c.P.Decls[gs]
		usesFull := false
		ast.Inspect(decl.Body, func(n ast.Node) bool {
			if sel, ok := n.(*ast.SelectorExpr); ok && sel.Sel.Name == "FullName" {
				usesFull = true
			}
			return true
		})
		r.Check(usesFull, "R18f", "getSchemaName is injective (derived from the full name)", c.P.Pos(decl.Pos()),
			"component schemas are keyed by the short message name: two reachable messages with the same short name (nested types Outer.Item and Other.Item, or pkg1.Foo and an imported pkg2.Foo) share one key; the later Set overwrites the earlier schema and every reference to the first message resolves to the wrong schema")
	} else {
		r.Unres("R18f", "getSchemaName", "", "not found")
	}

	c18Closure(c, decls)
	c18Params(c, decls)
	c18PerService(c)
	c18Render(c)
}

// onlyNilGuards: every enclosing if-condition between node and the loop body is a
// conjunction of `X != nil` tests and descriptor predicates that cannot exclude a
// message-typed field (IsMap).
func onlyNilGuards(parents map[ast.Node]ast.Node, n ast.Node, stop ast.Node) (bool, string) {
	for p := parents[n]; p != nil && p != stop; p = parents[p] {
		ifs, ok := p.(*ast.IfStmt)
		if !ok {
			continue
		}
		// n must be in the then-branch
		if !(ifs.Body.Pos() <= n.Pos() && n.End() <= ifs.Body.End()) {
			return false, "else-branch of " + types.ExprString(ifs.Cond)
		}
		okCond := true
		var walk func(e ast.Expr)
		walk = func(e ast.Expr) {
			e = ast.Unparen(e)
			if be, ok := e.(*ast.BinaryExpr); ok {
				if be.Op == token.LAND {
					walk(be.X)
					walk(be.Y)
					return
				}
				if be.Op == token.NEQ && (isNilIdent(be.X) || isNilIdent(be.Y)) {
					return
				}
			}
			okCond = false
		}
		walk(ifs.Cond)
		if !okCond {
			return false, types.ExprString(ifs.Cond)
		}
	}
	return true, ""
}

func c18Closure(c *Ctx, decls map[*types.Func]*ast.FuncDecl) {
	r := c.R
	info := c.P.Pkg(pkgOpenAPI).TypesInfo
	col := c.P.Func(pkgOpenAPI, "Generator.collectMessageRecursive")
	pm := c.P.Func(pkgOpenAPI, "Generator.processMessage")
	crm := c.P.Func(pkgOpenAPI, "Generator.CollectReferencedMessages")
	if col == nil || pm == nil || crm == nil {
		r.Unres("R18b", "collector functions", "", "collectMessageRecursive / processMessage / CollectReferencedMessages not found")
		return
	}
	// --- collector edges
	{
		decl := c.P.Decls[col]
		parents := parentMap(decl.Body)
		param := decl.Type.Params.List[0].Names[0].Name
		followsField, followsNested, registers := false, false, false
		fieldWhy, nestedWhy := "no recursive call on a field's Message", "no recursive call on nested declarations"
		ast.Inspect(decl.Body, func(n ast.Node) bool {
			call, ok := n.(*ast.CallExpr)
			if !ok {
				return true
			}
			cal := Callee(info, call)
			if cal == pm && len(call.Args) == 1 && types.ExprString(call.Args[0]) == param {
				// must be on the straight line after the visited test
				if ok, _ := onlyNilGuards(parents, call, decl.Body); ok {
					registers = true
				}
			}
			if cal != col || len(call.Args) < 1 {
				return true
			}
			arg := ast.Unparen(call.Args[0])
			if id, ok := arg.(*ast.Ident); ok {
				if d := localDef(info, decl.Body, id); d != nil {
					arg = ast.Unparen(d) // `if child := field.Message; child != nil { collect(child) }`
				}
			}
			// the enclosing range statements
			var ranges []*ast.RangeStmt
			for p := parents[ast.Node(call)]; p != nil; p = parents[p] {
				if rs, ok := p.(*ast.RangeStmt); ok {
					ranges = append(ranges, rs)
				}
			}
			if len(ranges) != 1 {
				return true // nested loops (map values) do not establish the closure by themselves
			}
			rs := ranges[0]
			val, _ := rs.Value.(*ast.Ident)
			if val == nil {
				return true
			}
			guardOK, why := onlyNilGuards(parents, call, rs)
			// no continue/break/return before the call inside the loop body
			// (the negative form of the nil guard — `if f.Message == nil { continue }` ahead of the call — skips nothing)
			early := false
			nilSkip := func(b ast.Node) bool {
				for p := parents[b]; p != nil && p != ast.Node(rs); p = parents[p] {
					if ifs, ok := p.(*ast.IfStmt); ok && nodeContains(ifs.Body, b.Pos()) {
						be, ok := ast.Unparen(ifs.Cond).(*ast.BinaryExpr)
						if ok && be.Op == token.EQL && isNilIdent(be.Y) && types.ExprString(be.X) == types.ExprString(arg) && len(ifs.Body.List) == 1 {
							return true
						}
						return false
					}
				}
				return false
			}
			ast.Inspect(rs.Body, func(m ast.Node) bool {
				switch b := m.(type) {
				case *ast.BranchStmt:
					if b.Pos() < call.Pos() && !(b.Tok == token.CONTINUE && nilSkip(b)) {
						early = true
					}
				case *ast.ReturnStmt:
					if b.Pos() < call.Pos() {
						early = true
					}
				}
				return true
			})
			switch {
			case types.ExprString(rs.X) == param+".Fields" && types.ExprString(arg) == val.Name+".Message":
				if guardOK && !early {
					followsField = true
				} else {
					fieldWhy = "the recursive call on field.Message is conditional (" + why + ")"
				}
			case types.ExprString(rs.X) == param+".Messages" && types.ExprString(arg) == val.Name:
				if guardOK && !early {
					followsNested = true
				} else {
					nestedWhy = "the recursive call on nested declarations is conditional (" + why + ")"
				}
			}
			return true
		})
		// early returns ahead of the registration: only the nil test and the visited test
		visitedParam := ""
		if len(decl.Type.Params.List) > 1 && len(decl.Type.Params.List[1].Names) > 0 {
			visitedParam = decl.Type.Params.List[1].Names[0].Name
		}
		earlyWhy := ""
		for _, st := range decl.Body.List {
			if es, ok := st.(*ast.ExprStmt); ok {
				if call, ok := es.X.(*ast.CallExpr); ok && Callee(info, call) == pm {
					break
				}
			}
			ifs, ok := st.(*ast.IfStmt)
			if !ok || !terminates(ifs.Body) {
				continue
			}
			cond := types.ExprString(ifs.Cond)
			if cond == param+" == nil" || (visitedParam != "" && strings.HasPrefix(cond, visitedParam+"[")) {
				continue
			}
			earlyWhy = cond
		}
		if earlyWhy != "" {
			registers = false
		}
		pos := c.P.Pos(decl.Pos())
		if earlyWhy != "" {
			r.Bad("R18b", "collector registers every message it is handed (no early return besides nil and visited)", pos,
				"collectMessageRecursive returns before registering the message when `"+earlyWhy+"`: other builders still emit $ref / discriminator mappings to that message's schema (oneof variants, unwrapped map values, an RPC's input or output), which then do not resolve", nil)
		}
		r.Check(registers || earlyWhy != "", "R18b", "collector registers the message it visits", pos, "collectMessageRecursive does not call processMessage(message) unconditionally after the visited test: a visited message gets no component schema")
		r.Check(followsField, "R18b", "collector follows the type of every message-typed field", pos,
			"collectMessageRecursive: "+fieldWhy+": a message referenced by a field of a registered message has no component schema, its $ref dangles")
		r.Check(followsNested, "R18b", "collector follows nested declarations", pos,
			"collectMessageRecursive: "+nestedWhy+": processMessage registers nested declarations with references to their field types, but those types are never collected, so their $refs dangle")
	}
	// --- roots
	{
		decl := c.P.Decls[crm]
		in, out := false, false
		parents := parentMap(decl.Body)
		ast.Inspect(decl.Body, func(n ast.Node) bool {
			call, ok := n.(*ast.CallExpr)
			if !ok || Callee(info, call) != col || len(call.Args) < 1 {
				return true
			}
			var rs *ast.RangeStmt
			for p := parents[ast.Node(call)]; p != nil; p = parents[p] {
				if x, ok := p.(*ast.RangeStmt); ok {
					rs = x
					break
				}
			}
			if rs == nil || !strings.HasSuffix(types.ExprString(rs.X), ".Methods") {
				return true
			}
			if ok, _ := onlyNilGuards(parents, call, rs); !ok {
				return true
			}
			v, _ := rs.Value.(*ast.Ident)
			if v == nil {
				return true
			}
			switch types.ExprString(call.Args[0]) {
			case v.Name + ".Input":
				in = true
			case v.Name + ".Output":
				out = true
			}
			return true
		})
		r.Check(in && out, "R18b", "collector roots are Input and Output of every RPC", c.P.Pos(decl.Pos()),
			fmt.Sprintf("CollectReferencedMessages starts from Input=%v Output=%v of each method: the request body / 200 response reference of an RPC has no component schema", in, out))
	}
	// --- processMessage registers nested declarations
	{
		decl := c.P.Decls[pm]
		sets, nested := false, false
		ast.Inspect(decl.Body, func(n ast.Node) bool {
			call, ok := n.(*ast.CallExpr)
			if !ok {
				return true
			}
			if sel, ok := call.Fun.(*ast.SelectorExpr); ok && sel.Sel.Name == "Set" && types.ExprString(sel.X) == "g.schemas" {
				sets = true
			}
			if Callee(info, call) == pm {
				nested = true
			}
			return true
		})
		r.Check(sets, "R18b", "processMessage stores the schema", c.P.Pos(decl.Pos()), "processMessage does not store the built schema in g.schemas")
		_ = nested // nested registration is redundant with the collector's nested edge; either suffices
	}
	// --- reference targets are Field.Message / Method.Input / Method.Output values
	n := 0
	for fn, decl := range decls {
		ast.Inspect(decl.Body, func(nd ast.Node) bool {
			call, ok := nd.(*ast.CallExpr)
			if !ok {
				return true
			}
			cal := Callee(info, call)
			if cal == nil || cal != c.P.Func(pkgOpenAPI, "Generator.getSchemaName") || len(call.Args) != 1 {
				return true
			}
			if fn == c.P.Func(pkgOpenAPI, "Generator.processMessage") || fn == c.P.Func(pkgOpenAPI, "Generator.buildFlattenedOneofSchema") {
				return true // key side / own name
			}
			arg := ast.Unparen(call.Args[0])
			okSrc := false
			if id, ok := arg.(*ast.Ident); ok {
				// the builder's own message (a *protogen.Message parameter handed down from processMessage): its own name
				if v, ok := info.ObjectOf(id).(*types.Var); ok && typeIsNamed(v.Type(), "compiler/protogen", "Message") {
					for _, f := range decl.Type.Params.List {
						for _, nm := range f.Names {
							if info.ObjectOf(nm) == types.Object(v) {
								return true
							}
						}
					}
				}
			}
			if sel, ok := arg.(*ast.SelectorExpr); ok {
				switch sel.Sel.Name {
				case "Message", "Input", "Output", "valueMessage":
					okSrc = true
				}
			}
			n++
			r.Check(okSrc, "R18b", "reference target in "+fn.Name()+" is a field type or an RPC message ("+types.ExprString(arg)+")", c.P.Pos(call.Pos()),
				fn.Name()+" references the schema of "+types.ExprString(arg)+", which is not a Field.Message / Method.Input / Method.Output value: the collector's closure does not cover it")
			return true
		})
	}
	r.Count("getSchemaName reference sites", n)
	// --- main wires the collector on the generator it renders, before ProcessService
	mainDecls := c.oaDecls(cmdOpenAPI)
	wired := false
	wpos := ""
	for fn, decl := range mainDecls {
		minfo := c.P.DeclPkg[fn].TypesInfo
		var newPos, colPos, procPos token.Pos
		ast.Inspect(decl.Body, func(nd ast.Node) bool {
			call, ok := nd.(*ast.CallExpr)
			if !ok {
				return true
			}
			if cal := Callee(minfo, call); cal != nil {
				switch cal.Name() {
				case "NewGenerator":
					newPos = call.Pos()
				case "CollectReferencedMessages":
					colPos = call.Pos()
				case "ProcessService":
					procPos = call.Pos()
				}
			}
			return true
		})
		if newPos.IsValid() {
			wpos = c.P.Pos(decl.Pos())
			if colPos.IsValid() && procPos.IsValid() {
				// straight-line function: no branching statements
				branch := false
				ast.Inspect(decl.Body, func(nd ast.Node) bool {
					switch nd.(type) {
					case *ast.IfStmt, *ast.SwitchStmt, *ast.ForStmt, *ast.RangeStmt:
						branch = true
					}
					return true
				})
				wired = !branch && newPos < colPos
			}
		}
	}
	r.Check(wired, "R18b", "main collects the referenced messages on the generator it renders", wpos,
		"the plugin does not unconditionally call CollectReferencedMessages(service) on the generator created for the service: the document has paths but no (or partial) component schemas")
}

func c18Params(c *Ctx, decls map[*types.Func]*ast.FuncDecl) {
	r := c.R
	info := c.P.Pkg(pkgOpenAPI).TypesInfo
	// (1) evaluated template vs evaluated parameter list on the C03 grid
	bases := []string{"", "/zqb", "/zqb/", "zqb", "/zqb/v1"}
	paths := []string{"", "/zqp", "/zqp/{id}", "/{id}/zqp", "/zqp/{org_id}/x/{user_id}/{z}", "/{id}", "/zqp/{a}/{b}/"}
	for _, b := range bases {
		for _, p := range paths {
			for _, absent := range []bool{false, true} {
				s := c03Scenario{Base: b, Cfg: &c03Cfg{Path: p, Method: "GET"}}
				if absent {
					if p != "" {
						continue
					}
					s.Cfg = nil
				}
				_, path, params, pos, err := c.observeOpenAPI(s)
				if err != "" {
					r.Unres("R18c", "template vs parameters: "+s.String(), pos, err)
					continue
				}
				var vars []string
				for _, m := range c18TemplateVar.FindAllStringSubmatch(path, -1) {
					vars = append(vars, m[1])
				}
				a, bb := append([]string{}, vars...), append([]string{}, params...)
				sort.Strings(a)
				sort.Strings(bb)
				r.Check(strings.Join(a, ",") == strings.Join(bb, ","), "R18c", "template variables = path parameters: "+s.String(), pos,
					fmt.Sprintf("%s: the published template %q has variables %v, the declared path parameters are %v", s, path, vars, params))
			}
		}
	}
	// a variable in the service base path
	{
		s := c03Scenario{Base: "/zqb/{tenant}", Cfg: &c03Cfg{Path: "/zqp/{id}", Method: "GET"}}
		_, path, params, pos, err := c.observeOpenAPI(s)
		if err == "" {
			var vars []string
			for _, m := range c18TemplateVar.FindAllStringSubmatch(path, -1) {
				vars = append(vars, m[1])
			}
			sort.Strings(vars)
			ps := append([]string{}, params...)
			sort.Strings(ps)
			r.Check(strings.Join(vars, ",") == strings.Join(ps, ","), "R18c", "template variables = path parameters: variable in base_path", pos,
				fmt.Sprintf("%s: the published template %q has variables %v, the declared path parameters are %v (path variables are taken from the method path only)", s, path, vars, params))
		} else {
			r.Unres("R18c", "template vs parameters: variable in base_path", pos, err)
		}
	}
	// (2) parameter builders: constant location, required
	type pb struct{ fn, in string }
	for _, b := range []pb{{"Generator.buildPathParameters", "path"}, {"Generator.buildQueryParameters", "query"}, {"convertHeadersToParameters", "header"}} {
		f := c.P.Func(pkgOpenAPI, b.fn)
		if f == nil {
			r.Unres("R18c", b.fn, "", "not found")
			continue
		}
		decl := c.P.Decls[f]
		found := 0
		ast.Inspect(decl.Body, func(n ast.Node) bool {
			cl, ok := n.(*ast.CompositeLit)
			if !ok || !strings.HasSuffix(types.ExprString(cl.Type), "v3.Parameter") {
				return true
			}
			found++
			fields := map[string]ast.Expr{}
			for _, el := range cl.Elts {
				if kv, ok := el.(*ast.KeyValueExpr); ok {
					fields[types.ExprString(kv.Key)] = kv.Value
				}
			}
			inOK := false
			if tv, ok := info.Types[fields["In"]]; ok && tv.Value != nil && strings.Trim(tv.Value.ExactString(), `"`) == b.in {
				inOK = true
			}
			r.Check(inOK, "R18c", b.fn+" declares parameters in: "+b.in, c.P.Pos(cl.Pos()), fmt.Sprintf("%s builds a parameter whose location is %s, expected the constant %q", b.fn, types.ExprString(fields["In"]), b.in))
			if b.in == "path" {
				req := ""
				if fields["Required"] != nil {
					req = types.ExprString(fields["Required"])
				}
				isTrue := false
				if call, ok := fields["Required"].(*ast.CallExpr); ok && len(call.Args) == 1 {
					if tv, ok := info.Types[call.Args[0]]; ok && tv.Value != nil && tv.Value.ExactString() == "true" {
						isTrue = true
					}
				}
				r.Check(isTrue, "R18c", "path parameters are required: true, unconditionally", c.P.Pos(cl.Pos()),
					"buildPathParameters sets Required to "+req+": OpenAPI 3.1 demands required: true for every in: path parameter")
				// the loop emits one parameter per element: no continue/filter
				parents := parentMap(decl.Body)
				var rs *ast.RangeStmt
				for p := parents[ast.Node(cl)]; p != nil; p = parents[p] {
					if x, ok := p.(*ast.RangeStmt); ok {
						rs = x
					}
				}
				okLoop := rs != nil && types.ExprString(rs.X) == "pathParams"
				if rs != nil {
					ast.Inspect(rs.Body, func(m ast.Node) bool {
						if br, ok := m.(*ast.BranchStmt); ok && (br.Tok == token.CONTINUE || br.Tok == token.BREAK) {
							okLoop = false
						}
						return true
					})
					// the append is unconditional
					ast.Inspect(rs.Body, func(m ast.Node) bool {
						if call, ok := m.(*ast.CallExpr); ok {
							if id, ok := call.Fun.(*ast.Ident); ok && id.Name == "append" {
								for p := parents[ast.Node(call)]; p != nil && p != ast.Node(rs); p = parents[p] {
									if _, ok := p.(*ast.IfStmt); ok {
										okLoop = false
									}
								}
							}
						}
						return true
					})
				}
				r.Check(okLoop, "R18c", "one path parameter per element of the variable list", c.P.Pos(decl.Pos()),
					"buildPathParameters skips or filters elements of pathParams: a template variable is left undeclared")
			}
			return true
		})
		r.Check(found == 1, "R18c", b.fn+" builds its parameters at one site", c.P.Pos(decl.Pos()), fmt.Sprintf("%d v3.Parameter literals in %s", found, b.fn))
	}
	// (3) header list deduplicated by name on every path of CombineHeaders
	if f := c.P.Func("internal/annotations", "CombineHeaders"); f != nil {
		decl := c.P.Decls[f]
		early := 0
		var epos token.Pos
		for _, st := range decl.Body.List {
			if ifs, ok := st.(*ast.IfStmt); ok && terminates(ifs.Body) {
				for _, s2 := range ifs.Body.List {
					if ret, ok := s2.(*ast.ReturnStmt); ok && len(ret.Results) == 1 {
						if id, ok := ret.Results[0].(*ast.Ident); ok && (id.Name == "methodHeaders" || id.Name == "serviceHeaders") {
							early++
							epos = ret.Pos()
						}
					}
				}
			}
		}
		pos := c.P.Pos(decl.Pos())
		if early > 0 {
			pos = c.P.Pos(epos)
		}
		r.Check(early == 0, "R18c", "header parameters are deduplicated by name on every path", pos,
			"CombineHeaders returns one input list unchanged when the other is empty: two entries with the same name in one required_headers list become two header parameters with the same name in one operation (names must be unique per location)")
	} else {
		r.Unres("R18c", "CombineHeaders", "", "not found")
	}
	// (4) the operation's header parameters come from ONE list merged by name (CombineHeaders), converted once
	if pm, conv, comb := c.P.Func(pkgOpenAPI, "Generator.processMethod"), c.P.Func(pkgOpenAPI, "convertHeadersToParameters"), c.P.Func("internal/annotations", "CombineHeaders"); pm != nil && conv != nil && comb != nil {
		decl := c.P.Decls[pm]
		info := c.P.DeclPkg[pm].TypesInfo
		n, bad := 0, ""
		var bpos token.Pos
		ast.Inspect(decl.Body, func(nd ast.Node) bool {
			call, ok := nd.(*ast.CallExpr)
			if !ok || Callee(info, call) != conv || len(call.Args) != 1 {
				return true
			}
			n++
			arg := ast.Unparen(call.Args[0])
			if id, ok := arg.(*ast.Ident); ok {
				if d := localDef(info, decl.Body, id); d != nil {
					arg = ast.Unparen(d)
				}
			}
			if c2, ok := arg.(*ast.CallExpr); !ok || Callee(info, c2) != comb {
				bad = types.ExprString(call.Args[0])
				bpos = call.Pos()
			}
			return true
		})
		pos := c.P.Pos(decl.Pos())
		if bad != "" {
			pos = c.P.Pos(bpos)
		}
		r.Check(n == 1 && bad == "", "R18c", "operation header parameters: one conversion of the list merged by annotations.CombineHeaders", pos,
			fmt.Sprintf("processMethod converts header declarations to parameters %d time(s), from %s: a header declared by the service and again by the method becomes two parameters with the same name and location in one operation, which OpenAPI forbids", n, map[bool]string{true: "a list that is not the CombineHeaders merge (" + bad + ")", false: "the merged list"}[bad != ""]))
	} else {
		r.Unres("R18c", "processMethod / convertHeadersToParameters", "", "not found")
	}
}

func c18PerService(c *Ctx) {
	r := c.R
	mainDecls := c.oaDecls(cmdOpenAPI)
	// every file to generate is visited: the per-file loop of the plugin main is left only on failure
	{
		nLoops := 0
		for mfn, decl := range mainDecls {
			if decl.Body == nil {
				continue
			}
			minfo := c.P.DeclPkg[mfn].TypesInfo
			parents := parentMap(decl.Body)
			ast.Inspect(decl.Body, func(n ast.Node) bool {
				rs, ok := n.(*ast.RangeStmt)
				if !ok || !strings.HasSuffix(types.ExprString(rs.X), ".Files") {
					return true
				}
				// the loop that generates: its body reaches, through functions of the plugin main, a loop over a file's
				// services (a helper that merely scans the request's files is not the per-file loop)
				if !reachesServicesLoop(c, minfo, rs.Body, map[*types.Func]bool{}) {
					return true
				}
				nLoops++
				bad := ""
				var bpos token.Pos
				ast.Inspect(rs.Body, func(m ast.Node) bool {
					switch x := m.(type) {
					case *ast.FuncLit:
						return false
					case *ast.ReturnStmt:
						if !failureReturn(minfo, x, parents) {
							bad, bpos = "return "+types.ExprString(x.Results[len(x.Results)-1]), x.Pos()
						}
					case *ast.BranchStmt:
						if x.Tok == token.BREAK {
							bad, bpos = "break", x.Pos()
						}
					}
					return true
				})
				pos := c.P.Pos(rs.Pos())
				if bad != "" {
					pos = c.P.Pos(bpos)
				}
				r.Check(bad == "", "R18d", "the per-file loop of the plugin visits every file (left only with an error)", pos,
					"the loop over the request's files is left by `"+bad+"` although nothing failed: the services of every later file to generate get no document and the response carries no error")
				return true
			})
		}
		if nLoops == 0 {
			r.Unres("R18d", "per-file loop in the plugin", "", "no range over ….Files in "+cmdOpenAPI)
		}
	}
	var loopFn *ast.FuncDecl
	var loopInfo *types.Info
	for fn, decl := range mainDecls {
		ast.Inspect(decl.Body, func(n ast.Node) bool {
			if rs, ok := n.(*ast.RangeStmt); ok && strings.HasSuffix(types.ExprString(rs.X), ".Services") {
				loopFn = decl
				loopInfo = c.P.DeclPkg[fn].TypesInfo
			}
			return true
		})
	}
	if loopFn == nil {
		r.Unres("R18d", "per-service loop in the plugin", "", "no range over file.Services in "+cmdOpenAPI)
		return
	}
	// inside the loop body: a generator is created, rendered and written, each once, no continue
	var rs *ast.RangeStmt
	ast.Inspect(loopFn.Body, func(n ast.Node) bool {
		if x, ok := n.(*ast.RangeStmt); ok && strings.HasSuffix(types.ExprString(x.X), ".Services") {
			rs = x
		}
		return true
	})
	// anchors outside package main, counted through the local wrappers the loop body calls (which a clean-up may
	// inline or introduce): the generator constructor, Render, and the creation of the output file
	calls := map[string]int{}
	skip := false
	seenFn := map[*types.Func]bool{}
	var count func(info *types.Info, n ast.Node)
	count = func(info *types.Info, n ast.Node) {
		ast.Inspect(n, func(n ast.Node) bool {
			x, ok := n.(*ast.CallExpr)
			if !ok {
				return true
			}
			cal := Callee(info, x)
			if cal == nil {
				return true
			}
			if d := c.P.Decls[cal]; d != nil && cal.Pkg() != nil && strings.HasSuffix(cal.Pkg().Path(), cmdOpenAPI) {
				if !seenFn[cal] {
					seenFn[cal] = true
					count(c.P.DeclPkg[cal].TypesInfo, d.Body)
				}
				return true
			}
			switch cal.Name() {
			case "NewGenerator", "Render", "NewGeneratedFile", "ProcessService", "CollectReferencedMessages":
				calls[cal.Name()]++
			}
			return true
		})
	}
	count(loopInfo, rs.Body)
	ast.Inspect(rs.Body, func(n ast.Node) bool {
		if _, ok := n.(*ast.BranchStmt); ok {
			skip = true
		}
		return true
	})
	r.Check(calls["NewGenerator"] == 1 && calls["Render"] == 1 && calls["NewGeneratedFile"] == 1 && calls["ProcessService"] == 1 && !skip, "R18d",
		"every service gets its own generator, one rendering and one file", c.P.Pos(rs.Pos()),
		fmt.Sprintf("the per-service loop (with the local functions it calls) reaches %v (continue/break: %v): a service without a document, or several services in one", calls, skip))
	c18FileName(c, "R18d")
	// operationId
	if pm := c.P.Func(pkgOpenAPI, "Generator.processMethod"); pm != nil {
		decl := c.P.Decls[pm]
		okID := false
		ast.Inspect(decl.Body, func(n ast.Node) bool {
			if kv, ok := n.(*ast.KeyValueExpr); ok && types.ExprString(kv.Key) == "OperationId" {
				val := kv.Value
				if id, ok := ast.Unparen(val).(*ast.Ident); ok {
					if d := localDef(c.P.DeclPkg[pm].TypesInfo, decl.Body, id); d != nil {
						val = d // a local that holds the name
					}
				}
				okID = strings.Contains(types.ExprString(val), "method.Desc.Name()") && !strings.Contains(types.ExprString(val), "+")
			}
			return true
		})
		r.Check(okID, "R18d", "operationId is the RPC name (unique within the service's document)", c.P.Pos(decl.Pos()),
			"processMethod does not set OperationId from method.Desc.Name() alone: operation ids can collide or be empty")
	}
}

func c18Render(c *Ctx) {
	r := c.R
	f := c.P.Func(pkgOpenAPI, "Generator.Render")
	if f == nil {
		r.Unres("R18e", "Render", "", "not found")
		return
	}
	info := c.P.DeclPkg[f].TypesInfo
	decl := c.P.Decls[f]
	// every return's data is yaml.Marshal(g.doc) or a conversion of a variable assigned from it
	bad := ""
	nret := 0
	isMarshalDoc := func(e ast.Expr) bool {
		call, ok := ast.Unparen(e).(*ast.CallExpr)
		if !ok {
			return false
		}
		cal := Callee(info, call)
		return cal != nil && cal.Name() == "Marshal" && cal.Pkg() != nil && strings.Contains(cal.Pkg().Path(), "yaml") && len(call.Args) == 1 && types.ExprString(call.Args[0]) == "g.doc"
	}
	ast.Inspect(decl.Body, func(n ast.Node) bool {
		ret, ok := n.(*ast.ReturnStmt)
		if !ok || len(ret.Results) == 0 {
			return true
		}
		if id, ok := ret.Results[0].(*ast.Ident); ok && id.Name == "nil" {
			return true
		}
		nret++
		e := ret.Results[0]
		if isMarshalDoc(e) {
			return true
		}
		if id, ok := e.(*ast.Ident); ok {
			d := localDef(info, decl.Body, id)
			if call, ok := d.(*ast.CallExpr); ok {
				if cal := Callee(info, call); cal != nil && cal.Name() == "YAMLToJSON" && len(call.Args) == 1 {
					if aid, ok := call.Args[0].(*ast.Ident); ok {
						if isMarshalDoc(localDef(info, decl.Body, aid)) {
							return true
						}
					}
				}
			}
		}
		bad = types.ExprString(e)
		return true
	})
	r.Check(bad == "" && nret >= 2, "R18e", "every rendering is (a conversion of) yaml.Marshal(g.doc)", c.P.Pos(decl.Pos()),
		"Render returns "+bad+", which is not derived from the one YAML marshalling of the document: the JSON and YAML renderings can denote different documents")
	// JSON arm present
	hasJSON := false
	ast.Inspect(decl.Body, func(n ast.Node) bool {
		if cc, ok := n.(*ast.CaseClause); ok {
			for _, e := range cc.List {
				if types.ExprString(e) == "FormatJSON" {
					for _, st := range cc.Body {
						ast.Inspect(st, func(m ast.Node) bool {
							if call, ok := m.(*ast.CallExpr); ok {
								if cal := Callee(info, call); cal != nil && cal.Name() == "YAMLToJSON" {
									hasJSON = true
								}
							}
							return true
						})
					}
				}
			}
		}
		return true
	})
	// the JSON arm re-reads the YAML text: reader and writer must be the same YAML implementation
	var marshalPkg, readPkg string
	var readPos token.Pos
	ast.Inspect(decl.Body, func(n ast.Node) bool {
		if call, ok := n.(*ast.CallExpr); ok {
			if cal := Callee(info, call); cal != nil && cal.Pkg() != nil {
				switch cal.Name() {
				case "Marshal":
					marshalPkg = cal.Pkg().Path()
				case "YAMLToJSON":
					readPkg = cal.Pkg().Path()
					readPos = call.Pos()
				}
			}
		}
		return true
	})
	if readPkg != "" {
		r.Check(readPkg == marshalPkg, "R18e", "the JSON rendering re-reads the YAML text with the YAML implementation that wrote it", c.P.Pos(readPos),
			fmt.Sprintf("the document is written by %s (YAML 1.2 core schema) and re-read for JSON by %s (a YAML 1.1 reader): plain scalars y/n/yes/no/on/off in any case (an enum value or discriminator value named NO, ON, Y …) stay strings in the YAML rendering and become booleans in the JSON rendering, so the two renderings denote different documents", marshalPkg, readPkg))
	}
	r.Check(hasJSON, "R18e", "the json format is rendered as JSON", c.P.Pos(decl.Pos()), "the FormatJSON arm of Render does not convert to JSON")
	// parseFormat vocabulary: the function is interpreted on concrete parameter strings
	if pf := c.P.Func(cmdOpenAPI, "parseFormat"); pf != nil {
		pos := c.P.Pos(c.P.Decls[pf].Pos())
		c.W.Concrete, c.W.ExternStructs = true, true
		type pcase struct {
			param *string
			want  string
		}
		str := func(s string) *string { return &s }
		cases := []pcase{{nil, "yaml"}, {str(""), "yaml"}, {str("format=json"), "json"}, {str("format=yaml"), "yaml"}, {str("format=yml"), "yaml"},
			{str("paths=source_relative,format=json"), "json"}, {str("format=xml"), "yaml"}, {str("paths=source_relative"), "yaml"}}
		got := map[string]string{}
		bad := []string{}
		for _, pc := range cases {
			label := "<no parameter>"
			if pc.param != nil {
				label = *pc.param
			}
			g, perr := c.evalParseFormat(pf, pc.param)
			if perr != "" {
				r.Undec("R18e", "format parameter "+label, pos, perr)
				continue
			}
			got[label] = g
			if g != pc.want {
				bad = append(bad, fmt.Sprintf("%q → %s (documented: %s)", label, g, pc.want))
			}
		}
		c.W.Concrete, c.W.ExternStructs = false, false
		r.Check(len(bad) == 0 && len(got) == len(cases), "R18e", "format parameter: json→JSON, yaml|yml→YAML, default YAML", pos,
			fmt.Sprintf("parseFormat evaluated on concrete plugin parameters: %s", strings.Join(bad, "; ")))
	} else {
		r.Unres("R18e", "parseFormat", "", "not found in "+cmdOpenAPI)
	}
}

// evalParseFormat interprets the OpenAPI plugin's parseFormat on a concrete plugin parameter (nil: no parameter). The walker
// must be in concrete mode with external structs.
func (c *Ctx) evalParseFormat(pf *types.Func, param *string) (string, string) {
	var pv Val = VNil{}
	gp := constStr("")
	if param != nil {
		pv, gp = constStr(*param), constStr(*param)
	}
	req := cstruct("CodeGeneratorRequest", map[string]Val{"Parameter": pv, "GetParameter()": gp})
	run := c.W.NewRun(map[string]int{}, false)
	run.InlineAll, run.FollowSlices = true, true
	run.CallHook = c.cdescHook
	run.StartArgs(pf, map[string]Val{"req": req})
	if len(run.Used) > 0 || run.Aborted != "" {
		return "", fmt.Sprintf("parseFormat does not evaluate: open decisions %v aborted %q", usedKeys(run), run.Aborted)
	}
	return valText(run.Result), ""
}

// c18OperationParameters — R18h. processMethod is interpreted on a concrete method whose path has two variables and whose
// service declares a header NAMED LIKE one of them (and a query field named like another header): the evaluated
// operation.Parameters must contain one entry per (location, name) — in particular a path parameter for every template
// variable. A de-duplication keyed by the name alone drops the path parameter that shares its name with a header.
func c18OperationParameters(c *Ctx, rid ...string) {
	r := c.R
	rule := "R18h"
	if len(rid) > 0 {
		rule = rid[0]
	}
	r.Rule(rule, "an operation declares one parameter per (location, name): a header, a path variable and a query field may share a name without displacing each other", 1)
	f := c.P.Func(pkgOpenAPI, "Generator.processMethod")
	if f == nil {
		r.Unres(rule, "processMethod", "", "not found")
		return
	}
	pos := c.P.Pos(c.P.Decls[f].Pos())
	prevC, prevE := c.W.Concrete, c.W.ExternStructs
	c.W.Concrete, c.W.ExternStructs = true, true
	defer func() { c.W.Concrete, c.W.ExternStructs = prevC, prevE }()
	in := cMessage("ZqInput", fld("region", "string"), fld("cluster", "string"), fld("trace", "string"))
	in.Fields["@GetQueryParams"] = cQueryParams([2]string{"trace", "trace"})
	meth := cMethod("ListClusters", in, cMessage("ZqOutput", fld("v", "string")), map[string]Val{
		"@GetMethodHTTPConfig": cHTTPConfig("/regions/{region}/clusters/{cluster}", "GET"),
		"@GetMethodHeaders":    VList{Key: "mh", Elems: []Val{cHeader("trace", "string", "", false)}},
	})
	meth.Fields["Comments"] = cstruct("CommentSet", map[string]Val{"Leading": constStr("")})
	svc := cService("Clusters", meth)
	svc.Fields["@GetServiceHeaders"] = VList{Key: "sh", Elems: []Val{cHeader("region", "string", "", true)}}
	svc.Fields["@GetServiceBasePath"] = constStr("")
	g := cstruct("Generator", map[string]Val{"schemas": &VStruct{Name: "omap", Fields: map[string]Val{}},
		"doc": cstruct("Document", map[string]Val{"Paths": cstruct("Paths", map[string]Val{"PathItems": &VStruct{Name: "omap", Fields: map[string]Val{}}})})})
	run := c.W.NewRun(map[string]int{}, false)
	run.InlineAll, run.FollowSlices = true, true
	run.CallHook = c.xHookT
	run.StartArgs(f, map[string]Val{"g": g, "service": svc, "method": meth})
	if run.Aborted != "" || len(run.Used) > 0 {
		r.Undec(rule, "parameters of a concrete operation", pos, fmt.Sprintf("processMethod does not evaluate: open decisions %v aborted %q", usedKeys(run), run.Aborted))
		return
	}
	var params Val
	for _, a := range run.Assigned {
		if a.Sel == "Parameters" {
			params = a.Val
		}
	}
	l, ok := params.(VList)
	if !ok || l.Elems == nil {
		r.Undec(rule, "parameters of a concrete operation", pos, fmt.Sprintf("operation.Parameters is not a decidable list (%T)", params))
		return
	}
	got := map[string]int{}
	for _, e := range l.Elems {
		st, ok := e.(*VStruct)
		if !ok {
			r.Undec(rule, "parameters of a concrete operation", pos, "a parameter is not a structured value: "+e.key())
			return
		}
		got[valText(st.Fields["In"])+":"+valText(st.Fields["Name"])]++
	}
	want := []string{"header:region", "header:trace", "path:cluster", "path:region", "query:trace"}
	var missing, dup []string
	for _, w := range want {
		if got[w] == 0 {
			missing = append(missing, w)
		}
		if got[w] > 1 {
			dup = append(dup, w)
		}
	}
	r.CheckD(len(missing) == 0 && len(dup) == 0, rule, "GET /regions/{region}/clusters/{cluster} with header `region`, header `trace` and query field `trace`: one parameter per (location, name)", pos,
		fmt.Sprintf("the evaluated operation declares %v: missing %v, repeated %v — a template variable without a path parameter (or a parameter declared twice) makes the document invalid", sortedKeys(got), missing, dup), map[string]any{"parameters": sortedKeys(got)})
}

func init() { props["C18"] = checkC18 }

// c18FileName: the name of a service's document is built from the service name and the format's extension alone.
func c18FileName(c *Ctx, rid string) {
	r := c.R
	mainDecls := c.oaDecls(cmdOpenAPI)
	// file name: a Sprintf of "%s.openapi.%s" with the service name and an extension local; in the function that holds it
	// the extension local is "json" under a test of the JSON format (the function is found by this shape, not by name)
	{
		okName, okExt := false, false
		var where *ast.FuncDecl
		for mfn, decl := range mainDecls {
			if decl.Body == nil {
				continue
			}
			fnDecl := decl
			minfo := c.P.DeclPkg[mfn].TypesInfo
			var extObj types.Object
			ast.Inspect(fnDecl.Body, func(n ast.Node) bool {
				e, ok := n.(ast.Expr)
				if !ok {
					return true
				}
				// Sprintf("%s.openapi.%s", name, ext) or name + ".openapi." + ext: the same three parts
				parts := concatParts(minfo, e)
				if len(parts) == 3 && parts[1].konst == ".openapi." && parts[0].expr != nil && parts[2].expr != nil &&
					strings.Contains(types.ExprString(parts[0].expr), ".Desc.Name()") {
					if id, ok := ast.Unparen(parts[2].expr).(*ast.Ident); ok {
						okName = true
						where = fnDecl
						extObj = minfo.ObjectOf(id)
						return false
					}
				}
				return true
			})
			if extObj == nil {
				continue
			}
			ast.Inspect(fnDecl.Body, func(n ast.Node) bool {
				var body []ast.Stmt
				cond := ""
				switch x := n.(type) {
				case *ast.IfStmt:
					body, cond = x.Body.List, types.ExprString(x.Cond)
				case *ast.CaseClause:
					body = x.Body
					for _, e := range x.List {
						cond += types.ExprString(e) + " "
					}
				default:
					return true
				}
				if !strings.Contains(cond, "FormatJSON") {
					return true
				}
				for _, st := range body {
					if as, ok := st.(*ast.AssignStmt); ok && len(as.Lhs) == 1 && len(as.Rhs) == 1 {
						if id, ok := as.Lhs[0].(*ast.Ident); ok && minfo.ObjectOf(id) == extObj {
							if tv, ok := minfo.Types[as.Rhs[0]]; ok && tv.Value != nil && tv.Value.ExactString() == `"json"` {
								okExt = true
							}
						}
					}
				}
				return true
			})
		}
		pos := ""
		if where != nil {
			pos = c.P.Pos(where.Pos())
		}
		r.Check(okName && okExt, rid, "file name is <Service>.openapi.<ext> with the extension of the format", pos,
			fmt.Sprintf("output file name: built from the service name and an extension local=%v, the extension is \"json\" under the JSON format=%v", okName, okExt))
	}
}

func reachesServicesLoop(c *Ctx, info *types.Info, n ast.Node, seen map[*types.Func]bool) bool {
	hit := false
	ast.Inspect(n, func(m ast.Node) bool {
		if hit {
			return false
		}
		switch x := m.(type) {
		case *ast.RangeStmt:
			if strings.HasSuffix(types.ExprString(x.X), ".Services") {
				hit = true
			}
		case *ast.CallExpr:
			if cal := Callee(info, x); cal != nil && cal.Pkg() != nil && strings.HasSuffix(cal.Pkg().Path(), cmdOpenAPI) && !seen[cal] {
				seen[cal] = true
				if d := c.P.Decls[cal]; d != nil && d.Body != nil && reachesServicesLoop(c, c.P.DeclPkg[cal].TypesInfo, d.Body, seen) {
					hit = true
				}
			}
		}
		return true
	})
	return hit
}

// c18PathKeys — R18i. OpenAPI 3.1: every key of the Paths Object begins with "/". The key the generator computes for an
// operation is observed (extractMethodHTTPInfo interpreted on concrete service/method configurations) for base paths and
// method paths with and without slashes, empty ones included.
func c18PathKeys(c *Ctx, rid string) {
	r := c.R
	for _, b := range []string{"", "/zqb", "zqb", "/zqb/"} {
		for _, p := range []string{"/zqp", "zqp/{id}", "zqp", "/", ""} {
			sc := c03Scenario{Base: b, Cfg: &c03Cfg{Path: p, Method: "GET"}}
			_, op, _, opos, oerr := c.observeOpenAPI(sc)
			key := fmt.Sprintf("paths key for base_path %q, path %q begins with /", b, p)
			if oerr != "" {
				r.Undec(rid, key, opos, oerr)
				continue
			}
			r.Check(strings.HasPrefix(op, "/"), rid, key, opos,
				fmt.Sprintf("the operation of a method with path %q under base path %q is filed under the paths key %q, which does not begin with a slash: the document is not a valid OpenAPI 3.1 description (and the key is not the route the servers register)", p, b, op))
		}
	}
}

type concatPart struct {
	konst string
	expr  ast.Expr
}

// concatParts splits a string-building expression into its constant and variable parts: a + b + c chains, string(x)
// conversions and fmt.Sprintf with %s / %v verbs only. Adjacent constants are merged. nil when e is neither.
func concatParts(info *types.Info, e ast.Expr) []concatPart {
	var out []concatPart
	add := func(p concatPart) {
		if p.expr == nil && len(out) > 0 && out[len(out)-1].expr == nil {
			out[len(out)-1].konst += p.konst
			return
		}
		if p.expr == nil && p.konst == "" {
			return
		}
		out = append(out, p)
	}
	var walk func(e ast.Expr) bool
	walk = func(e ast.Expr) bool {
		e = ast.Unparen(e)
		if tv, ok := info.Types[e]; ok && tv.Value != nil && tv.Value.Kind() == constant.String {
			add(concatPart{konst: constant.StringVal(tv.Value)})
			return true
		}
		switch x := e.(type) {
		case *ast.BinaryExpr:
			if x.Op == token.ADD {
				return walk(x.X) && walk(x.Y)
			}
		case *ast.CallExpr:
			if tv, ok := info.Types[x.Fun]; ok && tv.IsType() && len(x.Args) == 1 {
				if b, ok := tv.Type.Underlying().(*types.Basic); ok && b.Info()&types.IsString != 0 {
					add(concatPart{expr: x.Args[0]})
					return true
				}
			}
			if cal := Callee(info, x); cal != nil && cal.Pkg() != nil && cal.Pkg().Path() == "fmt" && cal.Name() == "Sprintf" && len(x.Args) >= 1 {
				tv, ok := info.Types[x.Args[0]]
				if !ok || tv.Value == nil || tv.Value.Kind() != constant.String {
					return false
				}
				f := constant.StringVal(tv.Value)
				arg := 1
				for len(f) > 0 {
					i := strings.IndexByte(f, '%')
					if i < 0 {
						add(concatPart{konst: f})
						break
					}
					add(concatPart{konst: f[:i]})
					if i+1 >= len(f) {
						return false
					}
					switch f[i+1] {
					case 's', 'v':
						if arg >= len(x.Args) {
							return false
						}
						add(concatPart{expr: x.Args[arg]})
						arg++
					case '%':
						add(concatPart{konst: "%"})
					default:
						return false
					}
					f = f[i+2:]
				}
				return arg == len(x.Args)
			}
		}
		add(concatPart{expr: e})
		return true
	}
	switch x := ast.Unparen(e).(type) {
	case *ast.BinaryExpr:
		if x.Op != token.ADD {
			return nil
		}
	case *ast.CallExpr:
		if cal := Callee(info, x); cal == nil || cal.Name() != "Sprintf" {
			return nil
		}
	default:
		return nil
	}
	if !walk(e) {
		return nil
	}
	return out
}

// c18NoSharedDocumentState — R18k. One generator (and one document) is built per service. A package-level variable of the
// OpenAPI generator or its plugin main whose type is, points to, or contains a libopenapi model value (v3.Document, Paths,
// Info, Schema, an ordered map …) is document state that outlives a service: a shallow copy of it (`doc := skeleton`) shares
// its pointers, so the operations of one service show up in the documents of all later ones.
func c18NoSharedDocumentState(c *Ctx, rid string) {
	r := c.R
	n := 0
	var holds func(t types.Type, depth int) string
	holds = func(t types.Type, depth int) string {
		if depth > 3 {
			return ""
		}
		switch u := t.(type) {
		case *types.Pointer:
			return holds(u.Elem(), depth+1)
		case *types.Slice:
			return holds(u.Elem(), depth+1)
		case *types.Array:
			return holds(u.Elem(), depth+1)
		case *types.Map:
			if s := holds(u.Key(), depth+1); s != "" {
				return s
			}
			return holds(u.Elem(), depth+1)
		case *types.Alias:
			return holds(types.Unalias(u), depth)
		case *types.Named:
			if o := u.Obj(); o != nil && o.Pkg() != nil && (strings.HasPrefix(o.Pkg().Path(), "github.com/pb33f/libopenapi") || strings.HasPrefix(o.Pkg().Path(), "go.yaml.in/yaml")) {
				if _, isStruct := u.Underlying().(*types.Struct); isStruct {
					return o.Pkg().Name() + "." + o.Name()
				}
			}
			if st, ok := u.Underlying().(*types.Struct); ok && u.Obj().Pkg() != nil && strings.Contains(u.Obj().Pkg().Path(), modPath) {
				for i := 0; i < st.NumFields(); i++ {
					if s := holds(st.Field(i).Type(), depth+1); s != "" {
						return s
					}
				}
			}
		}
		return ""
	}
	for _, rel := range []string{pkgOpenAPI, cmdOpenAPI} {
		pk := c.P.Pkg(rel)
		if pk == nil {
			r.Unres(rid, rel, "", "package not loaded")
			continue
		}
		for _, f := range pk.Syntax {
			if strings.HasSuffix(c.P.Pos(f.Pos()), "_test.go") || strings.Contains(c.P.Pos(f.Pos()), "_test.go:") {
				continue
			}
			for _, d := range f.Decls {
				gd, ok := d.(*ast.GenDecl)
				if !ok || gd.Tok != token.VAR {
					continue
				}
				for _, sp := range gd.Specs {
					for _, nm := range sp.(*ast.ValueSpec).Names {
						o := pk.TypesInfo.Defs[nm]
						if o == nil || nm.Name == "_" {
							continue
						}
						n++
						what := holds(o.Type(), 0)
						r.Check(what == "", rid, fmt.Sprintf("%s: package-level variable %s holds no document model value", pkgShort(rel), nm.Name), c.P.Pos(nm.Pos()),
							fmt.Sprintf("%s keeps a %s in the package-level variable %s: the plugin builds one generator per service in one process, and whatever is reached through that variable (paths, info, schemas) is shared by all their documents — the second service's document also contains the first one's operations", pkgShort(rel), what, nm.Name))
					}
				}
			}
		}
	}
	r.OKd(rid, "package-level variables of the OpenAPI generator and its main inspected", "", map[string]any{"variables": n})
}
