#!/usr/bin/env python3
"""bin/seedprompt.py <prop> <round> — prints the prompt given to a fresh sub-agent that is asked for
two property-breaking changes. Contains only the property text, sandbox practicalities and one-line
descriptions of what earlier rounds already tried (so that it looks elsewhere); nothing about /verif's checks."""
import json,sys,os,glob
prop,rnd=sys.argv[1],sys.argv[2]
here=os.path.dirname(os.path.dirname(os.path.abspath(__file__)))
p=[json.loads(l) for l in open(here+'/properties.jsonl') if json.loads(l)['id']==prop][0]
prev=[]
for d in sorted(glob.glob(here+'/seeded/%s-*'%prop)):
    try: prev.append('- '+json.load(open(d+'/meta.json')).get('summary','')[:260].replace('\n',' '))
    except Exception: pass
wt='/tmp/seed/wt-%s-%s'%(prop,rnd); out='/tmp/seed/out-%s-%s'%(prop,rnd)
print(f"""You are helping to test a verification effort for the open-source project SebastienMelki/sebuf (protoc plugins that generate Go/TypeScript HTTP servers, clients, JSON codecs and OpenAPI documents from annotated protobuf services). Your job: produce TWO independent, realistic source changes to sebuf, each of which BREAKS the property below while the repository still compiles and its existing test suite still passes exactly as before — the kind of regression a maintainer could introduce by a plausible refactoring, 'simplification', optimisation or copy-paste slip, and that code review and the tests would not notice.

## Property {p['id']}: {p['title']}

{p['statement']}

Quantified over: {p['quantifier']['text']}

Code the property is anchored in: {json.dumps(p['anchors'],indent=1)}

## What kind of change
Each change must need something SPECIFIC to manifest — a particular combination of schema features (two annotations together, nested/imported/recursive messages, the second of two services or methods, optional/oneof/map/repeated members, rare scalar kinds), a multi-step sequence of calls, an unusual but legal input or boundary value, a particular interleaving, or two cooperating sites that each look fine alone. NOT something ordinary use would expose at once (don't just delete a feature). Keep it small (a few lines), natural-looking, and make the two changes different in kind from each other and touch different code.

Earlier rounds already produced the following changes for this property; yours must be DIFFERENT in kind and place from all of them (look at code paths and helper functions they did not touch, at the interplay of two generators, at emitted runtime helpers, at order/number of things, at defaulting/fallback arms, at error paths):
{chr(10).join(prev) if prev else '- (none)'}

## Working rules
- Work ONLY in your own scratch git worktree. Create it with: `mkdir -p /tmp/seed && git -C /repo worktree add --detach {wt} HEAD`. Never modify /repo itself, never commit anything, and do not read or touch /verif (it is off limits; what you write must be independent of it).
- Every shell call needs: `export PATH=/opt/veriftools/go1.26.8/bin:$PATH GOTOOLCHAIN=local GOFLAGS=-mod=mod GOPROXY=off GOSUMDB=off GOWORK=off` (no network; the default `go` cannot load the repo). There is no `protoc`. The existing suite is `go test -vet=off -count=1 ./...` in the worktree; 131 protoc-dependent tests in internal/openapiv3 fail on the unchanged tree too — what matters is that the set of passing/failing/skipped tests is IDENTICAL with and without your change (compare `go test -json` events per test). `go build ./...` must succeed.
- A demonstration for each change: a Go test file or small program that FAILS (non-zero exit) with your change applied and PASSES (exit 0) on the unchanged tree. Since protoc is absent, build FileDescriptorProtos by hand (descriptorpb, extensions from github.com/SebastienMelki/sebuf/http set with proto.SetExtension), turn them into a pluginpb.CodeGeneratorRequest, and drive the generators in-process (`protogen.Options{{}}.New(req)` then e.g. `httpgen.New(plugin).Generate()`, `clientgen`, `tsclientgen`, `tsservergen`, `openapiv3`); protoc-gen-go's generator is importable as `google.golang.org/protobuf/cmd/protoc-gen-go/internal_gengo` from a test placed inside the module. If the property is about behaviour of generated Go code, write the generated files into a scratch package under the worktree's `internal/` (removed afterwards), compile and RUN them (`buf.build/go/protovalidate` is not available offline: point that import at a small local stub package). If it is about generated TypeScript, `node` 20 is available (no tsc): strip types or check text precisely. If it is about OpenAPI output, parse the YAML/JSON (gopkg.in/yaml / libopenapi are in the module cache as dependencies of the repo). The demonstration must observe the BEHAVIOUR the property talks about, not merely grep the generator's source.
- Deliver into {out}/ : `mutant1.diff`, `mutant2.diff` (each `git diff` against HEAD of the worktree, applying cleanly with `git apply` on a fresh checkout, each independent of the other); `demo1/run.sh`, `demo2/run.sh` (usage `run.sh <repo-root>`: installs its files into that tree, runs, removes every file it added, exits 0 iff the property held) plus whatever files they need inside `demo1/`, `demo2/`; `meta1.json`, `meta2.json` with keys `property` ("{prop}"), `summary` (which file/function changed and what the change does to behaviour), `needs_to_manifest` (the specific schema/input/sequence required), `files_changed`, `demo_cmd`, `demo_result` (what you observed with and without), `suite_cmd`, `suite_result`.
- Verify everything yourself before finishing: for each change — applies on a clean worktree, `go build ./...` ok, suite pass/fail/skip set identical to the unchanged tree, demo fails with it and passes without it. Leave the worktree clean (git checkout -- . && git clean -fd) at the end; do not remove it.
- Final answer: a few lines per change (file, function, what breaks, what is needed to manifest), nothing else.""")
