package main

// walk.go — E1: emission reconstruction.
//
// The generators print code only through (*protogen.GeneratedFile).P and the
// printf-style Printer closures that wrap it. This file rebuilds what they can
// print from the generator's *syntax tree*: string constants are propagated,
// descriptor-derived values stay symbolic ("holes" with a provenance key), and
// every branch whose guard depends on a descriptor becomes a named decision of
// the emission grammar (a boolean guard, a list length in {0,1,2}, or "which of
// the constants it is compared with does this value equal"). One word of that
// grammar — a Variant — is obtained by fixing the decisions. Nothing in /repo is
// compiled or executed.

import (
	"fmt"
	"go/ast"
	"go/constant"
	"go/token"
	"go/types"
	pathpkg "path"
	"regexp"
	"sort"
	"strconv"
	"strings"

	"golang.org/x/tools/go/packages"
)

// ---------------------------------------------------------------- values

type Val interface{ key() string }

type Hole struct {
	Key     string
	Typ     types.Type
	Quoted  bool // passed through %q / strconv.Quote
	GoIdent bool
}

type Seg struct {
	Const string
	Hole  *Hole
}

type VStr struct{ Segs []Seg }
type VInt struct {
	N     int64
	Label string
}
type VBool struct{ B bool }
type VNil struct{}
type VSym struct {
	Key string
	Typ types.Type
}
type VStruct struct {
	Name   string
	Fields map[string]Val
	id     int
	// Concrete: a value with identity (scenario descriptors, maps, errors): comparable by key
	Concrete bool
	// Keys: for Name == "map", the key values in insertion order
	Keys []Val
	// Open: for a map modelled outside concrete mode, a store under a key that is not a constant happened: from then on
	// nothing is known about its contents
	Open bool
}

// constKey: is v a value whose identity as a map key is fully known (constant string, integer, boolean)?
func constKey(v Val) bool {
	switch x := v.(type) {
	case VStr:
		_, ok := x.isConst()
		return ok
	case VInt, VBool:
		return true
	}
	return false
}
type VFunc struct {
	Lit  *ast.FuncLit
	Env  *Env
	Pkg  *packages.Package
	Decl *types.Func
	Recv Val
}
type VGF struct{ Unit *Unit }
type VList struct {
	Key   string
	Elems []Val
}
type VTuple []Val

// VRef: &local (concrete mode): a reference to a variable cell, so that out-parameters
// (collect(msgs, &contexts)) update the caller's variable.
type VRef struct {
	Cell *Val
	Name string
}

func (v VRef) key() string { return "&" + v.Name }

func (v VStr) key() string {
	var b strings.Builder
	for _, s := range v.Segs {
		if s.Hole != nil {
			b.WriteString("${" + s.Hole.Key + "}")
		} else {
			b.WriteString(s.Const)
		}
	}
	return strconv.Quote(b.String())
}
func (v VInt) key() string {
	if v.Label != "" {
		return v.Label
	}
	return strconv.FormatInt(v.N, 10)
}
func (v VBool) key() string    { return strconv.FormatBool(v.B) }
func (v VNil) key() string     { return "nil" }
func (v VSym) key() string     { return v.Key }
func (v *VStruct) key() string { return fmt.Sprintf("%s#%d", v.Name, v.id) }
func (v *VFunc) key() string   { return "func" }
func (v VGF) key() string      { return "gf" }
func (v VList) key() string    { return v.Key }
func (v VTuple) key() string   { return "tuple" }

func constStr(s string) VStr { return VStr{Segs: []Seg{{Const: s}}} }

func (v VStr) isConst() (string, bool) {
	var b strings.Builder
	for _, s := range v.Segs {
		if s.Hole != nil {
			return "", false
		}
		b.WriteString(s.Const)
	}
	return b.String(), true
}

// ---------------------------------------------------------------- env

type Env struct {
	vars   map[types.Object]*Val
	parent *Env
}

func newEnv(parent *Env) *Env { return &Env{vars: map[types.Object]*Val{}, parent: parent} }

func (e *Env) lookup(o types.Object) *Val {
	for s := e; s != nil; s = s.parent {
		if c, ok := s.vars[o]; ok {
			return c
		}
	}
	return nil
}
func (e *Env) define(o types.Object, v Val) {
	if o == nil {
		return
	}
	vv := v
	e.vars[o] = &vv
}
func (e *Env) set(o types.Object, v Val) {
	if c := e.lookup(o); c != nil {
		*c = v
		return
	}
	e.define(o, v)
}

// ---------------------------------------------------------------- output

type EmLine struct {
	Segs []Seg
	Pos  token.Pos   // position of the sink call in the generator
	Fn   *types.Func // generator function containing the sink call
}

type Unit struct {
	Name  VStr // file-name expression
	Lines []EmLine
	Pos   token.Pos
}

// ---------------------------------------------------------------- decisions

type DecKind int

const (
	DecBool DecKind = iota
	DecCount
	DecValue
)

type DecUse struct {
	Key    string // erased key
	Kind   DecKind
	Arity  int
	Chosen int
	Pos    token.Pos
}

// noOtherKeys: context fields whose value is, by construction of the collector
// that fills them, one of the constants the emitter switches over
// (TimestampFormatFieldInfo.Format, BytesEncodingFieldInfo.Encoding: only
// non-default formats/encodings are collected).
var noOtherKeys = regexp.MustCompile(`\.(Format|Encoding)$`)

var iterRe = regexp.MustCompile(`@\d+`)

func eraseIters(k string) string { return iterRe.ReplaceAllString(k, "@") }

func iterSum(k string) int {
	s := 0
	for _, m := range iterRe.FindAllString(k, -1) {
		n, _ := strconv.Atoi(m[1:])
		s += n
	}
	return s
}

// Walker holds what is shared between all runs of one exploration.
type Walker struct {
	P *Prog
	// constant tables: package-level variables initialised with a composite literal and never written
	tableInits map[*types.Var]ast.Expr
	varInits   map[*types.Var]ast.Expr
	varInitPkg map[*types.Var]*packages.Package
	tableInfos map[*types.Var]*packages.Package
	// emitter[f] — f (transitively) reaches a sink.
	emitter map[*types.Func]bool
	// Domains: for a value decision key, the constants it was compared with
	// (append-only, in discovery order; arm 0 means "none of them").
	domains map[string][]string
	// Statistics.
	InlinedHelpers map[string]int
	OpaqueHelpers  map[string]bool // repository functions with a body that were not followed: their results are opaque holes
	optMemo        map[*types.Func]bool
	// InlineAllRuns makes every new run follow all generator-package functions
	// (so that conditions computed by helper loops, e.g. "does this file need
	// net/url", are correlated with the emitters' own decisions).
	InlineAllRuns bool
	// FollowAnnHelpers: in symbolic runs, also interpret internal/annotations functions that do not read
	// proto options themselves (helpers composed of base accessors)
	FollowAnnHelpers bool
	// FixRuns answers decisions of every new run (invariants of the input space).
	FixRuns func(dk, constRepr string) (int, bool)
	// Concrete: scenario mode — maps, errors and nil-slices are modelled as concrete values.
	Concrete bool
	// ConcatLists: append(a, b...) of decidable lists is modelled element-wise.
	ConcatLists bool
	// ExternStructs: composite literals of library struct types become structured values too.
	ExternStructs bool
	// HookRuns is the CallHook of every new run.
	HookRuns func(fn *types.Func, recv Val, args []Val) (Val, bool)
	MaxDepth int
	RecLimit int
}

type ctl int

const (
	ctlNone ctl = iota
	ctlReturn
	ctlBreak
	ctlContinue
)

// Run is one word of the emission grammar.
type Run struct {
	W         *Walker
	Dec       map[string]int // erased key -> arm (absent = 0)
	Rotate    bool
	Used      []DecUse
	usedIdx   map[string]int
	Units     []*Unit
	Aborted   string   // non-empty: generation ends in an error on this path (no output)
	Problems  []string // constructs outside the modelled vocabulary
	Trunc     int      // recursive emitter calls cut at the recursion limit
	stack     []*types.Func
	rets      []Val
	fuel      int
	structID  int
	pkgStack  []*packages.Package
	tables    map[*types.Var]Val
	fnStack   []*types.Func
	sigStack  []*types.Signature
	litPos    []token.Pos // call sites of Printer closures being expanded
	startArgs map[string]Val
	// Fix answers decisions from outside (E5: a field shape); ok=false leaves
	// the decision to the exploration. dk is "b:<key>", "v:<key>" or "n:<key>".
	Fix func(dk string, constRepr string) (ans int, ok bool)
	// Result of the root function (Start).
	Result Val
	// AmbientPrinter: calls of a symbolic Printer parameter emit into an ambient unit.
	AmbientPrinter bool
	// CallHook lets a check model library calls (constructor identities etc.).
	CallHook func(fn *types.Func, recv Val, args []Val) (Val, bool)
	// Inject replaces symbolic values (by provenance key) with given values.
	Inject map[string]Val
	// FollowSlices: also follow helpers that build and return a slice (conflict detectors).
	FollowSlices bool
	// Assigned records assignments to fields (x.F = v) in execution order.
	Assigned []FieldAssign
	// InlineAll: follow every repository function with a body (validation
	// walks); annotation accessors without an error result stay symbolic.
	InlineAll bool
}

func NewWalker(p *Prog) *Walker {
	w := &Walker{P: p, emitter: map[*types.Func]bool{}, domains: map[string][]string{},
		InlinedHelpers: map[string]int{}, OpaqueHelpers: map[string]bool{}, MaxDepth: 40, RecLimit: 1, ConcatLists: true}
	w.computeEmitters()
	return w
}

func isGeneratedFileP(f *types.Func) bool {
	if f == nil || f.Pkg() == nil || f.Pkg().Path() != "google.golang.org/protobuf/compiler/protogen" {
		return false
	}
	sig := f.Type().(*types.Signature)
	return f.Name() == "P" && sig.Recv() != nil && typeIsNamed(sig.Recv().Type(), "compiler/protogen", "GeneratedFile")
}

func isPrinterType(t types.Type) bool {
	if t == nil {
		return false
	}
	sig, ok := t.Underlying().(*types.Signature)
	if !ok || !sig.Variadic() || sig.Params().Len() != 2 || sig.Results().Len() != 0 {
		return false
	}
	b, ok := sig.Params().At(0).Type().Underlying().(*types.Basic)
	return ok && b.Kind() == types.String
}

func (w *Walker) computeEmitters() {
	direct := map[*types.Func]bool{}
	calls := map[*types.Func][]*types.Func{}
	for fn, decl := range w.P.Decls {
		if decl.Body == nil {
			continue
		}
		info := w.P.DeclPkg[fn].TypesInfo
		ast.Inspect(decl.Body, func(n ast.Node) bool {
			call, ok := n.(*ast.CallExpr)
			if !ok {
				return true
			}
			if c := Callee(info, call); c != nil {
				if isGeneratedFileP(c) {
					direct[fn] = true
				} else if _, ok := w.P.Decls[c]; ok {
					calls[fn] = append(calls[fn], c)
				}
				return true
			}
			// call of a func-typed value with the Printer shape
			if tv, ok := info.Types[call.Fun]; ok && !tv.IsType() && isPrinterType(tv.Type) {
				direct[fn] = true
			}
			return true
		})
	}
	for f := range direct {
		w.emitter[f] = true
	}
	for changed := true; changed; {
		changed = false
		for f, cs := range calls {
			if w.emitter[f] {
				continue
			}
			for _, c := range cs {
				if w.emitter[c] {
					w.emitter[f] = true
					changed = true
					break
				}
			}
		}
	}
}

func (w *Walker) IsEmitter(f *types.Func) bool { return w.emitter[f] }

// readsOptions: fn (transitively, within the repository) reads descriptor
// options: calls proto.GetExtension / proto.HasExtension or a method Options().
func (w *Walker) readsOptions(fn *types.Func) bool {
	if w.optMemo == nil {
		w.optMemo = map[*types.Func]bool{}
	}
	if v, ok := w.optMemo[fn]; ok {
		return v
	}
	w.optMemo[fn] = false
	res := false
	if decl := w.P.Decls[fn]; decl != nil && decl.Body != nil {
		info := w.P.DeclPkg[fn].TypesInfo
		ast.Inspect(decl.Body, func(n ast.Node) bool {
			if call, ok := n.(*ast.CallExpr); ok {
				if c := Callee(info, call); c != nil {
					if c.Name() == "Options" || ((c.Name() == "GetExtension" || c.Name() == "HasExtension") && c.Pkg() != nil && strings.HasSuffix(c.Pkg().Path(), "protobuf/proto")) {
						res = true
					} else if w.P.Decls[c] != nil && w.readsOptions(c) {
						res = true
					}
				}
			}
			return !res
		})
	}
	w.optMemo[fn] = res
	return res
}

// ---------------------------------------------------------------- run

func (w *Walker) NewRun(dec map[string]int, rotate bool) *Run {
	if dec == nil {
		dec = map[string]int{}
	}
	return &Run{W: w, Dec: dec, Rotate: rotate, usedIdx: map[string]int{}, fuel: 400000, InlineAll: w.InlineAllRuns, Fix: w.FixRuns, CallHook: w.HookRuns}
}

func (r *Run) problem(pos token.Pos, format string, a ...any) {
	msg := fmt.Sprintf("%s: %s", r.W.P.Pos(pos), fmt.Sprintf(format, a...))
	for _, p := range r.Problems {
		if p == msg {
			return
		}
	}
	r.Problems = append(r.Problems, msg)
}

func (r *Run) info() *types.Info { return r.pkgStack[len(r.pkgStack)-1].TypesInfo }

func (r *Run) curFn() *types.Func {
	if len(r.fnStack) == 0 {
		return nil
	}
	return r.fnStack[len(r.fnStack)-1]
}

func (r *Run) decide(key string, kind DecKind, arity int, pos token.Pos) int {
	ek := eraseIters(key)
	base := r.Dec[ek]
	chosen := base
	if r.Rotate {
		chosen = (base + iterSum(key)) % arity
	}
	if chosen >= arity {
		chosen = 0
	}
	if i, ok := r.usedIdx[ek]; ok {
		if arity > r.Used[i].Arity {
			r.Used[i].Arity = arity
		}
	} else {
		r.usedIdx[ek] = len(r.Used)
		r.Used = append(r.Used, DecUse{Key: ek, Kind: kind, Arity: arity, Chosen: base, Pos: pos})
	}
	return chosen
}

// decideBool: arm 0 is def, arm 1 is !def.
func (r *Run) decideBool(key string, def bool, pos token.Pos) bool {
	if r.Fix != nil {
		if a, ok := r.Fix("b:"+key, ""); ok {
			return a != 0
		}
	}
	c := r.decide("b:"+key, DecBool, 2, pos)
	if c == 0 {
		return def
	}
	return !def
}

var countArms = []int{1, 0, 2}

func (r *Run) decideCount(key string, pos token.Pos) int {
	if r.Fix != nil {
		if a, ok := r.Fix("n:"+key, ""); ok {
			return a
		}
	}
	return countArms[r.decide("n:"+key, DecCount, 3, pos)]
}

// valueOf returns the constant (by representation) the symbolic value is
// taken to equal on this run, or "" for "none of the constants it is compared with".
func (r *Run) valueIs(key, constRepr string, pos token.Pos) bool {
	if r.Fix != nil {
		if a, ok := r.Fix("v:"+key, constRepr); ok {
			return a != 0
		}
	}
	ek := eraseIters(key)
	dom := r.W.domains[ek]
	found := false
	for _, d := range dom {
		if d == constRepr {
			found = true
		}
	}
	if !found {
		dom = append(dom, constRepr)
		r.W.domains[ek] = dom
	}
	c := r.decide("v:"+key, DecValue, len(dom)+1, pos)
	if c == 0 && noOtherKeys.MatchString(ek) {
		c = 1 // the collector only records fields whose value is one of the handled constants
	}
	if c == 0 || c > len(dom) {
		return false
	}
	return dom[c-1] == constRepr
}

type FieldAssign struct {
	Target string
	Sel    string
	Val    Val
	Pos    token.Pos
}

// StartArgs walks fn with the given values for named parameters (others symbolic).
func (r *Run) StartArgs(fn *types.Func, args map[string]Val) {
	r.startArgs = args
	r.Start(fn)
}

// Start walks fn as a unit root with symbolic receiver and parameters.
func (r *Run) Start(fn *types.Func) {
	decl := r.W.P.Decls[fn]
	if decl == nil || decl.Body == nil {
		r.problem(token.NoPos, "no body for %s", FuncName(fn))
		return
	}
	pkg := r.W.P.DeclPkg[fn]
	env := newEnv(nil)
	info := pkg.TypesInfo
	if decl.Recv != nil {
		for _, f := range decl.Recv.List {
			for _, n := range f.Names {
				o := info.Defs[n]
				if v, ok := r.startArgs[n.Name]; ok {
					env.define(o, v)
					continue
				}
				env.define(o, VSym{Key: n.Name, Typ: o.Type()})
			}
		}
	}
	for _, f := range decl.Type.Params.List {
		for _, n := range f.Names {
			o := info.Defs[n]
			if o == nil {
				continue
			}
			if v, ok := r.startArgs[n.Name]; ok {
				env.define(o, v)
				continue
			}
			if v := r.bindStartArgByShape(decl, n.Name, o.Type()); v != nil {
				env.define(o, v)
				continue
			}
			env.define(o, VSym{Key: n.Name, Typ: o.Type()})
		}
	}
	r.Result = r.callBody(fn, fn.Type().(*types.Signature), pkg, decl.Type, decl.Body, env)
}

func (r *Run) callBody(fn *types.Func, sig *types.Signature, pkg *packages.Package, ft *ast.FuncType, body *ast.BlockStmt, env *Env) Val {
	r.pkgStack = append(r.pkgStack, pkg)
	r.sigStack = append(r.sigStack, sig)
	r.fnStack = append(r.fnStack, fn)
	r.stack = append(r.stack, fn)
	// named results
	var named []types.Object
	if ft.Results != nil {
		for _, f := range ft.Results.List {
			for _, n := range f.Names {
				o := pkg.TypesInfo.Defs[n]
				if o != nil {
					env.define(o, r.zero(o.Type()))
					named = append(named, o)
				}
			}
		}
	}
	r.rets = append(r.rets, nil)
	c := r.block(body.List, env)
	ret := r.rets[len(r.rets)-1]
	r.rets = r.rets[:len(r.rets)-1]
	if c == ctlReturn && ret == nil && len(named) > 0 {
		var t VTuple
		for _, o := range named {
			t = append(t, *env.lookup(o))
		}
		if len(t) == 1 {
			ret = t[0]
		} else {
			ret = t
		}
	}
	r.stack = r.stack[:len(r.stack)-1]
	r.sigStack = r.sigStack[:len(r.sigStack)-1]
	r.fnStack = r.fnStack[:len(r.fnStack)-1]
	r.pkgStack = r.pkgStack[:len(r.pkgStack)-1]
	return ret
}

func (r *Run) zero(t types.Type) Val {
	if r.W.Concrete && t.String() == "strings.Builder" {
		r.structID++
		return &VStruct{Name: "builder", Fields: map[string]Val{"buf": constStr("")}, id: r.structID, Concrete: true}
	}
	switch u := t.Underlying().(type) {
	case *types.Basic:
		switch {
		case u.Info()&types.IsString != 0:
			return constStr("")
		case u.Info()&types.IsBoolean != 0:
			return VBool{}
		case u.Info()&types.IsInteger != 0:
			return VInt{}
		}
	case *types.Pointer, *types.Slice, *types.Map, *types.Interface, *types.Signature, *types.Chan:
		return VNil{}
	}
	return VSym{Key: "zero(" + t.String() + ")", Typ: t}
}

func (r *Run) block(stmts []ast.Stmt, env *Env) ctl {
	for _, s := range stmts {
		if c := r.stmt(s, env); c != ctlNone {
			return c
		}
		if r.Aborted != "" {
			return ctlReturn
		}
	}
	return ctlNone
}

func (r *Run) tick(pos token.Pos) bool {
	r.fuel--
	if r.fuel == 0 {
		r.problem(pos, "fuel exhausted (emission does not terminate within the step bound)")
	}
	return r.fuel > 0
}

func (r *Run) stmt(s ast.Stmt, env *Env) ctl {
	if !r.tick(s.Pos()) {
		return ctlReturn
	}
	switch s := s.(type) {
	case *ast.ExprStmt:
		r.eval(s.X, env)
	case *ast.AssignStmt:
		r.assign(s, env)
	case *ast.DeclStmt:
		gd, ok := s.Decl.(*ast.GenDecl)
		if !ok {
			break
		}
		for _, sp := range gd.Specs {
			vs, ok := sp.(*ast.ValueSpec)
			if !ok {
				continue
			}
			for i, n := range vs.Names {
				o := r.info().Defs[n]
				if o == nil {
					continue
				}
				if _, isConst := o.(*types.Const); isConst {
					continue
				}
				if i < len(vs.Values) {
					env.define(o, r.eval(vs.Values[i], env))
				} else {
					env.define(o, r.zero(o.Type()))
				}
			}
		}
	case *ast.BlockStmt:
		return r.block(s.List, newEnv(env))
	case *ast.IfStmt:
		e2 := newEnv(env)
		if s.Init != nil {
			r.stmt(s.Init, e2)
		}
		if r.Aborted != "" {
			return ctlReturn
		}
		if r.cond(s.Cond, e2) {
			return r.block(s.Body.List, newEnv(e2))
		} else if s.Else != nil {
			return r.stmt(s.Else, e2)
		}
	case *ast.RangeStmt:
		return r.rangeStmt(s, env)
	case *ast.ForStmt:
		return r.forStmt(s, env)
	case *ast.SwitchStmt:
		return r.switchStmt(s, env)
	case *ast.TypeSwitchStmt:
		return r.typeSwitch(s, env)
	case *ast.ReturnStmt:
		var vals VTuple
		for _, e := range s.Results {
			vals = append(vals, r.eval(e, env))
		}
		var ret Val
		if len(vals) == 1 {
			ret = vals[0]
			if t, ok := ret.(VTuple); ok {
				vals = t
			}
		} else if len(vals) > 1 {
			ret = vals
		}
		// An emitter that returns a non-nil error ends generation without output.
		if sig := r.sigStack[len(r.sigStack)-1]; sig != nil && len(vals) > 0 {
			if sig.Results().Len() == len(vals) {
				last := sig.Results().At(sig.Results().Len() - 1).Type()
				if isErrorType(last) {
					if _, isNil := vals[len(vals)-1].(VNil); !isNil {
						if sv, ok := vals[len(vals)-1].(VSym); !ok || !strings.HasPrefix(sv.Key, "noerr:") {
							// symbolic walks take every error return as the end of generation (callers propagate);
							// concrete walks carry the error value to the caller, which tests it, and only the
							// root's own error return ends generation
							if _, concreteErr := vals[len(vals)-1].(*VStruct); !(r.W.Concrete && concreteErr && len(r.stack) > 1) {
								r.Aborted = r.W.P.Pos(s.Pos())
							}
						}
					}
				}
			}
		}
		r.rets[len(r.rets)-1] = ret
		return ctlReturn
	case *ast.BranchStmt:
		if s.Label != nil {
			r.problem(s.Pos(), "labelled %s in emitter", s.Tok)
		}
		switch s.Tok {
		case token.BREAK:
			return ctlBreak
		case token.CONTINUE:
			return ctlContinue
		default:
			r.problem(s.Pos(), "unmodelled branch statement %s", s.Tok)
		}
	case *ast.IncDecStmt:
		if id, ok := s.X.(*ast.Ident); ok {
			o := r.info().ObjectOf(id)
			if c := env.lookup(o); c != nil {
				if iv, ok := (*c).(VInt); ok {
					if s.Tok == token.INC {
						*c = VInt{N: iv.N + 1}
					} else {
						*c = VInt{N: iv.N - 1}
					}
				}
			}
		}
	case *ast.DeferStmt, *ast.GoStmt:
		if r.containsSink(s) {
			r.problem(s.Pos(), "sink reached from defer/go statement")
		}
	case *ast.LabeledStmt:
		return r.stmt(s.Stmt, env)
	case *ast.EmptyStmt:
	default:
		if r.containsSink(s) {
			r.problem(s.Pos(), "unmodelled statement %T containing a sink", s)
		}
	}
	return ctlNone
}

func (r *Run) containsSink(n ast.Node) bool {
	found := false
	info := r.info()
	ast.Inspect(n, func(n ast.Node) bool {
		if call, ok := n.(*ast.CallExpr); ok {
			if c := Callee(info, call); c != nil && (isGeneratedFileP(c) || r.W.emitter[c]) {
				found = true
			}
			if tv, ok := info.Types[call.Fun]; ok && !tv.IsType() && isPrinterType(tv.Type) {
				found = true
			}
		}
		return !found
	})
	return found
}

func isErrorType(t types.Type) bool {
	n, ok := t.(*types.Named)
	return ok && n.Obj().Pkg() == nil && n.Obj().Name() == "error"
}

func (r *Run) assign(s *ast.AssignStmt, env *Env) {
	info := r.info()
	var rhs []Val
	if len(s.Rhs) == 1 && len(s.Lhs) > 1 {
		v := r.evalMulti(s.Rhs[0], env, len(s.Lhs))
		rhs = v
	} else {
		for _, e := range s.Rhs {
			rhs = append(rhs, r.eval(e, env))
		}
	}
	for i, l := range s.Lhs {
		if i >= len(rhs) {
			break
		}
		v := rhs[i]
		switch l := ast.Unparen(l).(type) {
		case *ast.Ident:
			if l.Name == "_" {
				continue
			}
			o := info.ObjectOf(l)
			switch s.Tok {
			case token.DEFINE:
				if info.Defs[l] != nil {
					env.define(o, v)
				} else {
					env.set(o, v)
				}
			case token.ASSIGN:
				env.set(o, v)
			case token.ADD_ASSIGN:
				cur := env.lookup(o)
				if cur == nil {
					env.set(o, v)
				} else {
					env.set(o, r.binop(token.ADD, *cur, v, l.Pos(), o.Type()))
				}
			default:
				env.set(o, VSym{Key: fmt.Sprintf("(%s%s%s)", keyOf(env, o), s.Tok, v.key()), Typ: o.Type()})
			}
		case *ast.SelectorExpr:
			base := r.eval(l.X, env)
			if st, ok := base.(*VStruct); ok {
				st.Fields[l.Sel.Name] = v
			}
			r.Assigned = append(r.Assigned, FieldAssign{Target: base.key() + "." + l.Sel.Name, Sel: l.Sel.Name, Val: v, Pos: l.Pos()})
		case *ast.StarExpr:
			// *p = v : ignored (not used by emitters for emitted text) unless p is a reference to a local
			if ref, ok := r.eval(l.X, env).(VRef); ok && ref.Cell != nil {
				*ref.Cell = v
			}
		case *ast.IndexExpr:
			// m[k] = v : maps/slices built by emitters are kept symbolic (concrete maps are updated)
			if lst, ok := r.eval(l.X, env).(VList); ok && lst.Elems != nil && r.W.Concrete {
				if iv, ok := r.eval(l.Index, env).(VInt); ok && iv.N >= 0 && int(iv.N) < len(lst.Elems) {
					lst.Elems[iv.N] = v // slices share their backing array
				}
			}
			if m, ok := r.eval(l.X, env).(*VStruct); ok && m.Name == "map" {
				kv := r.eval(l.Index, env)
				if !m.Concrete && !constKey(kv) {
					m.Open = true
				}
				if _, had := m.Fields[kv.key()]; !had {
					m.Keys = append(m.Keys, kv)
				}
				m.Fields[kv.key()] = v
			}
		}
	}
}

func keyOf(env *Env, o types.Object) string {
	if c := env.lookup(o); c != nil {
		return (*c).key()
	}
	return o.Name()
}

func (r *Run) evalMulti(e ast.Expr, env *Env, n int) []Val {
	info := r.info()
	switch x := ast.Unparen(e).(type) {
	case *ast.CallExpr:
		v := r.eval(x, env)
		if t, ok := v.(VTuple); ok && len(t) == n {
			return t
		}
		out := make([]Val, n)
		var rt *types.Tuple
		if tv, ok := info.Types[x]; ok {
			rt, _ = tv.Type.(*types.Tuple)
		}
		for i := range out {
			var t types.Type
			if rt != nil && i < rt.Len() {
				t = rt.At(i).Type()
			}
			k := fmt.Sprintf("%s.%d", v.key(), i)
			if t != nil && isErrorType(t) {
				k = "noerr:" + k
			}
			out[i] = VSym{Key: k, Typ: t}
		}
		return out
	case *ast.IndexExpr: // v, ok := m[k]
		if m, ok := r.eval(x.X, env).(*VStruct); ok && m.Name == "map" && (m.Concrete || !m.Open && constKey(r.eval(x.Index, env))) {
			kv := r.eval(x.Index, env)
			if v, ok := m.Fields[kv.key()]; ok {
				return []Val{v, VBool{B: true}}
			}
			if v, found, sym := r.tableLookup(m, kv, x.Pos()); sym && found {
				return []Val{v, VBool{B: true}}
			}
			var z Val = VNil{}
			if tv, ok := r.info().Types[x]; ok && tv.Type != nil {
				z = r.zero(tv.Type)
			}
			return []Val{z, VBool{B: false}}
		}
		v := r.eval(x, env)
		return []Val{v, VSym{Key: "has(" + v.key() + ")", Typ: types.Typ[types.Bool]}}
	case *ast.TypeAssertExpr:
		v := r.eval(x.X, env)
		return []Val{v, VSym{Key: "is(" + v.key() + "," + types.ExprString(x.Type) + ")", Typ: types.Typ[types.Bool]}}
	}
	out := make([]Val, n)
	v := r.eval(e, env)
	for i := range out {
		out[i] = VSym{Key: fmt.Sprintf("%s.%d", v.key(), i)}
	}
	return out
}

// ---------------------------------------------------------------- loops / switches

func (r *Run) listElems(v Val, pos token.Pos, elemT types.Type) []Val {
	switch l := v.(type) {
	case VList:
		if l.Elems != nil {
			return l.Elems
		}
		return r.symElems(l.Key, pos, elemT)
	case VNil:
		return nil
	case VSym:
		return r.symElems(l.Key, pos, elemT)
	case VStr:
		return r.symElems(l.key(), pos, elemT)
	}
	return r.symElems(v.key(), pos, elemT)
}

func (r *Run) symElems(key string, pos token.Pos, elemT types.Type) []Val {
	n := r.decideCount(key, pos)
	out := make([]Val, n)
	for i := range out {
		out[i] = VSym{Key: fmt.Sprintf("%s@%d", key, i), Typ: elemT}
	}
	return out
}

func (r *Run) rangeStmt(s *ast.RangeStmt, env *Env) ctl {
	info := r.info()
	xv := r.eval(s.X, env)
	var elemT, keyT types.Type
	isMap := false
	if tv, ok := info.Types[s.X]; ok && tv.Type != nil {
		switch u := tv.Type.Underlying().(type) {
		case *types.Slice:
			elemT = u.Elem()
		case *types.Array:
			elemT = u.Elem()
		case *types.Map:
			elemT = u.Elem()
			keyT = u.Key()
			isMap = true
		case *types.Basic:
			if u.Info()&types.IsInteger != 0 {
				if iv, ok := xv.(VInt); ok {
					for i := int64(0); i < iv.N && i < 3; i++ {
						e2 := newEnv(env)
						if id, ok := s.Key.(*ast.Ident); ok && id.Name != "_" {
							e2.define(info.ObjectOf(id), VInt{N: i})
						}
						if c := r.block(s.Body.List, e2); c == ctlBreak {
							break
						} else if c == ctlReturn {
							return c
						}
					}
					return ctlNone
				}
			}
			elemT = types.Typ[types.Rune]
		}
	}
	if m, ok := xv.(*VStruct); ok && m.Name == "map" && (m.Concrete || !m.Open) {
		for _, kv := range append([]Val{}, m.Keys...) {
			e2 := newEnv(env)
			if id, ok := s.Key.(*ast.Ident); ok && id.Name != "_" {
				e2.define(info.ObjectOf(id), kv)
			}
			if id, ok := s.Value.(*ast.Ident); ok && id.Name != "_" {
				e2.define(info.ObjectOf(id), m.Fields[kv.key()])
			}
			if c := r.block(s.Body.List, e2); c == ctlBreak {
				break
			} else if c == ctlReturn {
				return c
			}
		}
		return ctlNone
	}
	if sv, ok := xv.(VStr); ok {
		if cs, ok := sv.isConst(); ok && cs != "" && len(cs) < 64 {
			for i, ch := range cs {
				e2 := newEnv(env)
				if id, ok := s.Key.(*ast.Ident); ok && id.Name != "_" {
					e2.define(info.ObjectOf(id), VInt{N: int64(i)})
				}
				if id, ok := s.Value.(*ast.Ident); ok && id.Name != "_" {
					e2.define(info.ObjectOf(id), VInt{N: int64(ch)})
				}
				if c := r.block(s.Body.List, e2); c == ctlBreak {
					break
				} else if c == ctlReturn {
					return c
				}
			}
			return ctlNone
		}
	}
	elems := r.listElems(xv, s.Pos(), elemT)
	// range over an iterator function (iter.Seq[T], e.g. strings.SplitSeq): the single variable is the element
	seqRange := false
	if tv, ok := info.Types[s.X]; ok && tv.Type != nil {
		if _, isFunc := tv.Type.Underlying().(*types.Signature); isFunc && s.Value == nil {
			seqRange = true
		}
	}
	for i, el := range elems {
		e2 := newEnv(env)
		if id, ok := s.Key.(*ast.Ident); ok && id.Name != "_" {
			var kv Val = VInt{N: int64(i)}
			if seqRange {
				kv = el
			}
			if isMap {
				kv = VSym{Key: "k(" + el.key() + ")", Typ: keyT}
			}
			if s.Tok == token.DEFINE {
				e2.define(info.ObjectOf(id), kv)
			} else {
				e2.set(info.ObjectOf(id), kv)
			}
		}
		if id, ok := s.Value.(*ast.Ident); ok && id.Name != "_" {
			if s.Tok == token.DEFINE {
				e2.define(info.ObjectOf(id), el)
			} else {
				e2.set(info.ObjectOf(id), el)
			}
		}
		c := r.block(s.Body.List, e2)
		if c == ctlBreak {
			break
		}
		if c == ctlReturn {
			return c
		}
	}
	return ctlNone
}

func (r *Run) forStmt(s *ast.ForStmt, env *Env) ctl {
	e2 := newEnv(env)
	if s.Init != nil {
		r.stmt(s.Init, e2)
	}
	limit := 3
	if r.W.Concrete {
		limit = 512 // concrete values: the loop runs as written (a scan over a constant string), bounded by fuel
	}
	for iter := 0; iter < limit; iter++ {
		if s.Cond != nil {
			// A condition over concrete values is evaluated; otherwise the loop
			// is unrolled by a count decision keyed by the condition.
			if !r.cond(s.Cond, e2) {
				break
			}
		} else if iter >= limit-1 {
			r.problem(s.Pos(), "for{} without condition in emitter")
			break
		}
		c := r.block(s.Body.List, newEnv(e2))
		if c == ctlBreak {
			break
		}
		if c == ctlReturn {
			return c
		}
		if s.Post != nil {
			r.stmt(s.Post, e2)
		}
	}
	return ctlNone
}

func (r *Run) switchStmt(s *ast.SwitchStmt, env *Env) ctl {
	e2 := newEnv(env)
	if s.Init != nil {
		r.stmt(s.Init, e2)
	}
	var tag Val
	if s.Tag != nil {
		tag = r.eval(s.Tag, e2)
	}
	// register every constant label of a switch over a symbolic value first, so
	// that the value decision knows all its arms even though evaluation stops at the first hit
	if s.Tag != nil && !isConcrete(tag) {
		for _, st := range s.Body.List {
			for _, ce := range st.(*ast.CaseClause).List {
				if tv, ok := r.info().Types[ce]; ok && tv.Value != nil {
					r.registerValue(tag, constVal(tv, ce), labelOf(ce))
				}
			}
		}
	}
	var def *ast.CaseClause
	run := func(cc *ast.CaseClause) ctl {
		c := r.block(cc.Body, newEnv(e2))
		if c == ctlBreak {
			return ctlNone
		}
		return c
	}
	for _, st := range s.Body.List {
		cc := st.(*ast.CaseClause)
		if cc.List == nil {
			def = cc
			continue
		}
		for _, ce := range cc.List {
			var hit bool
			if s.Tag == nil {
				hit = r.cond(ce, e2)
			} else {
				hit = r.equal(tag, r.eval(ce, e2), ce.Pos(), labelOf(ce))
			}
			if hit {
				return run(cc)
			}
		}
	}
	if def != nil {
		return run(def)
	}
	return ctlNone
}

func (r *Run) typeSwitch(s *ast.TypeSwitchStmt, env *Env) ctl {
	e2 := newEnv(env)
	if s.Init != nil {
		r.stmt(s.Init, e2)
	}
	var x ast.Expr
	var bind *ast.Ident
	switch a := s.Assign.(type) {
	case *ast.ExprStmt:
		x = a.X.(*ast.TypeAssertExpr).X
	case *ast.AssignStmt:
		x = a.Rhs[0].(*ast.TypeAssertExpr).X
		bind, _ = a.Lhs[0].(*ast.Ident)
	}
	v := r.eval(x, e2)
	var def *ast.CaseClause
	for _, st := range s.Body.List {
		cc := st.(*ast.CaseClause)
		if cc.List == nil {
			def = cc
			continue
		}
		for _, te := range cc.List {
			if r.valueIs("type("+v.key()+")", types.ExprString(te), te.Pos()) {
				e3 := newEnv(e2)
				if bind != nil {
					if o := r.info().Implicits[cc]; o != nil {
						e3.define(o, v)
					}
				}
				c := r.block(cc.Body, e3)
				if c == ctlBreak {
					return ctlNone
				}
				return c
			}
		}
	}
	if def != nil {
		e3 := newEnv(e2)
		if bind != nil {
			if o := r.info().Implicits[def]; o != nil {
				e3.define(o, v)
			}
		}
		c := r.block(def.Body, e3)
		if c == ctlBreak {
			return ctlNone
		}
		return c
	}
	return ctlNone
}

func labelOf(e ast.Expr) string { return types.ExprString(e) }

// ---------------------------------------------------------------- conditions

func (r *Run) cond(e ast.Expr, env *Env) bool {
	switch x := ast.Unparen(e).(type) {
	case *ast.UnaryExpr:
		if x.Op == token.NOT {
			return !r.cond(x.X, env)
		}
	case *ast.BinaryExpr:
		switch x.Op {
		case token.LAND:
			return r.cond(x.X, env) && r.cond(x.Y, env)
		case token.LOR:
			return r.cond(x.X, env) || r.cond(x.Y, env)
		case token.EQL:
			return r.equal(r.eval(x.X, env), r.eval(x.Y, env), x.Pos(), "")
		case token.NEQ:
			return !r.equal(r.eval(x.X, env), r.eval(x.Y, env), x.Pos(), "")
		case token.LSS, token.GTR, token.LEQ, token.GEQ:
			a, b := r.eval(x.X, env), r.eval(x.Y, env)
			ai, aok := a.(VInt)
			bi, bok := b.(VInt)
			if aok && bok {
				switch x.Op {
				case token.LSS:
					return ai.N < bi.N
				case token.GTR:
					return ai.N > bi.N
				case token.LEQ:
					return ai.N <= bi.N
				default:
					return ai.N >= bi.N
				}
			}
			return r.decideBool(fmt.Sprintf("(%s%s%s)", a.key(), x.Op, b.key()), true, x.Pos())
		}
	}
	v := r.eval(e, env)
	switch b := v.(type) {
	case VBool:
		return b.B
	case VSym:
		return r.decideBool(b.Key, true, e.Pos())
	}
	return r.decideBool(v.key(), true, e.Pos())
}

// registerValue adds a constant to the domain of a symbolic value without deciding.
func (r *Run) registerValue(a, b Val, label string) {
	repr := ""
	switch bv := b.(type) {
	case VStr:
		if c, ok := bv.isConst(); ok && c != "" {
			repr = strconv.Quote(c)
		}
	case VInt:
		repr = bv.Label
		if repr == "" {
			repr = label
		}
		if repr == "" {
			repr = strconv.FormatInt(bv.N, 10)
		}
	}
	if repr == "" {
		return
	}
	ek := eraseIters(a.key())
	for _, d := range r.W.domains[ek] {
		if d == repr {
			return
		}
	}
	r.W.domains[ek] = append(r.W.domains[ek], repr)
}

func (r *Run) equal(a, b Val, pos token.Pos, label string) bool {
	// normalise: constant on the right
	if isConcrete(a) && !isConcrete(b) {
		a, b = b, a
	}
	if isConcrete(a) && isConcrete(b) {
		if ai, ok := a.(VInt); ok {
			if bi, ok := b.(VInt); ok {
				return ai.N == bi.N // labels are spellings of the same number
			}
		}
		return a.key() == b.key() && sameClass(a, b)
	}
	// a symbolic
	switch bv := b.(type) {
	case VNil:
		if sv, ok := a.(VSym); ok {
			if sv.Typ != nil && isErrorType(sv.Typ) || strings.HasPrefix(sv.Key, "noerr:") {
				return true // error paths end generation; variants follow the nil arm
			}
		}
		if _, ok := a.(*VStruct); ok {
			return false
		}
		if _, ok := a.(*VFunc); ok {
			return false
		}
		if _, ok := a.(VGF); ok {
			return false
		}
		return r.decideBool("isnil("+a.key()+")", false, pos)
	case VStr:
		if c, ok := bv.isConst(); ok {
			if c == "" {
				return r.decideBool("isempty("+a.key()+")", false, pos)
			}
			return r.valueIs(a.key(), strconv.Quote(c), pos)
		}
	case VInt:
		lab := bv.Label
		if lab == "" {
			lab = label
		}
		if lab == "" {
			lab = strconv.FormatInt(bv.N, 10)
		}
		return r.valueIs(a.key(), lab, pos)
	case VBool:
		return r.decideBool(a.key(), true, pos) == bv.B
	}
	if a.key() == b.key() {
		return true
	}
	k1, k2 := a.key(), b.key()
	if k2 < k1 {
		k1, k2 = k2, k1
	}
	return r.decideBool("eq("+k1+","+k2+")", false, pos)
}

func isConcrete(v Val) bool {
	switch x := v.(type) {
	case VInt, VBool, VNil:
		return true
	case *VStruct:
		return x.Concrete
	case VStr:
		_, ok := x.isConst()
		return ok
	}
	return false
}

func sameClass(a, b Val) bool {
	return fmt.Sprintf("%T", a) == fmt.Sprintf("%T", b)
}

// ---------------------------------------------------------------- expressions

// eval evaluates an expression; symbolic results whose provenance key is in
// Inject are replaced by the injected (constant) value.
func (r *Run) eval(e ast.Expr, env *Env) Val {
	v := r.evalRaw(e, env)
	if r.Inject != nil {
		if sv, ok := v.(VSym); ok {
			if iv, ok := r.Inject[eraseIters(sv.Key)]; ok {
				return iv
			}
		}
	}
	return v
}

func (r *Run) evalRaw(e ast.Expr, env *Env) Val {
	info := r.info()
	if !r.tick(e.Pos()) {
		return VNil{}
	}
	// constants first
	if tv, ok := info.Types[e]; ok && tv.Value != nil {
		return constVal(tv, e)
	}
	switch x := e.(type) {
	case *ast.ParenExpr:
		return r.eval(x.X, env)
	case *ast.BasicLit:
		if x.Kind == token.STRING {
			s, _ := strconv.Unquote(x.Value)
			return constStr(s)
		}
		if x.Kind == token.CHAR {
			if c, _, _, err := strconv.UnquoteChar(strings.Trim(x.Value, "'"), '\''); err == nil {
				return VInt{N: int64(c), Label: x.Value}
			}
		}
		return VSym{Key: x.Value}
	case *ast.Ident:
		if x.Name == "nil" {
			return VNil{}
		}
		if x.Name == "true" || x.Name == "false" {
			return VBool{B: x.Name == "true"}
		}
		o := info.ObjectOf(x)
		if c := env.lookup(o); c != nil {
			return *c
		}
		switch o := o.(type) {
		case *types.Func:
			return &VFunc{Decl: o}
		case *types.Var:
			if v := r.pkgTable(o); v != nil {
				return v
			}
			return VSym{Key: qualName(o), Typ: o.Type()}
		}
		return VSym{Key: x.Name}
	case *ast.SelectorExpr:
		// package-qualified?
		if id, ok := x.X.(*ast.Ident); ok {
			if _, isPkg := info.ObjectOf(id).(*types.PkgName); isPkg {
				switch o := info.ObjectOf(x.Sel).(type) {
				case *types.Func:
					return &VFunc{Decl: o}
				case *types.Var:
					return VSym{Key: qualName(o), Typ: o.Type()}
				}
				return VSym{Key: types.ExprString(x)}
			}
		}
		base := r.eval(x.X, env)
		if st, ok := base.(*VStruct); ok {
			if f, ok := st.Fields[x.Sel.Name]; ok {
				return f
			}
			if sel := info.Selections[x]; sel != nil && sel.Kind() == types.FieldVal {
				return r.zero(sel.Type())
			}
		}
		if sel := info.Selections[x]; sel != nil && sel.Kind() == types.MethodVal {
			if f, ok := sel.Obj().(*types.Func); ok {
				return &VFunc{Decl: f, Recv: base}
			}
		}
		var t types.Type
		if tv, ok := info.Types[x]; ok {
			t = tv.Type
		}
		return VSym{Key: base.key() + "." + x.Sel.Name, Typ: t}
	case *ast.StarExpr:
		v := r.eval(x.X, env)
		if ref, ok := v.(VRef); ok && ref.Cell != nil {
			return *ref.Cell
		}
		return v
	case *ast.UnaryExpr:
		switch x.Op {
		case token.AND:
			if id, ok := ast.Unparen(x.X).(*ast.Ident); ok && r.W.Concrete {
				if o := info.ObjectOf(id); o != nil {
					if _, isSlice := o.Type().Underlying().(*types.Slice); isSlice {
						if cell := env.lookup(o); cell != nil {
							return VRef{Cell: cell, Name: id.Name}
						}
					}
				}
			}
			return r.eval(x.X, env)
		case token.NOT:
			return VBool{B: !r.cond(x.X, env)}
		case token.SUB:
			if iv, ok := r.eval(x.X, env).(VInt); ok {
				return VInt{N: -iv.N}
			}
		}
		return VSym{Key: x.Op.String() + r.eval(x.X, env).key()}
	case *ast.BinaryExpr:
		switch x.Op {
		case token.LAND, token.LOR, token.EQL, token.NEQ, token.LSS, token.GTR, token.LEQ, token.GEQ:
			return VBool{B: r.cond(x, env)}
		}
		var t types.Type
		if tv, ok := info.Types[x]; ok {
			t = tv.Type
		}
		return r.binop(x.Op, r.eval(x.X, env), r.eval(x.Y, env), x.Pos(), t)
	case *ast.CallExpr:
		return r.call(x, env)
	case *ast.CompositeLit:
		return r.composite(x, env)
	case *ast.FuncLit:
		return &VFunc{Lit: x, Env: env, Pkg: r.pkgStack[len(r.pkgStack)-1]}
	case *ast.IndexListExpr:
		// explicit instantiation of a generic function: f[A, B]
		if base, ok := r.eval(x.X, env).(*VFunc); ok {
			return base
		}
		return VSym{Key: types.ExprString(x)}
	case *ast.IndexExpr:
		base := r.eval(x.X, env)
		if bf, ok := base.(*VFunc); ok {
			return bf // f[T]
		}
		idx := r.eval(x.Index, env)
		if l, ok := base.(VList); ok && l.Elems != nil {
			if iv, ok := idx.(VInt); ok && int(iv.N) < len(l.Elems) && iv.N >= 0 {
				return l.Elems[iv.N]
			}
		}
		if m, ok := base.(*VStruct); ok && m.Name == "map" && (m.Concrete || !m.Open && constKey(idx)) {
			if v, ok := m.Fields[idx.key()]; ok {
				return v
			}
			if v, found, sym := r.tableLookup(m, idx, x.Pos()); sym {
				if found {
					return v
				}
			}
			if tv, ok := info.Types[x]; ok && tv.Type != nil {
				return r.zero(tv.Type)
			}
			return VNil{}
		}
		var t types.Type
		if tv, ok := info.Types[x]; ok {
			t = tv.Type
		}
		return VSym{Key: base.key() + "[" + idx.key() + "]", Typ: t}
	case *ast.SliceExpr:
		base := r.eval(x.X, env)
		if bs, ok := base.(VStr); ok {
			if c, ok := bs.isConst(); ok {
				lo, hi := 0, len(c)
				okIdx := true
				if x.Low != nil {
					if iv, ok := r.eval(x.Low, env).(VInt); ok {
						lo = int(iv.N)
					} else {
						okIdx = false
					}
				}
				if x.High != nil {
					if iv, ok := r.eval(x.High, env).(VInt); ok {
						hi = int(iv.N)
					} else {
						okIdx = false
					}
				}
				if okIdx && lo >= 0 && hi <= len(c) && lo <= hi {
					return constStr(c[lo:hi])
				}
			}
		}
		if bl, ok := base.(VList); ok && bl.Elems != nil {
			// a decidable list sliced at constant bounds (x[:0] of the filter-in-place idiom, x[1:], x[:n])
			lo, hi := 0, len(bl.Elems)
			okIdx := true
			if x.Low != nil {
				if iv, ok := r.eval(x.Low, env).(VInt); ok {
					lo = int(iv.N)
				} else {
					okIdx = false
				}
			}
			if x.High != nil {
				if iv, ok := r.eval(x.High, env).(VInt); ok {
					hi = int(iv.N)
				} else {
					okIdx = false
				}
			}
			if okIdx && lo >= 0 && hi <= len(bl.Elems) && lo <= hi {
				return VList{Key: bl.Key, Elems: append([]Val{}, bl.Elems[lo:hi]...)}
			}
		}
		k := base.key() + "["
		if x.Low != nil {
			k += r.eval(x.Low, env).key()
		}
		k += ":"
		if x.High != nil {
			k += r.eval(x.High, env).key()
		}
		var t types.Type
		if tv, ok := info.Types[x]; ok {
			t = tv.Type
		}
		return VSym{Key: k + "]", Typ: t}
	case *ast.TypeAssertExpr:
		return r.eval(x.X, env)
	case *ast.KeyValueExpr:
		return r.eval(x.Value, env)
	}
	return VSym{Key: types.ExprString(e)}
}

func qualName(o types.Object) string {
	if o.Pkg() != nil && o.Parent() == o.Pkg().Scope() {
		return keyPkgName(o.Pkg()) + "." + o.Name()
	}
	return o.Name()
}

// foldConsts merges adjacent constant segments.
func foldConsts(v VStr) VStr {
	var out VStr
	for _, sg := range v.Segs {
		if sg.Hole == nil && len(out.Segs) > 0 && out.Segs[len(out.Segs)-1].Hole == nil {
			out.Segs[len(out.Segs)-1].Const += sg.Const
			continue
		}
		out.Segs = append(out.Segs, sg)
	}
	return out
}

// forwardTarget: for `func f(a, b) T { return g(a, b) }` (same parameters, same order) the function g.
func (w *Walker) forwardTarget(fn *types.Func) *types.Func {
	decl := w.P.Decls[fn]
	if decl == nil || decl.Body == nil || len(decl.Body.List) != 1 || decl.Recv != nil {
		return nil
	}
	ret, ok := decl.Body.List[0].(*ast.ReturnStmt)
	if !ok || len(ret.Results) != 1 {
		return nil
	}
	call, ok := ret.Results[0].(*ast.CallExpr)
	if !ok {
		return nil
	}
	var params []string
	for _, f := range decl.Type.Params.List {
		for _, n := range f.Names {
			params = append(params, n.Name)
		}
	}
	if len(call.Args) != len(params) {
		return nil
	}
	for i, a := range call.Args {
		if id, ok := a.(*ast.Ident); !ok || id.Name != params[i] {
			return nil
		}
	}
	pkg := w.P.DeclPkg[fn]
	if pkg == nil {
		return nil
	}
	t := Callee(pkg.TypesInfo, call)
	if t == nil || t.Type().(*types.Signature).Recv() != nil {
		return nil
	}
	return t
}

// keyPkgName: the two Go generator packages are given one name in provenance
// keys, so that sibling emitters produce identical keys (C14 compares them);
// that their same-named helpers really are the same function is R14d's job.
func keyPkgName(p *types.Package) string {
	switch strings.TrimPrefix(p.Path(), modPath+"/") {
	case "internal/httpgen", "internal/clientgen":
		return "gen"
	}
	return p.Name()
}

func constVal(tv types.TypeAndValue, e ast.Expr) Val {
	switch tv.Value.Kind() {
	case constant.String:
		return constStr(constant.StringVal(tv.Value))
	case constant.Bool:
		return VBool{B: constant.BoolVal(tv.Value)}
	case constant.Int:
		n, _ := constant.Int64Val(tv.Value)
		lab := ""
		if _, isBasic := tv.Type.(*types.Basic); !isBasic {
			// typed enum-like constant: keep its spelling as the label
			switch x := ast.Unparen(e).(type) {
			case *ast.SelectorExpr:
				lab = x.Sel.Name
			case *ast.Ident:
				lab = x.Name
			}
		}
		return VInt{N: n, Label: lab}
	}
	return VSym{Key: tv.Value.ExactString(), Typ: tv.Type}
}

func (r *Run) binop(op token.Token, a, b Val, pos token.Pos, t types.Type) Val {
	if op == token.ADD {
		as, aStr := toStr(a)
		bs, bStr := toStr(b)
		isString := false
		if t != nil {
			if bt, ok := t.Underlying().(*types.Basic); ok && bt.Info()&types.IsString != 0 {
				isString = true
			}
		}
		if (aStr || bStr) && (isString || t == nil) || (isString) {
			return VStr{Segs: append(append([]Seg{}, as.Segs...), bs.Segs...)}
		}
	}
	ai, aok := a.(VInt)
	bi, bok := b.(VInt)
	if aok && bok {
		switch op {
		case token.ADD:
			return VInt{N: ai.N + bi.N}
		case token.SUB:
			return VInt{N: ai.N - bi.N}
		case token.MUL:
			return VInt{N: ai.N * bi.N}
		}
	}
	return VSym{Key: "(" + a.key() + op.String() + b.key() + ")", Typ: t}
}

// toStr converts a value to string segments (as P / %s would print it).
func toStr(v Val) (VStr, bool) {
	switch x := v.(type) {
	case VStr:
		return x, true
	case VInt:
		return constStr(strconv.FormatInt(x.N, 10)), false
	case VBool:
		return constStr(strconv.FormatBool(x.B)), false
	case VSym:
		return VStr{Segs: []Seg{{Hole: &Hole{Key: x.Key, Typ: x.Typ, GoIdent: x.Typ != nil && typeIsNamed(x.Typ, "compiler/protogen", "GoIdent")}}}}, false
	case VNil:
		return constStr("<nil>"), false
	}
	return VStr{Segs: []Seg{{Hole: &Hole{Key: v.key()}}}}, false
}

func (r *Run) composite(x *ast.CompositeLit, env *Env) Val {
	info := r.info()
	tv, ok := info.Types[x]
	if !ok {
		return VSym{Key: types.ExprString(x)}
	}
	t := tv.Type
	switch u := t.Underlying().(type) {
	case *types.Struct:
		name := t.String()
		if n, ok := t.(*types.Named); ok {
			name = n.Obj().Name()
			if !isRepoPkg(n.Obj().Pkg()) && !r.W.ExternStructs {
				return VSym{Key: types.ExprString(x), Typ: t}
			}
		}
		r.structID++
		st := &VStruct{Name: name, Fields: map[string]Val{}, id: r.structID}
		for i, el := range x.Elts {
			if kv, ok := el.(*ast.KeyValueExpr); ok {
				if id, ok := kv.Key.(*ast.Ident); ok {
					st.Fields[id.Name] = r.eval(kv.Value, env)
				}
			} else if i < u.NumFields() {
				st.Fields[u.Field(i).Name()] = r.eval(el, env)
			}
		}
		return st
	case *types.Map:
		// in concrete mode every map is a value; otherwise only lookup tables (all keys constant)
		table := len(x.Elts) > 0
		if !r.W.Concrete {
			for _, el := range x.Elts {
				kv, ok := el.(*ast.KeyValueExpr)
				if !ok {
					table = false
					break
				}
				if tv, ok := info.Types[kv.Key]; !ok || tv.Value == nil {
					table = false
					break
				}
			}
		}
		if r.W.Concrete || table {
			r.structID++
			m := &VStruct{Name: "map", Fields: map[string]Val{}, id: r.structID, Concrete: true}
			for _, el := range x.Elts {
				if kv, ok := el.(*ast.KeyValueExpr); ok {
					k := r.eval(kv.Key, env)
					m.Keys = append(m.Keys, k)
					m.Fields[k.key()] = r.eval(kv.Value, env)
				}
			}
			return m
		}
	case *types.Slice, *types.Array:
		l := VList{Key: fmt.Sprintf("lit@%s", r.W.P.Pos(x.Pos())), Elems: []Val{}}
		for _, el := range x.Elts {
			l.Elems = append(l.Elems, r.eval(el, env))
		}
		return l
	}
	return VSym{Key: fmt.Sprintf("lit(%s)", r.W.P.Pos(x.Pos())), Typ: t}
}

// ---------------------------------------------------------------- calls

func (r *Run) args(call *ast.CallExpr, env *Env) []Val {
	out := make([]Val, len(call.Args))
	for i, a := range call.Args {
		out[i] = r.eval(a, env)
	}
	return out
}

func argKeys(vs []Val) string {
	ks := make([]string, len(vs))
	for i, v := range vs {
		ks[i] = v.key()
	}
	return strings.Join(ks, ",")
}

func (r *Run) call(call *ast.CallExpr, env *Env) Val {
	info := r.info()
	var rt types.Type
	if tv, ok := info.Types[call]; ok {
		rt = tv.Type
	}
	// conversion
	if tv, ok := info.Types[call.Fun]; ok && tv.IsType() {
		if len(call.Args) == 1 {
			v := r.eval(call.Args[0], env)
			if sv, ok := v.(VSym); ok {
				return VSym{Key: sv.Key, Typ: tv.Type}
			}
			if l, ok := v.(VList); ok && l.Key == "bytes" {
				// string([]byte{…}) of concrete bytes
				if bt, ok := tv.Type.Underlying().(*types.Basic); ok && bt.Info()&types.IsString != 0 {
					var b []byte
					for _, e := range l.Elems {
						b = append(b, byte(e.(VInt).N))
					}
					return constStr(string(b))
				}
			}
			if iv, ok := v.(VInt); ok {
				return VInt{N: iv.N}
			}
			return v
		}
		return VSym{Key: types.ExprString(call), Typ: tv.Type}
	}
	// builtins
	if id, ok := ast.Unparen(call.Fun).(*ast.Ident); ok {
		if _, isB := info.ObjectOf(id).(*types.Builtin); isB {
			return r.builtin(id.Name, call, env, rt)
		}
	}
	fv := r.eval(call.Fun, env)
	f, _ := fv.(*VFunc)
	if f == nil {
		// a symbolic Printer (func(format string, args ...any)): its lines go to an ambient unit
		if tv, ok := info.Types[call.Fun]; ok && !tv.IsType() && isPrinterType(tv.Type) && r.AmbientPrinter {
			if sv, ok := r.sprintf(call, env, types.Typ[types.String]).(VStr); ok {
				if len(r.Units) == 0 {
					r.Units = append(r.Units, &Unit{})
				}
				u := r.Units[len(r.Units)-1]
				if r.Aborted == "" {
					u.Lines = append(u.Lines, EmLine{Segs: sv.Segs, Pos: call.Pos(), Fn: r.curFn()})
				}
				return VNil{}
			}
		}
		args := r.args(call, env)
		return VSym{Key: fv.key() + "(" + argKeys(args) + ")", Typ: rt}
	}
	if f.Lit != nil {
		return r.inlineLit(f, call, env)
	}
	fn := f.Decl.Origin()
	if r.CallHook != nil {
		if v, ok := r.CallHook(fn, f.Recv, r.args(call, env)); ok {
			return v
		}
	}
	// sinks and known library functions
	if fn.Pkg() != nil {
		switch fn.Pkg().Path() {
		case "google.golang.org/protobuf/compiler/protogen":
			return r.protogenCall(fn, f, call, env, rt)
		case "fmt":
			switch fn.Name() {
			case "Sprintf":
				return r.sprintf(call, env, rt)
			case "Sprint":
				args := r.args(call, env)
				var out VStr
				for _, a := range args {
					s, _ := toStr(a)
					out.Segs = append(out.Segs, s.Segs...)
				}
				return out
			case "Errorf":
				args := r.args(call, env)
				if r.W.Concrete {
					r.structID++
					return &VStruct{Name: "error", Fields: map[string]Val{"msg": constStr(argKeys(args))}, id: r.structID, Concrete: true}
				}
				return VSym{Key: "fmt.Errorf(" + argKeys(args) + ")", Typ: rt}
			}
		case "errors":
			if fn.Name() == "New" {
				if r.W.Concrete {
					r.structID++
					return &VStruct{Name: "error", Fields: map[string]Val{"msg": constStr(argKeys(r.args(call, env)))}, id: r.structID, Concrete: true}
				}
				return VSym{Key: "errors.New(" + argKeys(r.args(call, env)) + ")", Typ: rt}
			}
		case "strings":
			if v, ok := r.foldStrings(fn.Name(), call, env); ok {
				return v
			}
			if fn.Name() == "ReplaceAll" && len(call.Args) == 3 {
				// a constant template with a constant placeholder replaced by a (possibly symbolic) string:
				// the constant pieces interleaved with the replacement's segments
				if a, ok := r.eval(call.Args[0], env).(VStr); ok {
					if b, ok := r.eval(call.Args[1], env).(VStr); ok {
						if ac, ok := a.isConst(); ok {
							if bc, ok := b.isConst(); ok && bc != "" {
								repl, _ := toStr(r.eval(call.Args[2], env))
								var out VStr
								for i, piece := range strings.Split(ac, bc) {
									if i > 0 {
										out.Segs = append(out.Segs, repl.Segs...)
									}
									if piece != "" {
										out.Segs = append(out.Segs, Seg{Const: piece})
									}
								}
								if len(out.Segs) == 0 {
									return constStr("")
								}
								return foldConsts(out)
							}
						}
					}
				}
			}
			if fn.Name() == "Join" && len(call.Args) == 2 {
				if l, ok := r.eval(call.Args[0], env).(VList); ok && l.Elems != nil {
					if sep, ok := r.eval(call.Args[1], env).(VStr); ok {
						if sc, ok := sep.isConst(); ok {
							var out VStr
							for i, e := range l.Elems {
								if i > 0 && sc != "" {
									out.Segs = append(out.Segs, Seg{Const: sc})
								}
								es, _ := toStr(e)
								out.Segs = append(out.Segs, es.Segs...)
							}
							if len(out.Segs) == 0 {
								return constStr("")
							}
							return foldConsts(out)
						}
					}
				}
			}
			if (fn.Name() == "SplitN" || fn.Name() == "SplitAfterN") && len(call.Args) == 3 {
				if a, ok := r.eval(call.Args[0], env).(VStr); ok {
					if b, ok := r.eval(call.Args[1], env).(VStr); ok {
						if n, ok := r.eval(call.Args[2], env).(VInt); ok {
							if ac, ok := a.isConst(); ok {
								if bc, ok := b.isConst(); ok {
									l := VList{Key: "splitn", Elems: []Val{}}
									parts := strings.SplitN(ac, bc, int(n.N))
									if fn.Name() == "SplitAfterN" {
										parts = strings.SplitAfterN(ac, bc, int(n.N))
									}
									for _, p := range parts {
										l.Elems = append(l.Elems, constStr(p))
									}
									return l
								}
							}
						}
					}
				}
			}
			if fn.Name() == "Cut" && len(call.Args) == 2 {
				if a, ok := r.eval(call.Args[0], env).(VStr); ok {
					if b, ok := r.eval(call.Args[1], env).(VStr); ok {
						if ac, ok := a.isConst(); ok {
							if bc, ok := b.isConst(); ok {
								before, after, found := strings.Cut(ac, bc)
								return VTuple{constStr(before), constStr(after), VBool{B: found}}
							}
						}
					}
				}
			}
			if (fn.Name() == "Index" || fn.Name() == "LastIndex") && len(call.Args) == 2 {
				if a, ok := r.eval(call.Args[0], env).(VStr); ok {
					if b, ok := r.eval(call.Args[1], env).(VStr); ok {
						if ac, ok := a.isConst(); ok {
							if bc, ok := b.isConst(); ok {
								n := strings.Index(ac, bc)
								if fn.Name() == "LastIndex" {
									n = strings.LastIndex(ac, bc)
								}
								return VInt{N: int64(n), Label: fmt.Sprint(n)}
							}
						}
					}
				}
			}
			if fn.Name() == "IndexByte" && len(call.Args) == 2 {
				if a, ok := r.eval(call.Args[0], env).(VStr); ok {
					if b, ok := r.eval(call.Args[1], env).(VInt); ok {
						if ac, ok := a.isConst(); ok {
							n := strings.IndexByte(ac, byte(b.N))
							return VInt{N: int64(n), Label: fmt.Sprint(n)}
						}
					}
				}
			}
			if (fn.Name() == "SplitSeq" || fn.Name() == "SplitAfterSeq") && len(call.Args) == 2 {
				// the iterator forms: ranged over like the slice Split returns
				if a, ok := r.eval(call.Args[0], env).(VStr); ok {
					if b, ok := r.eval(call.Args[1], env).(VStr); ok {
						if ac, ok := a.isConst(); ok {
							if bc, ok := b.isConst(); ok {
								l := VList{Key: "split", Elems: []Val{}}
								parts := strings.Split(ac, bc)
								if fn.Name() == "SplitAfterSeq" {
									parts = strings.SplitAfter(ac, bc)
								}
								for _, p := range parts {
									l.Elems = append(l.Elems, constStr(p))
								}
								return l
							}
						}
					}
				}
			}
			if fn.Name() == "Split" && len(call.Args) == 2 {
				if a, ok := r.eval(call.Args[0], env).(VStr); ok {
					if b, ok := r.eval(call.Args[1], env).(VStr); ok {
						if ac, ok := a.isConst(); ok {
							if bc, ok := b.isConst(); ok {
								l := VList{Key: "split", Elems: []Val{}}
								for _, p := range strings.Split(ac, bc) {
									l.Elems = append(l.Elems, constStr(p))
								}
								return l
							}
						}
					}
				}
			}
		case "slices":
			if v, ok := r.foldSlices(fn.Name(), call, env, rt); ok {
				return v
			}
		case "regexp":
			if v, ok := r.foldRegexp(fn.Name(), call, env); ok {
				return v
			}
		case "maps":
			// maps.Keys / maps.Values of a concrete map value: the list of its keys / values (the iterator forms are
			// only ever handed to slices.Sorted / slices.Collect or ranged over)
			if (fn.Name() == "Keys" || fn.Name() == "Values") && len(call.Args) == 1 {
				if m, ok := r.eval(call.Args[0], env).(*VStruct); ok && m.Name == "map" && (m.Concrete || !m.Open) {
					l := VList{Key: "mapkeys", Elems: []Val{}}
					for _, k := range m.Keys {
						if fn.Name() == "Keys" {
							l.Elems = append(l.Elems, k)
						} else {
							l.Elems = append(l.Elems, m.Fields[k.key()])
						}
					}
					return l
				}
			}
		case "path":
			if v, ok := r.foldStrings("path."+fn.Name(), call, env); ok {
				return v
			}
		case "strconv":
			if fn.Name() == "Quote" && len(call.Args) == 1 {
				v := r.eval(call.Args[0], env)
				s, _ := toStr(v)
				if c, ok := s.isConst(); ok {
					return constStr(strconv.Quote(c))
				}
				out := VStr{Segs: []Seg{{Const: `"`}}}
				for _, sg := range s.Segs {
					if sg.Hole != nil {
						h := *sg.Hole
						h.Quoted = true
						out.Segs = append(out.Segs, Seg{Hole: &h})
					} else {
						q := strconv.Quote(sg.Const)
						out.Segs = append(out.Segs, Seg{Const: q[1 : len(q)-1]})
					}
				}
				out.Segs = append(out.Segs, Seg{Const: `"`})
				return out
			}
		}
	}
	// protoc-gen-go getters are nil-safe: Get*() on a nil message pointer is the zero value
	if _, isNil := f.Recv.(VNil); isNil && strings.HasPrefix(fn.Name(), "Get") && rt != nil {
		if sig, ok := fn.Type().(*types.Signature); ok && sig.Recv() != nil && sig.Params().Len() == 0 {
			if pt, ok := sig.Recv().Type().(*types.Pointer); ok {
				if nm, ok := pt.Elem().(*types.Named); ok {
					for i := 0; i < nm.NumMethods(); i++ {
						if nm.Method(i).Name() == "ProtoReflect" {
							return r.zero(rt)
						}
					}
				}
			}
		}
	}
	decl := r.W.P.Decls[fn]
	if decl != nil && decl.Body != nil {
		if r.W.emitter[fn] || r.inlinableHelper(fn, decl) || (r.InlineAll && r.followInValidation(fn)) {
			return r.inlineDecl(fn, f.Recv, call, env, rt)
		}
	}
	if decl != nil && decl.Body != nil {
		r.W.OpaqueHelpers[fn.Name()] = true
	}
	args := r.args(call, env)
	// a pure forwarding wrapper (return g(params…)) is named after its target
	if f.Recv == nil {
		if t := r.W.forwardTarget(fn); t != nil {
			fn = t
		}
	}
	name := fn.Name()
	if fn.Pkg() != nil && f.Recv == nil {
		name = keyPkgName(fn.Pkg()) + "." + name
	}
	k := name + "(" + argKeys(args) + ")"
	if f.Recv != nil {
		k = f.Recv.key() + "." + fn.Name() + "(" + argKeys(args) + ")"
	}
	if rt != nil && isErrorType(rt) {
		k = "noerr:" + k
	}
	if tup, ok := rt.(*types.Tuple); ok {
		out := make(VTuple, tup.Len())
		for i := range out {
			kk := fmt.Sprintf("%s.%d", k, i)
			if isErrorType(tup.At(i).Type()) {
				kk = "noerr:" + kk
			}
			out[i] = VSym{Key: kk, Typ: tup.At(i).Type()}
		}
		return out
	}
	return VSym{Key: k, Typ: rt}
}

// inlinableHelper: repository functions returning a string or bool, without
// loops, closures, defer or go — pure case tables such as getZeroValueCheck,
// isInt64Type, TSScalarTypeForField. They are followed so that the text they
// return is reconstructed instead of being an opaque hole.
func (r *Run) inlinableHelper(fn *types.Func, decl *ast.FuncDecl) bool {
	if fn.Pkg() == nil {
		return false
	}
	if rel := strings.TrimPrefix(fn.Pkg().Path(), modPath+"/"); !helperPkgs[rel] {
		// descriptor predicates of internal/annotations (IsTimestampField …) are
		// followed; annotation accessors (anything reading proto options) are not.
		if rel != "internal/annotations" || r.W.readsOptions(fn) {
			return false
		}
	}
	sig := fn.Type().(*types.Signature)
	if sig.Results().Len() < 1 {
		return false
	}
	// one or several string/bool results (a case table may return a pair such as
	// the Go type and the formatter to print)
	for i := 0; i < sig.Results().Len(); i++ {
		b, ok := sig.Results().At(i).Type().Underlying().(*types.Basic)
		if !ok || b.Info()&(types.IsString|types.IsBoolean) == 0 {
			return false
		}
	}
	simple := true
	ast.Inspect(decl.Body, func(n ast.Node) bool {
		switch n.(type) {
		case *ast.ForStmt, *ast.RangeStmt, *ast.FuncLit, *ast.DeferStmt, *ast.GoStmt, *ast.SelectStmt:
			simple = false
		}
		return simple
	})
	return simple
}

// followInValidation: in validation walks every generator-package function is
// followed, and in internal/annotations those that can return an error (the
// rule functions); accessors (Is*/Has*/Get* without error) stay symbolic.
func (r *Run) followInValidation(fn *types.Func) bool {
	if fn.Pkg() == nil {
		return false
	}
	rel := strings.TrimPrefix(fn.Pkg().Path(), modPath+"/")
	if (helperPkgs[rel] || rel == "internal/openapiv3" || strings.HasPrefix(rel, "cmd/")) && r.W.Concrete {
		return true // scenario mode: everything in the generator packages is interpreted
	}
	if helperPkgs[rel] || rel == "internal/openapiv3" {
		// collectors (no result, or slice/map results built by append through
		// out-parameters) stay symbolic lists; predicates, validators and
		// config builders are followed.
		res := fn.Type().(*types.Signature).Results()
		if res.Len() == 0 {
			return false
		}
		for i := 0; i < res.Len(); i++ {
			switch u := res.At(i).Type().Underlying().(type) {
			case *types.Slice, *types.Map:
				if !r.FollowSlices {
					return false
				}
			case *types.Pointer:
				if _, isStruct := u.Elem().Underlying().(*types.Struct); !isStruct {
					return false
				}
			}
		}
		return true
	}
	if rel == "internal/annotations" {
		res := fn.Type().(*types.Signature).Results()
		if (r.W.Concrete || r.W.FollowAnnHelpers) && res.Len() > 0 && !r.W.readsOptionsDirect(fn) {
			return true // scenario mode: every helper that is not a base accessor is interpreted
		}
		if r.W.Concrete && res.Len() == 0 && !r.W.readsOptionsDirect(fn) {
			// a result-less helper that fills a map it is handed (indexHeadersByName(byName, headers)): its effect is the
			// stores into that map, which concrete maps model
			sig := fn.Type().(*types.Signature)
			for i := 0; i < sig.Params().Len(); i++ {
				if _, isMap := sig.Params().At(i).Type().Underlying().(*types.Map); isMap {
					return true
				}
			}
		}
		// a helper over scalars only (ExtractPathParams(path string) []string …) has nothing symbolic to hide
		if sig := fn.Type().(*types.Signature); r.FollowSlices && sig.Recv() == nil && sig.Params().Len() > 0 && res.Len() > 0 && !r.W.readsOptions(fn) {
			scalar := true
			for i := 0; i < sig.Params().Len(); i++ {
				if _, ok := sig.Params().At(i).Type().Underlying().(*types.Basic); !ok {
					scalar = false
				}
			}
			if scalar {
				return true
			}
		}
		return res.Len() > 0 && isErrorType(res.At(res.Len()-1).Type())
	}
	return false
}

// readsOptionsDirect: fn itself calls Options()/GetExtension/HasExtension.
func (w *Walker) readsOptionsDirect(fn *types.Func) bool {
	decl := w.P.Decls[fn]
	if decl == nil || decl.Body == nil {
		return false
	}
	info := w.P.DeclPkg[fn].TypesInfo
	res := false
	ast.Inspect(decl.Body, func(n ast.Node) bool {
		if call, ok := n.(*ast.CallExpr); ok {
			if c := Callee(info, call); c != nil && (c.Name() == "Options" || c.Name() == "GetExtension" || c.Name() == "HasExtension") {
				res = true
			} else if c != nil && fn.Exported() && c.Pkg() == fn.Pkg() && w.P.Decls[c] != nil && w.callsOptionReader(c) {
				// an exported accessor whose read goes through a private or generic reader of its package
				// (fieldExtensionOr[T](field, ext, fallback)) is the public face of that read: it is the base accessor
				if sig, ok := c.Type().(*types.Signature); ok && (!c.Exported() || sig.TypeParams().Len() > 0) {
					res = true
				}
			}
		}
		return !res
	})
	return res
}

// callsOptionReader: fn's own body calls Options() / proto.GetExtension / proto.HasExtension (no transitive closure).
func (w *Walker) callsOptionReader(fn *types.Func) bool {
	decl := w.P.Decls[fn]
	if decl == nil || decl.Body == nil {
		return false
	}
	info := w.P.DeclPkg[fn].TypesInfo
	res := false
	ast.Inspect(decl.Body, func(n ast.Node) bool {
		if call, ok := n.(*ast.CallExpr); ok {
			if c := Callee(info, call); c != nil && (c.Name() == "Options" || c.Name() == "GetExtension" || c.Name() == "HasExtension") {
				res = true
			}
		}
		return !res
	})
	return res
}

// helperPkgs: packages whose string/bool case tables are followed. The
// annotation accessors (internal/annotations) and the generated getters in
// http/*.pb.go stay symbolic: their results are descriptor facts, not text.
var helperPkgs = map[string]bool{
	"internal/httpgen": true, "internal/clientgen": true, "internal/tsclientgen": true,
	"internal/tsservergen": true, "internal/tscommon": true,
}

func (r *Run) inlineDecl(fn *types.Func, recv Val, call *ast.CallExpr, env *Env, rt types.Type) Val {
	decl := r.W.P.Decls[fn]
	pkg := r.W.P.DeclPkg[fn]
	args := r.args(call, env)
	// recursion / depth limits
	depth := 0
	for _, s := range r.stack {
		if s == fn {
			depth++
		}
	}
	recLimit := r.W.RecLimit
	if r.W.Concrete {
		recLimit = 8 // concrete descriptor values are finite trees: a walk over them (message → map entry → value message) is followed
	}
	if depth > recLimit || len(r.stack) > r.W.MaxDepth {
		if r.W.emitter[fn] {
			r.Trunc++
		}
		return VSym{Key: fn.Name() + "(" + argKeys(args) + ")", Typ: rt}
	}
	if !r.W.emitter[fn] {
		r.W.InlinedHelpers[FuncName(fn)]++
	}
	e2 := newEnv(nil)
	info := pkg.TypesInfo
	if decl.Recv != nil && len(decl.Recv.List) > 0 {
		for _, n := range decl.Recv.List[0].Names {
			if recv == nil {
				recv = VSym{Key: n.Name}
			}
			e2.define(info.Defs[n], recv)
		}
	}
	i := 0
	sig := fn.Type().(*types.Signature)
	for _, f := range decl.Type.Params.List {
		names := f.Names
		if len(names) == 0 {
			i++
			continue
		}
		for _, n := range names {
			var v Val
			if sig.Variadic() && i == sig.Params().Len()-1 {
				if call.Ellipsis.IsValid() && i < len(args) {
					v = args[i]
				} else {
					l := VList{Key: "varargs", Elems: []Val{}}
					if i < len(args) {
						l.Elems = append(l.Elems, args[i:]...)
					}
					v = l
				}
			} else if i < len(args) {
				v = args[i]
			} else {
				v = VNil{}
			}
			if n.Name != "_" {
				e2.define(info.Defs[n], v)
			}
			i++
		}
	}
	ret := r.callBody(fn, sig, pkg, decl.Type, decl.Body, e2)
	if ret == nil {
		return VNil{}
	}
	return ret
}

func (r *Run) inlineLit(f *VFunc, call *ast.CallExpr, env *Env) Val {
	args := r.args(call, env)
	e2 := newEnv(f.Env)
	info := f.Pkg.TypesInfo
	i := 0
	ft := f.Lit.Type
	sig, _ := info.Types[f.Lit].Type.(*types.Signature)
	for _, fl := range ft.Params.List {
		for _, n := range fl.Names {
			var v Val
			if sig != nil && sig.Variadic() && i == sig.Params().Len()-1 {
				if call.Ellipsis.IsValid() && i < len(args) {
					v = args[i]
				} else {
					l := VList{Key: "varargs", Elems: []Val{}}
					if i < len(args) {
						l.Elems = append(l.Elems, args[i:]...)
					}
					v = l
				}
			} else if i < len(args) {
				v = args[i]
			} else {
				v = VNil{}
			}
			e2.define(info.Defs[n], v)
			i++
		}
	}
	if len(r.stack) > r.W.MaxDepth {
		return VNil{}
	}
	r.litPos = append(r.litPos, call.Pos())
	ret := r.callBody(r.curFn(), sig, f.Pkg, ft, f.Lit.Body, e2)
	r.litPos = r.litPos[:len(r.litPos)-1]
	if ret == nil {
		return VNil{}
	}
	return ret
}

// truth turns an evaluated value into a branch outcome the way cond does.
func (r *Run) truth(v Val, pos token.Pos) bool {
	switch b := v.(type) {
	case VBool:
		return b.B
	case VSym:
		return r.decideBool(b.Key, true, pos)
	}
	return r.decideBool(v.key(), true, pos)
}

// applyFunc calls a function value (literal or declared repository function) on evaluated arguments.
func (r *Run) applyFunc(f *VFunc, vals []Val, pos token.Pos) (Val, bool) {
	if len(r.stack) > r.W.MaxDepth {
		return nil, false
	}
	if f.Lit != nil {
		e2 := newEnv(f.Env)
		info := f.Pkg.TypesInfo
		sig, _ := info.Types[f.Lit].Type.(*types.Signature)
		if sig == nil || sig.Variadic() {
			return nil, false
		}
		i := 0
		for _, fl := range f.Lit.Type.Params.List {
			for _, n := range fl.Names {
				var v Val = VNil{}
				if i < len(vals) {
					v = vals[i]
				}
				e2.define(info.Defs[n], v)
				i++
			}
		}
		r.litPos = append(r.litPos, pos)
		ret := r.callBody(r.curFn(), sig, f.Pkg, f.Lit.Type, f.Lit.Body, e2)
		r.litPos = r.litPos[:len(r.litPos)-1]
		if ret == nil {
			return VNil{}, true
		}
		return ret, true
	}
	if f.Decl == nil {
		return nil, false
	}
	fn := f.Decl.Origin()
	decl := r.W.P.Decls[fn]
	pkg := r.W.P.DeclPkg[fn]
	sig, _ := fn.Type().(*types.Signature)
	if decl == nil || decl.Body == nil || sig == nil || sig.Variadic() {
		return nil, false
	}
	for _, s := range r.stack {
		if s == fn {
			return nil, false
		}
	}
	e2 := newEnv(nil)
	info := pkg.TypesInfo
	if decl.Recv != nil && len(decl.Recv.List) > 0 {
		for _, n := range decl.Recv.List[0].Names {
			recv := f.Recv
			if recv == nil {
				recv = VSym{Key: n.Name}
			}
			e2.define(info.Defs[n], recv)
		}
	}
	i := 0
	for _, fl := range decl.Type.Params.List {
		if len(fl.Names) == 0 {
			i++
			continue
		}
		for _, n := range fl.Names {
			var v Val = VNil{}
			if i < len(vals) {
				v = vals[i]
			}
			if n.Name != "_" {
				e2.define(info.Defs[n], v)
			}
			i++
		}
	}
	ret := r.callBody(fn, sig, pkg, decl.Type, decl.Body, e2)
	if ret == nil {
		return VNil{}, true
	}
	return ret, true
}

// foldSlices interprets the search helpers of package slices as the loops they abbreviate, so that a
// generator written with slices.ContainsFunc explores exactly like one written with a range loop.
func (r *Run) foldSlices(name string, call *ast.CallExpr, env *Env, rt types.Type) (Val, bool) {
	if name == "Concat" && len(call.Args) >= 1 && (r.W.ConcatLists || r.W.Concrete) {
		// slices.Concat(a, b, …) = append(append([]T(nil), a...), b...): the elements of each list are decided now
		var elemT types.Type
		if rt != nil {
			if st, ok := rt.Underlying().(*types.Slice); ok {
				elemT = st.Elem()
			}
		}
		out := VList{Key: "concat", Elems: []Val{}}
		for _, a := range call.Args {
			v := r.eval(a, env)
			switch v.(type) {
			case VList, VSym, VNil:
				out.Elems = append(out.Elems, r.listElems(v, call.Pos(), elemT)...)
			default:
				return nil, false
			}
		}
		return out, true
	}
	if (name == "Sorted" || name == "Collect" || name == "Clone") && len(call.Args) == 1 {
		if l, ok := r.eval(call.Args[0], env).(VList); ok && l.Elems != nil {
			out := VList{Key: l.Key, Elems: append([]Val{}, l.Elems...)}
			if name == "Sorted" {
				strs := make([]string, len(out.Elems))
				for i, e := range out.Elems {
					sv, ok := e.(VStr)
					if !ok {
						return nil, false
					}
					c, ok := sv.isConst()
					if !ok {
						return nil, false
					}
					strs[i] = c
				}
				sort.Strings(strs)
				for i := range strs {
					out.Elems[i] = constStr(strs[i])
				}
			}
			return out, true
		}
		return nil, false
	}
	if len(call.Args) != 2 {
		return nil, false
	}
	var elemT types.Type
	if tv, ok := r.info().Types[call.Args[0]]; ok && tv.Type != nil {
		if sl, ok := tv.Type.Underlying().(*types.Slice); ok {
			elemT = sl.Elem()
		}
	}
	if elemT == nil {
		return nil, false
	}
	switch name {
	case "Contains", "Index":
		lv := r.eval(call.Args[0], env)
		x := r.eval(call.Args[1], env)
		for i, e := range r.listElems(lv, call.Pos(), elemT) {
			if r.equal(e, x, call.Pos(), "") {
				if name == "Index" {
					return VInt{N: int64(i), Label: fmt.Sprint(i)}, true
				}
				return VBool{B: true}, true
			}
		}
		if name == "Index" {
			return VInt{N: -1, Label: "-1"}, true
		}
		return VBool{B: false}, true
	case "ContainsFunc", "IndexFunc":
		lv := r.eval(call.Args[0], env)
		f, _ := r.eval(call.Args[1], env).(*VFunc)
		if f == nil {
			return nil, false
		}
		for i, e := range r.listElems(lv, call.Pos(), elemT) {
			v, ok := r.applyFunc(f, []Val{e}, call.Pos())
			if !ok {
				return VSym{Key: name + "(" + lv.key() + ",func)@" + fmt.Sprint(i), Typ: rt}, true
			}
			if r.truth(v, call.Pos()) {
				if name == "IndexFunc" {
					return VInt{N: int64(i), Label: fmt.Sprint(i)}, true
				}
				return VBool{B: true}, true
			}
		}
		if name == "IndexFunc" {
			return VInt{N: -1, Label: "-1"}, true
		}
		return VBool{B: false}, true
	}
	return nil, false
}

// foldRegexp evaluates the matching methods of a package-level *regexp.Regexp that is initialised with
// regexp.MustCompile(<constant>) and never written, on a constant subject string (constant folding: the pattern
// and the subject are both constants of the analysed source).
func (r *Run) foldRegexp(name string, call *ast.CallExpr, env *Env) (Val, bool) {
	sel, ok := ast.Unparen(call.Fun).(*ast.SelectorExpr)
	if !ok || len(call.Args) == 0 {
		return nil, false
	}
	id, ok := ast.Unparen(sel.X).(*ast.Ident)
	if !ok {
		return nil, false
	}
	o, _ := r.info().ObjectOf(id).(*types.Var)
	if o == nil || o.Pkg() == nil || o.Parent() != o.Pkg().Scope() {
		return nil, false
	}
	init, ppk := r.W.pkgVarInit(o)
	ic, ok := init.(*ast.CallExpr)
	if !ok || ppk == nil || len(ic.Args) != 1 {
		return nil, false
	}
	if f := Callee(ppk.TypesInfo, ic); f == nil || f.Pkg() == nil || f.Pkg().Path() != "regexp" || (f.Name() != "MustCompile" && f.Name() != "MustCompilePOSIX") {
		return nil, false
	}
	tv, ok := ppk.TypesInfo.Types[ic.Args[0]]
	if !ok || tv.Value == nil || tv.Value.Kind() != constant.String {
		return nil, false
	}
	re, err := regexp.Compile(constant.StringVal(tv.Value))
	if err != nil {
		return nil, false
	}
	sv, ok := r.eval(call.Args[0], env).(VStr)
	if !ok {
		return nil, false
	}
	subj, ok := sv.isConst()
	if !ok {
		return nil, false
	}
	strs := func(ss []string) Val {
		l := VList{Key: "regexp", Elems: []Val{}}
		for _, x := range ss {
			l.Elems = append(l.Elems, constStr(x))
		}
		return l
	}
	n := -1
	if len(call.Args) == 2 {
		nv, ok := r.eval(call.Args[1], env).(VInt)
		if !ok {
			return nil, false
		}
		n = int(nv.N)
	}
	switch name {
	case "MatchString":
		return VBool{B: re.MatchString(subj)}, true
	case "FindString":
		return constStr(re.FindString(subj)), true
	case "FindStringSubmatch":
		return strs(re.FindStringSubmatch(subj)), true
	case "FindAllString":
		return strs(re.FindAllString(subj, n)), true
	case "FindAllStringSubmatch":
		l := VList{Key: "regexp", Elems: []Val{}}
		for _, m := range re.FindAllStringSubmatch(subj, n) {
			l.Elems = append(l.Elems, strs(m))
		}
		return l, true
	}
	return nil, false
}

// foldStrings evaluates pure strings.* helpers on constant arguments.
func (r *Run) foldStrings(name string, call *ast.CallExpr, env *Env) (Val, bool) {
	args := r.args(call, env)
	cs := make([]string, len(args))
	for i, a := range args {
		sv, ok := a.(VStr)
		if !ok {
			return nil, false
		}
		c, ok := sv.isConst()
		if !ok {
			return nil, false
		}
		cs[i] = c
	}
	switch {
	case name == "ToLower" && len(cs) == 1:
		return constStr(strings.ToLower(cs[0])), true
	case name == "ToUpper" && len(cs) == 1:
		return constStr(strings.ToUpper(cs[0])), true
	case name == "TrimSpace" && len(cs) == 1:
		return constStr(strings.TrimSpace(cs[0])), true
	case name == "TrimSuffix" && len(cs) == 2:
		return constStr(strings.TrimSuffix(cs[0], cs[1])), true
	case name == "TrimPrefix" && len(cs) == 2:
		return constStr(strings.TrimPrefix(cs[0], cs[1])), true
	case name == "TrimRight" && len(cs) == 2:
		return constStr(strings.TrimRight(cs[0], cs[1])), true
	case name == "TrimLeft" && len(cs) == 2:
		return constStr(strings.TrimLeft(cs[0], cs[1])), true
	case name == "HasPrefix" && len(cs) == 2:
		return VBool{B: strings.HasPrefix(cs[0], cs[1])}, true
	case name == "HasSuffix" && len(cs) == 2:
		return VBool{B: strings.HasSuffix(cs[0], cs[1])}, true
	case name == "Contains" && len(cs) == 2:
		return VBool{B: strings.Contains(cs[0], cs[1])}, true
	case name == "EqualFold" && len(cs) == 2:
		return VBool{B: strings.EqualFold(cs[0], cs[1])}, true
	case name == "ReplaceAll" && len(cs) == 3:
		return constStr(strings.ReplaceAll(cs[0], cs[1], cs[2])), true
	case name == "path.Join":
		return constStr(pathpkg.Join(cs...)), true
	case name == "path.Clean" && len(cs) == 1:
		return constStr(pathpkg.Clean(cs[0])), true
	}
	return nil, false
}

func (r *Run) builtin(name string, call *ast.CallExpr, env *Env, rt types.Type) Val {
	switch name {
	case "len":
		v := r.eval(call.Args[0], env)
		switch x := v.(type) {
		case VStr:
			if c, ok := x.isConst(); ok {
				return VInt{N: int64(len(c))}
			}
			return VSym{Key: "len(" + x.key() + ")", Typ: rt}
		case VNil:
			return VInt{N: 0}
		case *VStruct:
			if x.Name == "map" && (x.Concrete || !x.Open) {
				return VInt{N: int64(len(x.Keys))}
			}
		case VList:
			if x.Elems != nil {
				return VInt{N: int64(len(x.Elems))}
			}
			return VInt{N: int64(r.decideCount(x.Key, call.Pos()))}
		case VSym:
			if x.Typ != nil {
				if b, ok := x.Typ.Underlying().(*types.Basic); ok && b.Info()&types.IsString != 0 {
					return VSym{Key: "len(" + x.Key + ")", Typ: rt}
				}
			}
			return VInt{N: int64(r.decideCount(x.Key, call.Pos()))}
		}
		return VSym{Key: "len(" + v.key() + ")", Typ: rt}
	case "append":
		args := r.args(call, env)
		// concrete bytes appended to a nil / concrete byte slice stay concrete
		if len(args) > 1 && !call.Ellipsis.IsValid() {
			allInt := true
			for _, a := range args[1:] {
				if _, ok := a.(VInt); !ok {
					allInt = false
				}
			}
			if allInt {
				if _, isNil := args[0].(VNil); isNil {
					return VList{Key: "bytes", Elems: append([]Val{}, args[1:]...)}
				}
				if l, ok := args[0].(VList); ok && l.Key == "bytes" {
					return VList{Key: "bytes", Elems: append(append([]Val{}, l.Elems...), args[1:]...)}
				}
			}
		}
		// append(a, b...) where a is empty or known: the elements of b are decided now
		if call.Ellipsis.IsValid() && len(args) == 2 && r.W.ConcatLists {
			var base []Val
			okBase := false
			switch a := args[0].(type) {
			case VNil:
				okBase = true
			case VList:
				if a.Elems != nil {
					base, okBase = a.Elems, true
				}
			case VSym:
				if strings.HasPrefix(a.Key, "make@") {
					okBase = true
				}
			}
			_, spreadKnown := args[1].(VList)
			_, spreadSym := args[1].(VSym)
			if okBase && (spreadKnown || spreadSym) {
				var elemT types.Type
				if st, ok := rt.Underlying().(*types.Slice); ok {
					elemT = st.Elem()
				}
				els := r.listElems(args[1], call.Pos(), elemT)
				return VList{Key: "concat", Elems: append(append([]Val{}, base...), els...)}
			}
		}
		if r.W.Concrete && !call.Ellipsis.IsValid() && len(args) > 1 {
			if _, isNil := args[0].(VNil); isNil {
				return VList{Key: "list", Elems: append([]Val{}, args[1:]...)}
			}
		}
		// append to a known list of known elements stays known
		if l, ok := args[0].(VList); ok && l.Elems != nil && !call.Ellipsis.IsValid() {
			nl := VList{Key: l.Key, Elems: append(append([]Val{}, l.Elems...), args[1:]...)}
			return nl
		}
		return VSym{Key: "append(" + argKeys(args) + ")", Typ: rt}
	case "make", "new":
		if !r.W.Concrete && r.FollowSlices && name == "make" && rt != nil {
			// a local lookup table over constant keys (first index of each path segment …): modelled exactly as long as
			// every key stored is a constant; an unknown key opens it (see VStruct.Open)
			if mt, isMap := rt.Underlying().(*types.Map); isMap {
				if b, ok := mt.Key().Underlying().(*types.Basic); ok && b.Info()&(types.IsString|types.IsInteger|types.IsBoolean) != 0 {
					r.structID++
					return &VStruct{Name: "map", Fields: map[string]Val{}, id: r.structID}
				}
			}
		}
		if r.W.Concrete && name == "make" && rt != nil {
			switch rt.Underlying().(type) {
			case *types.Map:
				r.structID++
				return &VStruct{Name: "map", Fields: map[string]Val{}, id: r.structID, Concrete: true}
			case *types.Slice:
				l := VList{Key: "list", Elems: []Val{}}
				if len(call.Args) >= 2 {
					// make([]T, n[, cap]): n zero elements, filled by index assignments
					if n, ok := r.eval(call.Args[1], env).(VInt); ok && n.N > 0 && n.N < 4096 {
						et := rt.Underlying().(*types.Slice).Elem()
						for i := int64(0); i < n.N; i++ {
							l.Elems = append(l.Elems, r.zero(et))
						}
					}
				}
				return l
			}
		}
		if r.FollowSlices && name == "make" && rt != nil && len(call.Args) >= 2 {
			// make([]T, 0[, cap]) in a run that follows slices: the empty list
			if _, isSlice := rt.Underlying().(*types.Slice); isSlice {
				if n, ok := r.eval(call.Args[1], env).(VInt); ok && n.N == 0 {
					return VList{Key: "list", Elems: []Val{}}
				}
			}
		}
		return VSym{Key: fmt.Sprintf("%s@%s", name, r.W.P.Pos(call.Pos())), Typ: rt}
	case "panic":
		r.Aborted = r.W.P.Pos(call.Pos())
		return VNil{}
	case "delete", "print", "println", "copy", "clear":
		args := r.args(call, env)
		if name == "delete" && len(args) == 2 {
			if m, ok := args[0].(*VStruct); ok && m.Name == "map" {
				k := args[1].key()
				if _, ok := m.Fields[k]; ok {
					delete(m.Fields, k)
					for i, kv := range m.Keys {
						if kv.key() == k {
							m.Keys = append(m.Keys[:i:i], m.Keys[i+1:]...)
							break
						}
					}
				}
			}
		}
		return VNil{}
	}
	return VSym{Key: name + "(" + argKeys(r.args(call, env)) + ")", Typ: rt}
}

func (r *Run) protogenCall(fn *types.Func, f *VFunc, call *ast.CallExpr, env *Env, rt types.Type) Val {
	sig := fn.Type().(*types.Signature)
	recvName := ""
	if sig.Recv() != nil {
		t := sig.Recv().Type()
		if pt, ok := t.(*types.Pointer); ok {
			t = pt.Elem()
		}
		if n, ok := t.(*types.Named); ok {
			recvName = n.Obj().Name()
		}
	}
	switch recvName + "." + fn.Name() {
	case "Plugin.NewGeneratedFile":
		args := r.args(call, env)
		name, _ := toStr(args[0])
		u := &Unit{Name: name, Pos: call.Pos()}
		r.Units = append(r.Units, u)
		return VGF{Unit: u}
	case "GeneratedFile.P":
		gf, ok := f.Recv.(VGF)
		if !ok {
			r.problem(call.Pos(), "P called on a GeneratedFile not traceable to NewGeneratedFile (%s)", f.Recv.key())
			if len(r.Units) == 0 {
				r.Units = append(r.Units, &Unit{Name: constStr("<fragment>"), Pos: call.Pos()})
			}
			gf = VGF{Unit: r.Units[len(r.Units)-1]}
		}
		var segs []Seg
		for _, a := range r.args(call, env) {
			s, _ := toStr(a)
			segs = append(segs, s.Segs...)
		}
		pos := call.Pos()
		if len(r.litPos) > 0 {
			pos = r.litPos[0]
		}
		if r.Aborted == "" {
			gf.Unit.Lines = append(gf.Unit.Lines, EmLine{Segs: segs, Pos: pos, Fn: r.curFn()})
		}
		return VNil{}
	case "GeneratedFile.QualifiedGoIdent":
		v := r.eval(call.Args[0], env)
		return VStr{Segs: []Seg{{Hole: &Hole{Key: v.key(), GoIdent: true}}}}
	case "GeneratedFile.Write", "GeneratedFile.Import", "GeneratedFile.Skip", "GeneratedFile.Unskip", "GeneratedFile.Content":
		r.problem(call.Pos(), "unmodelled GeneratedFile sink %s", fn.Name())
		return VNil{}
	}
	args := r.args(call, env)
	k := fn.Name() + "(" + argKeys(args) + ")"
	if f.Recv != nil {
		k = f.Recv.key() + "." + k
	}
	return VSym{Key: k, Typ: rt}
}

var verbRe = regexp.MustCompile(`%[-+# 0]*[0-9]*(\.[0-9]+)?[a-zA-Z%]`)

func (r *Run) sprintf(call *ast.CallExpr, env *Env, rt types.Type) Val {
	args := r.args(call, env)
	if len(args) == 0 {
		return VSym{Key: "Sprintf()"}
	}
	fs, ok := args[0].(VStr)
	format, isConst := "", false
	if ok {
		format, isConst = fs.isConst()
	}
	rest := args[1:]
	if call.Ellipsis.IsValid() && len(rest) == 1 {
		if l, ok := rest[0].(VList); ok && l.Elems != nil {
			rest = l.Elems
		} else if _, ok := rest[0].(VNil); ok {
			rest = nil
		} else {
			return VSym{Key: "fmt.Sprintf(" + argKeys(args) + ")", Typ: rt}
		}
	}
	if !isConst {
		return VSym{Key: "fmt.Sprintf(" + argKeys(args) + ")", Typ: rt}
	}
	return formatSegs(format, rest)
}

func formatSegs(format string, rest []Val) VStr {
	var out VStr
	pos := 0
	ai := 0
	for _, loc := range verbRe.FindAllStringIndex(format, -1) {
		if loc[0] > pos {
			out.Segs = append(out.Segs, Seg{Const: format[pos:loc[0]]})
		}
		verb := format[loc[1]-1]
		pos = loc[1]
		if verb == '%' {
			out.Segs = append(out.Segs, Seg{Const: "%"})
			continue
		}
		if ai >= len(rest) {
			out.Segs = append(out.Segs, Seg{Const: "%!" + string(verb) + "(MISSING)"})
			continue
		}
		a := rest[ai]
		ai++
		s, _ := toStr(a)
		if verb == 'q' {
			if c, ok := s.isConst(); ok {
				out.Segs = append(out.Segs, Seg{Const: strconv.Quote(c)})
			} else {
				out.Segs = append(out.Segs, Seg{Const: `"`})
				for _, sg := range s.Segs {
					if sg.Hole != nil {
						h := *sg.Hole
						h.Quoted = true
						out.Segs = append(out.Segs, Seg{Hole: &h})
					} else {
						out.Segs = append(out.Segs, sg)
					}
				}
				out.Segs = append(out.Segs, Seg{Const: `"`})
			}
			continue
		}
		out.Segs = append(out.Segs, s.Segs...)
	}
	if pos < len(format) {
		out.Segs = append(out.Segs, Seg{Const: format[pos:]})
	}
	return out
}

// ---------------------------------------------------------------- materialisation

var nonIdent = regexp.MustCompile(`[^A-Za-z0-9]+`)

// HoleName gives the placeholder identifier substituted for a hole. It is a
// valid Go and TypeScript identifier, derived from the provenance key so that
// holes of different provenance (or of different loop iterations) differ.
func HoleName(h *Hole) string {
	k := h.Key
	parts := nonIdent.Split(k, -1)
	var keep []string
	for _, p := range parts {
		if p != "" {
			keep = append(keep, p)
		}
	}
	if len(keep) > 4 {
		keep = keep[len(keep)-4:]
	}
	s := ""
	for _, p := range keep {
		s += strings.ToUpper(p[:1]) + p[1:]
	}
	if len(s) > 40 {
		s = s[len(s)-40:]
	}
	h32 := uint32(2166136261)
	for i := 0; i < len(k); i++ {
		h32 = (h32 ^ uint32(k[i])) * 16777619
	}
	return fmt.Sprintf("H%s_%04x", s, h32&0xffff)
}

func (u *Unit) Text() string {
	var b strings.Builder
	for _, l := range u.Lines {
		b.WriteString(lineText(l.Segs))
		b.WriteByte('\n')
	}
	return b.String()
}

func lineText(segs []Seg) string {
	var b strings.Builder
	for _, s := range segs {
		if s.Hole != nil {
			b.WriteString(HoleName(s.Hole))
		} else {
			b.WriteString(s.Const)
		}
	}
	return b.String()
}

func (u *Unit) NameText() string { return lineText(u.Name.Segs) }

// Suffix returns the constant tail of the unit's file name ("_http_binding.pb.go").
func (u *Unit) Suffix() string {
	if n := len(u.Name.Segs); n > 0 && u.Name.Segs[n-1].Hole == nil {
		return u.Name.Segs[n-1].Const
	}
	return u.NameText()
}

func sortedKeys[M ~map[string]V, V any](m M) []string {
	ks := make([]string, 0, len(m))
	for k := range m {
		ks = append(ks, k)
	}
	sort.Strings(ks)
	return ks
}

// tableLookup: m[k] for a symbolic key k in a map whose keys are constants — the key is taken to equal each
// table key in turn (the same value decision a `switch k { case … }` uses), or none of them.
// sym reports that k was symbolic (otherwise the plain lookup already answered).
func (r *Run) tableLookup(m *VStruct, k Val, pos token.Pos) (v Val, found bool, sym bool) {
	switch k.(type) {
	case VSym:
	default:
		if s, ok := k.(VStr); !ok {
			return nil, false, false
		} else if _, isConst := s.isConst(); isConst {
			return nil, false, false
		}
	}
	for _, key := range m.Keys {
		repr := ""
		switch kv := key.(type) {
		case VStr:
			c, ok := kv.isConst()
			if !ok {
				continue
			}
			repr = strconv.Quote(c)
		case VInt:
			repr = kv.Label
			if repr == "" {
				repr = strconv.FormatInt(kv.N, 10)
			}
		default:
			continue
		}
		if r.valueIs(k.key(), repr, pos) {
			return m.Fields[key.key()], true, true
		}
	}
	return nil, false, true
}

// pkgTable: a package-level variable of a repository package that is initialised with a composite literal and
// never assigned anywhere else is a constant table; its initialiser is evaluated (once per run).
func (r *Run) pkgTable(o *types.Var) Val {
	if o.Pkg() == nil || o.Parent() != o.Pkg().Scope() || !strings.HasPrefix(o.Pkg().Path(), modPath+"/") {
		return nil
	}
	if r.tables == nil {
		r.tables = map[*types.Var]Val{}
	}
	if v, ok := r.tables[o]; ok {
		return v
	}
	r.tables[o] = nil
	init, ppk := r.W.tableInit(o)
	if init == nil {
		return nil
	}
	r.pkgStack = append(r.pkgStack, ppk)
	v := r.eval(init, newEnv(nil))
	r.pkgStack = r.pkgStack[:len(r.pkgStack)-1]
	switch vv := v.(type) {
	case *VStruct:
		if vv.Name != "map" {
			v = nil
		}
	case VList:
		if vv.Elems == nil {
			v = nil
		}
	default:
		v = nil
	}
	r.tables[o] = v
	return v
}

// tableInit: the composite-literal initialiser of a package-level variable that no statement of its package
// assigns to, stores through or takes the address of.
// pkgVarInit: the initialiser of a package-level variable that is never written after its declaration.
func (w *Walker) pkgVarInit(o *types.Var) (ast.Expr, *packages.Package) {
	w.tableInit(o)
	return w.varInits[o], w.varInitPkg[o]
}

func (w *Walker) tableInit(o *types.Var) (ast.Expr, *packages.Package) {
	if w.tableInits == nil {
		w.tableInits = map[*types.Var]ast.Expr{}
		w.tableInfos = map[*types.Var]*packages.Package{}
		w.varInits = map[*types.Var]ast.Expr{}
		w.varInitPkg = map[*types.Var]*packages.Package{}
		for _, pk := range w.P.Pkgs {
			written := map[types.Object]bool{}
			for _, f := range pk.Syntax {
				ast.Inspect(f, func(n ast.Node) bool {
					switch x := n.(type) {
					case *ast.AssignStmt:
						for _, l := range x.Lhs {
							root := ast.Unparen(l)
							for {
								switch y := root.(type) {
								case *ast.IndexExpr:
									root = ast.Unparen(y.X)
									continue
								case *ast.SelectorExpr:
									root = ast.Unparen(y.X)
									continue
								}
								break
							}
							if id, ok := root.(*ast.Ident); ok {
								written[pk.TypesInfo.ObjectOf(id)] = true
							}
						}
					case *ast.UnaryExpr:
						if x.Op == token.AND {
							if id, ok := ast.Unparen(x.X).(*ast.Ident); ok {
								written[pk.TypesInfo.ObjectOf(id)] = true
							}
						}
					case *ast.IncDecStmt:
						if id, ok := ast.Unparen(x.X).(*ast.Ident); ok {
							written[pk.TypesInfo.ObjectOf(id)] = true
						}
					}
					return true
				})
			}
			for _, f := range pk.Syntax {
				for _, d := range f.Decls {
					gd, ok := d.(*ast.GenDecl)
					if !ok || gd.Tok != token.VAR {
						continue
					}
					for _, sp := range gd.Specs {
						vs := sp.(*ast.ValueSpec)
						if len(vs.Values) != len(vs.Names) {
							continue
						}
						for i, nm := range vs.Names {
							obj, _ := pk.TypesInfo.Defs[nm].(*types.Var)
							if obj == nil || written[obj] {
								continue
							}
							if _, isLit := ast.Unparen(vs.Values[i]).(*ast.CompositeLit); isLit {
								w.tableInits[obj] = vs.Values[i]
								w.tableInfos[obj] = pk
							}
							w.varInits[obj] = vs.Values[i]
							w.varInitPkg[obj] = pk
						}
					}
				}
			}
		}
	}
	return w.tableInits[o], w.tableInfos[o]
}

// bindStartArgByShape: scenario arguments are given by parameter name. When a parameter of that name does not
// exist (it was renamed, or several parameters were folded into one struct), the argument is found by shape:
//   - a parameter whose type is a struct (or pointer to one) declared in the repository, some of whose field names
//     are argument names, is bound to a struct value built from those arguments;
//   - a parameter of a protogen descriptor type is bound to the one unused argument that is a descriptor value of
//     that type; a string parameter to the one unused constant string.
func (r *Run) bindStartArgByShape(decl *ast.FuncDecl, pname string, t types.Type) Val {
	if len(r.startArgs) == 0 {
		return nil
	}
	used := map[string]bool{}
	for _, f := range decl.Type.Params.List {
		for _, n := range f.Names {
			if _, ok := r.startArgs[n.Name]; ok {
				used[n.Name] = true
			}
		}
	}
	bt := t
	if pt, ok := bt.(*types.Pointer); ok {
		bt = pt.Elem()
	}
	if named, ok := bt.(*types.Named); ok {
		if st, ok := named.Underlying().(*types.Struct); ok && named.Obj().Pkg() != nil && strings.HasPrefix(named.Obj().Pkg().Path(), modPath) {
			fields := map[string]Val{}
			for i := 0; i < st.NumFields(); i++ {
				if v, ok := r.startArgs[st.Field(i).Name()]; ok && !used[st.Field(i).Name()] {
					fields[st.Field(i).Name()] = v
				}
			}
			if len(fields) > 0 {
				r.structID++
				return &VStruct{Name: named.Obj().Name(), Fields: fields, id: r.structID, Concrete: true}
			}
		}
		// descriptor types: the unused argument of that descriptor kind
		var cand []Val
		for k, v := range r.startArgs {
			if used[k] {
				continue
			}
			if sv, ok := v.(*VStruct); ok && sv.Name == named.Obj().Name() {
				cand = append(cand, v)
			}
		}
		if len(cand) == 1 {
			return cand[0]
		}
	}
	if b, ok := bt.Underlying().(*types.Basic); ok && b.Info()&types.IsString != 0 {
		var cand []Val
		for k, v := range r.startArgs {
			if used[k] {
				continue
			}
			if sv, ok := v.(VStr); ok {
				if _, isConst := sv.isConst(); isConst {
					cand = append(cand, v)
				}
			}
		}
		if len(cand) == 1 {
			return cand[0]
		}
	}
	return nil
}
