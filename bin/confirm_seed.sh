#!/bin/sh
# bin/confirm_seed.sh <agent-out-dir> <i> <seed-name>
# Independently confirms a seeded mutant: applies it in a fresh scratch worktree of /repo,
# builds, compares the suite's pass/fail sets with the unchanged tree, runs the demonstration
# on the mutated tree (must fail) and on the clean tree (must pass). On success stores it as
# /verif/seeded/<seed-name>/ and records what our checks say about it.
HERE=$(cd "$(dirname "$0")/.." && pwd)
. "$HERE/bin/env.sh"
out=$1; i=$2; name=$3
[ -f "$out/mutant$i.diff" ] || { echo "no $out/mutant$i.diff"; exit 2; }
wt=$(mktemp -d /tmp/seed/confirm.XXXXXX); rmdir "$wt"
git -C /repo worktree add --detach "$wt" HEAD -q || exit 2
cleanup() { git -C /repo worktree remove --force "$wt" 2>/dev/null; rm -rf "$wt"; }
suite() { (cd "$wt" && go test -vet=off -count=1 -json ./... 2>/dev/null) | python3 -c "
import sys,json
res={}
for l in sys.stdin:
    try: e=json.loads(l)
    except: continue
    if e.get('Action') in ('pass','fail','skip') and e.get('Test'): res[e['Package']+'::'+e['Test']]=e['Action']
for k in sorted(res): print(k,res[k])
"; }
base=/tmp/seed/base-suite-$(git -C /repo rev-parse --short HEAD).txt
[ -f "$base" ] || suite > "$base"
(cd "$wt" && git apply "$out/mutant$i.diff") || { echo "CONFIRM $name: patch does not apply"; cleanup; exit 1; }
(cd "$wt" && go build ./... ) || { echo "CONFIRM $name: build fails"; cleanup; exit 1; }
suite > "$wt.suite"
if ! diff -q "$base" "$wt.suite" >/dev/null; then echo "CONFIRM $name: suite results differ:"; diff "$base" "$wt.suite" | head -5; rm -f "$wt.suite"; cleanup; exit 1; fi
rm -f "$wt.suite"
REPO="$wt" bash "$out/demo$i/run.sh" "$wt" > "$wt.demo.mut" 2>&1; mut=$?
(cd "$wt" && git checkout -q -- . && git clean -fdq)
REPO="$wt" bash "$out/demo$i/run.sh" "$wt" > "$wt.demo.clean" 2>&1; clean=$?
rm -f "$wt.demo.mut" "$wt.demo.clean"
cleanup
if [ $mut -eq 0 ] || [ $clean -ne 0 ]; then echo "CONFIRM $name: demo does not discriminate (mutant exit $mut, clean exit $clean)"; exit 1; fi
dst="$HERE/seeded/$name"; mkdir -p "$dst"
cp "$out/mutant$i.diff" "$dst/patch.diff"; rm -rf "$dst/demo"; cp -r "$out/demo$i" "$dst/demo"
python3 - "$out/meta$i.json" "$dst/meta.json" <<'PY'
import json,sys
m=json.load(open(sys.argv[1]))
m['confirmed']={'by':'bin/confirm_seed.sh','build':'go build ./... ok','suite':'pass/fail/skip sets identical to the unchanged tree','demo_on_mutant':'fails','demo_on_clean':'passes'}
json.dump(m,open(sys.argv[2],'w'),indent=1)
PY
echo "CONFIRM $name: confirmed (demo fails on mutant, passes on clean; suite unchanged)"
