package main

// C12 — misused annotations stop generation; valid definitions are never refused.

import (
	"fmt"
	"go/ast"
	"go/token"
	"go/types"
	"regexp"
	"sort"
	"strings"
)

func init() { props["C12"] = checkC12 }

// leadsTo: f is v or statically reaches v.
func (c *Ctx) leadsTo(f, v *types.Func, memo map[[2]*types.Func]bool) bool {
	k := [2]*types.Func{f, v}
	if r, ok := memo[k]; ok {
		return r
	}
	res := false
	for _, g := range c.P.Reach(f) {
		if g == v {
			res = true
			break
		}
	}
	memo[k] = res
	return res
}

type callSite struct {
	Call   *ast.CallExpr
	Callee *types.Func
	InLoop *ast.RangeStmt
}

func (c *Ctx) callSites(fn *types.Func) []callSite {
	decl := c.P.Decls[fn]
	if decl == nil || decl.Body == nil {
		return nil
	}
	info := c.P.DeclPkg[fn].TypesInfo
	var out []callSite
	var loops []*ast.RangeStmt
	var visit func(n ast.Node) bool
	visit = func(n ast.Node) bool {
		switch x := n.(type) {
		case *ast.RangeStmt:
			ast.Inspect(x.X, visit)
			loops = append(loops, x)
			ast.Inspect(x.Body, visit)
			loops = loops[:len(loops)-1]
			return false
		case *ast.CallExpr:
			if cal := Callee(info, x); cal != nil && c.P.Decls[cal] != nil {
				cs := callSite{Call: x, Callee: cal}
				if len(loops) > 0 {
					cs.InLoop = loops[0] // outermost enclosing loop
				}
				out = append(out, cs)
			} else if cal == nil {
				// a call through a local function variable (loop over a table of method values)
				for _, ic := range IndirectCallees(info, decl.Body, x) {
					if c.P.Decls[ic] == nil {
						continue
					}
					cs := callSite{Call: x, Callee: ic}
					if len(loops) > 0 {
						cs.InLoop = loops[0]
					}
					out = append(out, cs)
				}
			}
		}
		return true
	}
	ast.Inspect(decl.Body, visit)
	return out
}

// chain checks that v is called on every success path from f (loops over
// descriptor collections are transparent). It returns the chain found, or
// the reason why there is none.
func (c *Ctx) chain(f, v *types.Func, memo map[[2]*types.Func]bool, onStack map[*types.Func]bool) (ok bool, path []string, why string, whyPos token.Pos) {
	if f == v {
		return true, []string{FuncName(v)}, "", token.NoPos
	}
	if onStack[f] {
		return false, nil, "recursive chain", token.NoPos
	}
	onStack[f] = true
	defer delete(onStack, f)
	decl := c.P.Decls[f]
	info := c.P.DeclPkg[f].TypesInfo
	byCallee := map[*types.Func][]callSite{}
	var order []*types.Func
	for _, cs := range c.callSites(f) {
		if cs.Callee != f && c.leadsTo(cs.Callee, v, memo) {
			if _, seen := byCallee[cs.Callee]; !seen {
				order = append(order, cs.Callee)
			}
			byCallee[cs.Callee] = append(byCallee[cs.Callee], cs)
		}
	}
	if len(order) == 0 {
		return false, nil, fmt.Sprintf("%s does not reach %s", FuncName(f), FuncName(v)), decl.Pos()
	}
	var lastWhy string
	var lastPos token.Pos
	for _, cal := range order {
		sites := byCallee[cal]
		var straight []token.Pos
		inLoop := false
		for _, s := range sites {
			if s.InLoop != nil {
				inLoop = true
			} else {
				straight = append(straight, s.Call.Pos())
			}
		}
		reached := false
		if len(straight) > 0 {
			if mp, esc := mustPassX(info, decl.Body, straight, serviceEmpty); mp {
				reached = true
			} else {
				lastWhy = fmt.Sprintf("%s can return successfully without calling %s (escaping exit at %s)", FuncName(f), FuncName(cal), c.P.Pos(esc))
				lastPos = esc
			}
		}
		if !reached && inLoop {
			// a call per element of a descriptor collection; the loop itself must be
			// passed on every success path
			var loopPos []token.Pos
			for _, s := range sites {
				if s.InLoop != nil {
					outer := s.InLoop
					loopPos = append(loopPos, outer.Pos())
				}
			}
			if mp, esc := mustPassLoop(info, decl.Body, loopPos); mp {
				reached = true
			} else {
				lastWhy = fmt.Sprintf("%s can return successfully before the loop that calls %s (escaping exit at %s)", FuncName(f), FuncName(cal), c.P.Pos(esc))
				lastPos = esc
			}
		}
		if !reached {
			continue
		}
		ok2, p2, w2, wp2 := c.chain(cal, v, memo, onStack)
		if ok2 {
			return true, append([]string{FuncName(f)}, p2...), "", token.NoPos
		}
		lastWhy, lastPos = w2, wp2
	}
	return false, nil, lastWhy, lastPos
}

// mustPassLoop: like mustPass, but the marked constructs are loop statements:
// a path that reaches the loop head counts as passing.
func mustPassLoop(info *types.Info, body *ast.BlockStmt, loops []token.Pos) (bool, token.Pos) {
	// a RangeStmt's X expression is evaluated at the loop head: mark positions inside X
	var sites []token.Pos
	ranged := map[string]bool{}
	ast.Inspect(body, func(n ast.Node) bool {
		if rs, ok := n.(*ast.RangeStmt); ok {
			for _, lp := range loops {
				if rs.Pos() == lp {
					sites = append(sites, rs.X.Pos())
					ranged[types.ExprString(rs.X)] = true
				}
			}
		}
		return true
	})
	// returning because the ranged collection is empty skips nothing
	return mustPassX(info, body, sites, func(e ast.Expr) bool { return ranged[types.ExprString(e)] || serviceEmpty(e) })
}

// serviceEmpty: `len(file.Services) == 0` — service-scoped rules (HTTP
// configuration, ts-server route checks) have nothing to check then. The JSON
// mapping rules are message-scoped; for them this guard is NOT harmless, which
// is why it is only honoured on chains whose target is service-scoped.
var serviceScoped = false

func serviceEmpty(e ast.Expr) bool {
	if !serviceScoped {
		return false
	}
	sel, ok := ast.Unparen(e).(*ast.SelectorExpr)
	return ok && sel.Sel.Name == "Services"
}

type fieldRule struct {
	Name   string
	Pkg    string
	Func   string
	Valid  func(Shape) bool // shapes on which the annotation is documented as valid
	Doc    string
	IsBool bool // predicate: true = compatible
	// Excuse: a refusal on a valid shape that the rule documents for an
	// annotation-only reason (given the decisions taken on that path).
	Excuse func(chosen map[string]int) bool
}

var fieldRules = []fieldRule{
	{Name: "nullable", Pkg: "internal/annotations", Func: "ValidateNullableAnnotation",
		Valid: func(s Shape) bool {
			return s.Card == "singular" && s.Pres == "optional" && s.Kind != "message" && s.Kind != "timestamp"
		},
		Doc: "nullable: only on proto3 optional primitive fields (annotations.proto; C12: 'nullable on a non-optional or message field')"},
	{Name: "empty_behavior", Pkg: "internal/annotations", Func: "ValidateEmptyBehaviorAnnotation",
		Valid: func(s Shape) bool { return s.Card == "singular" && (s.Kind == "message" || s.Kind == "timestamp") },
		Doc:   "empty_behavior: only on singular message fields"},
	{Name: "timestamp_format", Pkg: "internal/annotations", Func: "ValidateTimestampFormatAnnotation",
		Valid: func(s Shape) bool { return s.Kind == "timestamp" && s.Card != "map" },
		Doc:   "timestamp_format: only on google.protobuf.Timestamp fields"},
	{Name: "bytes_encoding", Pkg: "internal/annotations", Func: "ValidateBytesEncodingAnnotation",
		Valid: func(s Shape) bool { return s.Kind == "bytes" && s.Card != "map" },
		Doc:   "bytes_encoding: only on bytes fields"},
	{Name: "flatten", Pkg: "internal/annotations", Func: "ValidateFlattenField",
		Valid: func(s Shape) bool {
			return s.Card == "singular" && (s.Kind == "message" || s.Kind == "timestamp") && s.Pres != "oneof"
		},
		Doc: "flatten: only on singular message fields that are not oneof variants; flatten_prefix requires flatten",
		// "a prefix without flatten": IsFlattenField false (arm 1) and a non-empty prefix
		Excuse: func(ch map[string]int) bool {
			for k, v := range ch {
				if strings.Contains(k, "IsFlattenField(") && v == 1 {
					return true
				}
			}
			return false
		}},
	{Name: "path-variable", Pkg: "internal/httpgen", Func: "isPathParamCompatible", IsBool: true,
		Valid: func(s Shape) bool {
			if s.Card != "singular" {
				return false
			}
			switch s.Kind {
			case "bytes", "enum", "message", "timestamp":
				return false
			}
			return true
		},
		Doc: "path variable: bound field must be a (singular) scalar: string, integer kinds, bool, float, double"},
}

func checkC12(c *Ctx) {
	r := c.R
	r.Explain = "Decides structural clauses of C12 on the generators' own code. R12a: every rule function (exported Validate* of internal/annotations, GetUnwrapField, HasConflictingEnumAnnotations, httpgen.ValidateService, the MarshalJSON-conflict checks) is called on EVERY success path from each Go plugin's Generate() (go/cfg must-pass through the chain of callers; loops over descriptor collections are transparent) — in particular not after the 'file has no services' return and not under a 'has annotated messages' test. R12b: each validation walker iterates messages and recurses into nested messages. R12c: at every call site of a function that leads to a rule, the failure arm returns a non-nil error (accepted idioms enumerated); swallow sites are reported. R12d: each field-level rule is evaluated over the finite field-shape domain (90 shapes) by walking the validator's syntax tree with the shape's descriptor answers fixed, for every combination of its remaining (annotation) decisions, and compared with the documented table in both directions (refuses what it must, never refuses a valid placement or an unannotated field). R12e: plugins that implement no rule (ts-client, openapiv3) contain no error-constructing site; ts-server only in its two documented checks; each Go plugin's main returns Generate()'s error to protogen (which then answers with error and no files). R12g: message-level validators (HTTP config rules, discriminator and flatten collisions, flattened-oneof rules, unwrap placement, the TS server's two checks) are interpreted on concrete rule instances — small hand-built descriptor values whose descriptor methods and annotation accessors are answered from the value, with maps, slices and errors modelled as values — and must give the documented verdict, offending and valid instances alike. Not decided: message-level predicates outside the listed instances; wording of messages."
	r.Trusted = []string{"protogen.Options.Run: a non-nil error from the callback becomes CodeGeneratorResponse.error and no files (compiler/protogen/protogen.go run())",
		"protogen sets Field.Oneof for members of real and synthetic oneofs; Field.Message for message/group kinds incl. map entries"}
	r.Rule("R12a", "every rule function is called on every success path from each Go plugin's Generate()", 18)
	r.Rule("R12b", "validation walkers iterate messages and recurse into nested messages", 8)
	r.Rule("R12c", "errors from rule functions are propagated (failure arm returns a non-nil error) at every call site", 30)
	r.Rule("R12d", "field-level rule predicates equal the documented table over the field-shape domain, both directions (one obligation per rule x cardinality/presence class x verdict, listing the kinds)", 30)
	r.Rule("R12e", "who-may-refuse: no error-constructing site outside the documented rule functions; mains hand Generate()'s error to protogen", 6)

	c12Scenarios(c)
	r.Rule("R12h", "the shared path-variable parser reports every {…} segment of a route as a variable, whatever it contains: the 'no matching field' rule sees each of them (a brace segment it does not see is emitted as an unbound literal route segment)", 6)
	c12BraceSegments(c, "R12h")
	memo := map[[2]*types.Func]bool{}
	annPk := c.P.Pkg("internal/annotations")
	if annPk == nil {
		r.Unres("R12a", "annotations package", "", "internal/annotations not loaded")
		return
	}
	// ---- rule set V
	type vrule struct {
		Fn      *types.Func
		Plugins []string
	}
	var V []vrule
	both := []string{pkgHTTP, pkgClient}
	for _, n := range annPk.Types.Scope().Names() {
		f, ok := annPk.Types.Scope().Lookup(n).(*types.Func)
		if !ok || !f.Exported() {
			continue
		}
		if strings.HasPrefix(n, "Validate") || n == "HasConflictingEnumAnnotations" {
			V = append(V, vrule{f, both})
		}
		if n == "GetUnwrapField" {
			V = append(V, vrule{f, []string{pkgHTTP}}) // go-client implements all rules but unwrap
		}
	}
	for _, pk := range both {
		for _, n := range []string{"checkMarshalJSONConflict", "validateFlattenMarshalJSONConflict"} {
			if f := c.P.Func(pk, n); f != nil {
				V = append(V, vrule{f, []string{pk}})
			} else {
				r.Unres("R12a", pk+"."+n, "", "MarshalJSON conflict check not found")
			}
		}
	}
	if f := c.P.Func(pkgHTTP, "ValidateService"); f != nil {
		V = append(V, vrule{f, []string{pkgHTTP}})
		if g := c.P.Func(pkgHTTP, "ValidateMethodConfig"); g != nil {
			V = append(V, vrule{g, []string{pkgHTTP}})
		}
	} else {
		r.Unres("R12a", "httpgen.ValidateService", "", "not found")
	}
	r.Count("rule_functions", len(V))

	// ---- R12a
	for _, v := range V {
		for _, pk := range v.Plugins {
			gen := c.P.Func(pk, "Generator.Generate")
			if gen == nil {
				r.Unres("R12a", pk+" Generate", "", "plugin entry not found")
				continue
			}
			serviceScoped = v.Fn.Name() == "ValidateService" || v.Fn.Name() == "ValidateMethodConfig"
			ok, path, why, pos := c.chain(gen, v.Fn, memo, map[*types.Func]bool{})
			serviceScoped = false
			key := fmt.Sprintf("%s must reach %s", FuncName(gen), FuncName(v.Fn))
			r.CheckD(ok, "R12a", key, c.P.Pos(pos), "rule is not enforced on every successful run of the plugin: "+why, map[string]any{"chain": path})
		}
	}
	// ts-server's own checks
	if gen := c.P.Func("internal/tsservergen", "Generator.Generate"); gen != nil {
		for _, n := range []string{"resolvePathParamFields", "validateFieldCoverage"} {
			f := c.P.Func("internal/tsservergen", n)
			if f == nil {
				r.Unres("R12a", "tsservergen."+n, "", "not found")
				continue
			}
			serviceScoped = true
			ok, path, why, pos := c.chain(gen, f, memo, map[*types.Func]bool{})
			serviceScoped = false
			// services loop inside generateFile returns early when no services: nothing to validate then
			r.CheckD(ok, "R12a", fmt.Sprintf("%s must reach %s", FuncName(gen), FuncName(f)), c.P.Pos(pos), "ts-server check not on every success path: "+why, map[string]any{"chain": path})
		}
	}

	// ---- R12b walkers
	for _, pk := range both {
		pkg := c.P.Pkg(pk)
		for fn, decl := range c.P.Decls {
			if fn.Pkg() != pkg.Types || decl.Body == nil {
				continue
			}
			leads := false
			for _, v := range V {
				if fn != v.Fn && c.leadsTo(fn, v.Fn, memo) {
					leads = true
				}
			}
			if !leads {
				continue
			}
			// walker: has a parameter of type []*protogen.Message and ranges over it
			sig := fn.Type().(*types.Signature)
			var msgsParam *types.Var
			for i := 0; i < sig.Params().Len(); i++ {
				if sl, ok := sig.Params().At(i).Type().(*types.Slice); ok && typeIsNamed(sl.Elem(), "compiler/protogen", "Message") {
					msgsParam = sig.Params().At(i)
				}
			}
			if msgsParam == nil {
				continue
			}
			info := pkg.TypesInfo
			recurses, ranges := false, false
			skipped := ""
			ast.Inspect(decl.Body, func(n ast.Node) bool {
				switch x := n.(type) {
				case *ast.RangeStmt:
					if id, ok := ast.Unparen(x.X).(*ast.Ident); ok && info.ObjectOf(id) == msgsParam {
						ranges = true
						var elem types.Object
						if vid, ok := x.Value.(*ast.Ident); ok {
							elem = info.ObjectOf(vid)
						}
						var recPos token.Pos
						var recAll []token.Pos
						ast.Inspect(x.Body, func(m ast.Node) bool {
							if call, ok := m.(*ast.CallExpr); ok && Callee(info, call) == fn {
								for _, a := range call.Args {
									if sel, ok := ast.Unparen(a).(*ast.SelectorExpr); ok && sel.Sel.Name == "Messages" {
										if id, ok := ast.Unparen(sel.X).(*ast.Ident); ok && info.ObjectOf(id) == elem {
											recurses = true
											recPos = call.Pos()
											recAll = append(recAll, call.Pos())
										}
									}
								}
							}
							return true
						})
						lparents := parentMap(x.Body)
						// an exit that follows a recursion in its own block has already covered the nested messages
						covered := func(n ast.Node) bool {
							blk, ok := lparents[n].(*ast.BlockStmt)
							if !ok {
								return false
							}
							for _, st := range blk.List {
								if st.Pos() >= n.Pos() {
									break
								}
								for _, rp := range recAll {
									if nodeContains(st, rp) {
										return true
									}
								}
							}
							return false
						}
						// nothing ahead of the recursive call may leave the iteration: a `continue` (or a successful
						// return) for messages that have no annotated field of their own skips their nested messages
						if recurses {
							var scan func(n ast.Node) bool
							scan = func(n ast.Node) bool {
								switch b := n.(type) {
								case *ast.ForStmt, *ast.RangeStmt, *ast.FuncLit:
									return false // branch statements inside belong to the inner loop
								case *ast.BranchStmt:
									if (b.Tok == token.CONTINUE || b.Tok == token.BREAK) && b.Pos() < recPos && !covered(b) {
										skipped = b.Tok.String() + " at " + c.P.Pos(b.Pos())
									}
								case *ast.ReturnStmt:
									if b.Pos() < recPos && len(b.Results) == 1 && !covered(b) {
										if id, ok := ast.Unparen(b.Results[0]).(*ast.Ident); ok && id.Name == "nil" {
											skipped = "return nil at " + c.P.Pos(b.Pos())
										}
									}
								}
								return true
							}
							for _, st := range x.Body.List {
								ast.Inspect(st, scan)
							}
						}
					}
				}
				return true
			})
			if !ranges {
				continue // a wrapper handing the slice on, not a walker
			}
			why := "validation walker over []*protogen.Message does not recurse into <element>.Messages: annotations on nested messages are not validated"
			if recurses && skipped != "" {
				why = "the walker leaves the iteration (" + skipped + ") ahead of the recursion into <element>.Messages: nested messages of a message that is skipped are not validated"
			}
			r.Check(recurses && skipped == "", "R12b", FuncName(fn)+" covers nested messages", c.P.Pos(decl.Pos()), why)
		}
	}

	// ---- R12c error propagation at every call site of a function leading to a rule
	nSites := 0
	for _, pk := range c.genPkgs() {
		for fn, decl := range c.P.Decls {
			if fn.Pkg() != pk.Types || decl.Body == nil {
				continue
			}
			info := pk.TypesInfo
			var parents map[ast.Node]ast.Node
			for _, cs := range c.callSites(fn) {
				res := cs.Callee.Type().(*types.Signature).Results()
				if res.Len() == 0 {
					continue
				}
				last := res.At(res.Len() - 1).Type()
				isErr := isErrorType(last)
				isBoolRule := false
				for _, v := range V {
					if cs.Callee == v.Fn && !isErr {
						if b, ok := last.Underlying().(*types.Basic); ok && b.Kind() == types.Bool {
							isBoolRule = true
						}
					}
				}
				if !isErr && !isBoolRule {
					continue
				}
				leads := false
				for _, v := range V {
					if c.leadsTo(cs.Callee, v.Fn, memo) {
						leads = true
						break
					}
				}
				if !leads {
					continue
				}
				if parents == nil {
					parents = parentMap(decl.Body)
				}
				nSites++
				h, why := classifyErrorUse(info, decl.Body, cs.Call, parents)
				key := fmt.Sprintf("%s handles the result of %s", FuncName(fn), FuncName(cs.Callee))
				if n := countCalls(c, fn, cs.Callee); n > 1 {
					key += fmt.Sprintf(" (site %d)", siteIndex(c, fn, cs))
				}
				if h != ErrPropagated {
					// identity of a swallow site: package, callee and the shape of the test (identifiers erased) —
					// not the enclosing function, which a clean-up may rename or split
					key = fmt.Sprintf("%s swallows the result of %s: %s", pkgShort(strings.TrimPrefix(fn.Pkg().Path(), modPath+"/")), FuncName(cs.Callee), swallowShape(why))
				}
				r.Check(h == ErrPropagated, "R12c", key, c.P.Pos(cs.Call.Pos()),
					"a rule violation detected here does not stop generation: "+why+" (in "+FuncName(fn)+")")
			}
		}
	}
	r.Count("rule_call_sites", nSites)

	// ---- R12d predicates over the shape domain
	shapes := AllShapes()
	r.Count("shapes", len(shapes))
	evals := 0
	for _, fr := range fieldRules {
		fn := c.P.Func(fr.Pkg, fr.Func)
		if fn == nil {
			r.Unres("R12d", fr.Name, "", fr.Func+" not found in "+fr.Pkg)
			continue
		}
		decl := c.P.Decls[fn]
		// the *protogen.Field parameter
		prefix := ""
		for _, f := range decl.Type.Params.List {
			for _, n := range f.Names {
				if o := c.P.DeclPkg[fn].TypesInfo.Defs[n]; o != nil && typeIsNamed(o.Type(), "compiler/protogen", "Field") {
					prefix = n.Name
				}
			}
		}
		if prefix == "" {
			r.Unres("R12d", fr.Name, c.P.Pos(decl.Pos()), "no *protogen.Field parameter")
			continue
		}
		type agg struct {
			kinds []string
			msg   string
			d     map[string]any
		}
		okAgg, badAgg := map[string]*agg{}, map[string]*agg{}
		var aggOrder []string
		record := func(s Shape, ok bool, msg string, d map[string]any) {
			class := s.Card
			if s.Card == "singular" {
				class = s.Pres
			}
			m := okAgg
			if !ok {
				m = badAgg
			}
			if m[class] == nil {
				m[class] = &agg{msg: msg, d: d}
				aggOrder = append(aggOrder, class)
			}
			m[class].kinds = append(m[class].kinds, s.Kind)
		}
		for _, s := range shapes {
			s := s
			outs, problems, capped := c.W.EvalAll(fn, func(dk, cr string) (int, bool) { return s.Answer(prefix, dk, cr) }, false, 512)
			evals += len(outs)
			key := fmt.Sprintf("%s on %s", fr.Name, s)
			pos := c.P.Pos(decl.Pos())
			if len(problems) > 0 || capped {
				r.Undec("R12d", key, pos, "validator uses constructs outside the evaluator's vocabulary: "+strings.Join(problems, "; "))
				continue
			}
			nAcc, nRej := 0, 0
			var rejDec, accDec string
			for _, o := range outs {
				acc := o.NilError()
				if fr.IsBool {
					b, isB := o.Result.(VBool)
					if !isB {
						r.Undec("R12d", key, pos, "predicate result is not a decided boolean")
						continue
					}
					acc = b.B
				}
				if acc {
					nAcc++
					accDec = decString(o.Dec)
				} else {
					nRej++
					rejDec = decString(o.Dec)
				}
			}
			d := map[string]any{"combinations": len(outs), "accepting": nAcc, "refusing": nRej}
			switch {
			case fr.IsBool:
				if fr.Valid(s) {
					record(s, nRej == 0, "this shape is valid but the predicate refuses it", d)
				} else {
					record(s, nAcc == 0, "this shape is not allowed but the predicate accepts it", d)
				}
			case fr.Valid(s):
				// valid placement: refused only for the documented annotation-only reason (prefix without flatten)
				bad := false
				for _, o := range outs {
					if !o.NilError() {
						ch := map[string]int{}
						for _, u := range o.Used {
							ch[u.Key] = u.Chosen
						}
						if fr.Excuse != nil && fr.Excuse(ch) {
							continue
						}
						bad = true
						rejDec = decString(ch)
					}
				}
				d["refused_under"] = rejDec
				record(s, !bad, "a valid placement is refused (decisions: "+rejDec+")", d)
			default:
				d["accepted_under"] = accDec
				record(s, nRej > 0 && nAcc > 0, fmt.Sprintf("on this shape the annotated field must be refused and the unannotated field accepted; refusing combinations: %d, accepting: %d", nRej, nAcc), d)
			}
			_ = key
		}
		seenClass := map[string]bool{}
		for _, class := range aggOrder {
			if seenClass[class] {
				continue
			}
			seenClass[class] = true
			pos := c.P.Pos(decl.Pos())
			if a := okAgg[class]; a != nil {
				r.OKd("R12d", fmt.Sprintf("%s on %s {%s}", fr.Name, class, strings.Join(a.kinds, ",")), pos, a.d)
			}
			if a := badAgg[class]; a != nil {
				r.Bad("R12d", fmt.Sprintf("%s on %s {%s}", fr.Name, class, strings.Join(a.kinds, ",")), pos, fr.Doc+" — "+a.msg, a.d)
			}
		}
	}
	r.Count("predicate_evaluations", evals)

	// ---- R12e who may refuse
	allowedErr := map[string]bool{}
	for _, n := range []string{"resolvePathParamFields", "validateFieldCoverage", "Generator.buildRPCRouteConfig", "Generator.generateRouteEntry"} {
		// resolved through Prog.Func, so that a renamed function keeps its place in the table
		if f := c.P.Func("internal/tsservergen", n); f != nil {
			allowedErr[FuncName(f)] = true
		}
	}
	for _, rel := range []string{"internal/tsclientgen", "internal/tscommon", "internal/tsservergen", "internal/openapiv3"} {
		pk := c.P.Pkg(rel)
		if pk == nil {
			r.Unres("R12e", rel, "", "package not loaded")
			continue
		}
		bad := 0
		for _, f := range pk.Syntax {
			ast.Inspect(f, func(n ast.Node) bool {
				call, ok := n.(*ast.CallExpr)
				if !ok {
					return true
				}
				cal := Callee(pk.TypesInfo, call)
				isCtor := cal != nil && cal.Pkg() != nil && ((cal.Pkg().Path() == "fmt" && cal.Name() == "Errorf") || (cal.Pkg().Path() == "errors" && cal.Name() == "New"))
				if id, ok := call.Fun.(*ast.Ident); ok && id.Name == "panic" {
					isCtor = true
				}
				if !isCtor {
					return true
				}
				where := c.enclosingFunc(pk, call.Pos())
				if allowedErr[where] {
					return true
				}
				// openapiv3.Render wraps marshalling errors (not a descriptor-shape refusal)
				if rel == "internal/openapiv3" && strings.HasSuffix(where, ".Render") {
					return true
				}
				bad++
				r.Bad("R12e", where+" constructs an error", c.P.Pos(call.Pos()),
					"a plugin that implements no annotation rule can now refuse a definition (or ts-server refuses outside its two documented checks): a definition that breaks none of the rules must be accepted by all five plugins", nil)
				return true
			})
		}
		if bad == 0 {
			r.OK("R12e", rel+": no refusing path outside the documented checks", "")
		}
	}
	for _, cmd := range []string{"cmd/protoc-gen-go-http", "cmd/protoc-gen-go-client"} {
		pk := c.P.Pkg(cmd)
		if pk == nil {
			r.Unres("R12e", cmd, "", "package not loaded")
			continue
		}
		// the callback handed to (protogen.Options).Run — a function literal or a named function — must return
		// Generate() (or its error)
		ok := false
		returnsGenerate := func(body *ast.BlockStmt) bool {
			hit := false
			ast.Inspect(body, func(m ast.Node) bool {
				if ret, isRet := m.(*ast.ReturnStmt); isRet && len(ret.Results) == 1 {
					if call, isCall := ast.Unparen(ret.Results[0]).(*ast.CallExpr); isCall {
						if cal := Callee(pk.TypesInfo, call); cal != nil && cal.Name() == "Generate" {
							hit = true
						}
					}
				}
				return true
			})
			return hit
		}
		for _, f := range pk.Syntax {
			ast.Inspect(f, func(n ast.Node) bool {
				call, isCall := n.(*ast.CallExpr)
				if !isCall || len(call.Args) != 1 {
					return true
				}
				cal := Callee(pk.TypesInfo, call)
				if cal == nil || cal.Name() != "Run" || cal.Pkg() == nil || !strings.HasSuffix(cal.Pkg().Path(), "compiler/protogen") {
					return true
				}
				switch cb := ast.Unparen(call.Args[0]).(type) {
				case *ast.FuncLit:
					if returnsGenerate(cb.Body) {
						ok = true
					}
				case *ast.Ident:
					if fn, isFn := pk.TypesInfo.ObjectOf(cb).(*types.Func); isFn {
						if d := c.P.Decls[fn]; d != nil && d.Body != nil && returnsGenerate(d.Body) {
							ok = true
						}
					}
				}
				return true
			})
		}
		r.Check(ok, "R12e", cmd+": Run callback returns Generate()'s error", "", "the plugin main does not hand the generator's error to protogen: a failing run could still answer with files")
	}
}

func decString(m map[string]int) string {
	var parts []string
	for _, k := range sortedKeys(m) {
		parts = append(parts, fmt.Sprintf("%s=%d", k, m[k]))
	}
	sort.Strings(parts)
	return strings.Join(parts, " ")
}

func countCalls(c *Ctx, fn, callee *types.Func) int {
	n := 0
	for _, cs := range c.callSites(fn) {
		if cs.Callee == callee {
			n++
		}
	}
	return n
}

func siteIndex(c *Ctx, fn *types.Func, target callSite) int {
	i := 0
	for _, cs := range c.callSites(fn) {
		if cs.Callee == target.Callee {
			i++
			if cs.Call == target.Call {
				return i
			}
		}
	}
	return 0
}

var identRe = regexp.MustCompile(`[A-Za-z_][A-Za-z0-9_.]*`)

// swallowShape erases the identifiers of the quoted condition in a classifyErrorUse explanation.
func swallowShape(why string) string {
	i, j := strings.Index(why, "("), strings.LastIndex(why, ")")
	if i < 0 || j < i {
		return why
	}
	cond := identRe.ReplaceAllStringFunc(why[i+1:j], func(id string) string {
		if id == "nil" || id == "true" || id == "false" {
			return id
		}
		return "v"
	})
	// && and || commute: the operands of a flat conjunction / disjunction are put in a canonical order, so that
	// re-ordering independent tests does not change the identity of the site
	for _, op := range []string{" && ", " || "} {
		other := " || "
		if op == " || " {
			other = " && "
		}
		if strings.Contains(cond, op) && !strings.Contains(cond, other) && !strings.ContainsAny(cond, "()") {
			parts := strings.Split(cond, op)
			sort.Strings(parts)
			cond = strings.Join(parts, op)
		}
	}
	return why[:i] + "(" + cond + ")"
}

// c12BraceSegments — R12h. annotations.ExtractPathParams, interpreted on constant routes (its regular expression is read
// from the package-level initialiser and applied to the constant subject): every brace segment is returned, in order.
func c12BraceSegments(c *Ctx, rid string) {
	r := c.R
	fn := c.P.Func("internal/annotations", "ExtractPathParams")
	if fn == nil {
		r.Unres(rid, "ExtractPathParams", "", "not found")
		return
	}
	pos := c.P.Pos(c.P.Decls[fn].Pos())
	prev := c.W.Concrete
	c.W.Concrete = true
	defer func() { c.W.Concrete = prev }()
	for _, tc := range []struct {
		path string
		want []string
	}{
		{"/zq/{zid}", []string{"zid"}},
		{"/zq/{user_id}/posts/{post-id}", []string{"user_id", "post-id"}},
		{"/zq/{book.id}", []string{"book.id"}},
		{"/zq/{name=books/*}", []string{"name=books/*"}},
		{"/zq/{book_id:[0-9]+}", []string{"book_id:[0-9]+"}},
		{"/zq/{ünï}/{a b}", []string{"ünï", "a b"}},
		{"/zq/plain", nil},
	} {
		run := c.W.NewRun(map[string]int{}, false)
		run.InlineAll, run.FollowSlices = true, true
		run.CallHook = c.cdescHook
		run.StartArgs(fn, map[string]Val{"path": constStr(tc.path)})
		key := fmt.Sprintf("ExtractPathParams(%q) = %q", tc.path, tc.want)
		if len(run.Used) > 0 || len(run.Problems) > 0 {
			r.Undec(rid, key, pos, fmt.Sprintf("interpretation left decisions open: %v %v", usedKeys(run), run.Problems))
			continue
		}
		var got []string
		okList := true
		switch v := run.Result.(type) {
		case VList:
			if v.Elems == nil {
				okList = false
			}
			for _, e := range v.Elems {
				sv, ok := e.(VStr)
				if !ok {
					okList = false
					continue
				}
				cs, ok := sv.isConst()
				if !ok {
					okList = false
				}
				got = append(got, cs)
			}
		case VNil:
		default:
			okList = false
		}
		if !okList {
			r.Undec(rid, key, pos, "result is not a list of constants: "+valText(run.Result))
			continue
		}
		r.Check(strings.Join(got, "\x00") == strings.Join(tc.want, "\x00"), rid, key, pos,
			fmt.Sprintf("ExtractPathParams(%q) returns %q, the route has the brace segments %q: a segment that is not reported is never checked against the request message's fields, the definition is accepted and the files carry an unbound literal {…} route segment", tc.path, got, tc.want))
	}
}
