NOTES = ("Technique family: static analysis only. Every check loads /repo's current source with go/packages and decides structural necessary "
         "conditions of the property (level 'other'); none of the behavioural statements is proved in full. What each check does not decide is "
         "stated in its evidence explanation and in DESIGN.md sections 5-6. Known genuine defects are listed in known_findings.json.")

claim("C14", "emission-grammar equivalence of sibling generators + alpha-normalised AST sibling comparison",
      "Structural: the two Go plugins' codec emitters are walked from the syntax tree under identical guard decisions and must print identical lines; generateFile wiring and file-name expressions must pair; collection helpers must be the same function. Exact for what the property states on the explored decision combinations; not a proof for all combinations.",
      "Trusts go/types callee resolution and protogen.GeneratedFile.P semantics; decisions explored: every arm (quick) / every pair of arms (thorough) with loop lengths 0,1,2.",
      "DESIGN.md 5/C14")

claim("C15", "type-resolved AST rules over the generators: map-range order discipline, ambient-source who-calls, cross-file state inventory",
      "Structural: every range over a Go map must have an order-insensitive body (collect-then-sort / set building / constant reduction); no clock, randomness, environment, file-system, runtime or unordered-iteration API, goroutine, select or channel op anywhere in the generator packages; no package variable, generator field or Generate-scoped variable is written on the per-file path; the OpenAPI generator is built per service; no address-valued argument is printed. These are necessary conditions for byte-identical, order-independent output; they do not cover nondeterminism inside libopenapi/yaml.",
      "Trusts that protogen presents descriptors in file order and that libopenapi/yaml render ordered maps in insertion order.",
      "DESIGN.md 5/C15")

claim("C12", "go/cfg must-pass over the caller chain + error-propagation idiom check + abstract evaluation of validator predicates over the finite field-shape domain",
      "Structural: every rule function lies on every success path from each Go plugin's Generate() (must-pass through the chain of callers, loops over descriptor collections transparent), walkers recurse into nested messages, every error from a rule is propagated at every call site, each field-level predicate is evaluated for all 90 field shapes x all remaining annotation decisions by walking its syntax tree and compared with the documented table in both directions, and no plugin other than the documented ones can refuse a definition. Message-level predicates (collision maps, unwrap counting, HTTP config rules) are covered for wiring and propagation only.",
      "Oracle tables transcribed from proto/sebuf/http/annotations.proto comments and the property statement; trusts protogen's Run() error contract and Field.Oneof/Message facts.",
      "DESIGN.md 5/C12")

claim("C16", "call-graph SCC classification with go/cfg dominance of visited-set insertions; who-may-panic; domain-specific nil-guard and index-guard dominance",
      "Structural: every recursion cycle among generator functions is containment-decreasing, visited-guarded (insertion precedes the recursive call on every CFG path, entry test present) or confined to the map arm; no unbounded for; no panic/log.Fatal/os.Exit outside unreadable-input and stdout-failure handling; every Field.Message/Enum/Oneof dereference and every constant index into a descriptor slice has a dominating guard (local, at all callers, struct witness, or a frozen reasoned exception). These are necessary conditions for 'terminates with an answer'; no numeric time/memory bound is decided.",
      "Trusts descriptor facts (finite declaration tree, map values are not maps, map entries have two fields) and protogen/libopenapi termination.",
      "DESIGN.md 5/C16")

claim("C02", "emission reconstruction of the constant server runtime + go/types + effect summaries + go/cfg path search (lost write, must-pass), table extraction",
      "Structural: the go-http runtime text is rebuilt from the generator's syntax tree (it is a constant of the source), type-checked, and analysed as a program: no CFG path of the BindingMiddleware handler binds URL values, resets the message by decoding the body, and dispatches; every dispatching path has bound path and query parameters for every verb; binder failures end in an error response and return; violations name the field; the string conversion table pairs each kind with its parser, bit size and constructor; the TS server and OpenAPI bind/declare query parameters for every verb. Value semantics of strconv and percent-decoding are not decided.",
      "Library facts: protojson/proto Unmarshal reset their target; generated messages implement proto.Message. protovalidate is a 4-symbol stub for type-checking.",
      "DESIGN.md 5/C02")

claim("C09", "typed analysis of the reconstructed server runtime (go/cfg precedence, loop shape, merge order) + finite table comparison of header type/format vocabularies across Go, TS and OpenAPI",
      "Structural: validateHeaders precedes every body read and the dispatch on every CFG path of the emitted handler and its failure arm writes the violation and returns; the validation loop reports every offending header under its name; the merge stores required method headers over service headers under one key; for every declared (type, format) pair from the union of the three vocabularies the constraint class each server enforces is implied by what the OpenAPI parameter publishes (the OpenAPI side is evaluated by walking mapHeaderTypeToOpenAPI / convertHeadersToParameters with the pair fixed); TS route and OpenAPI use the override merge; header literals carry all seven fields. Accept/reject sets of the individual validators over header VALUES are not decided.",
      "http.Header.Get canonicalises names; TypeScript is read lexically (case labels), not type-checked.",
      "DESIGN.md 5/C09")

claim("C10", "typed analysis of the reconstructed server runtime (return tables, hook typestate with effect summaries, sibling agreement of content-type dispatch tables) + AST rules on parsed client variants + lexical TS tables",
      "Structural: the emitted status and default-body tables, the error-hook typestate (no write after the hook wrote, no second WriteHeader, defaults on nil), one content-type dispatch table shared by all writers and the binder with a matching Content-Type header, the dotted violation path, the Go/TS client mapping of 400 and other failures (one content-type variable for request, header, response and error decoding), and the error interface of *Error messages. Byte-level bodies and arbitrary hook behaviour are not decided.",
      "errors.As semantics, http.ResponseWriter contract; TypeScript is read lexically.",
      "DESIGN.md 5/C10")

claim("C17", "shared-state inventory over reconstructed emitted Go: package-variable write classification (sync.Once idiom), receiver-field and alias write analysis, captured-variable write analysis with effect summaries",
      "Structural race-freedom argument: every package-level variable of every emitted unit is read-only or once-initialised; client methods and request-serving closures write only call-local state (no store to the receiver, no mutation of its maps through an alias, no write/reset of a variable captured from registration time); registration has no closure over reassigned per-method variables; shared per-route slices are never stored through. Linearizability of results and races inside user code or libraries are not decided.",
      "sync.Once happens-before; protovalidate.Validator, http.Client, ServeMux and math/rand are safe for concurrent use.",
      "DESIGN.md 5/C17")

claim("C11", "go/cfg path search and static types on the reconstructed server runtime; error-discipline and crash-construct scan over every parsed variant of every emitted Go unit",
      "Structural only — the for-all-bytes part of C11 (what protojson/encoding/json/protovalidate do with arbitrary bytes, hangs, memory) is a fuzzing question outside this family and is NOT decided. Decided: no path of the emitted handler dispatches after an error response was written; the body binders test every error before any success return; every middleware failure is a *ValidationError (400); in every emitted decoder variant decode errors are propagated (success-arm-only sites only with a reasoned exception); emitted Go has no panic, bare type assertion, unguarded constant index or use of a result before its error test.",
      "protojson is strict about token kinds per field; its bytes decoder accepts all base64 alphabets.",
      "DESIGN.md 5/C11")

claim("C01", "content-type dispatch tables of client (parsed variants) and server (typed runtime) compared per content type; verb-set extraction from condition syntax trees; escaping and conversion-table rules",
      "Structural: for every content type of the property (and the default arm) the server arm selected by that string is the inverse codec of the client's, for requests and responses; every RPC method sends Content-Type from the per-call variable before executing; the body/query verb partitions of server, client and generation-time validation coincide; path values are PathEscape'd and query values Encode'd; every URL-bindable kind has a server conversion arm whose parser, bit size and constructor are those of the kind. Equality of concrete values (float text, zero-value elision, UTF-8) and route equality (C03) are not decided.",
      "protojson/proto codecs are mutually inverse; fmt.Sprint/strconv round-trip at equal bit size.",
      "DESIGN.md 5/C01")

claim("C13", "emission-grammar enumeration + go/parser on every variant, import/use agreement, go/types on synthesized shape worlds (field of each shape's Go type), lexical TypeScript checks, provenance (taint) rules on holes",
      "Structural: every Go variant of every emitted unit parses and the constant runtime type-checks; imports agree with uses in every variant (client: pairs of decisions, helpers followed); for each codec emitter and each field shape its collector and validator let through, the emitted methods type-check against a stand-in struct with the shape's Go type; two MarshalJSON-emitting features on one message need a conflict check; schema-author text in literals is quoted; field selectors use GoName; every TypeScript variant is lexically well-formed. Full type-checking of holed units for arbitrary descriptors, go vet beyond the typed runtime, and TypeScript typing are not decided.",
      "go/parser and go/types are the Go front end; protoc-gen-go's field type mapping; TypeScript is read lexically only.",
      "DESIGN.md 5/C13")

claim("C20", "shape worlds: mock unit walked per response-field shape and type-checked with the service file and runtime against synthesized protoc-gen-go stand-ins; key-expression comparison; recursion guard (shared with C16)",
      "Structural: for every response-field shape (kind x singular/optional/oneof-member/repeated) the emitted mock file type-checks together with the service file and the server runtime, and Mock<S>Server implements <S>Server; the example table and the selectors spell keys with the same expression; example text is quoted; the field walker is visited-guarded; file-independent package-level names are reported. Whether mock values satisfy validation rules or response schemas is not decided.",
      "protoc-gen-go's field type mapping; map-valued response fields are not modelled (key and value of the entry would share one shape).",
      "DESIGN.md 5/C20")

claim("C04", "store/reset path analysis and structural rules over every parsed variant of every emitted codec; provenance comparison of encoder/decoder keys; inventory of encoding/json on message values",
      "Structural necessary conditions only (round-trip equality of VALUES is not decidable from the code's shape and is not claimed): no decoder stores into the message before the resetting protojson decode unless the datum is re-inserted or its key stays in the re-decoded map; flattened-oneof arms set the oneof unconditionally; a feature's encoder and decoder spell keys with the same accessors; timestamp/bytes format arms are symmetric; no UnixNano; child marshalling errors are not dropped; encoding/json on generated messages is inventoried (known architectural findings).",
      "protojson.Unmarshal resets its target; encoding/json uses Go struct tags on generated structs.",
      "DESIGN.md 5/C04")

claim("C03", "abstract evaluation of each generator's own route code over a finite configuration grid (annotation accessors replaced by constants), published route read back from the reconstructed output; who-reads-the-annotations rule; structural rules on the OpenAPI path-item assignment",
      "For every grid point (base path with/without leading/trailing slash and multi-segment x method path shapes with 0-3 variables x five verbs x config present/absent/verb unset/path unset) the verb and path literals in the reconstructed Go server, Go client, TS client and TS server output and the value of the OpenAPI generator's extractMethodHTTPInfo must coincide; every generator announces every path variable, the TS server reads it from the segment the agreed template has it in, clients put query fields on the wire for the same verbs and servers read them there, body verbs coincide; only internal/annotations parses templates and reads the extensions; processService/processMethod visit every RPC once, reuse the path item of the evaluated path and store the operation in the slot of its verb. Exact on the grid (string manipulation is evaluated, not sampled at run time); outside the grid (other RPC name shapes, exotic characters) nothing is decided. The defaulting disagreement (no method path) is a known finding.",
      "The walker's model of strings/path/fmt folding is the Go library's own functions applied to constants; net/http ServeMux pattern semantics and fetch are not modelled.",
      "DESIGN.md 5/C03")
