package main

// units.go — inventory of emitted units and cached explorations.

import (
	"fmt"
	"go/types"
	"regexp"
	"strings"
)

type RootInfo struct {
	Fn     *types.Func
	Pkg    string // "internal/httpgen"
	Suffix string // "_http_binding.pb.go"
}

func (c *Ctx) Roots() []RootInfo {
	var out []RootInfo
	for _, fn := range c.W.UnitRoots() {
		r := c.W.NewRun(nil, false)
		r.Start(fn)
		suffix := "?"
		if len(r.Units) > 0 {
			suffix = r.Units[0].Suffix()
		}
		out = append(out, RootInfo{Fn: fn, Pkg: strings.TrimPrefix(fn.Pkg().Path(), modPath+"/"), Suffix: suffix})
	}
	return out
}

func (c *Ctx) Explore(fn *types.Func, level, maxRuns int) *Exploration {
	k := fmt.Sprintf("%s/%d/%d", FuncName(fn), level, maxRuns)
	if e, ok := c.exps[k]; ok {
		return e
	}
	e := c.W.Explore(fn, level, maxRuns)
	c.exps[k] = e
	return e
}

// ExploreT: the tier's exploration of a unit root — quick: every arm of every decision (level 1); thorough: every
// pair of arms (level 2, larger run budget). Rules that scan all variants of a unit use it, so that the thorough tier
// sees arm combinations the quick tier does not.
func (c *Ctx) ExploreT(fn *types.Func, maxRuns int) *Exploration {
	if c.Thorough() {
		return c.Explore(fn, 2, 60000)
	}
	return c.Explore(fn, 1, maxRuns)
}

// ExploreDeep explores with every generator-package function followed.
func (c *Ctx) ExploreDeep(fn *types.Func, level, maxRuns int) *Exploration {
	k := fmt.Sprintf("deep/%s/%d/%d", FuncName(fn), level, maxRuns)
	if e, ok := c.exps[k]; ok {
		return e
	}
	c.W.InlineAllRuns = true
	e := c.W.Explore(fn, level, maxRuns)
	c.W.InlineAllRuns = false
	c.exps[k] = e
	return e
}

// nonEmptyLists: lists that are non-empty whenever the emitter sees them,
// because the collector that builds them only records messages for which the
// corresponding has…Fields predicate holds (ctx.<X>Fields = get<X>Fields(msg)).
var nonEmptyLists = regexp.MustCompile(`\.(NumberFields|NullableFields|EmptyBehaviorFields|TimestampFields|BytesFields|FlattenFields|Variants|MapFields|Oneofs|DiscriminatedOneofs)$`)

func invariantFix(dk, cr string) (int, bool) {
	if strings.HasPrefix(dk, "n:") && nonEmptyLists.MatchString(dk) {
		return 1, true
	}
	return 0, false
}

// ExplorePlugin walks a plugin's generateFile (so that every unit is created
// under the guards generateFile puts around it) with the collector invariants
// fixed, and returns the variants of the unit with the given suffix.
func (c *Ctx) ExplorePlugin(pkg string, level, maxRuns int, deep bool) *Exploration {
	k := fmt.Sprintf("plugin/%s/%d/%d/%v", pkg, level, maxRuns, deep)
	if e, ok := c.exps[k]; ok {
		return e
	}
	gf := c.P.Func(pkg, "Generator.generateFile")
	if gf == nil {
		return nil
	}
	c.W.InlineAllRuns = deep
	c.W.FixRuns = invariantFix
	e := c.W.Explore(gf, level, maxRuns)
	c.W.InlineAllRuns = false
	c.W.FixRuns = nil
	c.exps[k] = e
	return e
}

func (c *Ctx) Root(pkg, suffix string) *RootInfo {
	for _, r := range c.Roots() {
		if r.Pkg == pkg && r.Suffix == suffix {
			rr := r
			return &rr
		}
	}
	return nil
}

// holeRe matches the placeholder identifiers substituted for holes.
var holeRe = regexp.MustCompile(`H[A-Za-z0-9]*_[0-9a-f]{4}`)
