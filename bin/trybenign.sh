#!/bin/bash
# bin/trybenign.sh <patch.diff> — apply a behaviour-preserving change to a scratch copy of /repo and run EVERY check (quick)
# against it; every check must stay silent (exit 0). Prints the checks that do not, with their reports.
# All twenty properties are run by one process (`-prop all`: one load of the repository, a fresh walker and report per property).
HERE=$(cd "$(dirname "$0")/.." && pwd)
. "$HERE/bin/env.sh"
patchf=$(readlink -f "$1")
BIN="$HERE/bin/sebufcheck"
if [ ! -x "$BIN" ] || [ -n "$(find "$HERE/checker" -newer "$BIN" -name '*.go' 2>/dev/null | head -1)" ]; then
  (cd "$HERE/checker" && go build -o "$BIN" .) 1>&2
fi
dir=$(mktemp -d /var/tmp/sebuf-b.XXXXXX); out=$(mktemp -d /var/tmp/sebuf-o.XXXXXX)
cp -r "${VERIF_BASE_REPO:-/repo}"/. "$dir"/ && rm -rf "$dir/.git"
(cd "$dir" && patch -p1 -s < "$patchf") || { echo "patch does not apply"; rm -rf "$dir" "$out"; exit 3; }
log=$(mktemp)
VERIF_OUT="$out" "$BIN" -repo "$dir" -verif "$HERE" -prop all -tier quick > "$log" 2>&1
n=$(grep -c "^SUMMARY property=" "$log")
bad=0
[ "$n" -lt 20 ] && { echo "ALARM: only $n of 20 checks finished"; tail -5 "$log"; bad=1; }
for p in $(grep -o "^VIOLATION property=C[0-9]*" "$log" | sed 's/.*=//' | sort -u); do
  bad=1; echo "ALARM $p exit=1"
  sed "s#$dir/##g" "$log" | grep -A1 "^VIOLATION property=$p" | grep -v "^--" | grep -v "^VIOLATION" | cut -c1-400 | head -8
done
[ $bad = 0 ] && echo "silent on all $n checks"
rm -rf "$dir" "$out" "$log"
exit $bad
