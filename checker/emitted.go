package main

// emitted.go — E2: the reconstructed Go units are parsed and, when closed,
// type-checked against the real packages of the module graph (plus a small stub
// for buf.build/go/protovalidate, which is not in the module cache). Positions
// in the emitted text map back to the generator's P(...) call sites.

import (
	"crypto/sha256"
	"encoding/hex"
	"fmt"
	"go/ast"
	"go/importer"
	"go/parser"
	"go/token"
	"go/types"
	"strings"
)

const protovalidateStub = `package protovalidate

import (
	validate "buf.build/gen/go/bufbuild/protovalidate/protocolbuffers/go/buf/validate"
	"google.golang.org/protobuf/proto"
)

type ValidatorOption interface{}
type ValidationOption interface{}

type Validator interface {
	Validate(msg proto.Message, options ...ValidationOption) error
}

func New(options ...ValidatorOption) (Validator, error) { return nil, nil }

type ValidationError struct{ Violations []*Violation }

func (e *ValidationError) Error() string { return "" }

type Violation struct{ Proto *validate.Violation }
`

type EmittedFile struct {
	Name string
	Unit *Unit
	AST  *ast.File
	Src  string
}

type EmittedPkg struct {
	C     *Ctx
	Fset  *token.FileSet
	Files []*EmittedFile
	Info  *types.Info
	Pkg   *types.Package
	Funcs map[string]*ast.FuncDecl // "name" or "Recv.name"
	alias map[string]string        // current emitted name → recorded name (renamed functions)
	Errs  []string
}

type depImporter struct {
	pkgs map[string]*types.Package
	def  types.Importer
}

func (d *depImporter) Import(path string) (*types.Package, error) {
	if p, ok := d.pkgs[path]; ok {
		return p, nil
	}
	if d.def != nil {
		return d.def.Import(path)
	}
	return nil, fmt.Errorf("package %s not available", path)
}

func (c *Ctx) newImporter(fset *token.FileSet) (*depImporter, error) {
	imp := &depImporter{pkgs: map[string]*types.Package{}}
	_ = importer.Default
	for _, pk := range c.P.All {
		if pk.Types != nil {
			imp.pkgs[pk.PkgPath] = pk.Types
		}
	}
	f, err := parser.ParseFile(fset, "protovalidate_stub.go", protovalidateStub, 0)
	if err != nil {
		return nil, err
	}
	conf := types.Config{Importer: imp}
	stub, err := conf.Check("buf.build/go/protovalidate", fset, []*ast.File{f}, nil)
	if err != nil {
		return nil, fmt.Errorf("stub: %w", err)
	}
	imp.pkgs["buf.build/go/protovalidate"] = stub
	return imp, nil
}

// extra declarations appended to close a unit set (stand-ins for protoc-gen-go output).
func (c *Ctx) TypeCheckUnits(units []*Unit, extra string) (*EmittedPkg, error) {
	fset := token.NewFileSet()
	ep := &EmittedPkg{C: c, Fset: fset, Funcs: map[string]*ast.FuncDecl{}}
	var files []*ast.File
	pkgName := ""
	for i, u := range units {
		src := u.Text()
		name := fmt.Sprintf("unit%d%s", i, u.Suffix())
		f, err := parser.ParseFile(fset, name, src, parser.ParseComments)
		if err != nil {
			return nil, fmt.Errorf("emitted unit *%s does not parse: %v", u.Suffix(), err)
		}
		pkgName = f.Name.Name
		ep.Files = append(ep.Files, &EmittedFile{Name: name, Unit: u, AST: f, Src: src})
		files = append(files, f)
	}
	if extra != "" {
		f, err := parser.ParseFile(fset, "extra.go", "package "+pkgName+"\n"+extra, 0)
		if err != nil {
			return nil, fmt.Errorf("extra declarations do not parse: %v", err)
		}
		files = append(files, f)
	}
	imp, err := c.newImporter(fset)
	if err != nil {
		return nil, err
	}
	ep.Info = &types.Info{Types: map[ast.Expr]types.TypeAndValue{}, Defs: map[*ast.Ident]types.Object{}, Uses: map[*ast.Ident]types.Object{},
		Selections: map[*ast.SelectorExpr]*types.Selection{}, Implicits: map[ast.Node]types.Object{}, Scopes: map[ast.Node]*types.Scope{},
		Instances: map[*ast.Ident]types.Instance{}}
	conf := types.Config{Importer: imp, Error: func(err error) { ep.Errs = append(ep.Errs, err.Error()) }}
	ep.Pkg, _ = conf.Check("emitted/"+pkgName, fset, files, ep.Info)
	for _, ef := range ep.Files {
		for _, d := range ef.AST.Decls {
			if fd, ok := d.(*ast.FuncDecl); ok {
				n := fd.Name.Name
				if fd.Recv != nil && len(fd.Recv.List) > 0 {
					t := fd.Recv.List[0].Type
					if st, ok := t.(*ast.StarExpr); ok {
						t = st.X
					}
					if ix, ok := t.(*ast.IndexExpr); ok {
						t = ix.X
					}
					n = types.ExprString(t) + "." + n
				}
				ep.Funcs[n] = fd
			}
		}
	}
	ep.resolveRenames()
	return ep, nil
}

// ---- emitted functions that survive a rename (see Prog.funcByFingerprint): anchors.json records, under
// "emitted <name>", a structural fingerprint of each function of the constant server runtime with every identifier
// declared in the emitted package erased. When a rule asks for a recorded name that the emitted package no longer
// declares, the one function with that fingerprint whose own name is not recorded is taken, and RecName maps its
// current name back to the recorded one.

func (ep *EmittedPkg) fingerprint(fd *ast.FuncDecl) string {
	var b strings.Builder
	locals := map[types.Object]int{}
	ast.Inspect(fd, func(n ast.Node) bool {
		switch x := n.(type) {
		case nil:
			b.WriteString(")")
			return true
		case *ast.Ident:
			o := ep.Info.Uses[x]
			if o == nil {
				o = ep.Info.Defs[x]
			}
			switch {
			case o == nil:
				b.WriteString("i:" + x.Name)
			case o.Pkg() == ep.Pkg && (o.Parent() == ep.Pkg.Scope() || isFieldOrMethod(o)):
				b.WriteString("R")
			case o.Pkg() == ep.Pkg:
				k, ok := locals[o]
				if !ok {
					k = len(locals)
					locals[o] = k
				}
				b.WriteString(fmt.Sprintf("L%d", k))
			default:
				b.WriteString("x:" + x.Name)
			}
		case *ast.BasicLit:
			b.WriteString("lit:" + x.Value)
		case *ast.BinaryExpr:
			b.WriteString("bin" + x.Op.String())
		case *ast.UnaryExpr:
			b.WriteString("un" + x.Op.String())
		case *ast.AssignStmt:
			b.WriteString("as" + x.Tok.String())
		case *ast.BranchStmt:
			b.WriteString("br" + x.Tok.String())
		case *ast.CommentGroup, *ast.Comment:
			return false
		default:
			b.WriteString(fmt.Sprintf("%T", n))
		}
		b.WriteString("(")
		return true
	})
	h := sha256.Sum256([]byte(b.String()))
	return hex.EncodeToString(h[:12])
}

func isFieldOrMethod(o types.Object) bool {
	switch v := o.(type) {
	case *types.Var:
		return v.IsField()
	case *types.Func:
		sig, _ := v.Type().(*types.Signature)
		return sig != nil && sig.Recv() != nil
	}
	return false
}

// Fingerprints of all emitted functions, for `sebufcheck anchors`.
func (ep *EmittedPkg) Fingerprints() map[string]string {
	out := map[string]string{}
	for n, fd := range ep.Funcs {
		if fd.Body != nil {
			out["emitted "+n] = ep.fingerprint(fd)
		}
	}
	return out
}

func (ep *EmittedPkg) resolveRenames() {
	tab := ep.C.P.anchorTable()
	if len(tab) == 0 || ep.Pkg == nil {
		return
	}
	cur := map[string]string{}
	for n, fd := range ep.Funcs {
		if fd.Body != nil {
			cur[n] = ep.fingerprint(fd)
		}
	}
	for key, want := range tab {
		if !strings.HasPrefix(key, "emitted ") {
			continue
		}
		rec := strings.TrimPrefix(key, "emitted ")
		if _, ok := ep.Funcs[rec]; ok {
			continue
		}
		var cands []string
		for n, fp := range cur {
			if fp != want {
				continue
			}
			if own, ok := tab["emitted "+n]; ok && own == fp {
				continue // still itself
			}
			cands = append(cands, n)
		}
		if len(cands) == 1 {
			if ep.alias == nil {
				ep.alias = map[string]string{}
			}
			ep.alias[cands[0]] = rec
			ep.Funcs[rec] = ep.Funcs[cands[0]]
			delete(ep.Funcs, cands[0])
		}
	}
	if len(ep.alias) == 0 {
		return
	}
	// rules also compare the spelling of calls (types.ExprString(call.Fun)) and of declarations: in our private
	// copy of the emitted syntax tree every identifier that denotes a renamed function is spelled by its recorded name
	for _, ef := range ep.Files {
		ast.Inspect(ef.AST, func(n ast.Node) bool {
			id, ok := n.(*ast.Ident)
			if !ok {
				return true
			}
			o := ep.Info.Uses[id]
			if o == nil {
				o = ep.Info.Defs[id]
			}
			if f, ok := o.(*types.Func); ok && f.Pkg() == ep.Pkg {
				if rec, ok := ep.alias[f.Name()]; ok && !isFieldOrMethod(f) {
					id.Name = rec
				}
			}
			return true
		})
	}
}

// RecName: the name under which rules know an emitted function (its recorded name when it was renamed).
func (ep *EmittedPkg) RecName(f *types.Func) string {
	if f == nil {
		return ""
	}
	if f.Pkg() == ep.Pkg {
		if a, ok := ep.alias[f.Name()]; ok {
			return a
		}
	}
	return f.Name()
}

// GenPos maps a position in emitted text to the generator's P(...) call site.
func (ep *EmittedPkg) GenPos(pos token.Pos) string {
	p := ep.Fset.Position(pos)
	for _, ef := range ep.Files {
		if ef.Name == p.Filename {
			if p.Line >= 1 && p.Line <= len(ef.Unit.Lines) {
				return ep.C.P.Pos(ef.Unit.Lines[p.Line-1].Pos)
			}
		}
	}
	return p.String()
}

func (ep *EmittedPkg) Line(pos token.Pos) string {
	p := ep.Fset.Position(pos)
	for _, ef := range ep.Files {
		if ef.Name == p.Filename {
			lines := strings.Split(ef.Src, "\n")
			if p.Line >= 1 && p.Line <= len(lines) {
				return strings.TrimSpace(lines[p.Line-1])
			}
		}
	}
	return ""
}

// ServerRuntime reconstructs and type-checks the constant go-http runtime
// (*_http_binding.pb.go + *_http_config.pb.go). Both units must be constants of
// the generator source (no decision); otherwise the caller gets an error.
func (c *Ctx) ServerRuntime() (*EmittedPkg, error) {
	if c.runtime != nil || c.runtimeErr != nil {
		return c.runtime, c.runtimeErr
	}
	var units []*Unit
	for _, suf := range []string{"_http_binding.pb.go", "_http_config.pb.go"} {
		ri := c.Root(pkgHTTP, suf)
		if ri == nil {
			c.runtimeErr = fmt.Errorf("unit *%s not found among go-http units", suf)
			return nil, c.runtimeErr
		}
		ex := c.Explore(ri.Fn, 1, 200)
		if len(ex.Problems) > 0 {
			c.runtimeErr = fmt.Errorf("unit *%s: %s", suf, strings.Join(ex.Problems, "; "))
			return nil, c.runtimeErr
		}
		if len(ex.Variants) != 1 || len(ex.Points) != 0 {
			c.runtimeErr = fmt.Errorf("unit *%s is no longer a constant of the generator (%d variants, %d decisions): the typed analysis needs one text", suf, len(ex.Variants), len(ex.Points))
			return nil, c.runtimeErr
		}
		units = append(units, ex.Variants[0].Units[0])
	}
	ep, err := c.TypeCheckUnits(units, "")
	if err != nil {
		c.runtimeErr = err
		return nil, err
	}
	if len(ep.Errs) > 0 {
		c.runtimeErr = fmt.Errorf("emitted server runtime does not type-check: %s", strings.Join(ep.Errs[:min(3, len(ep.Errs))], "; "))
		c.runtime = ep
		return ep, c.runtimeErr
	}
	c.runtime = ep
	return ep, nil
}

// ---------------------------------------------------------------- small helpers on typed emitted code

// CalleeOf resolves the callee of a call in the emitted package.
func (ep *EmittedPkg) CalleeOf(call *ast.CallExpr) *types.Func { return Callee(ep.Info, call) }

// qualified name "pkgpath.Name" or "pkgpath.(Recv).Name"
func qname(f *types.Func) string {
	if f == nil {
		return ""
	}
	pkg := ""
	if f.Pkg() != nil {
		pkg = f.Pkg().Path()
	}
	sig := f.Type().(*types.Signature)
	if sig.Recv() != nil {
		t := sig.Recv().Type()
		if pt, ok := t.(*types.Pointer); ok {
			t = pt.Elem()
		}
		if n, ok := t.(*types.Named); ok {
			return pkg + ".(" + n.Obj().Name() + ")." + f.Name()
		}
		return pkg + ".(?)." + f.Name()
	}
	return pkg + "." + f.Name()
}

// Text returns the emitted source text of a node.
func (ep *EmittedPkg) Text(n ast.Node) string {
	p, q := ep.Fset.Position(n.Pos()), ep.Fset.Position(n.End())
	for _, ef := range ep.Files {
		if ef.Name == p.Filename && p.Offset >= 0 && q.Offset <= len(ef.Src) {
			return strings.Join(strings.Fields(ef.Src[p.Offset:q.Offset]), " ")
		}
	}
	return ""
}
