#!/usr/bin/env python3
"""bin/design_rules.py — refresh the rule bullets and known-finding counts of DESIGN.md §12.3 from evidence/*.json and known_findings.json."""
import json, re, collections
p='/verif/DESIGN.md'
s=open(p).read()
kf=json.load(open('/verif/known_findings.json'))
for n in range(1,21):
    pid='C%02d'%n
    ev=json.load(open('/verif/evidence/%s.json'%pid))
    rules=[r for r in ev['coverage']['rules'] if r['id']!='R00']
    bullets=''.join('* `%s — %s`\n'%(r['id'],r['doc']) for r in rules)
    m=re.search(r'(\*\*%s\*\*\n\n)((?:\* `R[^\n]*\n)+)'%pid, s)
    if not m:
        print('no block for',pid); continue
    s=s[:m.start(2)]+bullets+s[m.end(2):]
    cnt=collections.Counter(e['rule'] for e in kf if e['property']==pid and e.get('status','known')=='known')
    line='* *Known findings (known_findings.json):* '+(', '.join('%s×%d'%(k,v) for k,v in sorted(cnt.items())) or 'none')
    # replace the known-findings line inside this property's block
    i=s.index('**%s**'%pid)
    j=s.find('\n**C', i+5)
    if j<0: j=s.index('### 12.4', i)
    blk=s[i:j]
    blk2=re.sub(r'\* \*Known findings \(known_findings.json\):\*[^\n]*', line, blk)
    if blk2==blk and 'Known findings' not in blk:
        blk2=blk.rstrip('\n')+'\n'+line+'\n\n'
    s=s[:i]+blk2+s[j:]
open(p,'w').write(s)
print('ok')
