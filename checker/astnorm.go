package main

// astnorm.go — G-sibling: canonical form of a function for sibling comparison.
// Comments, positions and formatting are dropped; identifiers declared inside
// the function are alpha-renamed by order of first occurrence; a rename map
// is applied to the remaining identifiers and to string literals.

import (
	"go/ast"
	"go/scanner"
	"go/token"
	"go/types"
	"os"
	"sort"
	"strings"
)

func (p *Prog) srcOf(n ast.Node) ([]byte, token.Pos) {
	f := p.Fset.File(n.Pos())
	b, err := os.ReadFile(f.Name())
	if err != nil {
		return nil, 0
	}
	return b[f.Offset(n.Pos()):f.Offset(n.End())], n.Pos()
}

// CanonFunc returns the canonical token string of fn's declaration.
func (p *Prog) CanonFunc(fn *types.Func, rename map[string]string) string {
	decl := p.Decls[fn]
	if decl == nil {
		return ""
	}
	info := p.DeclPkg[fn].TypesInfo
	src, base := p.srcOf(decl)
	if src == nil {
		return ""
	}
	// identifiers by offset
	type idInfo struct{ obj types.Object }
	ids := map[int]types.Object{}
	ast.Inspect(decl, func(n ast.Node) bool {
		if id, ok := n.(*ast.Ident); ok {
			ids[int(id.Pos()-base)] = info.ObjectOf(id)
		}
		return true
	})
	local := map[types.Object]string{}
	fs := token.NewFileSet()
	file := fs.AddFile("", fs.Base(), len(src))
	var sc scanner.Scanner
	sc.Init(file, src, nil, 0)
	var out []string
	for {
		pos, tok, lit := sc.Scan()
		if tok == token.EOF {
			break
		}
		if tok == token.SEMICOLON && lit == "\n" {
			out = append(out, ";")
			continue
		}
		switch tok {
		case token.IDENT:
			off := file.Offset(pos)
			obj := ids[off]
			if obj != nil && obj.Pos() >= decl.Pos() && obj.Pos() < decl.End() {
				if _, isField := obj.(*types.Var); !isField || !obj.(*types.Var).IsField() {
					n, ok := local[obj]
					if !ok {
						n = "L" + itoa(len(local))
						local[obj] = n
					}
					out = append(out, n)
					continue
				}
			}
			if r, ok := rename[lit]; ok {
				lit = r
			}
			out = append(out, lit)
		case token.STRING:
			for from, to := range rename {
				lit = strings.ReplaceAll(lit, from, to)
			}
			out = append(out, lit)
		default:
			if lit != "" {
				out = append(out, lit)
			} else {
				out = append(out, tok.String())
			}
		}
	}
	return strings.Join(out, " ")
}

func itoa(n int) string {
	if n == 0 {
		return "0"
	}
	s := ""
	for n > 0 {
		s = string(rune('0'+n%10)) + s
		n /= 10
	}
	return s
}

// StaticCallees returns the repository functions fn calls directly (resolved
// through type information), in source order, without duplicates.
func (p *Prog) StaticCallees(fn *types.Func) []*types.Func {
	decl := p.Decls[fn]
	if decl == nil || decl.Body == nil {
		return nil
	}
	info := p.DeclPkg[fn].TypesInfo
	seen := map[*types.Func]bool{}
	var out []*types.Func
	ast.Inspect(decl.Body, func(n ast.Node) bool {
		switch x := n.(type) {
		case *ast.CallExpr:
			if c := Callee(info, x); c != nil && p.Decls[c] != nil && !seen[c] {
				seen[c] = true
				out = append(out, c)
			}
		case *ast.Ident:
			// function values (passed as arguments)
			if f, ok := info.Uses[x].(*types.Func); ok && p.Decls[f.Origin()] != nil && !seen[f.Origin()] {
				seen[f.Origin()] = true
				out = append(out, f.Origin())
			}
		}
		return true
	})
	return out
}

// Reach returns all repository functions statically reachable from roots.
func (p *Prog) Reach(roots ...*types.Func) []*types.Func {
	seen := map[*types.Func]bool{}
	var order []*types.Func
	var visit func(f *types.Func)
	visit = func(f *types.Func) {
		if seen[f] {
			return
		}
		seen[f] = true
		order = append(order, f)
		for _, c := range p.StaticCallees(f) {
			visit(c)
		}
	}
	for _, r := range roots {
		visit(r)
	}
	sort.Slice(order, func(i, j int) bool { return FuncName(order[i]) < FuncName(order[j]) })
	return order
}
