package main

// c08.go — C08: generated TypeScript clients and servers interoperate with the Go ones.
//
// Running the modules is outside static analysis. Route, verb and placement
// agreement is C03's subject, error mapping C10's, type declarations C07's.
// Decided here:
//
//   R08a  module self-containment: in every reconstructed TypeScript module every
//         identifier in call/construction position is declared in the module, a
//         parameter, or a platform global — also when services and methods of one
//         file differ in whether they declare headers (per-iteration enumeration)
//   R08b  URL text: the TS client percent-encodes every path substitution and
//         uses URLSearchParams for the query; the TS server decodes every
//         extracted segment and reads the query through URL.searchParams
//   R08c  header helpers: in both clients the header a typed option writes is
//         named by the declared header name itself (no transformation), the
//         option name is derived from that same header, and the TS server's
//         per-route configuration carries the same name
//   R08d  bodies: the TS client sends JSON.stringify(req) with Content-Type
//         application/json exactly for the body verbs and reads resp.json(); the
//         TS server reads req.json() for the same verbs and answers
//         JSON.stringify(result) with Content-Type application/json

import (
	"fmt"
	"regexp"
	"sort"
	"strings"
)

var tsKeywords = map[string]bool{"if": true, "for": true, "while": true, "switch": true, "catch": true, "return": true, "typeof": true, "await": true, "super": true,
	"constructor": true, "function": true, "new": true, "throw": true, "import": true, "export": true, "in": true, "of": true, "instanceof": true, "void": true, "delete": true, "else": true, "do": true, "case": true}

var tsGlobals = map[string]bool{"Number": true, "String": true, "Boolean": true, "Object": true, "Array": true, "JSON": true, "Error": true, "Promise": true, "URL": true, "URLSearchParams": true,
	"encodeURIComponent": true, "decodeURIComponent": true, "Response": true, "Request": true, "Headers": true, "fetch": true, "parseInt": true, "parseFloat": true, "isNaN": true, "Date": true,
	"RegExp": true, "Map": true, "Set": true, "Symbol": true, "BigInt": true, "console": true, "globalThis": true, "AbortSignal": true, "Record": true, "Partial": true, "Math": true, "isFinite": true}

// tsUndeclaredCalls: identifiers in call / construction position that the module
// neither declares nor receives as a parameter and that are no platform globals.
func tsUndeclaredCalls(src string) []string {
	toks, err := tsLex(src)
	if err != nil {
		return nil
	}
	declared := map[string]bool{}
	for i, t := range toks {
		if t.Kind != "ident" {
			continue
		}
		switch t.Text {
		case "function", "class", "const", "let", "var", "interface", "type", "enum":
			if i+1 < len(toks) && toks[i+1].Kind == "ident" {
				if i > 0 && toks[i-1].Kind == "punct" && toks[i-1].Text == "." {
					continue
				}
				declared[toks[i+1].Text] = true
			}
		}
	}
	match := func(i int) int {
		depth := 0
		for j := i; j < len(toks); j++ {
			if toks[j].Kind == "punct" {
				switch toks[j].Text {
				case "(":
					depth++
				case ")":
					depth--
					if depth == 0 {
						return j
					}
				}
			}
		}
		return -1
	}
	for i := 0; i+1 < len(toks); i++ {
		if toks[i].Kind == "ident" && toks[i+1].Kind == "punct" && toks[i+1].Text == "(" {
			if j := match(i + 1); j > 0 && j+1 < len(toks) && toks[j+1].Kind == "punct" && (toks[j+1].Text == "{" || toks[j+1].Text == ":") {
				if !tsKeywords[toks[i].Text] || toks[i].Text == "constructor" || toks[i].Text == "function" || toks[i].Text == "catch" {
					declared[toks[i].Text] = true
				}
				for k := i + 2; k < j; k++ {
					if toks[k].Kind == "ident" && k+1 < len(toks) && toks[k+1].Kind == "punct" && (toks[k+1].Text == ":" || toks[k+1].Text == "," || toks[k+1].Text == ")" || toks[k+1].Text == "?") {
						declared[toks[k].Text] = true
					}
				}
			}
		}
		if toks[i].Kind == "punct" && toks[i].Text == "=>" && i > 0 && toks[i-1].Kind == "ident" {
			declared[toks[i-1].Text] = true
		}
	}
	unknown := map[string]bool{}
	for i := 0; i+1 < len(toks); i++ {
		t := toks[i]
		if t.Kind != "ident" || toks[i+1].Kind != "punct" || toks[i+1].Text != "(" {
			continue
		}
		if tsKeywords[t.Text] || tsGlobals[t.Text] || declared[t.Text] {
			continue
		}
		if i > 0 && toks[i-1].Kind == "punct" && toks[i-1].Text == "." {
			continue
		}
		if i > 0 && toks[i-1].Kind == "ident" && (toks[i-1].Text == "function" || toks[i-1].Text == "async" || toks[i-1].Text == "get" || toks[i-1].Text == "set") {
			continue
		}
		unknown[t.Text] = true
	}
	out := sortedKeys(unknown)
	sort.Strings(out)
	return out
}

var iterIdx = regexp.MustCompile(`@(\d+)`)

func checkC08(c *Ctx) {
	r := c.R
	r.Explain = "Running the generated modules is outside static analysis; route/verb/placement agreement is decided by C03, error mapping by C10, type declarations by C07. Decided here on the reconstructed TypeScript modules (emission grammar, nothing is executed; TypeScript is read with a lexer, not type-checked): R08a every identifier in call or construction position of every reconstructed module (deep exploration, every arm, and a per-iteration enumeration in which the two services and their two methods independently declare or do not declare headers) is declared in the module, a parameter or a platform global — a helper whose emission guard disagrees with its use sites makes the module throw ReferenceError at the first request. R08b the TS client wraps every path substitution in encodeURIComponent and builds the query with URLSearchParams; the TS server applies decodeURIComponent to every extracted segment and reads url.searchParams. R08c in the TS client, the Go client and the TS server's route configuration the header name written/validated is the declared name itself (hole key GetName(), no transformation) and the option/property name is derived from that same header. R08d the TS client sends JSON.stringify(req) exactly for POST/PUT/PATCH with Content-Type application/json and reads resp.json(); the TS server reads req.json() for the same verbs and answers JSON.stringify with the same content type. R08f the TS server selects the string-to-field conversion of path and query parameters with the function the request interface is declared with. R08g on a grid of configurations (base path × config absent / verb only / path only / both) the verb and the path literal reconstructed from the TS client and from the TS server are the same strings. Not decided: runtime behaviour of fetch/URL, TypeScript typing, values."
	r.Rule("R08a", "every called identifier of every reconstructed TypeScript module is declared, a parameter or a platform global", 4)
	r.Rule("R08k", "the TS client fills a path variable from the request property of the field's JSON name (shared with C03/R03e)", 1)
	tsPathPropertyNames(c, "R08k")
	r.Rule("R08p", "no emitted TypeScript value binding is named by a schema-derived string alone (reserved words and collisions with the method's locals would stop the module from loading)", 1)
	c08NoSchemaNamedBindings(c, "R08p")
	r.Rule("R08j", "every reconstructed TypeScript module is lexically loadable: delimiters balance and no block-scoped name is declared twice in one block, also when several services of a file use headers (shared with C13/R13h)", 2)
	r.Rule("R08b", "path substitutions are percent-encoded by the client and decoded by the server; query via URLSearchParams", 4)
	r.Rule("R08c", "typed header options write exactly the declared header name", 6)
	r.Rule("R08d", "JSON bodies: stringify/json pairing and content type, for the body verbs", 6)
	r.Rule("R08e", "query-annotated fields have a carrier in the TS client and are read by the TS server for every bodiless verb (shared with C03/R03c)", 6)

	// ---------------- R08a
	for _, spec := range [][2]string{{pkgTSClient, "_client.ts"}, {pkgTSServer, "_server.ts"}} {
		ri := c.Root(spec[0], spec[1])
		if ri == nil {
			r.Unres("R08a", spec[1], "", "unit root not found")
			continue
		}
		pos := c.P.Pos(c.P.Decls[ri.Fn].Pos())
		level := 1
		if c.Thorough() {
			level = 2
		}
		ex := c.ExploreDeep(ri.Fn, level, 40000)
		bad := map[string]string{}
		loadBad, loadPos, loadDec := "", "", ""
		noteLoad := func(u *Unit, dec string) {
			if loadBad != "" {
				return
			}
			if probs := tsCheck(u.Text()); len(probs) > 0 {
				loadBad, loadDec = probs[0].Msg, dec
				if ln := probs[0].Line; ln >= 1 && ln <= len(u.Lines) {
					loadPos = c.P.Pos(u.Lines[ln-1].Pos)
				}
			}
		}
		for _, v := range ex.Variants {
			for _, u := range v.Units {
				noteLoad(u, v.DecString())
				for _, n := range tsUndeclaredCalls(u.Text()) {
					if _, ok := bad[n]; !ok {
						bad[n] = v.DecString()
					}
				}
			}
		}
		for _, n := range sortedKeys(bad) {
			r.Bad("R08a", pkgShort(spec[0])+" *"+spec[1]+": "+n+" is called but not declared", pos,
				fmt.Sprintf("a reconstructed %s module calls %s(…) without declaring it (decisions: %s): the module loads, and the first request that reaches the call throws ReferenceError", spec[1], n, bad[n]), nil)
		}
		r.OKd("R08a", fmt.Sprintf("%s *%s: %d explored variants are self-contained", pkgShort(spec[0]), spec[1], len(ex.Variants)), pos, nil)
		r.Count("variants:"+spec[1], len(ex.Variants))

		// per-iteration enumeration: two services with two methods each; each independently has headers or not
		nRuns := 0
		for mask := 0; mask < 64; mask++ {
			svc := func(s int) int { return (mask >> s) & 1 }
			meth := func(s, m int) int { return (mask >> (2 + 2*s + m)) & 1 }
			run := c.W.NewRun(map[string]int{}, false)
			run.InlineAll = true
			run.Fix = func(dk, cr string) (int, bool) {
				if !strings.HasPrefix(dk, "n:") {
					return 0, false
				}
				idx := []int{}
				for _, m := range iterIdx.FindAllStringSubmatch(dk, -1) {
					var k int
					fmt.Sscan(m[1], &k)
					idx = append(idx, k)
				}
				k := eraseIters(dk)
				switch {
				case k == "n:file.Services" || k == "n:file.Services@.Methods":
					return 2, true
				case strings.HasPrefix(k, "n:annotations.GetServiceHeaders(file.Services@)") && len(idx) >= 1 && k == "n:annotations.GetServiceHeaders(file.Services@)":
					return svc(idx[0] % 2), true
				case k == "n:annotations.GetMethodHeaders(file.Services@.Methods@)" && len(idx) >= 2:
					return meth(idx[0]%2, idx[1]%2), true
				}
				return invariantFix(dk, cr)
			}
			run.Start(ri.Fn)
			nRuns++
			if run.Aborted != "" {
				continue
			}
			for _, u := range run.Units {
				noteLoad(u, fmt.Sprintf("service headers %d/%d, method headers %d,%d / %d,%d (0 = none)", svc(0), svc(1), meth(0, 0), meth(0, 1), meth(1, 0), meth(1, 1)))
				if und := tsUndeclaredCalls(u.Text()); len(und) > 0 {
					key := fmt.Sprintf("%s *%s: %s is called but not declared (services/methods differing in headers)", pkgShort(spec[0]), spec[1], strings.Join(und, ","))
					r.Bad("R08a", key, pos,
						fmt.Sprintf("with service headers %d/%d and method headers %d,%d / %d,%d (0 = none) the %s module calls %s without declaring it: the guard that emits the helper looks at a different set of services/methods than the routes that use it", svc(0), svc(1), meth(0, 0), meth(0, 1), meth(1, 0), meth(1, 1), spec[1], strings.Join(und, ",")), nil)
				}
			}
		}
		r.OKd("R08a", fmt.Sprintf("%s *%s: %d header-placement combinations are self-contained", pkgShort(spec[0]), spec[1], nRuns), pos, nil)
		if loadPos == "" {
			loadPos = pos
		}
		r.CheckD(loadBad == "", "R08j", pkgShort(spec[0])+" *"+spec[1]+": every reconstructed module can be loaded (explored variants and header-placement combinations)", loadPos,
			"an emitted TypeScript module cannot be loaded, so no RPC of the file reaches its handler: "+loadBad+" ("+loadDec+")", map[string]any{"variants": len(ex.Variants), "combinations": nRuns})
	}

	c08URL(c)
	c08Headers(c)
	c08HeaderState(c)
	c08ScalarTables(c)
	c08Bodies(c)
	c08Carriers(c)
	r.Rule("R08f", "the TS server converts URL strings to the type the TS client's request interface declares (shared with C07/R07e)", 6)
	c07ServerInputs(c, "R08f")
	c08RouteAgreement(c)
	c08HeaderSetNotAdd(c)
	r.Rule("R08i", "regular expressions of the emitted TS modules are stateless: the same valid header is accepted on every call (shared with C09/R09k)", 1)
	c09StatelessRegex(c, "R08i")
}

// unitLines returns the key-rendered lines of every variant of a unit (deduplicated).
func (c *Ctx) unitLines(pkg, suffix string) (lines []EmLine, pos string) {
	ri := c.Root(pkg, suffix)
	if ri == nil {
		return nil, ""
	}
	ex := c.Explore(ri.Fn, 1, 20000)
	seen := map[string]bool{}
	for _, v := range ex.Variants {
		for _, u := range v.Units {
			for _, l := range u.Lines {
				k := keyText(l.Segs)
				if !seen[k] {
					seen[k] = true
					lines = append(lines, l)
				}
			}
		}
	}
	return lines, c.P.Pos(c.P.Decls[ri.Fn].Pos())
}

func c08URL(c *Ctx) {
	r := c.R
	cl, cpos := c.unitLines(pkgTSClient, "_client.ts")
	sl, spos := c.unitLines(pkgTSServer, "_server.ts")
	if cl == nil || sl == nil {
		r.Unres("R08b", "TS units", "", "not found")
		return
	}
	nSub, badSub := 0, ""
	usp, spRead := false, false
	for _, l := range cl {
		t := lineText(l.Segs)
		if strings.Contains(t, "path.replace(") || strings.Contains(t, "path = path.") {
			nSub++
			if !strings.Contains(t, "encodeURIComponent(") && badSub == "" {
				badSub = holeFree(t)
				cpos = c.P.Pos(l.Pos)
			}
		}
		if strings.Contains(t, "new URLSearchParams()") {
			usp = true
		}
	}
	r.Check(nSub > 0 && badSub == "", "R08b", "TS client percent-encodes every path substitution", cpos,
		"the TS client substitutes a path variable without encodeURIComponent ("+strings.TrimSpace(badSub)+"): a value containing / ? # or % reaches a different route or is cut")
	r.Check(usp, "R08b", "TS client builds the query string with URLSearchParams", cpos, "the TS client does not build the query with URLSearchParams (values would not be encoded)")
	// the Go client: every path substitution is url.PathEscape'd (QueryEscape turns a space into '+',
	// which neither r.PathValue nor decodeURIComponent turns back)
	if gl, gpos := c.unitLines(pkgClient, "_client.pb.go"); gl != nil {
		nG, badG := 0, ""
		for _, l := range gl {
			t := lineText(l.Segs)
			if strings.Contains(t, "strings.Replace(path,") || strings.Contains(t, "strings.ReplaceAll(path,") {
				nG++
				if !strings.Contains(t, "url.PathEscape(") && badG == "" {
					badG = holeFree(t)
					gpos = c.P.Pos(l.Pos)
				}
			}
		}
		r.Check(nG > 0 && badG == "", "R08b", "Go client percent-encodes every path substitution with url.PathEscape", gpos,
			"the Go client substitutes a path variable without url.PathEscape ("+strings.TrimSpace(badG)+"): the Go and TS servers decode path segments, not form encoding, so the handler receives a different value (a space arrives as '+')")
	}
	for _, l := range sl {
		if strings.Contains(lineText(l.Segs), "url.searchParams") {
			spRead = true
		}
	}
	tsServerSegmentDecode(c, "R08b")
	r.Check(spRead, "R08b", "TS server reads the query through URL.searchParams", spos, "the TS server does not read query parameters through url.searchParams")
}

func c08Headers(c *Ctx) {
	r := c.R
	nameKey := regexp.MustCompile(`GetName\(\)$`)
	check := func(what string, lines []EmLine, pat *regexp.Regexp, minSites int) {
		n := 0
		for _, l := range lines {
			t := lineText(l.Segs)
			if !pat.MatchString(t) {
				continue
			}
			// the hole inside the ["…"] / ("…" key position
			off := 0
			for _, sg := range l.Segs {
				if sg.Hole == nil {
					off += len(sg.Const)
					continue
				}
				before := t[:off]
				off += len(HoleName(sg.Hole))
				inKey := strings.HasSuffix(before, `["`) || strings.HasSuffix(before, `("`) || strings.HasSuffix(before, `name: "`)
				if sg.Hole.Quoted && (strings.HasSuffix(before, "[") || strings.HasSuffix(before, "(") || strings.HasSuffix(before, "name: ")) {
					inKey = true
				}
				if !inKey {
					continue
				}
				n++
				k := eraseIters(sg.Hole.Key)
				r.Check(nameKey.MatchString(k) && !strings.Contains(k, "strings.") && !strings.Contains(k, "HeaderNameTo"), "R08c", what+": header key is the declared name ("+accessorClass(sg.Hole.Key)+")", c.P.Pos(l.Pos),
					fmt.Sprintf("%s writes/validates the header under a name spelled by %s instead of the declared name itself (emitted: %s): the value a typed option carries does not arrive under the header the server validates", what, k, strings.TrimSpace(holeFree(t))))
			}
		}
		r.Check(n >= minSites, "R08c", what+": header key sites found", "", fmt.Sprintf("%d sites, expected at least %d", n, minSites))
	}
	cl, _ := c.unitLines(pkgTSClient, "_client.ts")
	check("TS client option", cl, regexp.MustCompile(`(headers|defaultHeaders)\["`), 2)
	sl, _ := c.unitLines(pkgTSServer, "_server.ts")
	check("TS server route header config", sl, regexp.MustCompile(`\{ name: "`), 1)
	gl, _ := c.unitLines(pkgClient, "_client.pb.go")
	check("Go client option", gl, regexp.MustCompile(`(Default)?Header\(`), 1)
	// the option/property name is derived from the same header
	for _, spec := range []struct{ pkg, what string }{{pkgTSClient, "TS client"}} {
		lines, _ := c.unitLines(spec.pkg, "_client.ts")
		n := 0
		for _, l := range lines {
			t := lineText(l.Segs)
			if !strings.Contains(t, `headers["`) && !strings.Contains(t, `defaultHeaders["`) {
				continue
			}
			var nameH, propH []string
			for _, sg := range l.Segs {
				if sg.Hole == nil {
					continue
				}
				k := eraseIters(sg.Hole.Key)
				if strings.Contains(k, "HeaderNameToPropertyName(") || strings.Contains(k, "strings.Split(strings.TrimPrefix(") {
					propH = append(propH, k)
				} else if nameKey.MatchString(k) {
					nameH = append(nameH, k)
				}
			}
			if len(nameH) == 0 || len(propH) == 0 {
				continue
			}
			n++
			same := true
			for _, p := range propH {
				if !strings.Contains(p, strings.TrimSuffix(nameH[0], ".GetName()")) {
					same = false
				}
			}
			r.Check(same, "R08c", spec.what+": option name and header name come from one header", c.P.Pos(l.Pos),
				fmt.Sprintf("%s: the option %v sets the header %v: option and header belong to different declarations", spec.what, propH, nameH))
		}
		r.Count("option/header pairs", n)
	}
}

func c08Bodies(c *Ctx) {
	r := c.R
	// per verb: reconstruct client and server with the C03 injection and look at the emitted text
	for _, v := range c03Verbs {
		s := c03Scenario{Base: "/zqb", Cfg: &c03Cfg{Path: "/zqp/{id}", Method: v}}
		wantBody := v == "POST" || v == "PUT" || v == "PATCH"
		co := c.observeEmittedText(pkgTSClient, "_client.ts", s)
		so := c.observeEmittedText(pkgTSServer, "_server.ts", s)
		if co == "" || so == "" {
			r.Unres("R08d", "verb "+v, "", "TS units do not reconstruct for this verb")
			continue
		}
		cb := strings.Contains(co, "body: JSON.stringify(req)")
		sb := strings.Contains(so, "await req.json()")
		r.Check(cb == wantBody, "R08d", "TS client sends a JSON body for "+v+" = "+fmt.Sprint(wantBody), "",
			fmt.Sprintf("TS client for %s: body: JSON.stringify(req) present=%v, expected %v", v, cb, wantBody))
		r.Check(sb == wantBody, "R08d", "TS server reads a JSON body for "+v+" = "+fmt.Sprint(wantBody), "",
			fmt.Sprintf("TS server for %s: await req.json() present=%v, expected %v (the Go and TS clients send a body exactly for POST, PUT, PATCH)", v, sb, wantBody))
		if v == "POST" {
			r.Check(strings.Contains(co, `"Content-Type": "application/json"`), "R08d", "TS client labels the body application/json", "", "the TS client does not send Content-Type: application/json (the Go server selects its codec by that header)")
			// the value awaited from fetch is the one whose .json() is returned, whatever it is called
			respJSON := false
			if m := regexp.MustCompile(`const (\w+) = await this\.fetchFn\(`).FindStringSubmatch(co); m != nil {
				respJSON = strings.Contains(co, "await "+m[1]+".json()")
			}
			r.Check(respJSON, "R08d", "TS client reads the response as JSON", "", "the TS client does not read resp.json()")
			okResp := false
			if i := strings.Index(so, "JSON.stringify(result"); i >= 0 {
				rest := so[i:]
				if j := strings.Index(rest, "});"); j >= 0 {
					okResp = strings.Contains(rest[:j], `"Content-Type": "application/json"`) && strings.Contains(rest[:j], "status: 200")
				}
			}
			r.Check(okResp, "R08d", "TS server answers 200 with JSON.stringify(result) labelled application/json", "", "the TS server's success response is not JSON.stringify(result) with status 200 and Content-Type application/json (the Go client selects the decoder by the content type it sent, the TS client reads resp.json())")
		}
	}
}

var (
	c08TSSendRe = regexp.MustCompile(`\b[\w.]+\.(set|append)\("zqquery"`)
	c08GoSendRe = regexp.MustCompile(`\b[\w.]+\.(Set|Add)\("zqquery"`)
	c08TSReadRe = regexp.MustCompile(`\b[\w.]+\.(get|getAll)\("zqquery"\)`)
)

// c08Carriers: every request field has a carrier in both TS modules for every verb.
func c08Carriers(c *Ctx) {
	r := c.R
	for _, v := range c03Verbs {
		body := v == "POST" || v == "PUT" || v == "PATCH"
		s := c03Scenario{Base: "/zqb", Cfg: &c03Cfg{Path: "/zqp/{id}", Method: v}, Query: true}
		co := c.observeEmittedText(pkgTSClient, "_client.ts", s)
		so := c.observeEmittedText(pkgTSServer, "_server.ts", s)
		gc := c.observeEmittedText(pkgClient, "_client.pb.go", s)
		if co == "" || so == "" || gc == "" {
			r.Unres("R08e", "verb "+v, "", "units do not reconstruct for this verb")
			continue
		}
		// whatever the emitted locals are called: <x>.set("zqquery", …) / <x>.Set("zqquery", …) / <x>.get("zqquery")
		tsSends := c08TSSendRe.MatchString(co)
		goSends := c08GoSendRe.MatchString(gc)
		tsReads := c08TSReadRe.MatchString(so)
		if !body {
			r.Check(tsSends, "R08e", "TS client sends query-annotated fields in the URL for "+v, "",
				fmt.Sprintf("for %s (no request body) the TS client does not put the query-annotated field into the URL: the field reaches no server (Go client sends it: %v)", v, goSends))
			r.Check(tsReads, "R08e", "TS server reads query-annotated fields from the URL for "+v, "",
				fmt.Sprintf("for %s the TS server does not read the query parameter the clients send", v))
		}
		r.Check(tsSends == goSends, "R08e", "TS and Go clients agree on sending query parameters for "+v, "",
			fmt.Sprintf("for %s the Go client sends the query parameter: %v, the TS client: %v", v, goSends, tsSends))
	}
}

// observeEmittedText: the reconstructed unit text under a C03 scenario.
func (c *Ctx) observeEmittedText(pkg, suffix string, s c03Scenario) string {
	ri := c.c03Root(pkg, suffix)
	if ri == nil {
		return ""
	}
	run := c.runScenario(ri.Fn, s)
	if run.Aborted != "" {
		return ""
	}
	var b strings.Builder
	for _, u := range run.Units {
		for _, l := range u.Lines {
			b.WriteString(lineText(l.Segs))
			b.WriteByte('\n')
		}
	}
	return b.String()
}

func init() { props["C08"] = checkC08 }

// c08RouteAgreement: R08g — TS client and TS server publish one verb and one path
// per configuration, also where the configuration leaves the verb or the path to the default.
func c08RouteAgreement(c *Ctx) {
	r := c.R
	r.Rule("R08g", "TS client and TS server publish the same verb and path for every configuration of the grid, also where verb or path are defaulted", 12)
	gens := []c03Gen{{"TS client", pkgTSClient, "_client.ts"}, {"TS server", pkgTSServer, "_server.ts"}}
	noise := map[string]map[string]bool{}
	marker := c03Scenario{Base: "/zqb", Cfg: &c03Cfg{Path: "/zqp", Method: "ZQVERB"}}
	for _, g := range gens {
		o := c.observeEmitted(g.Pkg, g.Suffix, marker)
		nz := map[string]bool{}
		for _, l := range o.Lits {
			if m := verbLike.FindString(l); m != "" && !strings.EqualFold(strings.TrimSpace(m), "zqverb") {
				nz[l] = true
			}
		}
		noise[g.Name] = nz
	}
	var scs []c03Scenario
	for _, b := range []string{"", "/zqb", "zqb/"} {
		scs = append(scs, c03Scenario{Base: b})
		for _, v := range []string{"GET", "DELETE", "PUT"} {
			scs = append(scs, c03Scenario{Base: b, Cfg: &c03Cfg{Method: v}})
			scs = append(scs, c03Scenario{Base: b, Cfg: &c03Cfg{Method: v, Path: "/zqp/{id}"}})
		}
		scs = append(scs, c03Scenario{Base: b, Cfg: &c03Cfg{Path: "/zqp/{id}"}})
	}
	for _, s := range scs {
		got := map[string][2]string{}
		pos := ""
		bad := false
		for _, g := range gens {
			o := c.observeEmitted(g.Pkg, g.Suffix, s)
			if o.Err != "" {
				r.Unres("R08g", s.String()+": "+g.Name, o.Pos, o.Err)
				bad = true
				continue
			}
			o.split(noise[g.Name])
			got[g.Name] = [2]string{strings.Join(o.Verbs, "|"), strings.Join(o.Paths, " | ")}
			pos = o.Pos
		}
		if bad {
			continue
		}
		cl, sv := got["TS client"], got["TS server"]
		ok := cl == sv && cl[0] != "" && cl[1] != "" && !strings.Contains(cl[0], "|") && !strings.Contains(cl[1], " | ")
		r.Check(ok, "R08g", s.String(), pos,
			fmt.Sprintf("%s: the TS client calls %s %q and the TS server routes %s %q: the generated client's request does not reach the generated server's handler", s, cl[0], cl[1], sv[0], sv[1]))
	}
}

// c08HeaderSetNotAdd: R08h — the emitted Go client applies client-wide and per-call headers with Header.Set,
// so that a per-call value replaces the default (as the TS client's object spread does); Header.Add would send
// both values and servers read the first (Go) or the comma-joined list (TS).
func c08HeaderSetNotAdd(c *Ctx) {
	r := c.R
	r.Rule("R08h", "the Go client applies default and per-call headers by replacement (Header.Set), like the TS client's object spread", 1)
	ri := c.Root(pkgClient, "_client.pb.go")
	if ri == nil {
		r.Unres("R08h", "_client.pb.go", "", "unit root not found")
		return
	}
	ex := c.Explore(ri.Fn, 1, 4000)
	nSet := 0
	bad := map[string]string{}
	for _, v := range ex.Variants {
		for _, u := range v.Units {
			for _, l := range u.Lines {
				t := strings.TrimSpace(lineText(l.Segs))
				if strings.Contains(t, ".Header.Set(") {
					nSet++
				}
				if strings.Contains(t, ".Header.Add(") {
					bad["Go client adds a request header value instead of replacing it"] = c.P.Pos(l.Pos)
				}
			}
		}
	}
	for _, k := range sortedKeys(bad) {
		r.Bad("R08h", k, bad[k], "the emitted client calls Header.Add: when the same header is configured as a client default and as a per-call option the request carries two values; the Go server's Header.Get validates the stale default and the TS server's headers.get the comma-joined list, while the TS client sends the per-call value only", nil)
	}
	if nSet == 0 {
		r.Undec("R08h", "header application in the Go client", "", "no Header.Set line found in any variant")
		return
	}
	r.OKd("R08h", "Go client headers are applied with Header.Set", "", map[string]any{"set_lines": nSet, "add_lines": len(bad)})
}

// tsServerSegmentDecode: the TS server splits the still-encoded pathname and percent-decodes each extracted segment
// (decoding the whole pathname first would turn an encoded slash inside a value into a separator).
func tsServerSegmentDecode(c *Ctx, rid string) {
	r := c.R
	sl, spos := c.unitLines(pkgTSServer, "_server.ts")
	if sl == nil {
		r.Unres(rid, "TS server unit", "", "not found")
		return
	}
	nExt, badExt, early := 0, "", ""
	for _, l := range sl {
		t := lineText(l.Segs)
		if strings.Contains(t, "pathSegments[") {
			nExt++
			if !strings.Contains(t, "decodeURIComponent(") && badExt == "" {
				badExt = holeFree(t)
				spos = c.P.Pos(l.Pos)
			}
		}
		if strings.Contains(t, ".split(") && strings.Contains(t, "decodeURIComponent(") && strings.Contains(t, "pathname") {
			early = holeFree(t)
			spos = c.P.Pos(l.Pos)
		}
	}
	r.Check(nExt > 0 && badExt == "", rid, "TS server decodes every extracted path segment", spos,
		"the TS server hands a raw path segment to the handler ("+strings.TrimSpace(badExt)+"): the percent-encoded form the clients send is not the value the caller passed")
	r.Check(early == "", rid, "TS server splits the encoded pathname (decoding happens per segment)", spos,
		"the TS server decodes the whole pathname before splitting it ("+strings.TrimSpace(early)+"): an encoded slash (%2F) inside a path value becomes a separator, the value is cut and later variables are read from shifted segments")
}

// c08HeaderState — R08l / R08m, on the reconstructed TypeScript text of every explored variant.
// R08l: the TS client's constructor copies the caller's defaultHeaders object (spread / Object.assign into a fresh literal)
// before its typed helper options write into it: keeping the caller's object makes every client built from one options
// object share — and overwrite — one header slot. R08m: the TS server's validateHeaders skips an absent header
// unconditionally (a violation only when it is required): validating the empty string for an absent OPTIONAL header
// rejects calls the Go server and the published contract accept.
func c08HeaderState(c *Ctx) {
	r := c.R
	r.Rule("R08l", "the TS client copies the caller's defaultHeaders object before writing typed header options into it", 1)
	r.Rule("R08m", "the TS server's validateHeaders skips an absent header whether or not it is required (only a required one is a violation)", 1)
	if ri := c.Root(pkgTSClient, "_client.ts"); ri == nil {
		r.Unres("R08l", "_client.ts", "", "unit root not found")
	} else {
		ex := c.ExploreT(ri.Fn, 4000)
		n, bad := 0, ""
		assign := regexp.MustCompile(`this\.defaultHeaders\s*=\s*(.*);\s*$`)
		for _, v := range ex.Variants {
			for _, u := range v.Units {
				for _, l := range u.Lines {
					t := lineText(l.Segs)
					m := assign.FindStringSubmatch(strings.TrimSpace(t))
					if m == nil || strings.Contains(t, "this.defaultHeaders[") {
						continue
					}
					n++
					rhs := strings.TrimSpace(m[1])
					fresh := strings.HasPrefix(rhs, "{") || strings.HasPrefix(rhs, "Object.assign({}") || strings.HasPrefix(rhs, "structuredClone(")
					if !fresh && bad == "" {
						bad = rhs + " at " + c.P.Pos(l.Pos)
					}
				}
			}
		}
		if n == 0 {
			r.Undec("R08l", "TS client constructor: defaultHeaders", "", "no assignment of this.defaultHeaders found in any variant")
		} else {
			r.CheckD(bad == "", "R08l", "TS client constructor stores a copy of options.defaultHeaders", c.P.Pos(c.P.Decls[ri.Fn].Pos()),
				"the emitted constructor keeps the caller's object (this.defaultHeaders = "+bad+") and then writes the typed header options into it: two clients built from one defaultHeaders object send each other's header values", map[string]any{"assignments": n})
		}
	}
	if ri := c.Root(pkgTSServer, "_server.ts"); ri == nil {
		r.Unres("R08m", "_server.ts", "", "unit root not found")
	} else {
		ex := c.ExploreT(ri.Fn, 4000)
		n, bad := 0, ""
		for _, v := range ex.Variants {
			for _, u := range v.Units {
				txt := u.Text()
				i := strings.Index(txt, "function validateHeaders(")
				if i < 0 {
					continue
				}
				body := txt[i:]
				if j := strings.Index(body, "\n}\n"); j > 0 {
					body = body[:j]
				}
				n++
				g := strings.Index(body, ".headers.get(")
				if g < 0 {
					bad = "no header lookup in validateHeaders"
					continue
				}
				rest := body[g:]
				k := strings.Index(rest, "if (")
				if k < 0 {
					bad = "no absence test after the header lookup"
					continue
				}
				cond := rest[k+4:]
				if e := strings.Index(cond, ") {"); e > 0 {
					cond = cond[:e]
				}
				// the block of that if, by brace matching
				open := strings.Index(rest[k:], "{")
				depth, end := 0, -1
				for q := k + open; q < len(rest); q++ {
					switch rest[q] {
					case '{':
						depth++
					case '}':
						depth--
						if depth == 0 {
							end = q
						}
					}
					if end >= 0 {
						break
					}
				}
				block := ""
				if end > 0 {
					block = rest[k+open+1 : end]
				}
				absence := regexp.MustCompile(`^\s*(!\s*\w+|\w+\s*(==|===)\s*(null|undefined))\s*$`).MatchString(cond)
				// a `continue;` at depth 0 of the block
				d, cont := 0, false
				for q := 0; q < len(block); q++ {
					switch block[q] {
					case '{':
						d++
					case '}':
						d--
					}
					if d == 0 && strings.HasPrefix(block[q:], "continue;") {
						cont = true
					}
				}
				// or: the validation of the value is the else branch of the absence test (nothing validates outside it)
				if !cont && end > 0 {
					after := strings.TrimLeft(rest[end+1:], " \t\r\n")
					if strings.HasPrefix(after, "else") {
						off := len(rest) - len(after)
						if ob := strings.Index(after, "{"); ob >= 0 {
							d2, e2 := 0, -1
							for q := off + ob; q < len(rest) && e2 < 0; q++ {
								switch rest[q] {
								case '{':
									d2++
								case '}':
									d2--
									if d2 == 0 {
										e2 = q
									}
								}
							}
							if e2 > 0 && !strings.Contains(block, "validateHeaderValue(") && !strings.Contains(rest[e2+1:], "validateHeaderValue(") {
								cont = true
							}
						}
					}
				}
				if !(absence && cont) && bad == "" {
					bad = "the test after the lookup is `if (" + strings.TrimSpace(cond) + ")` and its block " + map[bool]string{true: "continues", false: "does not continue unconditionally"}[cont]
				}
			}
		}
		if n == 0 {
			r.OKd("R08m", "no variant emits validateHeaders (no headers declared)", "", nil)
		} else {
			r.CheckD(bad == "", "R08m", "TS server validateHeaders: an absent header is skipped, required or not", c.P.Pos(c.P.Decls[ri.Fn].Pos()),
				"the emitted validateHeaders does not skip an absent header unconditionally ("+bad+"): an OPTIONAL header the caller omits is validated as the empty string, which every typed or formatted header rejects — the TS server answers 400 to calls the Go server and the OpenAPI contract accept", map[string]any{"variants_with_validateHeaders": n})
		}
	}
}

// c08ScalarTables — R08n / R08o. R08n: tscommon.TSScalarType, which both TS plugins use to declare a scalar field and the TS
// server uses to convert URL strings, is interpreted on every scalar kind: 32-bit integers and floats are numbers, 64-bit
// integers strings (proto3 JSON), bool boolean, string/bytes/enum strings — the form the Go client and server put on the
// wire. R08o: the Go server's URL conversion table pairs every kind with the parser of that kind (shared with C01/R01f): the
// TS client sends a uint64 as its full decimal text.
func c08ScalarTables(c *Ctx) {
	r := c.R
	r.Rule("R08n", "tscommon.TSScalarType maps every scalar kind to the TypeScript type of its wire form (32-bit and floating kinds number, 64-bit kinds string, bool boolean)", 15)
	if fn := c.P.Func("internal/tscommon", "TSScalarType"); fn == nil {
		r.Unres("R08n", "tscommon.TSScalarType", "", "not found")
	} else {
		pos := c.P.Pos(c.P.Decls[fn].Pos())
		prev := c.W.Concrete
		c.W.Concrete = true
		pname := ""
		for _, f := range c.P.Decls[fn].Type.Params.List {
			for _, n := range f.Names {
				pname = n.Name
			}
		}
		want := map[string]string{"bool": "boolean", "string": "string", "bytes": "string", "enum": "string",
			"int32": "number", "sint32": "number", "sfixed32": "number", "uint32": "number", "fixed32": "number", "float": "number", "double": "number",
			"int64": "string", "sint64": "string", "sfixed64": "string", "uint64": "string", "fixed64": "string"}
		for _, kind := range sortedKeys(want) {
			run := c.W.NewRun(map[string]int{}, false)
			run.InlineAll, run.FollowSlices = true, true
			run.CallHook = c.cdescHook
			run.StartArgs(fn, map[string]Val{pname: VInt{N: kindNum[kind], Label: kindLabel[kind]}})
			key := "TSScalarType(" + kind + ")"
			sv, ok := run.Result.(VStr)
			got, isConst := "", false
			if ok {
				got, isConst = sv.isConst()
			}
			if !ok || !isConst || len(run.Used) > 0 {
				r.Undec("R08n", key, pos, fmt.Sprintf("not evaluated to a constant (result %T, open decisions %v)", run.Result, usedKeys(run)))
				continue
			}
			r.Check(got == want[kind], "R08n", key, pos,
				fmt.Sprintf("TSScalarType gives %q for kind %s; the wire form is a JSON %s: the TS server then hands URL values of such fields to the handler unconverted (or converts what is a string), and both TS plugins declare the field with the wrong type", got, kind, want[kind]))
		}
		c.W.Concrete = prev
	}
	r.Rule("R08o", "the Go server converts each URL-bound kind with the parser, bit size and constructor of that kind (shared with C01/R01f): a value every client sends as decimal text is accepted over its whole range", 8)
	if ep, err := c.ServerRuntime(); err != nil {
		r.Unres("R08o", "emitted server runtime", "", err.Error())
	} else {
		checkConversionTable(c, ep, "R08o")
	}
}

var tsSchemaNamedBinding = regexp.MustCompile(`^\s*(?:export\s+)?(?:const|let|var|function)\s+(\*+)\s*(?:[=:;(]|$)`)

// c08NoSchemaNamedBindings — R08p. No emitted TypeScript value binding (const / let / var / function) is named by a
// schema-derived string alone: a field called `package`, `class`, `default`, `new`, `delete` or like one of the method's own
// locals (`path`, `url`, `headers`, `req`, `options`) would give `const package = …` — an early SyntaxError, the whole module
// (every service of the file) fails to load. Names with a constant prefix or suffix around the schema part are fine.
func c08NoSchemaNamedBindings(c *Ctx, rid string) {
	r := c.R
	nLines := 0
	reported := map[string]bool{}
	for _, spec := range [][2]string{{pkgTSClient, "_client.ts"}, {pkgTSServer, "_server.ts"}} {
		ri := c.Root(spec[0], spec[1])
		if ri == nil {
			r.Unres(rid, spec[1], "", "unit root not found")
			continue
		}
		ex := c.ExploreDeep(ri.Fn, 1, 40000)
		for _, v := range ex.Variants {
			for _, u := range v.Units {
				for _, l := range u.Lines {
					nLines++
					t := holeFree(lineText(l.Segs))
					if m := tsSchemaNamedBinding.FindStringSubmatch(t); m != nil {
						k := fmt.Sprintf("%s *%s: no value binding is named by a schema string alone (%s)", pkgShort(spec[0]), spec[1], strings.TrimSpace(t))
						if !reported[k] {
							reported[k] = true
							r.Bad(rid, k, c.P.Pos(l.Pos), "the emitted line `"+strings.TrimSpace(t)+"` declares a binding whose whole name comes from the schema (* stands for the schema-derived part): a field named like a reserved word (package, class, default, new …) or like one of the generated method's own locals makes the module a SyntaxError, so no RPC of the file can be called", nil)
						}
					}
				}
			}
		}
	}
	r.OKd(rid, "emitted TypeScript lines inspected for schema-named value bindings", "", map[string]any{"lines": nLines, "schema_named": len(reported)})
}
