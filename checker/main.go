package main

import (
	"encoding/json"
	"flag"
	"go/ast"
	"go/token"
	"go/types"
	"fmt"
	"os"
	"runtime/debug"
	"sort"
	"strconv"
	"strings"
)

// Ctx is what every property check receives.
type Ctx struct {
	P    *Prog
	W    *Walker
	Tier string
	R    *Report
	exps map[string]*Exploration

	runtime    *EmittedPkg
	runtimeErr error

	c03roots       map[string]*RootInfo
	extraWorldUnit *Unit
	// worldInspect, when set, is handed the type-checked unit of a shape world (typeCheckWorld) and returns further findings
	worldInspect func(fset *token.FileSet, f *ast.File, info *types.Info) []typeFinding
}

func (c *Ctx) Thorough() bool { return c.Tier == "thorough" }

var props = map[string]func(*Ctx){}

func main() {
	if len(os.Args) > 1 && os.Args[1] == "anchors" {
		repo := "/repo"
		if len(os.Args) > 2 {
			repo = os.Args[2]
		}
		p, err := LoadRepo(repo)
		if err != nil {
			fmt.Println("LOAD ERROR", err)
			os.Exit(2)
		}
		tab := p.Anchors()
		ctx := &Ctx{P: p, W: NewWalker(p), Tier: "quick", R: NewReport("ANCHORS", "quick"), exps: map[string]*Exploration{}}
		os.Setenv("VERIF_DIR", "/nonexistent") // fingerprints of the tree as it is, not resolved through an older table
		if ep, err := ctx.ServerRuntime(); err == nil {
			for k, v := range ep.Fingerprints() {
				tab[k] = v
			}
		} else {
			fmt.Fprintln(os.Stderr, "server runtime:", err)
		}
		b, _ := json.MarshalIndent(tab, "", " ")
		fmt.Println(string(b))
		return
	}
	if len(os.Args) > 1 && os.Args[1] == "corpusdump" {
		corpusDumpMain(os.Args[2:])
		return
	}
	if len(os.Args) > 1 && os.Args[1] == "dump" {
		dumpMain(os.Args[2:])
		return
	}
	fs := flag.NewFlagSet("sebufcheck", flag.ExitOnError)
	repo := fs.String("repo", "/repo", "repository root")
	verif := fs.String("verif", "/verif", "verification directory (evidence, known findings)")
	prop := fs.String("prop", "", "property id (C01..C20)")
	tier := fs.String("tier", "quick", "quick|thorough")
	replay := fs.String("replay", "", "replay file: re-run the rule of that obligation")
	fs.Parse(os.Args[1:])
	if *replay != "" {
		os.Exit(replayMain(*replay, *repo, *verif))
	}
	if strings.Contains(*prop, ",") || *prop == "all" {
		// several properties in one process (testing aid: one load of the repository, a fresh walker and report per property)
		ids := strings.Split(*prop, ",")
		if *prop == "all" {
			ids = nil
			for k := range props {
				ids = append(ids, k)
			}
			sort.Strings(ids)
		}
		seed, _ := strconv.Atoi(os.Getenv("VERIF_SEED"))
		os.Setenv("VERIF_DIR", *verif)
		p, err := LoadRepo(*repo)
		code := 0
		for _, id := range ids {
			fn, ok := props[id]
			if !ok {
				fmt.Println("unknown property", id)
				os.Exit(2)
			}
			if c := runPropOn(id, fn, p, err, *repo, *verif, *tier, seed); c > code {
				code = c
			}
		}
		os.Exit(code)
	}
	fn, ok := props[*prop]
	if !ok {
		var ids []string
		for k := range props {
			ids = append(ids, k)
		}
		sort.Strings(ids)
		fmt.Println("unknown property; have:", strings.Join(ids, " "))
		os.Exit(2)
	}
	seed, _ := strconv.Atoi(os.Getenv("VERIF_SEED"))
	if t := os.Getenv("VERIF_TIER"); t == "quick" || t == "thorough" {
		if !flagSet(fs, "tier") {
			*tier = t
		}
	}
	os.Setenv("VERIF_DIR", *verif)
	os.Exit(runProp(*prop, fn, *repo, *verif, *tier, seed))
}

func flagSet(fs *flag.FlagSet, name string) bool {
	set := false
	fs.Visit(func(f *flag.Flag) {
		if f.Name == name {
			set = true
		}
	})
	return set
}

func runProp(id string, fn func(*Ctx), repo, verif, tier string, seed int) (code int) {
	p, err := LoadRepo(repo)
	return runPropOn(id, fn, p, err, repo, verif, tier, seed)
}

func runPropOn(id string, fn func(*Ctx), p *Prog, err error, repo, verif, tier string, seed int) (code int) {
	rep := NewReport(id, tier)
	rep.Rule("R00", "the repository loads and type-checks; every anchor the rules need is found", 1)
	if err != nil {
		rep.Unres("R00", "load", repo, err.Error())
		return rep.Finish(verif, seed)
	}
	rep.OK("R00", "load "+strconv.Itoa(len(p.Pkgs))+" packages", repo)
	rep.Count("packages_loaded", len(p.Pkgs))
	rep.Count("functions_loaded", p.nFuncs)
	ctx := &Ctx{P: p, W: NewWalker(p), Tier: tier, R: rep, exps: map[string]*Exploration{}}
	func() {
		defer func() {
			if e := recover(); e != nil {
				if os.Getenv("VERIF_PANIC") != "" {
					os.Stderr.Write(debug.Stack())
				}
				rep.Unres("R00", "checker-panic", "", fmt.Sprint(e))
			}
		}()
		fn(ctx)
	}()
	return rep.Finish(verif, seed)
}

func replayMain(path, repo, verif string) int {
	b, err := os.ReadFile(path)
	if err != nil {
		fmt.Println("cannot read replay file:", err)
		return 2
	}
	// the replay file names the property; re-running the property at the
	// recorded tier re-evaluates the recorded obligation (rules are deterministic).
	s := string(b)
	i := strings.Index(s, `"property": "`)
	if i < 0 {
		fmt.Println("malformed replay file")
		return 2
	}
	id := s[i+13 : i+16]
	tier := "quick"
	if strings.Contains(s, `"tier": "thorough"`) {
		tier = "thorough"
	}
	fn, ok := props[id]
	if !ok {
		return 2
	}
	fmt.Printf("replaying %s (%s) from %s\n", id, tier, path)
	return runProp(id, fn, repo, verif, tier, 0)
}

func dumpMain(args []string) {
	fs := flag.NewFlagSet("dump", flag.ExitOnError)
	repo := fs.String("repo", "/repo", "")
	level := fs.Int("level", 1, "")
	show := fs.Int("show", 0, "variant index to print (-1 none)")
	fs.Parse(args)
	p, err := LoadRepo(*repo)
	if err != nil {
		fmt.Println("LOAD ERROR", err)
		os.Exit(2)
	}
	w := NewWalker(p)
	for _, root := range w.UnitRoots() {
		if fs.NArg() > 0 && !strings.Contains(FuncName(root), fs.Arg(0)) {
			continue
		}
		ex := w.Explore(root, *level, 20000)
		fmt.Printf("ROOT %s: runs=%d variants=%d aborted=%d dups=%d points=%d problems=%d capped=%v\n", FuncName(root), ex.Runs, len(ex.Variants), ex.Aborted, ex.Dups, len(ex.Points), len(ex.Problems), ex.Capped)
		for _, pr := range ex.Problems {
			fmt.Println("   PROBLEM", pr)
		}
		if fs.NArg() > 0 {
			for _, pt := range ex.Points {
				fmt.Printf("   point %-70s arity=%d at %s\n", pt.Key, pt.Arity, pt.Pos)
			}
			if *show >= 0 && *show < len(ex.Variants) {
				v := ex.Variants[*show]
				fmt.Println("--- variant", v.ID, v.DecString())
				for _, u := range v.Units {
					fmt.Println("=== unit", u.NameText())
					fmt.Print(u.Text())
				}
			}
		}
	}
}
