package main

// C15 — generation is a pure, order-independent function of the definitions.

import (
	"fmt"
	"go/ast"
	"go/token"
	"go/types"
	"strings"

	"golang.org/x/tools/go/packages"
)

func init() { props["C15"] = checkC15 }

// generator packages: everything in the module except the generated http/*.pb.go package.
func (c *Ctx) genPkgs() []*packages.Package {
	var out []*packages.Package
	for _, pk := range c.P.Pkgs {
		rel := strings.TrimPrefix(pk.PkgPath, modPath+"/")
		if strings.HasPrefix(rel, "internal/") || strings.HasPrefix(rel, "cmd/") {
			out = append(out, pk)
		}
	}
	return out
}

// ambient: calls whose result depends on something other than the request.
func isAmbient(fn *types.Func) (bool, string) {
	if fn == nil || fn.Pkg() == nil {
		return false, ""
	}
	pkg, name := fn.Pkg().Path(), fn.Name()
	sig := fn.Type().(*types.Signature)
	switch pkg {
	case "time":
		if sig.Recv() == nil && (name == "Now" || name == "Since" || name == "Until" || name == "After" || name == "Tick" || name == "NewTimer" || name == "NewTicker" || name == "Sleep") {
			return true, "clock"
		}
	case "math/rand", "math/rand/v2", "crypto/rand":
		return true, "randomness"
	case "os":
		switch name {
		case "Getenv", "Environ", "LookupEnv", "ExpandEnv", "Hostname", "Getpid", "Getppid", "Getuid", "Getwd", "UserHomeDir",
			"UserCacheDir", "UserConfigDir", "TempDir", "ReadFile", "ReadDir", "Stat", "Lstat", "Open", "OpenFile", "Executable", "Getpagesize", "MkdirTemp", "CreateTemp":
			return true, "process environment / file system"
		}
	case "runtime":
		if name != "KeepAlive" {
			return true, "runtime state"
		}
	case "os/user", "net", "os/exec", "syscall":
		return true, "host state"
	case "reflect":
		if name == "MapKeys" || name == "MapRange" {
			return true, "unordered map iteration (reflect)"
		}
	case "maps", "golang.org/x/exp/maps":
		if name == "Keys" || name == "Values" || name == "All" {
			return true, "unordered map iteration (maps package)"
		}
	case "google.golang.org/protobuf/reflect/protoreflect":
		if name == "Range" && sig.Recv() != nil {
			if typeIsNamed(sig.Recv().Type(), "reflect/protoreflect", "Message") || typeIsNamed(sig.Recv().Type(), "reflect/protoreflect", "Map") {
				return true, "protoreflect Range iterates in unspecified order"
			}
		}
	case "unsafe":
		return true, "unsafe"
	}
	return false, ""
}

func (c *Ctx) enclosingFunc(pk *packages.Package, pos token.Pos) string {
	for _, f := range pk.Syntax {
		if pos < f.Pos() || pos > f.End() {
			continue
		}
		for _, d := range f.Decls {
			if fd, ok := d.(*ast.FuncDecl); ok && pos >= fd.Pos() && pos <= fd.End() {
				if obj, ok := pk.TypesInfo.Defs[fd.Name].(*types.Func); ok {
					return FuncName(obj)
				}
			}
		}
	}
	return pk.Name + ".<file scope>"
}

// rangeBodyVerdict decides whether the body of a `range` over a Go map is
// insensitive to iteration order. Accepted idioms (enumerated from the tree):
//
//	A  xs = append(xs, <loop vars>) and xs is sorted right after the loop
//	B  only writes into maps / delete (set or map building)
//	C  order-insensitive reductions: constant returns, counters, constant flags
func (c *Ctx) rangeBodyVerdict(pk *packages.Package, fd *ast.FuncDecl, rs *ast.RangeStmt) (ok bool, idiom, why string) {
	return rangeBodyVerdictInfo(pk.TypesInfo, fd, rs)
}

// rangeBodyVerdictInfo: the same decision on any type-checked syntax tree (the generators' own, or the reconstructed emitted runtime).
func rangeBodyVerdictInfo(info *types.Info, fd *ast.FuncDecl, rs *ast.RangeStmt) (ok bool, idiom, why string) {
	var appended []types.Object
	bad := ""
	var visit func(stmts []ast.Stmt)
	isMapIndex := func(e ast.Expr) bool {
		ix, ok := ast.Unparen(e).(*ast.IndexExpr)
		if !ok {
			return false
		}
		tv, ok := info.Types[ix.X]
		if !ok {
			return false
		}
		_, isMap := tv.Type.Underlying().(*types.Map)
		return isMap
	}
	isConstExpr := func(e ast.Expr) bool {
		if tv, ok := info.Types[e]; ok && tv.Value != nil {
			return true
		}
		if id, ok := ast.Unparen(e).(*ast.Ident); ok && (id.Name == "nil" || id.Name == "true" || id.Name == "false") {
			return true
		}
		return false
	}
	visit = func(stmts []ast.Stmt) {
		for _, s := range stmts {
			if bad != "" {
				return
			}
			switch s := s.(type) {
			case *ast.AssignStmt:
				for i, l := range s.Lhs {
					if isMapIndex(l) {
						continue // B
					}
					id, isId := ast.Unparen(l).(*ast.Ident)
					if isId && id.Name == "_" {
						continue
					}
					if isId && i < len(s.Rhs) {
						if call, ok := ast.Unparen(s.Rhs[i]).(*ast.CallExpr); ok {
							if fid, ok := call.Fun.(*ast.Ident); ok && fid.Name == "append" && len(call.Args) >= 1 {
								if a0, ok := ast.Unparen(call.Args[0]).(*ast.Ident); ok && info.ObjectOf(a0) == info.ObjectOf(id) {
									appended = append(appended, info.ObjectOf(id))
									continue // A (sorted-after is checked below)
								}
							}
						}
						if isConstExpr(s.Rhs[i]) {
							continue // C: constant flag
						}
						// a local declared inside the loop body is fine
						if o := info.ObjectOf(id); o != nil && o.Pos() >= rs.Body.Pos() && o.Pos() <= rs.Body.End() {
							continue
						}
					}
					bad = fmt.Sprintf("assignment to %s depends on iteration order", types.ExprString(l))
				}
			case *ast.IncDecStmt:
				// counter: C
			case *ast.ExprStmt:
				call, ok := s.X.(*ast.CallExpr)
				if ok {
					if fid, ok := call.Fun.(*ast.Ident); ok && fid.Name == "delete" {
						continue
					}
				}
				bad = "call with effects inside an unordered iteration: " + types.ExprString(s.X)
			case *ast.IfStmt:
				if s.Init != nil {
					visit([]ast.Stmt{s.Init})
				}
				visit(s.Body.List)
				if s.Else != nil {
					visit([]ast.Stmt{s.Else})
				}
			case *ast.BlockStmt:
				visit(s.List)
			case *ast.ReturnStmt:
				for _, e := range s.Results {
					if !isConstExpr(e) {
						bad = "returns a value chosen by iteration order: " + types.ExprString(e)
					}
				}
			case *ast.BranchStmt:
				if s.Tok == token.BREAK {
					bad = "break makes the result depend on which element comes first"
				}
			case *ast.DeclStmt, *ast.EmptyStmt:
			default:
				bad = fmt.Sprintf("statement %T inside an unordered iteration", s)
			}
		}
	}
	visit(rs.Body.List)
	if bad != "" {
		return false, "", bad
	}
	if len(appended) == 0 {
		return true, "map/set building or order-insensitive reduction", ""
	}
	// A: each appended slice must be sorted by the first statement that mentions it after the loop.
	for _, obj := range appended {
		sorted := false
		usedUnsorted := ""
		after := false
		ast.Inspect(fd.Body, func(n ast.Node) bool {
			if n == nil || sorted || usedUnsorted != "" {
				return false
			}
			if n == ast.Node(rs) {
				after = true
				return false
			}
			if !after {
				return true
			}
			if st, ok := n.(ast.Stmt); ok {
				mentions := false
				ast.Inspect(st, func(m ast.Node) bool {
					if id, ok := m.(*ast.Ident); ok && info.ObjectOf(id) == obj {
						mentions = true
					}
					return !mentions
				})
				if !mentions {
					return false
				}
				if es, ok := st.(*ast.ExprStmt); ok {
					if call, ok := es.X.(*ast.CallExpr); ok {
						if cal := Callee(info, call); cal != nil && cal.Pkg() != nil &&
							(cal.Pkg().Path() == "sort" || cal.Pkg().Path() == "slices") && strings.HasPrefix(cal.Name(), "S") {
							// The order must be total on the collected (distinct) map keys:
							// natural-order sorts are; a custom comparator is accepted only if it
							// compares the elements themselves (ties would keep map order).
							if totalOrderSort(info, call, cal, obj) {
								sorted = true
							} else {
								usedUnsorted = "sorted with a comparator that is not the elements' own order: ties keep the map's iteration order"
							}
							return false
						}
					}
				}
				if _, isBlock := st.(*ast.BlockStmt); isBlock {
					return true
				}
				usedUnsorted = types.ExprString(&ast.Ident{Name: obj.Name()})
				return false
			}
			return true
		})
		if !sorted {
			if strings.HasPrefix(usedUnsorted, "sorted with") {
				return false, "", fmt.Sprintf("slice %s collected from a map is %s", obj.Name(), usedUnsorted)
			}
			return false, "", fmt.Sprintf("slice %s collected from a map is used before (or without) being sorted", obj.Name())
		}
	}
	return true, "collect-then-sort", ""
}

// totalOrderSort: sort.Strings/Ints/Float64s, slices.Sort, or sort.Slice /
// slices.SortFunc whose comparator is `xs[i] < xs[j]` / `a < b` /
// strings.Compare(a, b) / cmp.Compare(a, b) on the raw elements.
func totalOrderSort(info *types.Info, call *ast.CallExpr, cal *types.Func, xs types.Object) bool {
	switch cal.Name() {
	case "Strings", "Ints", "Float64s", "Sort":
		if cal.Name() == "Sort" && cal.Pkg().Path() == "sort" {
			return false // sort.Sort with a user Less: not decided
		}
		return true
	case "Slice", "SliceStable", "SortFunc", "SortStableFunc":
		if len(call.Args) != 2 {
			return false
		}
		lit, ok := ast.Unparen(call.Args[1]).(*ast.FuncLit)
		if !ok || len(lit.Body.List) != 1 {
			return false
		}
		ret, ok := lit.Body.List[0].(*ast.ReturnStmt)
		if !ok || len(ret.Results) != 1 {
			return false
		}
		var params []types.Object
		for _, f := range lit.Type.Params.List {
			for _, n := range f.Names {
				params = append(params, info.Defs[n])
			}
		}
		isElem := func(e ast.Expr) bool {
			switch x := ast.Unparen(e).(type) {
			case *ast.IndexExpr: // xs[i]
				id, ok := ast.Unparen(x.X).(*ast.Ident)
				if !ok || info.ObjectOf(id) != xs {
					return false
				}
				ix, ok := ast.Unparen(x.Index).(*ast.Ident)
				if !ok {
					return false
				}
				for _, p := range params {
					if info.ObjectOf(ix) == p {
						return true
					}
				}
			case *ast.Ident: // a, b of SortFunc
				for _, p := range params {
					if info.ObjectOf(x) == p {
						return true
					}
				}
			}
			return false
		}
		switch x := ast.Unparen(ret.Results[0]).(type) {
		case *ast.BinaryExpr:
			return (x.Op == token.LSS || x.Op == token.GTR) && isElem(x.X) && isElem(x.Y)
		case *ast.CallExpr:
			if c2 := Callee(info, x); c2 != nil && c2.Name() == "Compare" && len(x.Args) == 2 {
				return isElem(x.Args[0]) && isElem(x.Args[1])
			}
		}
		return false
	}
	return false
}

func checkC15(c *Ctx) {
	r := c.R
	r.Explain = "Decides structural clauses of C15 on the generators' own code (all packages under internal/ and cmd/, type-resolved): R15a every range over a Go map has an order-insensitive body (collect-then-sort, map/set building, constant reductions); R15b no call of a clock, randomness, environment, file-system, runtime, unordered-iteration API, no go/select statement and no channel operation anywhere in the generators; R15c no package-level variable is written after initialisation, no generator receiver field is written inside the per-file path, Generate() declares no variable outside its per-file loop that the loop writes, and the OpenAPI generator object is constructed inside the per-service loop; R15e no pointer/func/chan value is printed into generated output. Not decided: determinism inside third-party libraries (libopenapi, yaml) — trusted."
	r.Trusted = []string{"libopenapi/yaml render ordered maps in insertion order and Go maps in sorted key order", "protogen presents files, messages, fields in descriptor order"}
	r.Rule("R15a", "every range over a Go map has an order-insensitive body", 2)
	r.Rule("R15b", "no ambient source (clock, randomness, environment, fs, runtime, unordered iteration API), go/select/channel op in generator packages", 6)
	r.Rule("R15c", "no cross-file mutable state: package variables, generator receiver fields, variables shared across the per-file loop; one OpenAPI generator per service", 8)
	r.Rule("R15f", "reads of the run-wide unwrap table are keyed by a message of the current file or fall back to the descriptor itself (output of a file must not depend on which other files are generated)", 2)
	r.Rule("R15e", "no address-valued argument (pointer, func, chan) is printed into generated output", 100)

	// positive controls for the matcher (rules whose expected count is zero)
	ctrl := 0
	for _, pk := range c.P.All {
		if pk.Types == nil {
			continue
		}
		for _, probe := range [][2]string{{"time", "Now"}, {"os", "Getenv"}, {"math/rand", "Intn"}} {
			if pk.PkgPath == probe[0] {
				if f, ok := pk.Types.Scope().Lookup(probe[1]).(*types.Func); ok {
					if a, _ := isAmbient(f); a {
						ctrl++
					}
				}
			}
		}
		if pk.PkgPath == "strings" {
			if f, ok := pk.Types.Scope().Lookup("ToLower").(*types.Func); ok {
				if a, _ := isAmbient(f); !a {
					ctrl++
				}
			}
		}
	}
	r.Check(ctrl >= 3, "R15b", "matcher positive controls (time.Now, os.Getenv flagged; strings.ToLower not)", "", fmt.Sprintf("only %d of the matcher's control probes behaved as expected", ctrl))

	nMapTyped := 0
	for _, pk := range c.genPkgs() {
		info := pk.TypesInfo
		rel := strings.TrimPrefix(pk.PkgPath, modPath+"/")
		// ---- R15b per package
		pkgBad := 0
		nCalls := 0
		// an unordered iterator handed straight to slices.Sorted* is the collect-then-sort idiom in one call
		sortedArg := map[*ast.CallExpr]bool{}
		for _, f := range pk.Syntax {
			ast.Inspect(f, func(n ast.Node) bool {
				if x, ok := n.(*ast.CallExpr); ok && len(x.Args) >= 1 {
					if cal := Callee(info, x); cal != nil && cal.Pkg() != nil && cal.Pkg().Path() == "slices" &&
						cal.Name() == "Sorted" { // a total order on the elements; SortedFunc may tie
						if inner, ok := ast.Unparen(x.Args[0]).(*ast.CallExpr); ok {
							sortedArg[inner] = true
						}
					}
				}
				return true
			})
		}
		for _, f := range pk.Syntax {
			for _, d := range f.Decls {
				fd, _ := d.(*ast.FuncDecl)
				ast.Inspect(d, func(n ast.Node) bool {
					switch x := n.(type) {
					case *ast.CallExpr:
						nCalls++
						if cal := Callee(info, x); cal != nil {
							if amb, kind := isAmbient(cal); amb && !(sortedArg[x] && cal.Pkg().Path() == "maps") {
								// os.Stdin/Stdout plumbing in main is not an ambient *source*
								pkgBad++
								r.Bad("R15b", fmt.Sprintf("%s calls %s", c.enclosingFunc(pk, x.Pos()), FuncName(cal)), c.P.Pos(x.Pos()),
									"generator code reads "+kind+": output is no longer a function of the request alone", nil)
							}
						}
						// R15e: arguments of sink calls
						if cal := Callee(info, x); (cal != nil && isGeneratedFileP(cal)) || (cal == nil && func() bool {
							tv, ok := info.Types[x.Fun]
							return ok && !tv.IsType() && isPrinterType(tv.Type)
						}()) {
							okAll := true
							for _, a := range x.Args {
								if tv, ok := info.Types[a]; ok && tv.Type != nil {
									switch tv.Type.Underlying().(type) {
									case *types.Pointer, *types.Signature, *types.Chan, *types.Map:
										okAll = false
										r.Bad("R15e", fmt.Sprintf("%s prints %s", c.enclosingFunc(pk, x.Pos()), types.ExprString(a)), c.P.Pos(a.Pos()),
											"a value of type "+tv.Type.String()+" is printed into generated output (prints an address or unordered content)", nil)
									}
								}
							}
							if okAll {
								r.OK("R15e", fmt.Sprintf("%s sink#%s", c.enclosingFunc(pk, x.Pos()), c.P.Pos(x.Pos())), "")
							}
						}
					case *ast.GoStmt:
						pkgBad++
						r.Bad("R15b", c.enclosingFunc(pk, x.Pos())+" go statement", c.P.Pos(x.Pos()), "goroutine in generator code: emission order may depend on scheduling", nil)
					case *ast.SelectStmt:
						pkgBad++
						r.Bad("R15b", c.enclosingFunc(pk, x.Pos())+" select statement", c.P.Pos(x.Pos()), "select in generator code", nil)
					case *ast.SendStmt:
						pkgBad++
						r.Bad("R15b", c.enclosingFunc(pk, x.Pos())+" channel send", c.P.Pos(x.Pos()), "channel operation in generator code", nil)
					case *ast.UnaryExpr:
						if x.Op == token.ARROW {
							pkgBad++
							r.Bad("R15b", c.enclosingFunc(pk, x.Pos())+" channel receive", c.P.Pos(x.Pos()), "channel operation in generator code", nil)
						}
					case *ast.BasicLit:
						// %p in a format string handed to a fmt function is caught at the call
					case *ast.RangeStmt:
						tv, ok := info.Types[x.X]
						if !ok {
							return true
						}
						if _, isMap := tv.Type.Underlying().(*types.Map); !isMap {
							if _, isChan := tv.Type.Underlying().(*types.Chan); isChan {
								pkgBad++
								r.Bad("R15b", c.enclosingFunc(pk, x.Pos())+" range over channel", c.P.Pos(x.Pos()), "channel operation in generator code", nil)
							}
							return true
						}
						nMapTyped++
						if fd == nil {
							return true
						}
						ok2, idiom, why := c.rangeBodyVerdict(pk, fd, x)
						key := fmt.Sprintf("%s range %s", c.enclosingFunc(pk, x.Pos()), types.ExprString(x.X))
						r.CheckD(ok2, "R15a", key, c.P.Pos(x.Pos()), "iteration over a Go map leaks its order: "+why, map[string]any{"idiom": idiom})
					}
					return true
				})
			}
		}
		if pkgBad == 0 {
			r.OKd("R15b", "package "+rel, "", map[string]any{"calls_resolved": nCalls})
		}

		// ---- R15c package-level variables written after init
		scope := pk.Types.Scope()
		var pkgVars []*types.Var
		for _, n := range scope.Names() {
			if v, ok := scope.Lookup(n).(*types.Var); ok {
				pkgVars = append(pkgVars, v)
			}
		}
		isPkgVar := func(o types.Object) bool {
			v, ok := o.(*types.Var)
			return ok && v.Pkg() == pk.Types && v.Parent() == scope
		}
		rootIdent := func(e ast.Expr) *ast.Ident {
			for {
				switch x := ast.Unparen(e).(type) {
				case *ast.Ident:
					return x
				case *ast.SelectorExpr:
					e = x.X
				case *ast.IndexExpr:
					e = x.X
				case *ast.StarExpr:
					e = x.X
				default:
					return nil
				}
			}
		}
		written := map[types.Object]token.Pos{}
		for _, f := range pk.Syntax {
			for _, d := range f.Decls {
				fd, ok := d.(*ast.FuncDecl)
				if !ok || fd.Body == nil {
					continue
				}
				ast.Inspect(fd.Body, func(n ast.Node) bool {
					switch x := n.(type) {
					case *ast.AssignStmt:
						for _, l := range x.Lhs {
							if id := rootIdent(l); id != nil && isPkgVar(info.ObjectOf(id)) {
								written[info.ObjectOf(id)] = x.Pos()
							}
						}
					case *ast.IncDecStmt:
						if id := rootIdent(x.X); id != nil && isPkgVar(info.ObjectOf(id)) {
							written[info.ObjectOf(id)] = x.Pos()
						}
					case *ast.UnaryExpr:
						if x.Op == token.AND {
							if id := rootIdent(x.X); id != nil && isPkgVar(info.ObjectOf(id)) {
								written[info.ObjectOf(id)] = x.Pos()
							}
						}
					}
					return true
				})
			}
		}
		for _, v := range pkgVars {
			pos, w := written[v]
			r.Check(!w, "R15c", fmt.Sprintf("package variable %s.%s is never written after initialisation", rel, v.Name()), c.P.Pos(pos),
				"package-level variable is written (or its address taken) in a function body: state survives from one file/run to the next")
		}
		if len(pkgVars) == 0 {
			r.OK("R15c", "package "+rel+" declares no package-level variable", "")
		}
	}
	r.Count("map_ranges", nMapTyped)

	// ---- R15c generator receivers and per-file loops
	for _, rel := range []string{pkgHTTP, pkgClient, "internal/tsclientgen", "internal/tsservergen"} {
		pk := c.P.Pkg(rel)
		gen := c.P.Func(rel, "Generator.Generate")
		gfile := c.P.Func(rel, "Generator.generateFile")
		if pk == nil || gen == nil || gfile == nil {
			r.Unres("R15c", rel+" Generate/generateFile", "", "generator entry points not found")
			continue
		}
		info := pk.TypesInfo
		// (1) receiver field writes in functions reachable from generateFile
		nBad := 0
		for _, fn := range c.P.Reach(gfile) {
			if fn.Pkg() != pk.Types {
				continue
			}
			decl := c.P.Decls[fn]
			if decl.Recv == nil || len(decl.Recv.List) == 0 || len(decl.Recv.List[0].Names) == 0 {
				continue
			}
			recvObj := info.Defs[decl.Recv.List[0].Names[0]]
			// only the generator object (and what it holds in its fields) outlives a file: a helper value created
			// on the per-file path and written through its own methods is per-file state
			if recvObj != nil && !outlivesFile(recvObj.Type(), c.P.Decls[gen], info) {
				continue
			}
			ast.Inspect(decl.Body, func(n ast.Node) bool {
				as, ok := n.(*ast.AssignStmt)
				if !ok {
					return true
				}
				for _, l := range as.Lhs {
					e := ast.Unparen(l)
					for {
						if ix, ok := e.(*ast.IndexExpr); ok {
							e = ast.Unparen(ix.X)
							continue
						}
						break
					}
					if sel, ok := e.(*ast.SelectorExpr); ok {
						// g.field or g.field.sub...
						root := sel
						for {
							if inner, ok := ast.Unparen(root.X).(*ast.SelectorExpr); ok {
								root = inner
								continue
							}
							break
						}
						if id, ok := ast.Unparen(root.X).(*ast.Ident); ok && recvObj != nil && info.ObjectOf(id) == recvObj {
							nBad++
							r.Bad("R15c", fmt.Sprintf("%s writes generator state %s", FuncName(fn), types.ExprString(l)), c.P.Pos(as.Pos()),
								"a field of the generator object is written on the per-file path: what is emitted for one file can depend on the files processed before it", nil)
						}
					}
				}
				return true
			})
		}
		if nBad == 0 {
			r.OK("R15c", rel+": no generator field is written on the per-file path", "")
		}
		// (2) variables declared in Generate outside the per-file loop and written inside it
		decl := c.P.Decls[gen]
		var loop *ast.RangeStmt
		ast.Inspect(decl.Body, func(n ast.Node) bool {
			if rs, ok := n.(*ast.RangeStmt); ok && loop == nil {
				if strings.HasSuffix(types.ExprString(rs.X), ".Files") {
					loop = rs
				}
			}
			return loop == nil
		})
		if loop == nil {
			r.Unres("R15c", rel+" per-file loop", c.P.Pos(decl.Pos()), "Generate has no `for range ….Files` loop")
			continue
		}
		shared := ""
		ast.Inspect(loop.Body, func(n ast.Node) bool {
			as, ok := n.(*ast.AssignStmt)
			if !ok {
				return true
			}
			for _, l := range as.Lhs {
				e := ast.Unparen(l)
				for {
					switch x := e.(type) {
					case *ast.IndexExpr:
						e = ast.Unparen(x.X)
						continue
					case *ast.SelectorExpr:
						e = ast.Unparen(x.X)
						continue
					}
					break
				}
				id, ok := e.(*ast.Ident)
				if !ok || id.Name == "_" {
					continue
				}
				o := info.ObjectOf(id)
				if o == nil || info.Defs[id] != nil {
					continue
				}
				if o.Pos() < loop.Pos() || o.Pos() > loop.End() {
					if isErrorType(o.Type()) {
						continue // err is tested and returned at once
					}
					shared = o.Name()
				}
			}
			return true
		})
		r.Check(shared == "", "R15c", rel+": Generate's per-file loop writes no variable declared outside it", c.P.Pos(loop.Pos()),
			"variable "+shared+" is declared outside the per-file loop and written inside it: cross-file state")
	}
	// (2b) R15f: the table collected from ALL files of the run (httpgen.GlobalUnwrapInfo)
	c.checkGlobalTableReads("R15f")
	c15ParameterSpelling(c)
	r.Rule("R15i", "the file name of a service's OpenAPI document is a function of that service and the format alone (not of which other files or services reach the plugin in the same run)", 1)
	c18FileName(c, "R15i")
	r.Rule("R15h", "no generator sorts, or appends into the spare capacity of, a slice it does not own (a parameter, a slice of the protogen model, an option getter's result): the shared model would carry one file's or method's ordering into the next", 2)
	sharedSliceMutation(c, "R15h", nil)

	// (3) OpenAPI: one fresh generator per service
	if mainPk := c.P.Pkg("cmd/protoc-gen-openapiv3"); mainPk == nil {
		r.Unres("R15c", "openapi main", "", "package cmd/protoc-gen-openapiv3 not found")
	} else {
		newGen := c.P.Func("internal/openapiv3", "NewGenerator")
		found, inLoop := false, false
		for _, f := range mainPk.Syntax {
			ast.Inspect(f, func(n ast.Node) bool {
				rs, ok := n.(*ast.RangeStmt)
				if !ok || !strings.HasSuffix(types.ExprString(rs.X), ".Services") {
					return true
				}
				found = true
				// the loop body must (transitively) call NewGenerator
				ast.Inspect(rs.Body, func(m ast.Node) bool {
					if call, ok := m.(*ast.CallExpr); ok {
						if cal := Callee(mainPk.TypesInfo, call); cal != nil {
							if cal == newGen {
								inLoop = true
							}
							for _, rf := range c.P.Reach(cal) {
								if rf == newGen {
									inLoop = true
								}
							}
						}
					}
					return true
				})
				return true
			})
		}
		r.Check(found && inLoop && newGen != nil, "R15c", "openapi: NewGenerator is called inside the per-service loop", "",
			"the OpenAPI generator object (which accumulates schemas) is not constructed per service: documents would depend on earlier services/files")
		// and nobody else stores a Generator in a package variable (covered by package variable rule)
	}
}

// checkGlobalTableReads — R15f. httpgen collects unwrap information from every
// file generated in the invocation (GlobalUnwrapInfo.UnwrapFields). For the
// output of one file not to depend on its companions, a lookup in that table
// is allowed only (a) with a key derived from the element of a range over the
// function's own []*protogen.Message parameter (a message of the current
// file: always in the table), or (b) in the comma-ok form whose !ok arm
// computes the same information from the descriptor (annotations.GetUnwrapField).
func (c *Ctx) checkGlobalTableReads(rid string) {
	r := c.R
	pk := c.P.Pkg(pkgHTTP)
	if pk == nil {
		r.Unres(rid, "httpgen", "", "package not loaded")
		return
	}
	info := pk.TypesInfo
	isTable := func(t types.Type) bool {
		m, ok := t.Underlying().(*types.Map)
		return ok && typeIsNamed(m.Elem(), "internal/annotations", "UnwrapFieldInfo")
	}
	getUnwrap := c.P.Func("internal/annotations", "GetUnwrapField")
	n := 0
	for fn, decl := range c.P.Decls {
		if fn.Pkg() != pk.Types || decl.Body == nil {
			continue
		}
		parents := parentMap(decl.Body)
		// own-file message variables: range value variables over a []*protogen.Message parameter
		own := map[types.Object]bool{}
		sig := fn.Type().(*types.Signature)
		msgParams := map[types.Object]bool{}
		for i := 0; i < sig.Params().Len(); i++ {
			if sl, ok := sig.Params().At(i).Type().(*types.Slice); ok && typeIsNamed(sl.Elem(), "compiler/protogen", "Message") {
				msgParams[sig.Params().At(i)] = true
			}
		}
		ast.Inspect(decl.Body, func(nd ast.Node) bool {
			if rs, ok := nd.(*ast.RangeStmt); ok {
				if id, ok := ast.Unparen(rs.X).(*ast.Ident); ok && msgParams[info.ObjectOf(id)] {
					if v, ok := rs.Value.(*ast.Ident); ok {
						own[info.ObjectOf(v)] = true
					}
				}
			}
			return true
		})
		ast.Inspect(decl.Body, func(nd ast.Node) bool {
			ix, ok := nd.(*ast.IndexExpr)
			if !ok {
				return true
			}
			tv, ok := info.Types[ix.X]
			if !ok || !isTable(tv.Type) {
				return true
			}
			// writes (m[k] = v) are the collection itself
			if as, ok := parents[ix].(*ast.AssignStmt); ok {
				for _, l := range as.Lhs {
					if l == ast.Expr(ix) {
						return true
					}
				}
			}
			n++
			key := fmt.Sprintf("%s reads unwrap table with key %s", FuncName(fn), types.ExprString(ix.Index))
			// (a) key mentions an own-file message variable
			ownKey := false
			keyExpr := ix.Index
			// resolve a local key variable to its single definition
			if id, ok := ast.Unparen(keyExpr).(*ast.Ident); ok {
				obj := info.ObjectOf(id)
				ast.Inspect(decl.Body, func(m ast.Node) bool {
					if as, ok := m.(*ast.AssignStmt); ok && len(as.Lhs) == 1 && len(as.Rhs) == 1 {
						if l, ok := as.Lhs[0].(*ast.Ident); ok && info.ObjectOf(l) == obj {
							keyExpr = as.Rhs[0]
						}
					}
					return true
				})
			}
			ast.Inspect(keyExpr, func(m ast.Node) bool {
				if id, ok := m.(*ast.Ident); ok && own[info.ObjectOf(id)] {
					ownKey = true
				}
				return true
			})
			if ownKey {
				r.OKd(rid, key, c.P.Pos(ix.Pos()), map[string]any{"why": "key is a message of the current file"})
				return true
			}
			// (b) comma-ok with fallback
			fallback := false
			if as, ok := parents[ix].(*ast.AssignStmt); ok && len(as.Lhs) == 2 {
				okObj := info.ObjectOf(as.Lhs[1].(*ast.Ident))
				// find `if !ok { … GetUnwrapField(…) … }` following in the same block
				var blockStmts []ast.Stmt
				switch b := parents[as].(type) {
				case *ast.BlockStmt:
					blockStmts = b.List
				case *ast.IfStmt:
					if b.Init == ast.Stmt(as) {
						blockStmts = []ast.Stmt{b}
					}
				}
				for _, st := range blockStmts {
					ifs, ok := st.(*ast.IfStmt)
					if !ok || ifs.Pos() < as.Pos() {
						continue
					}
					un, ok := ast.Unparen(ifs.Cond).(*ast.UnaryExpr)
					if !ok || un.Op != token.NOT {
						continue
					}
					if id, ok := ast.Unparen(un.X).(*ast.Ident); !ok || info.ObjectOf(id) != okObj {
						continue
					}
					// the fallback must be taken whenever the table has no entry: no way out of the
					// `if !ok` body ahead of it, and not under a further condition
					for _, bst := range ifs.Body.List {
						has := false
						ast.Inspect(bst, func(m ast.Node) bool {
							if call, ok := m.(*ast.CallExpr); ok && Callee(info, call) == getUnwrap && getUnwrap != nil {
								has = true
							}
							return true
						})
						if has {
							if _, cond := bst.(*ast.IfStmt); !cond {
								fallback = true
							} else if ii := bst.(*ast.IfStmt); ii.Init != nil {
								fallback = true // if x, err := GetUnwrapField(…); err != nil { … }
							}
							break
						}
						leaves := false
						ast.Inspect(bst, func(m ast.Node) bool {
							switch m.(type) {
							case *ast.BranchStmt, *ast.ReturnStmt:
								leaves = true
							}
							return true
						})
						if leaves {
							break
						}
					}
				}
			}
			r.CheckD(fallback, rid, key, c.P.Pos(ix.Pos()),
				"the run-wide unwrap table is consulted for a message that may live in another file, without falling back to the message's own annotation: the file's output changes with the set of files generated in the same invocation", nil)
			return true
		})
	}
	r.Count("unwrap_table_reads", n)
}

// c15ParameterSpelling — R15g. Plugin parameters that are spellings of one option (format=yaml, format=yml, no format at
// all; format=json alone or after another option; blanks around key and value) must select the same output: parseFormat is
// interpreted on each spelling and the evaluated format value — which also names the output file — must be one value per group.
func c15ParameterSpelling(c *Ctx) {
	r := c.R
	r.Rule("R15g", "spellings of one plugin option (yaml / yml / default; json alone or after another option) evaluate to one format value", 2)
	pf := c.P.Func(cmdOpenAPI, "parseFormat")
	if pf == nil {
		r.Unres("R15g", "parseFormat", "", "not found in "+cmdOpenAPI)
		return
	}
	pos := c.P.Pos(c.P.Decls[pf].Pos())
	pc, pe := c.W.Concrete, c.W.ExternStructs
	c.W.Concrete, c.W.ExternStructs = true, true
	defer func() { c.W.Concrete, c.W.ExternStructs = pc, pe }()
	str := func(s string) *string { return &s }
	groups := []struct {
		name  string
		cases []*string
	}{
		{"YAML", []*string{nil, str(""), str("format=yaml"), str("format=yml"), str("paths=source_relative"), str("paths=source_relative,format=yml"), str("format=yml,paths=source_relative")}},
		{"JSON", []*string{str("format=json"), str("paths=source_relative,format=json"), str("format=json,paths=source_relative")}},
	}
	for _, g := range groups {
		got := map[string][]string{}
		undec := false
		for _, p := range g.cases {
			label := "<no parameter>"
			if p != nil {
				label = fmt.Sprintf("%q", *p)
			}
			v, perr := c.evalParseFormat(pf, p)
			if perr != "" {
				r.Undec("R15g", "format parameter "+label, pos, perr)
				undec = true
				continue
			}
			got[v] = append(got[v], label)
		}
		if undec {
			continue
		}
		var parts []string
		for _, v := range sortedKeys(got) {
			parts = append(parts, fmt.Sprintf("%s ← %s", v, strings.Join(got[v], ", ")))
		}
		r.CheckD(len(got) == 1, "R15g", "all spellings of the "+g.name+" format evaluate to one format value", pos,
			"parseFormat maps spellings of the same option to different values ("+strings.Join(parts, "; ")+"): the value also names the output file, so the response depends on how the parameter is spelled", map[string]any{"values": parts})
	}
}

// writtenPkgVars: the package-level variables of pk and, for those written (assigned, stored through, incremented or
// address-taken) inside a function body, the position of one such write.
func writtenPkgVars(pk *packages.Package) ([]*types.Var, map[types.Object]token.Pos) {
	info := pk.TypesInfo
	scope := pk.Types.Scope()
	var pkgVars []*types.Var
	for _, n := range scope.Names() {
		if v, ok := scope.Lookup(n).(*types.Var); ok {
			pkgVars = append(pkgVars, v)
		}
	}
	isPkgVar := func(o types.Object) bool {
		v, ok := o.(*types.Var)
		return ok && v.Pkg() == pk.Types && v.Parent() == scope
	}
	rootIdent := func(e ast.Expr) *ast.Ident {
		for {
			switch x := ast.Unparen(e).(type) {
			case *ast.Ident:
				return x
			case *ast.SelectorExpr:
				e = x.X
			case *ast.IndexExpr:
				e = x.X
			case *ast.StarExpr:
				e = x.X
			default:
				return nil
			}
		}
	}
	written := map[types.Object]token.Pos{}
	for _, f := range pk.Syntax {
		for _, d := range f.Decls {
			fd, ok := d.(*ast.FuncDecl)
			if !ok || fd.Body == nil {
				continue
			}
			ast.Inspect(fd.Body, func(n ast.Node) bool {
				switch x := n.(type) {
				case *ast.AssignStmt:
					for _, l := range x.Lhs {
						if id := rootIdent(l); id != nil && isPkgVar(info.ObjectOf(id)) {
							written[info.ObjectOf(id)] = x.Pos()
						}
					}
				case *ast.IncDecStmt:
					if id := rootIdent(x.X); id != nil && isPkgVar(info.ObjectOf(id)) {
						written[info.ObjectOf(id)] = x.Pos()
					}
				case *ast.UnaryExpr:
					if x.Op == token.AND {
						if id := rootIdent(x.X); id != nil && isPkgVar(info.ObjectOf(id)) {
							written[info.ObjectOf(id)] = x.Pos()
						}
					}
				case *ast.CallExpr:
					// delete(m, k) / clear(m) on a package-level map
					if id, ok := x.Fun.(*ast.Ident); ok && (id.Name == "delete" || id.Name == "clear") && len(x.Args) > 0 {
						if rid := rootIdent(x.Args[0]); rid != nil && isPkgVar(info.ObjectOf(rid)) {
							written[info.ObjectOf(rid)] = x.Pos()
						}
					}
				}
				return true
			})
		}
	}
	return pkgVars, written
}

// sharedSliceMutation — R15h / R09m. A slice is OWNED by a function when it was created there: make, a composite literal,
// append to nil / to an owned slice / to a literal, slices.Clone, a repository function's result. A parameter, a field of a
// protogen / protoreflect / generated-option value (field.Enum.Values, service.Methods, cfg.GetHeaders()) and any local
// assigned directly from one of those — or from append(<not owned>, …), whose result shares the backing array whenever
// there is spare capacity — is NOT owned. Sorting such a slice in place (sort.*, slices.Sort*) or reversing it reorders data
// that later files, services or methods read.
func sharedSliceMutation(c *Ctx, rid string, only func(*types.Func) bool) {
	r := c.R
	nSorts := 0
	for fn, decl := range c.P.Decls {
		if decl.Body == nil || !isRepoGenPkg(fn) || strings.Contains(c.P.Pos(decl.Pos()), "_test.go") {
			continue
		}
		if only != nil && !only(fn) {
			continue
		}
		info := c.P.DeclPkg[fn].TypesInfo
		params := map[types.Object]bool{}
		if decl.Recv != nil {
			for _, f := range decl.Recv.List {
				for _, nm := range f.Names {
					params[info.ObjectOf(nm)] = true
				}
			}
		}
		for _, f := range decl.Type.Params.List {
			for _, nm := range f.Names {
				params[info.ObjectOf(nm)] = true
			}
		}
		// definitions of slice-typed locals
		defs := map[types.Object][]ast.Expr{}
		ast.Inspect(decl.Body, func(n ast.Node) bool {
			if as, ok := n.(*ast.AssignStmt); ok && len(as.Lhs) == len(as.Rhs) {
				for i, l := range as.Lhs {
					if id, ok := l.(*ast.Ident); ok {
						if o := info.ObjectOf(id); o != nil {
							defs[o] = append(defs[o], as.Rhs[i])
						}
					}
				}
			}
			return true
		})
		var owned func(e ast.Expr, depth int) (bool, string)
		owned = func(e ast.Expr, depth int) (bool, string) {
			e = ast.Unparen(e)
			if depth > 6 {
				return true, ""
			}
			switch x := e.(type) {
			case *ast.CompositeLit:
				return true, ""
			case *ast.Ident:
				if x.Name == "nil" {
					return true, ""
				}
				o := info.ObjectOf(x)
				if params[o] {
					return false, "the parameter " + x.Name
				}
				ds := defs[o]
				if len(ds) == 0 {
					return true, "" // declared with var: starts nil
				}
				for _, d := range ds {
					if ok, why := owned(d, depth+1); !ok {
						return false, why
					}
				}
				return true, ""
			case *ast.SelectorExpr:
				return false, "the shared value " + types.ExprString(x)
			case *ast.SliceExpr:
				return owned(x.X, depth+1)
			case *ast.CallExpr:
				if id, ok := x.Fun.(*ast.Ident); ok {
					if _, isB := info.ObjectOf(id).(*types.Builtin); isB {
						switch id.Name {
						case "make":
							return true, ""
						case "append":
							if len(x.Args) > 0 {
								return owned(x.Args[0], depth+1)
							}
						}
						return true, ""
					}
				}
				if cal := Callee(info, x); cal != nil {
					if cal.Pkg() != nil && (cal.Pkg().Path() == "slices" && (cal.Name() == "Clone" || cal.Name() == "Collect" || cal.Name() == "Sorted")) {
						return true, ""
					}
					if sig, ok := cal.Type().(*types.Signature); ok && sig.Recv() != nil && strings.HasPrefix(cal.Name(), "Get") {
						return false, "the option value " + types.ExprString(x)
					}
				}
				return true, "" // a function's result is that function's to hand out
			}
			return true, ""
		}
		ast.Inspect(decl.Body, func(n ast.Node) bool {
			call, ok := n.(*ast.CallExpr)
			if !ok || len(call.Args) == 0 {
				return true
			}
			cal := Callee(info, call)
			if cal == nil || cal.Pkg() == nil {
				return true
			}
			inPlace := (cal.Pkg().Path() == "sort" && (cal.Name() == "Slice" || cal.Name() == "SliceStable" || cal.Name() == "Strings" || cal.Name() == "Ints" || cal.Name() == "Float64s" || cal.Name() == "Sort" || cal.Name() == "Stable")) ||
				(cal.Pkg().Path() == "slices" && (strings.HasPrefix(cal.Name(), "Sort") || cal.Name() == "Reverse"))
			if !inPlace {
				return true
			}
			tv, ok := info.Types[call.Args[0]]
			if !ok || tv.Type == nil {
				return true
			}
			if _, isSlice := tv.Type.Underlying().(*types.Slice); !isSlice {
				return true
			}
			nSorts++
			ok2, why := owned(call.Args[0], 0)
			key := fmt.Sprintf("%s: %s.%s(%s) orders a slice the function owns", FuncName(fn), cal.Pkg().Name(), cal.Name(), types.ExprString(call.Args[0]))
			r.Check(ok2, rid, key, c.P.Pos(call.Pos()),
				fmt.Sprintf("%s sorts %s in place, which is (or may share its backing array with) %s: the reordering — and, after append into spare capacity, foreign elements — stay in the shared model, so what is generated for a later file, service or method depends on what was generated before it", FuncName(fn), types.ExprString(call.Args[0]), why))
			return true
		})
	}
	r.OKd(rid, "in-place sorts of the selected generator packages inventoried", "", map[string]any{"in_place_sorts": nSorts})
}

// outlivesFile: t is the generator's own type (the receiver of Generate) or the type of one of its fields.
func outlivesFile(t types.Type, genDecl *ast.FuncDecl, info *types.Info) bool {
	named := func(t types.Type) *types.Named {
		if p, ok := t.(*types.Pointer); ok {
			t = p.Elem()
		}
		n, _ := t.(*types.Named)
		return n
	}
	tn := named(t)
	if tn == nil || genDecl == nil || genDecl.Recv == nil || len(genDecl.Recv.List) == 0 {
		return true
	}
	gt := named(info.TypeOf(genDecl.Recv.List[0].Type))
	if gt == nil {
		return true
	}
	if gt.Obj() == tn.Obj() {
		return true
	}
	if st, ok := gt.Underlying().(*types.Struct); ok {
		for i := 0; i < st.NumFields(); i++ {
			if fn := named(st.Field(i).Type()); fn != nil && fn.Obj() == tn.Obj() {
				return true
			}
		}
	}
	return false
}
