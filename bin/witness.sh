#!/bin/sh
# bin/witness.sh [property ...]
# Tests the checker both ways with the mutation witnesses under witness/<prop>/*.patch:
# each patch is applied to a scratch copy of /repo (one at a time, removed at once);
# the property's quick check must report a VIOLATION there. A patch named
# *.silent.patch is a behaviour-preserving edit on which the check must stay quiet.
HERE=$(cd "$(dirname "$0")/.." && pwd)
. "$HERE/bin/env.sh"
fail=0
props="$*"
[ -z "$props" ] && props=$(ls "$HERE/witness")
for prop in $props; do
  for patch in "$HERE"/witness/$prop/*.patch; do
    [ -f "$patch" ] || continue
    dir=$(mktemp -d /var/tmp/sebuf-w.XXXXXX)
    out=$(mktemp -d /var/tmp/sebuf-o.XXXXXX)
    cp -r "${VERIF_BASE_REPO:-/repo}"/. "$dir"/ && rm -rf "$dir/.git"
    if ! (cd "$dir" && patch -p1 -s < "$patch"); then
      echo "WITNESS $prop $(basename "$patch"): patch does not apply"; fail=1
    else
      log=$(VERIF_REPO="$dir" VERIF_OUT="$out" "$HERE/bin/run" "$prop" quick 2>&1); code=$?
      case "$patch" in
        *.silent.patch)
          if [ $code -eq 0 ]; then echo "WITNESS $prop $(basename "$patch"): silent as required"
          else echo "WITNESS $prop $(basename "$patch"): FALSE ALARM"; echo "$log" | grep -A1 VIOLATION | head -6; fail=1; fi;;
        *)
          if [ $code -eq 1 ] && echo "$log" | grep -q "^VIOLATION property=$prop"; then
            echo "WITNESS $prop $(basename "$patch"): caught: $(echo "$log" | grep -A1 '^VIOLATION' | sed -n 2p | cut -c1-160)"
          else echo "WITNESS $prop $(basename "$patch"): MISSED (exit $code)"; fail=1; fi;;
      esac
    fi
    rm -rf "$dir" "$out"
  done
done
exit $fail
