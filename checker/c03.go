package main

// c03.go — C03: the five generators agree on each RPC's verb, path template and
// parameter placement.
//
// Deciding method (static; nothing of /repo is executed): the walker (E1)
// abstractly evaluates each generator's own emission code for one service with
// one RPC, with the three annotation accessors replaced by constants from a
// finite grid of configurations (Run.Inject): service base path × method path
// × verb × present/absent config. Because the route-building code of all five
// generators is straight-line string manipulation over exactly these values,
// the evaluation folds to constants, and the published route is read back from
// the reconstructed output:
//   - verb: every verb-like string literal of the reconstructed unit that is not
//     also there under an unknown marker verb;
//   - path: every string literal containing the marker substrings planted in
//     the base path / method path / RPC name;
//   - OpenAPI has no text emission: extractMethodHTTPInfo is evaluated to its
//     struct value and the assignment switch is checked structurally.
// The rule is agreement between the five observations, scenario by scenario.

import (
	"fmt"
	"go/ast"
	"go/constant"
	"go/types"
	"regexp"
	"sort"
	"strings"
)

// keyText renders a line with every hole shown by its provenance key.
func keyText(segs []Seg) string {
	var b strings.Builder
	for _, s := range segs {
		if s.Hole != nil {
			b.WriteString("⟦" + eraseIters(s.Hole.Key) + "⟧")
		} else {
			b.WriteString(s.Const)
		}
	}
	return b.String()
}

const (
	pkgTSClient = "internal/tsclientgen"
	pkgTSServer = "internal/tsservergen"
	pkgOpenAPI  = "internal/openapiv3"
)

var c03Verbs = []string{"GET", "POST", "PUT", "DELETE", "PATCH"}

// codeLiterals returns the contents of the string literals of emitted code,
// skipping comments. ts selects TypeScript quoting ('…' is a string, `…` a
// template) instead of Go's ('…' rune, `…` raw string).
func codeLiterals(src string, ts bool) []string {
	var out []string
	n := len(src)
	for i := 0; i < n; {
		c := src[i]
		switch {
		case c == '/' && i+1 < n && src[i+1] == '/':
			for i < n && src[i] != '\n' {
				i++
			}
		case c == '/' && i+1 < n && src[i+1] == '*':
			j := strings.Index(src[i+2:], "*/")
			if j < 0 {
				return out
			}
			i += j + 4
		case c == '"' || (c == '\'' && ts):
			j := i + 1
			var b strings.Builder
			for j < n && src[j] != c && src[j] != '\n' {
				if src[j] == '\\' && j+1 < n {
					b.WriteByte(src[j+1])
					j += 2
					continue
				}
				b.WriteByte(src[j])
				j++
			}
			out = append(out, b.String())
			i = j + 1
		case c == '\'' && !ts:
			j := i + 1
			for j < n && src[j] != '\'' && src[j] != '\n' {
				if src[j] == '\\' {
					j++
				}
				j++
			}
			i = j + 1
		case c == '`':
			j := i + 1
			for j < n && src[j] != '`' {
				j++
			}
			if j <= n {
				out = append(out, src[i+1:min(j, n)])
			}
			i = j + 1
		case !ts && strings.HasPrefix(src[i:], "http.Method"):
			// the net/http verb constants stand for their string values
			j := i + len("http.Method")
			k := j
			for k < n && (src[k] >= 'a' && src[k] <= 'z' || src[k] >= 'A' && src[k] <= 'Z') {
				k++
			}
			if v, ok := map[string]string{"Get": "GET", "Post": "POST", "Put": "PUT", "Delete": "DELETE", "Patch": "PATCH", "Head": "HEAD", "Options": "OPTIONS"}[src[j:k]]; ok {
				out = append(out, v)
			}
			i = k
		default:
			i++
		}
	}
	return out
}

var c03ParamRe = regexp.MustCompile(`\{([^}]+)\}`)

type c03Cfg struct {
	Path, Method string
}

type c03Scenario struct {
	Base string
	Cfg  *c03Cfg // nil: the RPC has no (sebuf.http.config)
	// Query: the request message has one query-annotated field "zqquery"
	Query bool
}

func (s c03Scenario) String() string {
	cfg := "config absent"
	if s.Cfg != nil {
		cfg = fmt.Sprintf("config{path:%q method:%q}", s.Cfg.Path, s.Cfg.Method)
	}
	q := ""
	if s.Query {
		q = " +query field"
	}
	return fmt.Sprintf("base_path:%q %s%s", s.Base, cfg, q)
}

func (s c03Scenario) params() []string {
	if s.Cfg == nil {
		return nil
	}
	var out []string
	for _, m := range c03ParamRe.FindAllStringSubmatch(s.Cfg.Path, -1) {
		out = append(out, m[1])
	}
	return out
}

const (
	c03Method  = "XyGetUser2ID"
	c03Service = "XyUserService"
	c03GoPkg   = "xygopkg"
)

// inject builds the Inject map for a root whose service/method are reachable
// under the given key prefixes.
func (s c03Scenario) inject(svc, meth, file string) map[string]Val {
	m := map[string]Val{}
	var cfg Val = VNil{}
	if s.Cfg != nil {
		ps := VList{Key: "cfg.PathParams", Elems: []Val{}}
		for _, p := range s.params() {
			ps.Elems = append(ps.Elems, constStr(p))
		}
		cfg = &VStruct{Name: "HTTPConfig", Fields: map[string]Val{
			"Path": constStr(s.Cfg.Path), "Method": constStr(s.Cfg.Method), "PathParams": ps,
		}}
	}
	m["annotations.GetMethodHTTPConfig("+meth+")"] = cfg
	m["annotations.GetServiceBasePath("+svc+")"] = constStr(s.Base)
	m[meth+".GoName"] = constStr(c03Method)
	m[meth+".Desc.Name()"] = constStr(c03Method)
	m[svc+".GoName"] = constStr(c03Service)
	m[svc+".Desc.Name()"] = constStr(c03Service)
	if file != "" {
		m[file+".GoPackageName"] = constStr(c03GoPkg)
	}
	qs := VList{Key: "queryParams", Elems: []Val{}}
	if s.Query {
		qs.Elems = append(qs.Elems, &VStruct{Name: "QueryParam", Fields: map[string]Val{
			"FieldName": constStr("zqquery"), "FieldGoName": constStr("Zqquery"), "FieldJSONName": constStr("zqquery"),
			"ParamName": constStr("zqquery"), "Required": VBool{B: false}, "FieldKind": constStr("string"),
			"Field": VSym{Key: "zqqueryField"},
		}})
	}
	m["annotations.GetQueryParams("+meth+".Input)"] = qs
	return m
}

// runScenario walks a unit root under the scenario. What the scenario leaves open (how many fields the
// request has, whether a field is one of the bound ones, …) is answered by default arms; when those answers
// happen to describe a definition the generator refuses, the open answers are flipped one at a time, latest
// first, until the generator accepts: the scenario fixes the route configuration, not the rest of the schema.
func (c *Ctx) runScenario(fn *types.Func, s c03Scenario) *Run {
	mk := func(dec map[string]int) *Run {
		r := c.W.NewRun(dec, false)
		r.InlineAll = true
		r.FollowSlices = true
		r.Fix = invariantFix
		r.Inject = s.inject("file.Services@", "file.Services@.Methods@", "file")
		r.Start(fn)
		return r
	}
	r := mk(map[string]int{})
	if r.Aborted == "" {
		return r
	}
	tries := 0
	for i := len(r.Used) - 1; i >= 0 && tries < 48; i-- {
		for arm := 1; arm < r.Used[i].Arity && tries < 48; arm++ {
			tries++
			if r2 := mk(map[string]int{r.Used[i].Key: arm}); r2.Aborted == "" {
				return r2
			}
		}
	}
	return r
}

// routeObs is what one generator publishes in one scenario.
type routeObs struct {
	Verbs, Paths []string // distinct observed values
	Lits         []string
	Err          string
	Pos          string
}

var verbLike = regexp.MustCompile(`(?i)^(get|post|put|delete|patch|head|options|zqverb)( |$)`)

// observeEmitted reconstructs the unit of (pkg,suffix) under the scenario and
// reads the verb and path literals back.
func (c *Ctx) observeEmitted(pkg, suffix string, s c03Scenario) routeObs {
	ri := c.c03Root(pkg, suffix)
	if ri == nil {
		return routeObs{Err: "unit root not found"}
	}
	r := c.runScenario(ri.Fn, s)
	o := routeObs{Pos: c.P.Pos(c.P.Decls[ri.Fn].Pos())}
	if r.Aborted != "" {
		o.Err = "generation aborted: " + r.Aborted
		return o
	}
	ts := strings.HasSuffix(suffix, ".ts")
	for _, u := range r.Units {
		var b strings.Builder
		for _, l := range u.Lines {
			b.WriteString(keyText(l.Segs))
			b.WriteByte('\n')
		}
		o.Lits = append(o.Lits, codeLiterals(b.String(), ts)...)
	}
	return o
}

func (c *Ctx) c03Root(pkg, suffix string) *RootInfo {
	k := "c03root/" + pkg + suffix
	if c.c03roots == nil {
		c.c03roots = map[string]*RootInfo{}
	}
	if ri, ok := c.c03roots[k]; ok {
		return ri
	}
	ri := c.Root(pkg, suffix)
	c.c03roots[k] = ri
	return ri
}

// split classifies the literals of an observation.
func (o *routeObs) split(noise map[string]bool) {
	vs, ps := map[string]bool{}, map[string]bool{}
	for _, l := range o.Lits {
		rest := l
		if m := verbLike.FindString(l); m != "" {
			v := strings.TrimSpace(m)
			if !noise[l] {
				vs[v] = true
			}
			rest = strings.TrimPrefix(l[len(m):], " ")
			if rest == "" {
				continue
			}
		}
		low := strings.ToLower(rest)
		if strings.Contains(low, "zqb") || strings.Contains(low, "zqp") || (strings.HasPrefix(rest, "/") && (strings.Contains(low, "xy"))) {
			ps[rest] = true
		}
	}
	o.Verbs, o.Paths = sortedKeys(vs), sortedKeys(ps)
}

// observeOpenAPI evaluates extractMethodHTTPInfo under the scenario.
func (c *Ctx) observeOpenAPI(s c03Scenario) (verb, path string, params []string, pos string, err string) {
	fn := c.P.Func(pkgOpenAPI, "extractMethodHTTPInfo")
	if fn == nil {
		return "", "", nil, "", "internal/openapiv3.extractMethodHTTPInfo not found"
	}
	pos = c.P.Pos(c.P.Decls[fn].Pos())
	r := c.W.NewRun(map[string]int{}, false)
	r.InlineAll = true
	r.FollowSlices = true
	// the parameters by type, whatever they are called
	svcName, methName := "service", "method"
	for _, f := range c.P.Decls[fn].Type.Params.List {
		t := c.P.DeclPkg[fn].TypesInfo.TypeOf(f.Type)
		for _, n := range f.Names {
			switch {
			case t != nil && typeIsNamed(t, "compiler/protogen", "Service"):
				svcName = n.Name
			case t != nil && typeIsNamed(t, "compiler/protogen", "Method"):
				methName = n.Name
			}
		}
	}
	r.Inject = s.inject(svcName, methName, "")
	r.Start(fn)
	st, ok := r.Result.(*VStruct)
	if !ok {
		return "", "", nil, pos, fmt.Sprintf("result of extractMethodHTTPInfo is not a struct value (%T)", r.Result)
	}
	// the members by role when they are not called path / httpMethod / pathParams: the list is the variable list, the
	// string that spells a verb is the verb, the other string is the path
	if _, hasPath := st.Fields["path"]; !hasPath || st.Fields["httpMethod"] == nil {
		byRole := map[string]Val{}
		for _, k := range sortedKeys(st.Fields) {
			switch v := st.Fields[k].(type) {
			case VList:
				byRole["pathParams"] = v
			case VStr:
				txt := keyText(v.Segs)
				if verbLike.MatchString(txt) && !strings.Contains(txt, "/") {
					byRole["httpMethod"] = v
				} else {
					byRole["path"] = v
				}
			}
		}
		if byRole["path"] != nil && byRole["httpMethod"] != nil {
			st = &VStruct{Name: st.Name, Fields: byRole}
		}
	}
	str := func(f string) string {
		if v, ok := st.Fields[f].(VStr); ok {
			return keyText(v.Segs)
		}
		if v, ok := st.Fields[f]; ok && v != nil {
			return "⟦" + v.key() + "⟧"
		}
		return "⟦missing field " + f + "⟧"
	}
	switch l := st.Fields["pathParams"].(type) {
	case VList:
		if l.Elems == nil && l.Key != "" {
			return "", "", nil, pos, "the path-parameter list of extractMethodHTTPInfo is not decidable (" + l.key() + ")"
		}
		for _, e := range l.Elems {
			if sv, ok := e.(VStr); ok {
				params = append(params, keyText(sv.Segs))
			} else {
				return "", "", nil, pos, "an element of the path-parameter list of extractMethodHTTPInfo is not a string (" + e.key() + ")"
			}
		}
	case VNil, nil:
	default:
		return "", "", nil, pos, "the path-parameter list of extractMethodHTTPInfo is not a list value (" + l.key() + ")"
	}
	return str("httpMethod"), str("path"), params, pos, ""
}

type c03Gen struct {
	Name, Pkg, Suffix string
}

var c03Gens = []c03Gen{
	{"Go server", pkgHTTP, "_http.pb.go"},
	{"Go client", pkgClient, "_client.pb.go"},
	{"TS client", pkgTSClient, "_client.ts"},
	{"TS server", pkgTSServer, "_server.ts"},
}

func checkC03(c *Ctx) {
	r := c.R
	r.Explain = "Decides C03 on a finite grid of configurations by abstract evaluation of the generators' own source (nothing is executed): the walker interprets each emitting generator's unit root for one service with one RPC, with annotations.GetMethodHTTPConfig / GetServiceBasePath / GetQueryParams and the RPC, service and package names replaced by constants of the grid point, folds the string manipulation (strings.*, fmt.Sprintf, path.*, slicing, byte loops) with the Go library's own functions and reads the published verb and path back from the string literals of the reconstructed output; for OpenAPI extractMethodHTTPInfo is evaluated to its struct value. R03a: the five path templates are one string at every grid point (bases: absent, with/without leading and trailing slash, multi-segment; paths: 0-3 variables, variable first/last, trailing slash, no leading slash, root; config absent / verb unset / path unset; thorough adds adjacent variables, double slash, suffix forms, all verbs at every point). R03b: the five verbs, config absent and verb unset give the same verb everywhere, in the case the consumer matches on; a marker verb shows that the configured verb (not a constant) reaches every route. R03c: template variables and query fields come only from internal/annotations; each generator mentions each variable; the TS server's segment index is the variable's index in the agreed template; query fields are sent by both clients for the same verbs and read by both servers there; body verbs are {POST,PUT,PATCH} in clients, TS server and OpenAPI. R03d: processService calls processMethod for every method unconditionally; processMethod fetches the path item of info.path, replaces it only when absent, assigns by info.httpMethod through an identity slot switch, and stores under info.path. Not decided: RPC/service names outside the evaluated shapes, characters needing escaping in templates, net/http ServeMux pattern semantics. Known finding: without a method path the generators default differently."
	r.Rule("R03a", "path template: for every configuration of the grid (base path × method path × config presence) the path literal reconstructed from each of the four emitting generators and the path evaluated from the OpenAPI generator are one and the same string", 40)
	r.Rule("R03b", "verb: for every verb and for the defaulting cases (config absent, verb unset) all five generators publish the same verb, in the exact case their consumer needs (upper-case in code, lower-case key in OpenAPI)", 20)
	r.Rule("R03c", "placement: all generators take the path-variable list and the query-field list from the shared accessors, announce every path variable, extract it from the segment where the agreed template has it, and put query fields on the wire for the same verbs", 20)
	c18OperationParameters(c, "R03f")
	r.Rule("R03g", "the Go server binds every query and path field the other generators place in the URL: the binders' loop over the parameter table is left only with a violation (shared with C02/R02r)", 2)
	if ep3, err3 := c.ServerRuntime(); err3 != nil {
		r.Unres("R03g", "emitted server runtime", "", err3.Error())
	} else {
		bindersVisitEveryParameter(c, ep3, "R03g")
	}
	r.Rule("R03e", "the TS client fills a path variable from the request property of the field's JSON name, also for names with upper-case letters, digits or several underscores", 1)
	tsPathPropertyNames(c, "R03e")
	r.Rule("R03d", "one operation per RPC: processService visits every method exactly once, processMethod keys the path item by the evaluated path, fetches an existing item before assigning, and the verb→slot switch is the identity", 6)

	// noise: verb-like literals that are there whatever the verb is
	noise := map[string]map[string]bool{}
	marker := c03Scenario{Base: "/zqb", Cfg: &c03Cfg{Path: "/zqp", Method: "ZQVERB"}}
	for _, g := range c03Gens {
		o := c.observeEmitted(g.Pkg, g.Suffix, marker)
		if o.Err != "" {
			r.Unres("R03b", "marker-verb reconstruction of "+g.Name, o.Pos, o.Err)
			continue
		}
		nz := map[string]bool{}
		seen := false
		for _, l := range o.Lits {
			if m := verbLike.FindString(l); m != "" {
				if strings.EqualFold(strings.TrimSpace(m), "zqverb") {
					seen = true
					// case must be preserved
					r.Check(strings.HasPrefix(l, "ZQVERB"), "R03b", g.Name+": the configured verb is published in its own case", o.Pos,
						fmt.Sprintf("%s publishes the configured verb as %q (configured: \"ZQVERB\"); net/http and fetch match verbs case-sensitively", g.Name, l))
				} else {
					nz[l] = true
				}
			}
		}
		r.Check(seen, "R03b", g.Name+": the configured verb reaches the published route", o.Pos,
			g.Name+" does not publish the configured verb anywhere in its output (a constant verb is emitted instead)")
		noise[g.Name] = nz
	}

	// ---------------- R03b verbs
	type vcase struct {
		name string
		s    c03Scenario
		want string
	}
	var vcases []vcase
	for _, v := range c03Verbs {
		vcases = append(vcases, vcase{"verb " + v, c03Scenario{Base: "/zqb", Cfg: &c03Cfg{Path: "/zqp/{id}", Method: v}}, v})
		vcases = append(vcases, vcase{"verb " + v + " without path", c03Scenario{Base: "", Cfg: &c03Cfg{Path: "", Method: v}}, v})
	}
	vcases = append(vcases,
		vcase{"config absent", c03Scenario{Base: "/zqb"}, "POST"},
		vcase{"config absent, no base path", c03Scenario{}, "POST"},
		vcase{"verb unset", c03Scenario{Base: "/zqb", Cfg: &c03Cfg{Path: "/zqp"}}, "POST"},
		vcase{"verb unset, no base path", c03Scenario{Cfg: &c03Cfg{Path: "/zqp"}}, "POST"},
	)
	for _, vc := range vcases {
		got := map[string]string{}
		pos := ""
		for _, g := range c03Gens {
			o := c.observeEmitted(g.Pkg, g.Suffix, vc.s)
			if o.Err != "" {
				r.Unres("R03b", vc.name+": "+g.Name, o.Pos, o.Err)
				continue
			}
			o.split(noise[g.Name])
			got[g.Name] = strings.Join(o.Verbs, "|")
			pos = o.Pos
		}
		ov, _, _, opos, oerr := c.observeOpenAPI(vc.s)
		if oerr != "" {
			r.Unres("R03b", vc.name+": OpenAPI", opos, oerr)
		} else {
			got["OpenAPI"] = strings.ToUpper(ov)
			r.Check(ov == strings.ToLower(ov), "R03b", vc.name+": OpenAPI operation key is lower-case", opos,
				fmt.Sprintf("extractMethodHTTPInfo yields httpMethod %q; the path-item slot switch compares against lower-case constants", ov))
		}
		bad := []string{}
		for _, n := range sortedKeys(got) {
			if got[n] != vc.want {
				bad = append(bad, fmt.Sprintf("%s publishes %q", n, got[n]))
			}
		}
		r.CheckD(len(bad) == 0 && len(got) == 5, "R03b", vc.name+": all five publish "+vc.want, pos,
			fmt.Sprintf("%s (%s): %s; the others publish %q", vc.name, vc.s, strings.Join(bad, ", "), vc.want), map[string]any{"observed": got})
	}

	// ---------------- R03a paths
	bases := []string{"", "/zqb", "/zqb/", "zqb", "/zqb/v1", "zqb/"}
	paths := []string{"/zqp", "/zqp/", "/zqp/{id}", "/{id}/zqp", "/zqp/{org_id}/x/{user_id}/{z}", "/{id}"}
	type pcase struct {
		class string
		s     c03Scenario
	}
	var pcases []pcase
	verbsFor := []string{"GET"}
	defaultBases := len(bases) // the defaulting scenarios (known findings) stay on the quick grid
	if c.Thorough() {
		bases = append(bases, "/", "/zqb/v1/", "zqb/v1")
		paths = append(paths, "/zqp/{a}{b}", "/zqp//x", "/zqp/{id}/", "/zqp/{id}:cancel", "/zqp.json")
		verbsFor = c03Verbs
	}
	for bi, b := range bases {
		for _, p := range paths {
			if !strings.Contains(b, "zq") && p == "/{id}" {
				continue // no marker to recognise the literal by
			}
			for _, v := range verbsFor {
				pcases = append(pcases, pcase{"configured path", c03Scenario{Base: b, Cfg: &c03Cfg{Path: p, Method: v}}})
			}
		}
		pcases = append(pcases, pcase{"configured path, verb unset", c03Scenario{Base: b, Cfg: &c03Cfg{Path: "/zqp"}}})
		if bi >= defaultBases {
			continue
		}
		pcases = append(pcases, pcase{"default path (no method path)", c03Scenario{Base: b, Cfg: &c03Cfg{Method: "GET"}}})
		pcases = append(pcases, pcase{"default path (config absent)", c03Scenario{Base: b}})
	}
	// method paths without a leading slash and the root path
	for _, b := range []string{"", "/zqb"} {
		pcases = append(pcases, pcase{"method path without leading slash", c03Scenario{Base: b, Cfg: &c03Cfg{Path: "zqp/{id}", Method: "GET"}}})
	}
	pcases = append(pcases, pcase{"root method path", c03Scenario{Base: "/zqb", Cfg: &c03Cfg{Path: "/", Method: "GET"}}})
	for _, pc := range pcases {
		got := map[string]string{}
		posOf := map[string]string{}
		pos := ""
		for _, g := range c03Gens {
			o := c.observeEmitted(g.Pkg, g.Suffix, pc.s)
			if o.Err != "" {
				r.Unres("R03a", pc.s.String()+": "+g.Name, o.Pos, o.Err)
				continue
			}
			o.split(noise[g.Name])
			got[g.Name] = strings.Join(o.Paths, " | ")
			posOf[g.Name] = o.Pos
			pos = o.Pos
		}
		_, op, _, opos, oerr := c.observeOpenAPI(pc.s)
		if oerr != "" {
			r.Unres("R03a", pc.s.String()+": OpenAPI", opos, oerr)
		} else {
			got["OpenAPI"] = op
			posOf["OpenAPI"] = opos
		}
		groups := map[string][]string{}
		for _, n := range sortedKeys(got) {
			groups[got[n]] = append(groups[got[n]], n)
		}
		var desc []string
		for _, v := range sortedKeys(groups) {
			desc = append(desc, fmt.Sprintf("%q ← %s", v, strings.Join(groups[v], ", ")))
		}
		single := true
		for v := range groups {
			if v == "" || strings.Contains(v, " | ") {
				single = false
			}
		}
		key := pc.class + ": " + pc.s.String()
		agree := len(groups) == 1 && single && len(got) == 5
		if !agree {
			// report at the generator that stands alone
			small := 99
			for _, v := range sortedKeys(groups) {
				if len(groups[v]) < small {
					small = len(groups[v])
					pos = posOf[groups[v][0]]
				}
			}
			// the observed partition is part of the identity of the finding:
			// a different disagreement is a different violation
			key += " ⇒ " + strings.Join(desc, "; ")
		}
		r.CheckD(agree, "R03a", key, pos,
			fmt.Sprintf("%s: the generators publish different paths: %s", pc.s, strings.Join(desc, "; ")), map[string]any{"observed": got})
	}

	c03Placement(c)
	c03OneOperation(c)
}

// c03Placement: R03c.
func c03Placement(c *Ctx) {
	r := c.R
	// (1) who reads the annotations: the path-variable parser and the query
	// extension are consulted only inside the shared accessors.
	for _, spec := range []struct{ pkg, fn, only string }{
		{"internal/annotations", "ExtractPathParams", "GetMethodHTTPConfig"},
	} {
		target := c.P.Func(spec.pkg, spec.fn)
		if target == nil {
			r.Unres("R03c", "accessor "+spec.fn, "", spec.pkg+"."+spec.fn+" not found")
			continue
		}
		n := 0
		for fn, decl := range c.P.Decls {
			if decl.Body == nil || strings.HasSuffix(c.P.Pos(decl.Pos()), "_test.go") {
				continue
			}
			pkg := c.P.DeclPkg[fn]
			ast.Inspect(decl.Body, func(nd ast.Node) bool {
				call, ok := nd.(*ast.CallExpr)
				if !ok {
					return true
				}
				if Callee(pkg.TypesInfo, call) == target {
					n++
					r.Check(fn.Name() == spec.only, "R03c", "path variables are parsed only by "+spec.only+" (caller "+FuncName(fn)+")", c.P.Pos(call.Pos()),
						FuncName(fn)+" parses path variables itself instead of taking HTTPConfig.PathParams; a second parser can disagree with the one every other generator uses")
				}
				return true
			})
		}
		r.Check(n > 0, "R03c", "the shared accessor calls "+spec.fn, c.P.Pos(c.P.Decls[target].Pos()), "no caller of "+spec.fn+" found: path variables are no longer derived from the path template")
	}
	// regexp / manual brace scanning for path variables outside annotations
	for fn, decl := range c.P.Decls {
		if decl.Body == nil {
			continue
		}
		pos := c.P.Pos(decl.Pos())
		if strings.Contains(pos, "_test.go") || !strings.Contains(pos, "internal/") || strings.Contains(pos, "internal/annotations/") {
			continue
		}
		pkg := c.P.DeclPkg[fn]
		ast.Inspect(decl.Body, func(nd ast.Node) bool {
			sel, ok := nd.(*ast.SelectorExpr)
			if !ok {
				return true
			}
			if obj, ok := pkg.TypesInfo.Uses[sel.Sel].(*types.Var); ok && obj.Pkg() != nil && obj.Pkg().Path() == modPath+"/http" && (obj.Name() == "E_Query" || obj.Name() == "E_Config" || obj.Name() == "E_ServiceConfig") {
				r.Bad("R03c", "extension "+obj.Name()+" is read only by internal/annotations (reader "+FuncName(fn)+")", c.P.Pos(sel.Pos()),
					FuncName(fn)+" reads the "+obj.Name()+" extension itself; the other generators take it from internal/annotations", nil)
			}
			return true
		})
	}
	r.OK("R03c", "no generator package reads the config/query extensions directly", "")

	// (2) every generator announces every path variable, TS server extracts from the right segment
	for _, s := range []c03Scenario{
		{Base: "/zqb", Cfg: &c03Cfg{Path: "/zqp/{pvone}", Method: "GET"}},
		{Base: "/zqb/v1/", Cfg: &c03Cfg{Path: "/{pvone}/zqp/{pvtwo}", Method: "GET"}},
		{Base: "", Cfg: &c03Cfg{Path: "/zqp/{pvone}/{pvtwo}/{pvthree}", Method: "DELETE"}},
		{Base: "zqb", Cfg: &c03Cfg{Path: "/zqp/{pvone}", Method: "POST"}},
		{Base: "/zqb", Cfg: &c03Cfg{Path: "/zqp/{pvone}/x/{pvtwo}", Method: "PUT"}},
	} {
		var agreed string
		for _, g := range c03Gens {
			o := c.observeEmitted(g.Pkg, g.Suffix, s)
			if o.Err != "" {
				r.Unres("R03c", s.String()+": "+g.Name, o.Pos, o.Err)
				continue
			}
			o.split(nil)
			if len(o.Paths) == 1 {
				agreed = o.Paths[0]
			}
			for _, p := range s.params() {
				n := 0
				for _, l := range o.Lits {
					if l == p || l == "{"+p+"}" {
						n++
					}
				}
				r.Check(n > 0, "R03c", fmt.Sprintf("%s handles path variable %s (%s)", g.Name, p, s), o.Pos,
					fmt.Sprintf("%s: %s never mentions path variable %q outside the path template: the field is not substituted / extracted", s, g.Name, p))
			}
			if g.Pkg == pkgTSServer && agreed != "" {
				// pathParams["x"] = decodeURIComponent(pathSegments[N] ?? "")
				ri := c.c03Root(g.Pkg, g.Suffix)
				run := c.runScenario(ri.Fn, s)
				segs := strings.Split(agreed, "/")
				idxRe := regexp.MustCompile(`pathParams\["([^"]+)"\]\s*=.*pathSegments\[(\d+)\]`)
				found := map[string]string{}
				for _, u := range run.Units {
					for _, l := range u.Lines {
						if m := idxRe.FindStringSubmatch(keyText(l.Segs)); m != nil {
							found[m[1]] = m[2]
						}
					}
				}
				for _, p := range s.params() {
					want := -1
					for i, sg := range segs {
						if sg == "{"+p+"}" {
							want = i
						}
					}
					r.Check(found[p] == fmt.Sprint(want), "R03c", fmt.Sprintf("TS server reads %s from its segment (%s)", p, s), o.Pos,
						fmt.Sprintf("%s: TS server reads path variable %q from segment %s of the request path, but in the published template %q it is segment %d", s, p, found[p], agreed, want))
				}
			}
		}
		_, _, ops, opos, oerr := c.observeOpenAPI(s)
		if oerr == "" {
			r.Check(sameSet(ops, s.params()), "R03c", "OpenAPI lists the path variables of "+s.String(), opos,
				fmt.Sprintf("%s: OpenAPI path parameters %v, template variables %v", s, ops, s.params()))
		}
	}

	// (3) query fields: senders and receivers by verb
	type row struct{ send map[string]bool }
	carry := map[string]map[string]bool{}
	for _, g := range c03Gens {
		carry[g.Name] = map[string]bool{}
		for _, v := range c03Verbs {
			s := c03Scenario{Base: "/zqb", Cfg: &c03Cfg{Path: "/zqp/{id}", Method: v}, Query: true}
			o := c.observeEmitted(g.Pkg, g.Suffix, s)
			if o.Err != "" {
				r.Unres("R03c", "query placement "+v+": "+g.Name, o.Pos, o.Err)
				continue
			}
			for _, l := range o.Lits {
				if l == "zqquery" {
					carry[g.Name][v] = true
				}
			}
		}
	}
	set := func(n string) []string { return sortedKeys(carry[n]) }
	pos := ""
	if ri := c.c03Root(pkgTSClient, "_client.ts"); ri != nil {
		pos = c.P.Pos(c.P.Decls[ri.Fn].Pos())
	}
	r.CheckD(sameSet(set("Go client"), set("TS client")) && len(set("Go client")) > 0, "R03c", "Go and TS clients put query-annotated fields into the URL for the same verbs", pos,
		fmt.Sprintf("Go client encodes query fields for %v, TS client for %v: for the verbs in the difference one client drops the field (no body is sent either)", set("Go client"), set("TS client")),
		map[string]any{"carry": map[string][]string{"Go client": set("Go client"), "TS client": set("TS client"), "TS server": set("TS server"), "Go server": set("Go server")}})
	for _, srv := range []string{"Go server", "TS server"} {
		missing := []string{}
		for _, v := range set("Go client") {
			if !carry[srv][v] {
				missing = append(missing, v)
			}
		}
		r.Check(len(missing) == 0, "R03c", srv+" reads query-annotated fields for every verb the clients send them with", pos,
			fmt.Sprintf("%s does not read the query parameter for %v although the clients send it there", srv, missing))
	}
	// body verbs: hasBody tables and OpenAPI requestBody condition
	bodySets := map[string][]string{}
	for _, spec := range [][3]string{{"Go client", pkgClient, "Generator.buildRPCMethodConfig"}, {"TS client", pkgTSClient, "Generator.buildRPCMethodConfig"}, {"TS server", pkgTSServer, "Generator.buildRPCRouteConfig"}} {
		f := c.P.Func(spec[1], spec[2])
		if f == nil {
			r.Unres("R03c", "hasBody of "+spec[0], "", spec[2]+" not found")
			continue
		}
		ast.Inspect(c.P.Decls[f].Body, func(n ast.Node) bool {
			if kv, ok := n.(*ast.KeyValueExpr); ok {
				finfo := c.P.DeclPkg[f].TypesInfo
				if t := finfo.TypeOf(kv.Value); t != nil {
					if b, ok := t.Underlying().(*types.Basic); ok && b.Kind() == types.Bool {
						if vs := c03VerbSet(c, finfo, kv.Value); len(vs) > 0 {
							bodySets[spec[0]] = vs
						}
					}
				}
			}
			return true
		})
	}
	if f := c.P.Func(pkgOpenAPI, "Generator.processMethod"); f != nil {
		// by role: the condition (if-chain or switch arm over the verb) under which the operation's RequestBody is assigned
		body := c.P.Decls[f].Body
		finfo := c.P.DeclPkg[f].TypesInfo
		parents := parentMap(body)
		ast.Inspect(body, func(n ast.Node) bool {
			as, ok := n.(*ast.AssignStmt)
			if !ok || bodySets["OpenAPI"] != nil {
				return true
			}
			isRB := false
			for _, l := range as.Lhs {
				if sel, ok := ast.Unparen(l).(*ast.SelectorExpr); ok && sel.Sel.Name == "RequestBody" {
					isRB = true
				}
			}
			if !isRB {
				return true
			}
			for p := parents[ast.Node(as)]; p != nil; p = parents[p] {
				switch x := p.(type) {
				case *ast.IfStmt:
					if as.Pos() >= x.Body.Pos() && as.End() <= x.Body.End() {
						if vs := c03VerbSet(c, finfo, x.Cond); len(vs) > 0 {
							bodySets["OpenAPI"] = vs
							return true
						}
					}
				case *ast.CaseClause:
					var vs []string
					for _, e := range x.List {
						if tv, ok := finfo.Types[e]; ok && tv.Value != nil && tv.Value.Kind() == constant.String {
							vs = append(vs, strings.ToUpper(constant.StringVal(tv.Value)))
						}
					}
					if len(vs) > 0 && len(vs) == len(x.List) {
						sort.Strings(vs)
						bodySets["OpenAPI"] = vs
						return true
					}
				}
			}
			return true
		})
	}
	want := []string{"PATCH", "POST", "PUT"}
	for _, n := range []string{"Go client", "TS client", "TS server", "OpenAPI"} {
		r.Check(sameSet(bodySets[n], want), "R03c", n+" carries the message in the body exactly for POST, PUT, PATCH", pos,
			fmt.Sprintf("%s uses a request body for %v; the Go server reads one for %v", n, bodySets[n], want))
	}
}

// c03VerbSet: the verbs an `x == V || x == W …` expression accepts (constants resolved, upper-cased).
func c03VerbSet(c *Ctx, info *types.Info, e ast.Expr) []string {
	return c.P.ConstCompareSet(info, e)
}

// c03OneOperation: R03d.
func c03OneOperation(c *Ctx) {
	r := c.R
	ps := c.P.Func(pkgOpenAPI, "Generator.processService")
	pm := c.P.Func(pkgOpenAPI, "Generator.processMethod")
	as := c.P.Func(pkgOpenAPI, "assignOperationToPathItem")
	if ps == nil || pm == nil {
		r.Unres("R03d", "processService/processMethod", "", "not found in internal/openapiv3")
		return
	}
	// processService: one unconditional loop over service.Methods calling processMethod
	{
		decl := c.P.Decls[ps]
		pkg := c.P.DeclPkg[ps]
		okLoop := false
		for _, st := range decl.Body.List {
			rs, ok := st.(*ast.RangeStmt)
			if !ok || types.ExprString(rs.X) != "service.Methods" {
				continue
			}
			for _, bs := range rs.Body.List {
				if es, ok := bs.(*ast.ExprStmt); ok {
					if call, ok := es.X.(*ast.CallExpr); ok && Callee(pkg.TypesInfo, call) == pm {
						okLoop = true
					}
				}
			}
			// no continue/break/if around
			ast.Inspect(rs.Body, func(n ast.Node) bool {
				switch n.(type) {
				case *ast.BranchStmt, *ast.IfStmt, *ast.ReturnStmt:
					okLoop = false
				}
				return true
			})
		}
		r.Check(okLoop, "R03d", "processService calls processMethod for every method, unconditionally", c.P.Pos(decl.Pos()),
			"processService no longer visits every element of service.Methods unconditionally: an RPC can be missing from the document")
	}
	// processMethod: Get(info.path) before Set(info.path, item); assign between
	{
		decl := c.P.Decls[pm]
		var getArg, setArg, setItem, getItem, okVar string
		// the local that holds the evaluated route (result of extractMethodHTTPInfo, whatever it is called)
		routeVar := "info"
		if emi := c.P.Func(pkgOpenAPI, "extractMethodHTTPInfo"); emi != nil {
			ast.Inspect(decl.Body, func(n ast.Node) bool {
				if as2, ok := n.(*ast.AssignStmt); ok && len(as2.Rhs) == 1 && len(as2.Lhs) >= 1 {
					if call, ok := as2.Rhs[0].(*ast.CallExpr); ok && Callee(c.P.DeclPkg[pm].TypesInfo, call) == emi {
						if id, ok := as2.Lhs[0].(*ast.Ident); ok {
							routeVar = id.Name
						}
					}
				}
				return true
			})
		}
		assignSeen := false
		assignBy := ""
		replaceOK := true
		parents := parentMap(decl.Body)
		ast.Inspect(decl.Body, func(n ast.Node) bool {
			switch x := n.(type) {
			case *ast.AssignStmt:
				if len(x.Rhs) == 1 {
					if call, ok := x.Rhs[0].(*ast.CallExpr); ok && strings.HasSuffix(types.ExprString(call.Fun), "PathItems.Get") && len(call.Args) == 1 {
						getArg = types.ExprString(call.Args[0])
						getItem = types.ExprString(x.Lhs[0])
						if len(x.Lhs) == 2 {
							okVar = types.ExprString(x.Lhs[1])
						}
						return true
					}
				}
				// any other assignment to the fetched item replaces it: allowed only
				// when nothing was there (if !exists { item = new })
				for _, l := range x.Lhs {
					if getItem != "" && types.ExprString(l) == getItem {
						guarded := false
						for p := parents[ast.Node(x)]; p != nil; p = parents[p] {
							if ifs, ok := p.(*ast.IfStmt); ok && types.ExprString(ifs.Cond) == "!"+okVar {
								guarded = true
							}
						}
						if !guarded {
							replaceOK = false
						}
					}
				}
			case *ast.CallExpr:
				if strings.HasSuffix(types.ExprString(x.Fun), "PathItems.Set") && len(x.Args) == 2 {
					setArg = types.ExprString(x.Args[0])
					setItem = types.ExprString(x.Args[1])
				}
				if as != nil && Callee(c.P.DeclPkg[pm].TypesInfo, x) == as && len(x.Args) == 3 {
					assignSeen = types.ExprString(x.Args[0]) == getItem && strings.HasPrefix(types.ExprString(x.Args[1]), routeVar+".")
					assignBy = types.ExprString(x.Args[1])
				}
			}
			return true
		})
		// the key is one member of the evaluated route, the slot selector another one
		r.Check(strings.HasPrefix(getArg, routeVar+".") && setArg == getArg && assignBy != getArg && getItem != "" && getItem == setItem && assignSeen && replaceOK, "R03d",
			"processMethod fetches the path item of info.path, assigns the operation by info.httpMethod and stores it under info.path", c.P.Pos(decl.Pos()),
			fmt.Sprintf("processMethod: Get(%s)→%s, assign seen=%v, fetched item replaced only when absent=%v, Set(%s, %s): an existing path item is not reused or the key differs from the evaluated path, so operations of RPCs sharing a path are lost or misplaced", getArg, getItem, assignSeen, replaceOK, setArg, setItem))
	}
	// the slot switch is the identity
	if as != nil {
		decl := c.P.Decls[as]
		info := c.P.DeclPkg[as].TypesInfo
		n := 0
		slotOf := map[string]string{}
		defaultSlot := ""
		ast.Inspect(decl.Body, func(nd ast.Node) bool {
			cc, ok := nd.(*ast.CaseClause)
			if !ok {
				return true
			}
			slot := ""
			for _, st := range cc.Body {
				if a, ok := st.(*ast.AssignStmt); ok && len(a.Lhs) == 1 {
					if sel, ok := a.Lhs[0].(*ast.SelectorExpr); ok {
						slot = sel.Sel.Name
					}
				}
			}
			if cc.List == nil {
				defaultSlot = slot
				r.Check(slot == "Post", "R03d", "slot switch default is POST", c.P.Pos(cc.Pos()), "the default arm assigns slot "+slot+", the defaulting verb everywhere else is POST")
				return true
			}
			for _, e := range cc.List {
				if tv, ok := info.Types[e]; ok && tv.Value != nil {
					v := strings.Trim(tv.Value.ExactString(), `"`)
					n++
					slotOf[strings.ToLower(v)] = slot
					r.Check(strings.EqualFold(v, slot), "R03d", "slot switch arm "+v, c.P.Pos(cc.Pos()),
						fmt.Sprintf("verb %q is stored in the %s slot of the path item", v, slot))
				}
			}
			return true
		})
		// every one of the five verbs lands in the slot of its own name, through its own arm or through the default arm
		var wrong []string
		for _, v := range []string{"get", "post", "put", "delete", "patch"} {
			slot, ok := slotOf[v]
			if !ok {
				slot = defaultSlot
			}
			if !strings.EqualFold(slot, v) {
				wrong = append(wrong, fmt.Sprintf("%s→%q", v, slot))
			}
		}
		r.Check(len(wrong) == 0, "R03d", "slot switch covers the five verbs", c.P.Pos(decl.Pos()), fmt.Sprintf("the slot switch (%d verb arms, default %q) stores %v", n, defaultSlot, wrong))
	} else {
		r.Unres("R03d", "assignOperationToPathItem", "", "not found")
	}
}

func init() {
	props["C03"] = checkC03
	_ = sort.Strings
}

// clientServerPathAgreement — R01l: the path literal reconstructed from the Go client equals the one reconstructed from the
// Go server on a grid of configurations (base path present/absent/without slash x method path with/without leading slash,
// with variables), the two ends of C01's call.
func clientServerPathAgreement(c *Ctx, rid string) {
	r := c.R
	var cases []c03Scenario
	for _, b := range []string{"", "/zqb", "zqb", "/zqb/"} {
		for _, p := range []string{"/zqp/{id}", "zqp/{id}", "/zqp", "zqp"} {
			cases = append(cases, c03Scenario{Base: b, Cfg: &c03Cfg{Path: p, Method: "POST"}})
		}
	}
	for _, s := range cases {
		srv := c.observeEmitted(pkgHTTP, "_http.pb.go", s)
		cli := c.observeEmitted(pkgClient, "_client.pb.go", s)
		if srv.Err != "" || cli.Err != "" {
			r.Unres(rid, s.String(), srv.Pos, srv.Err+" "+cli.Err)
			continue
		}
		srv.split(nil)
		cli.split(nil)
		a, b := strings.Join(srv.Paths, " | "), strings.Join(cli.Paths, " | ")
		r.CheckD(a == b && a != "" && !strings.Contains(a, " | "), rid, "Go client and Go server path: "+s.String(), cli.Pos,
			fmt.Sprintf("%s: the Go server registers %q, the Go client requests %q: the call does not reach the handler of its RPC", s, a, b), map[string]any{"server": a, "client": b})
	}
}

// tsPathPropertyNames — R03e / R08k. The TS client fills a path variable from the request property whose name it derives
// from the variable's (proto field) name with tscommon.SnakeToLowerCamel; the request interface declares the property under
// the field's JSON name, which protoc derives by dropping each underscore and upper-casing the letter after it — nothing else
// changes. The helper is interpreted on names with upper-case letters, digits and several underscores and must agree.
func tsPathPropertyNames(c *Ctx, rid string) {
	r := c.R
	fn := c.P.Func("internal/tscommon", "SnakeToLowerCamel")
	if fn == nil {
		r.Unres(rid, "tscommon.SnakeToLowerCamel", "", "not found")
		return
	}
	pos := c.P.Pos(c.P.Decls[fn].Pos())
	prev := c.W.Concrete
	c.W.Concrete = true
	defer func() { c.W.Concrete = prev }()
	var pname string
	for _, f := range c.P.Decls[fn].Type.Params.List {
		for _, n := range f.Names {
			pname = n.Name
		}
	}
	var bad []string
	names := []string{"user_id", "id", "memberId", "org_ID", "a_b_c", "page_2_size", "URL", "x_API_key"}
	for _, n := range names {
		run := c.W.NewRun(map[string]int{}, false)
		run.InlineAll, run.FollowSlices = true, true
		run.CallHook = c.cdescHook
		run.StartArgs(fn, map[string]Val{pname: constStr(n)})
		sv, ok := run.Result.(VStr)
		got, isConst := "", false
		if ok {
			got, isConst = sv.isConst()
		}
		if !ok || !isConst || len(run.Used) > 0 {
			r.Undec(rid, "SnakeToLowerCamel("+n+")", pos, fmt.Sprintf("not evaluated to a constant (open decisions %v)", usedKeys(run)))
			return
		}
		if want := snakeToCamelJSON(n); got != want {
			bad = append(bad, fmt.Sprintf("%s → %s (the declared property is %s)", n, got, want))
		}
	}
	r.CheckD(len(bad) == 0, rid, "the TS name of a path variable's request property is the field's JSON name", pos,
		"tscommon.SnakeToLowerCamel, which the TS client uses to pick the request property that fills a path variable, disagrees with the JSON name the interface declares: "+strings.Join(bad, "; ")+" — the property read is undefined, the request goes to …/undefined/… and reaches no route the other generators publish", map[string]any{"names": names})
}
