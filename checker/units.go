package main

// units.go — inventory of emitted units and cached explorations.

import (
	"fmt"
	"go/types"
	"regexp"
	"strings"
)

type RootInfo struct {
	Fn     *types.Func
	Pkg    string // "internal/httpgen"
	Suffix string // "_http_binding.pb.go"
}

func (c *Ctx) Roots() []RootInfo {
	var out []RootInfo
	for _, fn := range c.W.UnitRoots() {
		r := c.W.NewRun(nil, false)
		r.Start(fn)
		suffix := "?"
		if len(r.Units) > 0 {
			suffix = r.Units[0].Suffix()
		}
		out = append(out, RootInfo{Fn: fn, Pkg: strings.TrimPrefix(fn.Pkg().Path(), modPath+"/"), Suffix: suffix})
	}
	return out
}

func (c *Ctx) Explore(fn *types.Func, level, maxRuns int) *Exploration {
	k := fmt.Sprintf("%s/%d/%d", FuncName(fn), level, maxRuns)
	if e, ok := c.exps[k]; ok {
		return e
	}
	e := c.W.Explore(fn, level, maxRuns)
	c.exps[k] = e
	return e
}

func (c *Ctx) Root(pkg, suffix string) *RootInfo {
	for _, r := range c.Roots() {
		if r.Pkg == pkg && r.Suffix == suffix {
			rr := r
			return &rr
		}
	}
	return nil
}

// holeRe matches the placeholder identifiers substituted for holes.
var holeRe = regexp.MustCompile(`H[A-Za-z0-9]*_[0-9a-f]{4}`)
