package main

// C01 — Go client to Go server: every RPC delivers the exact request and response.

import (
	"fmt"
	"go/ast"
	"go/token"
	"go/types"
	"golang.org/x/tools/go/types/typeutil"
	"sort"
	"strconv"
	"strings"
)

func init() { props["C01"] = checkC01 }

// verbSet collects the string literals compared with == inside expr / node.
func verbSet(n ast.Node) []string {
	set := map[string]bool{}
	ast.Inspect(n, func(m ast.Node) bool {
		if be, ok := m.(*ast.BinaryExpr); ok && (be.Op == token.EQL) {
			for _, side := range []ast.Expr{be.X, be.Y} {
				if bl, ok := ast.Unparen(side).(*ast.BasicLit); ok && bl.Kind == token.STRING {
					s, _ := strconv.Unquote(bl.Value)
					if s != "" {
						set[s] = true
					}
				}
				if sel, ok := ast.Unparen(side).(*ast.SelectorExpr); ok && strings.HasPrefix(sel.Sel.Name, "Method") {
					set[strings.ToUpper(strings.TrimPrefix(sel.Sel.Name, "Method"))] = true // http.MethodGet
				}
			}
		}
		return true
	})
	return sortedKeys(set)
}

func sameSet(a, b []string) bool { return strings.Join(a, ",") == strings.Join(b, ",") }

func checkC01(c *Ctx) {
	r := c.R
	r.Explain = "Decides structural clauses of C01 on the reconstructed emitted code of both sides. R01a codec pairing: the content-type dispatch tables of the client (marshalRequest, unmarshalResponse; parsed from every client variant) and of the server (bindDataBasedOnContentType, marshalResponse; type-checked runtime) are extracted with their constants resolved to strings; for every content type in {application/json, application/x-protobuf, application/octet-stream} and for the default arm, the server arm chosen by that string must use the inverse of the client's codec, in both directions; the client sets Content-Type from the per-call variable on every path of every RPC method. R01b verb partition: the verb sets under which the server reads a body, the client sends a body, the client encodes query parameters and ValidateMethodConfig demands full URL coverage partition {GET,POST,PUT,DELETE,PATCH} identically. R01c: every path substitution goes through url.PathEscape and query values through url.Values.Encode. R01e: the kinds a query/path-bound field may have are a subset of the kinds the server's string conversion handles, and the conversion table is the inverse of fmt.Sprint for those kinds (shared with C02/R02f). Not decided: equality of concrete values (float text, zero-value elision of optional fields, non-UTF-8), and route equality (C03)."
	r.Trusted = []string{"protojson/proto Marshal and Unmarshal are mutually inverse codecs; a generated message implementing json.Marshaler also implements json.Unmarshaler (C04 checks the pair)", "fmt.Sprint of Go integers/bools/floats/strings parses back with strconv at the same bit size"}
	r.Rule("R01a", "client and server select inverse codecs for every content type, request and response; Content-Type is always sent", 9)
	r.Rule("R01b", "body / query verb partitions agree between server middleware, client, and generation-time validation", 5)
	r.Rule("R01c", "URL-carried values are escaped by the client (PathEscape / url.Values) and unescaped by the server accessors", 3)
	r.Rule("R01g", "every key the emitted encoder of an empty_behavior message writes as null is mapped back by the emitted decoder of the same message, whatever the order of the fields' settings (both Go plugins)", 14)
	emptyBehaviorPairing(c, "R01g")
	r.Rule("R01h", "timestamp_format decoders keep sub-second precision when they hand the instant to protojson (both Go plugins)", 2)
	timestampDecoderPrecision(c, "R01h")
	r.Rule("R01e", "every kind that can be bound from the URL has a server-side conversion arm", 2)

	ep, err := c.ServerRuntime()
	if err != nil {
		r.Unres("R01a", "emitted server runtime", "", err.Error())
		return
	}
	r.Rule("R01i", "the handler's request message is allocated per request (shared with C02/R02l): a request that carries fewer URL values than its predecessor is not completed from it", 1)
	requestAllocatedPerRequest(c, ep, "R01i")
	r.Rule("R01k", "a query parameter is left unbound by the server only when its key is absent from the URL (shared with C02/R02g): an empty value the client sent reaches the handler", 2)
	c02Presence(c, ep, "R01k")
	r.Rule("R01m", "each string the server's URL binders convert is an element of the URL's own value list, never a re-decoded or otherwise derived string (shared with C02/R02m): the handler receives the value the client escaped", 3)
	urlValueProvenance(c, ep, "R01m")
	r.Rule("R01l", "Go client and Go server publish the same path for every configuration of the grid, also for method paths written without a leading slash (shared with C03/R03a)", 6)
	clientServerPathAgreement(c, "R01l")
	sconsts := map[string]string{}
	for _, ef := range ep.Files {
		for k, v := range constStrings(ef.AST) {
			sconsts[k] = v
		}
	}
	srvReq := extractCTTable(ep.Funcs["bindDataBasedOnContentType"], sconsts)
	srvResp := extractCTTable(ep.Funcs["marshalResponse"], sconsts)
	if srvReq == nil || srvResp == nil {
		r.Unres("R01a", "server content-type tables", "", "bindDataBasedOnContentType / marshalResponse have no content-type switch")
		return
	}

	// ---- client variants
	ri := c.Root(pkgClient, "_client.pb.go")
	if ri == nil {
		r.Unres("R01a", "_client.pb.go", "", "unit not found")
		return
	}
	ex := c.ExploreT(ri.Fn, 4000)
	type clientTables struct {
		req, resp *ctTable
		consts    map[string]string
		pos       string
	}
	var ct *clientTables
	nMethods := 0
	hdrBad, hdrBadPos := "", ""
	ctvBad, ctvBadPos := "", ""
	escBad, escBadPos := "", ""
	qBad, qBadPos := "", ""
	nSubst, nQuery := 0, 0
	for _, v := range ex.Variants {
		for _, u := range v.Units {
			fset, f, perr := ParseUnit(u)
			if perr != nil {
				continue
			}
			gen := func(p token.Pos) string {
				line := fset.Position(p).Line
				if line >= 1 && line <= len(u.Lines) {
					return c.P.Pos(u.Lines[line-1].Pos)
				}
				return ""
			}
			consts := constStrings(f)
			for _, d := range f.Decls {
				fd, ok := d.(*ast.FuncDecl)
				if !ok || fd.Body == nil || fd.Recv == nil {
					continue
				}
				switch fd.Name.Name {
				case "marshalRequest":
					if ct == nil {
						ct = &clientTables{consts: consts, pos: gen(fd.Pos())}
					}
					if ct.req == nil {
						ct.req = extractCTTable(fd, consts)
					}
				case "unmarshalResponse":
					if ct == nil {
						ct = &clientTables{consts: consts}
					}
					if ct.resp == nil {
						ct.resp = extractCTTable(fd, consts)
					}
				default:
					if !containsCall(fd.Body, "c.unmarshalResponse") || fd.Name.Name == "handleErrorResponse" {
						continue
					}
					nMethods++
					// R01j: the codec of the request body, the Content-Type header the server answers by, and the decoder of the
					// answer are selected by one and the same expression (the per-call content type)
					ctUses := map[string]string{}
					ast.Inspect(fd.Body, func(n ast.Node) bool {
						call, ok := n.(*ast.CallExpr)
						if !ok || len(call.Args) == 0 {
							return true
						}
						last := types.ExprString(call.Args[len(call.Args)-1])
						switch fn := types.ExprString(call.Fun); fn {
						case "c.marshalRequest", "c.unmarshalResponse":
							ctUses[fn] = last
						case "httpReq.Header.Set":
							if len(call.Args) == 2 && types.ExprString(call.Args[0]) == `"Content-Type"` {
								ctUses["Content-Type header"] = last
							}
						}
						return true
					})
					if hv, ok := ctUses["Content-Type header"]; ok && ctvBad == "" {
						for _, k := range sortedKeys(ctUses) {
							if ctUses[k] != hv {
								ctvBad = fmt.Sprintf("%s is given %s, the Content-Type header is set to %s", k, ctUses[k], hv)
								ctvBadPos = gen(fd.Pos())
							}
						}
					}
					// Content-Type header on every path: must-pass to the return of the result
					var hdr []token.Pos
					ast.Inspect(fd.Body, func(n ast.Node) bool {
						if call, ok := n.(*ast.CallExpr); ok && types.ExprString(call.Fun) == "httpReq.Header.Set" && len(call.Args) == 2 &&
							types.ExprString(call.Args[0]) == `"Content-Type"` && types.ExprString(call.Args[1]) == "contentType" {
							hdr = append(hdr, call.Pos())
						}
						return true
					})
					okHdr := false
					if len(hdr) > 0 {
						// every path that executes the request passes the header set
						var do []token.Pos
						ast.Inspect(fd.Body, func(n ast.Node) bool {
							if call, ok := n.(*ast.CallExpr); ok && types.ExprString(call.Fun) == "c.httpClient.Do" {
								do = append(do, call.Pos())
							}
							return true
						})
						okHdr = len(do) > 0
						for _, dp := range do {
							for _, hp := range hdr {
								if reachAvoiding(fd.Body, dp, hp) {
									okHdr = false
								}
							}
						}
					}
					if !okHdr && hdrBad == "" {
						hdrBad = holeFree(fd.Name.Name)
						hdrBadPos = gen(fd.Pos())
					}
					// path substitutions / query encoding
					valuesVars := map[string]bool{} // locals holding a url.Values
					ast.Inspect(fd.Body, func(n ast.Node) bool {
						if as, ok := n.(*ast.AssignStmt); ok && len(as.Lhs) == 1 && len(as.Rhs) == 1 {
							rs := types.ExprString(as.Rhs[0])
							if id, ok := as.Lhs[0].(*ast.Ident); ok && (rs == "url.Values{}" || rs == "make(url.Values)") {
								valuesVars[id.Name] = true
							}
						}
						return true
					})
					ast.Inspect(fd.Body, func(n ast.Node) bool {
						call, ok := n.(*ast.CallExpr)
						if !ok {
							return true
						}
						switch types.ExprString(call.Fun) {
						case "strings.Replace", "strings.ReplaceAll":
							// replacing a "{placeholder}" literal: a path-variable substitution, whatever the path local is called
							if ph := types.ExprString(call.Args[min(1, len(call.Args)-1)]); len(call.Args) >= 3 && strings.HasPrefix(ph, `"{`) && strings.HasSuffix(ph, `}"`) {
								nSubst++
								inner, ok := ast.Unparen(call.Args[2]).(*ast.CallExpr)
								if !ok || types.ExprString(inner.Fun) != "url.PathEscape" {
									escBad = holeFree(types.ExprString(call.Args[2]))
									escBadPos = gen(call.Pos())
								}
							}
						}
						// <v>.Set / <v>.Add on a local url.Values
						if sel, ok := call.Fun.(*ast.SelectorExpr); ok && (sel.Sel.Name == "Set" || sel.Sel.Name == "Add") {
							if id, ok := sel.X.(*ast.Ident); ok && valuesVars[id.Name] {
								nQuery++
							}
						}
						return true
					})
					for v := range valuesVars {
						// the collected values reach the URL through Encode(), after a "?"
						enc := false
						ast.Inspect(fd.Body, func(n ast.Node) bool {
							if be, ok := n.(*ast.BinaryExpr); ok && be.Op == token.ADD && types.ExprString(be.X) == `"?"` && types.ExprString(be.Y) == v+".Encode()" {
								enc = true
							}
							return true
						})
						if !enc {
							qBad = "query string is not built with url.Values{} … Encode()"
							qBadPos = gen(fd.Pos())
						}
					}
				}
			}
		}
	}
	if ct == nil || ct.req == nil || ct.resp == nil {
		r.Unres("R01a", "client content-type tables", "", "marshalRequest / unmarshalResponse with a content-type switch not found in any client variant")
		return
	}
	r.Count("client_rpc_methods_checked", nMethods)
	// what the client can put into Content-Type: its constants, the three documented types, anything else
	universe := map[string]bool{"application/json": true, "application/x-protobuf": true, "application/octet-stream": true, "text/x-other": true}
	for _, v := range ct.consts {
		if strings.Contains(v, "/") {
			universe[v] = true
		}
	}
	for _, typ := range sortedKeys(universe) {
		creq, _ := ct.req.codecFor(typ)
		sreq, _ := srvReq.codecFor(typ)
		r.CheckD(creq == sreq && creq != "none" && creq != "mixed", "R01a", fmt.Sprintf("request body for Content-Type %q: client encoder and server decoder are inverse", typ), ct.pos,
			fmt.Sprintf("with content type %q the client encodes the request with the %s codec but the server decodes it with %s: the handler cannot receive the request the caller passed", typ, creq, sreq),
			map[string]any{"client": creq, "server": sreq})
		cresp, _ := ct.resp.codecFor(typ)
		sresp, _ := srvResp.codecFor(typ)
		r.CheckD(cresp == sresp && cresp != "none" && cresp != "mixed", "R01a", fmt.Sprintf("response body for request Content-Type %q: server encoder and client decoder are inverse", typ), ct.pos,
			fmt.Sprintf("for a request sent with content type %q the server encodes the response with %s but the client decodes it with %s", typ, sresp, cresp),
			map[string]any{"client": cresp, "server": sresp})
	}
	r.Check(hdrBad == "" && nMethods > 0, "R01a", "every RPC method sets Content-Type from the per-call content type before executing the request (all variants)", hdrBadPos,
		"method "+hdrBad+" can execute the request without `httpReq.Header.Set(\"Content-Type\", contentType)`: the server picks the response codec from the request's Content-Type, the client decodes with its own")

	r.Rule("R01j", "request encoder, Content-Type header and response decoder of an RPC method are selected by one expression (the per-call content type; shared with C10/R10e)", 1)
	r.CheckD(ctvBad == "" && nMethods > 0, "R01j", "go-client RPC methods (all variants): the response is decoded with the content type the request announced", ctvBadPos,
		"the emitted RPC method selects its codecs from different values: "+ctvBad+" — the server answers in the format of the request's Content-Type, so a call whose per-call content type differs from the client's default cannot decode the answer", map[string]any{"methods_checked": nMethods})

	// ---- R01c
	r.Check(escBad == "" && nSubst > 0, "R01c", "every path variable substitution is url.PathEscape'd (all variants)", escBadPos,
		"a path variable is substituted without url.PathEscape ("+escBad+"): values with reserved characters reach another route or are cut")
	r.Check(qBad == "" && nQuery > 0, "R01c", "query values are added through url.Values and encoded once (all variants)", qBadPos, qBad)
	// server side accessors
	bp, bq := ep.Funcs["bindPathParams"], ep.Funcs["bindQueryParams"]
	okAcc := bp != nil && bq != nil && strings.Contains(ep.Text(bp.Body), "r.PathValue(param.URLParam)") && strings.Contains(ep.Text(bq.Body), "r.URL.Query()")
	r.Check(okAcc, "R01c", "the server reads path values with r.PathValue and query values with r.URL.Query()", "", "the server no longer uses the unescaping accessors that pair with PathEscape / Values.Encode")

	// ---- R01b
	bodySrv := []string{}
	if _, lit := middlewareLit(ep); lit != nil {
		// the verbs under which the middleware reaches the body decoder, however the guard is written
		bodySrv = guardConstSet(ep.Info, lit.Body, func(call *ast.CallExpr) bool {
			f, _ := typeutil.Callee(ep.Info, call).(*types.Func)
			return f != nil && ep.RecName(f) == "bindDataBasedOnContentType"
		})
	}
	get := func(pkg, fn, hint string) ([]string, string) {
		f := c.P.Func(pkg, fn)
		if f == nil {
			return nil, ""
		}
		decl := c.P.Decls[f]
		finfo := c.P.DeclPkg[f].TypesInfo
		var out []string
		ast.Inspect(decl.Body, func(n ast.Node) bool {
			switch x := n.(type) {
			case *ast.KeyValueExpr:
				// the boolean field of the method configuration that is computed from the verb (hasBody, whatever its name)
				if hint == "hasBody" {
					if t := finfo.TypeOf(x.Value); t != nil {
						if b, ok := t.Underlying().(*types.Basic); ok && b.Kind() == types.Bool {
							if vs := c.P.ConstCompareSet(finfo, x.Value); len(vs) > 0 {
								out = vs
							}
						}
					}
				}
			case *ast.IfStmt:
				if hint != "hasBody" && out == nil {
					if vs := c.P.ConstCompareSet(finfo, x.Cond); len(vs) > 0 && (strings.Contains(types.ExprString(x.Cond), "ethod")) {
						out = vs
					}
				}
			}
			return true
		})
		return out, c.P.Pos(decl.Pos())
	}
	cliBody, p1 := get(pkgClient, "Generator.buildRPCMethodConfig", "hasBody")
	cliQuery, p2 := get(pkgClient, "Generator.generateURLBuilding", "httpMethod ==")
	valBodiless, p3 := get(pkgHTTP, "ValidateMethodConfig", "httpMethod ==")
	all := []string{"DELETE", "GET", "PATCH", "POST", "PUT"}
	comp := func(s []string) []string {
		var o []string
		for _, v := range all {
			in := false
			for _, x := range s {
				if x == v {
					in = true
				}
			}
			if !in {
				o = append(o, v)
			}
		}
		sort.Strings(o)
		return o
	}
	r.CheckD(len(bodySrv) > 0 && sameSet(bodySrv, cliBody), "R01b", "client sends a body exactly for the verbs whose body the server reads", p1,
		fmt.Sprintf("server reads a body for %v, client sends one for %v", bodySrv, cliBody), map[string]any{"server": bodySrv, "client": cliBody})
	r.CheckD(sameSet(cliQuery, comp(bodySrv)), "R01b", "client encodes query parameters exactly for the bodiless verbs", p2,
		fmt.Sprintf("client puts query-annotated fields into the URL for %v but sends no body for %v: fields of the other verbs have no carrier", cliQuery, comp(bodySrv)), nil)
	r.CheckD(sameSet(valBodiless, comp(bodySrv)), "R01b", "generation-time coverage check applies to exactly the bodiless verbs", p3,
		fmt.Sprintf("ValidateMethodConfig demands full path/query coverage for %v while the bodiless verbs are %v", valBodiless, comp(bodySrv)), nil)
	// the five verbs are all there are: HTTPMethodToString is interpreted on every value of the enum (and one
	// value outside it); how the function is written (switch, lookup table) does not matter
	if f := c.P.Func("internal/annotations", "HTTPMethodToString"); f != nil {
		c.W.Concrete = true
		want := map[int64]string{0: "POST", 1: "GET", 2: "POST", 3: "PUT", 4: "DELETE", 5: "PATCH", 99: "POST"}
		labels := map[int64]string{0: "HttpMethod_HTTP_METHOD_UNSPECIFIED", 1: "HttpMethod_HTTP_METHOD_GET", 2: "HttpMethod_HTTP_METHOD_POST", 3: "HttpMethod_HTTP_METHOD_PUT", 4: "HttpMethod_HTTP_METHOD_DELETE", 5: "HttpMethod_HTTP_METHOD_PATCH", 99: "99"}
		var bad []string
		set := map[string]bool{}
		pname := c.P.Decls[f].Type.Params.List[0].Names[0].Name
		for _, n := range []int64{0, 1, 2, 3, 4, 5, 99} {
			run := c.W.NewRun(map[string]int{}, false)
			run.InlineAll, run.FollowSlices = true, true
			run.StartArgs(f, map[string]Val{pname: VInt{N: n, Label: labels[n]}})
			got := "?"
			if len(run.Used) == 0 && run.Aborted == "" {
				got = valText(run.Result)
			}
			set[got] = true
			if got != want[n] {
				bad = append(bad, fmt.Sprintf("%s → %s (documented: %s)", labels[n], got, want[n]))
			}
		}
		c.W.Concrete = false
		r.Check(len(bad) == 0 && sameSet(sortedKeys(set), all), "R01b", "the verb vocabulary is {GET,POST,PUT,DELETE,PATCH}", c.P.Pos(c.P.Decls[f].Pos()),
			fmt.Sprintf("HTTPMethodToString evaluated on every enum value: %s", strings.Join(bad, "; ")))
	}
	r.OK("R01b", "verb sets extracted from the condition syntax trees", "")

	// ---- R01f the server's string conversion is the inverse of the client's fmt.Sprint per kind
	r.Rule("R01f", "conversion table: each URL-bound kind is parsed with the parser, bit size and constructor of that kind (inverse of the client's fmt.Sprint)", 8)
	checkConversionTable(c, ep, "R01f")

	// ---- R01e kinds bound from the URL vs conversion arms
	conv := ep.Funcs["convertStringToFieldValue"]
	arms := map[string]bool{}
	if conv != nil {
		ast.Inspect(conv.Body, func(n ast.Node) bool {
			if cc, ok := n.(*ast.CaseClause); ok {
				for _, e := range cc.List {
					s := types.ExprString(e)
					arms[s[strings.LastIndex(s, ".")+1:]] = true
				}
			}
			return true
		})
	}
	// path: kinds isPathParamCompatible accepts (evaluated over the shape domain)
	if f := c.P.Func(pkgHTTP, "isPathParamCompatible"); f != nil && conv != nil {
		var missing []string
		for _, s := range AllShapes() {
			s := s
			if s.Card != "singular" || s.Pres != "implicit" {
				continue
			}
			outs, _, _ := c.W.EvalAll(f, func(dk, cr string) (int, bool) { return s.Answer("field", dk, cr) }, false, 16)
			acc := false
			for _, o := range outs {
				if b, ok := o.Result.(VBool); ok && b.B {
					acc = true
				}
			}
			if acc && !arms[kindConst[s.descKind()]] {
				missing = append(missing, s.Kind)
			}
		}
		r.Check(len(missing) == 0, "R01e", "every kind accepted as a path variable has a conversion arm", c.P.Pos(c.P.Decls[f].Pos()),
			fmt.Sprintf("kinds %v pass isPathParamCompatible but convertStringToFieldValue has no arm for them: the server answers 400 for every value", missing))
	}
	// query: is there any kind restriction on (sebuf.http.query)?
	restricted := false
	for _, fn := range []string{"ValidateMethodConfig", "ValidateService"} {
		if f := c.P.Func(pkgHTTP, fn); f != nil {
			// a kind restriction would inspect the annotated field itself: qp.Field.<…>Kind() or a predicate called with qp.Field
			ast.Inspect(c.P.Decls[f].Body, func(n ast.Node) bool {
				if sel, ok := n.(*ast.SelectorExpr); ok && sel.Sel.Name == "Field" {
					if id, ok := sel.X.(*ast.Ident); ok && (id.Name == "qp" || strings.HasPrefix(id.Name, "query")) {
						restricted = true
					}
				}
				return true
			})
		}
	}
	var noArm []string
	for _, k := range allKinds {
		if k == "timestamp" {
			continue
		}
		if !arms[kindConst[k]] {
			noArm = append(noArm, k)
		}
	}
	r.CheckD(restricted || len(noArm) == 0, "R01e", "every kind that can carry (sebuf.http.query) has a conversion arm (or is refused at generation time)", "",
		fmt.Sprintf("no generation-time rule restricts the kind of a query-annotated field, but the server's convertStringToFieldValue has no arm for kinds %v: the client sends fmt.Sprint(value) and the server answers 400 'unsupported field type'", noArm),
		map[string]any{"kinds_without_arm": noArm})
}

func nodeSrc(u *Unit, fset *token.FileSet, n ast.Node) string {
	src := u.Text()
	a, b := fset.Position(n.Pos()).Offset, fset.Position(n.End()).Offset
	if a >= 0 && b <= len(src) && a < b {
		return src[a:b]
	}
	return ""
}

func nodeSrcRepo(c *Ctx, n ast.Node) string {
	b, _ := c.P.srcOf(n)
	return string(b)
}
