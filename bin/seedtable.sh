#!/bin/bash
# bin/seedtable.sh — apply every seeded change under seeded/<id>/patch.diff to a scratch copy of /repo, run the
# property's quick check there and record which rule reports it. Writes seeded/RESULTS.md.
HERE=$(cd "$(dirname "$0")/.." && pwd)
out="$HERE/seeded/RESULTS.md"
tmp=$(mktemp -d)
ls "$HERE/seeded" | grep -E '^C[0-9]+-' | while read s; do
  prop=${s%%-*}
  (
    res=$("$HERE/bin/trymutant.sh" "$HERE/seeded/$s/patch.diff" $prop 2>&1)
    rules=$(echo "$res" | grep -o "rule=R[0-9a-z]*" | sort -u | tr '\n' ' ' | sed 's/rule=//g')
    first=$(echo "$res" | grep "rule=" | head -1 | sed 's/^ *rule=[^ ]* construct=//' | cut -c1-140)
    if echo "$res" | grep -q "^VIOLATION property=$prop"; then verdict=caught; elif grep -q '"status": "obsolete' "$HERE/seeded/$s/meta.json"; then verdict="obsolete (no longer a violation after a repair)"; elif echo "$res" | grep -q "patch does not apply"; then verdict="patch no longer applies"; else verdict=MISSED; fi
    summary=$(python3 -c "import json;print(json.load(open('$HERE/seeded/$s/meta.json')).get('summary','')[:160].replace('|','/').replace('\n',' '))" 2>/dev/null)
    echo "| $s | $verdict | $rules | $first | $summary |" > $tmp/$s.row
  ) &
  while [ $(jobs -r | wc -l) -ge 8 ]; do sleep 0.5; done
done
wait
{
  echo "# Seeded changes and the checks that report them"
  echo
  echo "Each row: a change produced by an independent sub-agent from the property text alone, confirmed (builds, suite unchanged, demonstration fails with / passes without it), applied to a scratch copy of /repo and submitted to the property's quick check. Regenerate with bin/seedtable.sh."
  echo
  echo "| seed | verdict | rules that fire | first report | what the change does |"
  echo "|---|---|---|---|---|"
  cat $tmp/*.row | sort
} > "$out"
rm -rf $tmp
grep -c "caught" "$out"; grep "MISSED\|no longer" "$out" | cut -c1-200
