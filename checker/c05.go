package main

// c05.go — C05: server JSON follows the documented mapping wherever an
// annotated type occurs.
//
// Field-by-field comparison of values against an executable model is outside
// static analysis. Decided here are the structural necessary conditions:
//
//   R05a  depth: for every JSON-mapping feature, an encoder exists for every
//         message from which an annotated message is reachable (otherwise the
//         ancestor is encoded by protojson, which never calls a nested
//         MarshalJSON) — the collectors are checked for ancestor closure
//   R05b  the server's JSON arms consult the top-level message's own codec first
//   R05c  every emitted message encoder derives the unannotated part from
//         protojson.Marshal of the receiver (so unannotated fields are proto3 JSON)
//   R05d  documented constants: each bytes_encoding / timestamp_format /
//         empty_behavior / nullable arm uses the library codec of that constant,
//         in both directions (reconstruction driven one constant at a time)
//   R05e  discriminator values: explicit oneof_value, else the proto field name
//   R05g  consumer agreement: every JSON-mapping annotation accessor that the
//         OpenAPI or TypeScript type mapping consumes is consumed by a Go server
//         emitter (an annotation only some generators implement)

import (
	"fmt"
	"go/ast"
	"go/token"
	"go/types"
	"regexp"
	"sort"
	"strings"
)

type c05Feature struct {
	Name      string
	Suffix    string
	Collector string // httpgen function that decides which messages get an encoder
}

var c05Features = []c05Feature{
	{"int64_encoding=NUMBER", "_encoding.pb.go", "collectInt64EncodingMessages"},
	{"nullable", "_nullable.pb.go", "collectNullableMessages"},
	{"empty_behavior", "_empty_behavior.pb.go", "collectEmptyBehaviorMessages"},
	{"timestamp_format", "_timestamp_format.pb.go", "collectTimestampFormatMessages"},
	{"bytes_encoding", "_bytes_encoding.pb.go", "collectBytesEncodingMessages"},
	{"flatten", "_flatten.pb.go", "collectFlattenMessages"},
	{"oneof_config (discriminator)", "_oneof_discriminator.pb.go", "collectOneofDiscriminatorMessages"},
	{"enum_value", "_enum_encoding.pb.go", "collectEnumsWithCustomValues"},
}

// c05Arm: tokens the emitted encoder / decoder of one annotation constant must contain.
type c05Arm struct {
	Unit, KeySuffix, Const string
	Enc, Dec               []string
}

// tokens are regular expressions over the emitted text; identifiers of locals are not part of them
var c05Arms = []c05Arm{
	{"_bytes_encoding.pb.go", ".Encoding", "BYTES_ENCODING_HEX", []string{`hex\.EncodeToString\(`}, []string{`hex\.DecodeString\(`, `base64\.StdEncoding\.EncodeToString\(`}},
	{"_bytes_encoding.pb.go", ".Encoding", "BYTES_ENCODING_BASE64_RAW", []string{`base64\.RawStdEncoding\.EncodeToString\(`}, []string{`base64\.RawStdEncoding\.DecodeString\(`, `base64\.StdEncoding\.EncodeToString\(`}},
	{"_bytes_encoding.pb.go", ".Encoding", "BYTES_ENCODING_BASE64URL", []string{`base64\.URLEncoding\.EncodeToString\(`}, []string{`base64\.URLEncoding\.DecodeString\(`, `base64\.StdEncoding\.EncodeToString\(`}},
	{"_bytes_encoding.pb.go", ".Encoding", "BYTES_ENCODING_BASE64URL_RAW", []string{`base64\.RawURLEncoding\.EncodeToString\(`}, []string{`base64\.RawURLEncoding\.DecodeString\(`, `base64\.StdEncoding\.EncodeToString\(`}},
	{"_timestamp_format.pb.go", ".Format", "TIMESTAMP_FORMAT_UNIX_SECONDS", []string{`json\.Marshal\(\w+\.Unix\(\)\)`}, []string{`time\.Unix\(\w+, 0\)`, `\.Format\(time\.RFC3339Nano\)`}},
	{"_timestamp_format.pb.go", ".Format", "TIMESTAMP_FORMAT_UNIX_MILLIS", []string{`json\.Marshal\(\w+\.UnixMilli\(\)\)`}, []string{`time\.UnixMilli\(\w+\)`, `\.Format\(time\.RFC3339Nano\)`}},
	{"_timestamp_format.pb.go", ".Format", "TIMESTAMP_FORMAT_DATE", []string{`\.Format\(("2006-01-02"|time\.DateOnly)\)`}, []string{`time\.Parse\(("2006-01-02"|time\.DateOnly), \w+\)`, `\.Format\(time\.RFC3339Nano\)`}},
	{"_empty_behavior.pb.go", ".Behavior", "EMPTY_BEHAVIOR_NULL", []string{`= \[\]byte\("null"\)`, `proto\.Size\(x\.[^)]*\) == 0`}, []string{`== "null"`}},
	{"_empty_behavior.pb.go", ".Behavior", "EMPTY_BEHAVIOR_OMIT", []string{`delete\(\w+, `, `proto\.Size\(x\.[^)]*\) == 0`}, nil},
	{"_nullable.pb.go", "", "", []string{`= \[\]byte\("null"\)`}, []string{`== "null"`, `delete\(\w+, `}},
}

func checkC05(c *Ctx) {
	r := c.R
	r.Explain = "Field-by-field comparison of encoded values with an executable model quantifies over values and is not decided. Decided structurally: R05a for each JSON-mapping feature the generator's collector is inspected for ancestor closure — an encoder is emitted only for messages selected by the collector; when the collector looks at a message's own fields only, a message that merely contains an annotated message is encoded by protojson, which never calls a nested MarshalJSON, so the annotation has no effect below the top level (reported per feature). R05b the server's JSON arms consult the top-level message's own codec first. R05c every emitted message encoder obtains the unannotated part from protojson.Marshal(x). R05d reconstruction driven one annotation constant at a time: the encoder and decoder arms of each bytes_encoding / timestamp_format / empty_behavior constant and of nullable contain the library codec the documentation names for it. R05e GetOneofDiscriminatorInfo evaluates the discriminator value to the explicit oneof_value, else the proto field name. R05g every annotation accessor consumed by the OpenAPI or TypeScript type mapping is consumed by a Go server emitter. Not decided: concrete values, float text, the behaviour of protojson itself."
	r.Rule("R05a", "an encoder exists for every message from which an annotated message is reachable", 8)
	r.Rule("R05b", "the server's JSON arms consult the top-level message's own codec first", 3)
	r.Rule("R05c", "emitted message encoders start from protojson.Marshal of the receiver", 6)
	r.Rule("R05d", "each annotation constant uses the documented library codec in both directions", 18)
	r.Rule("R05e", "discriminator value: explicit oneof_value, else the proto field name", 2)
	r.Rule("R05g", "JSON-mapping annotations are consumed by all generators or none", 8)
	r.Rule("R05n", "reads of the run-wide unwrap table fall back to the descriptor itself (shared with C04/R04j, C15/R15f): an annotated value message declared in a file that is not generated in this run still gets the documented form", 2)
	c.checkGlobalTableReads("R05n")
	r.Rule("R05o", "integer codecs: no emitted conversion of the field's value changes its sign or narrows it (shared with C04/R04p): the documented NUMBER form of every 64-bit value is accepted and written", 4)
	checkWorldConversions(c, "R05o")
	r.Rule("R05p", "an emitted encoder writes one entry for every element of the collection it ranges over (shared with C04/R04r): an empty list under a map key is written as [], not dropped", 2)
	encoderKeepsEveryElement(c, "R05p")

	// ---------------- R05a
	for _, f := range c05Features {
		fn := c.P.Func(pkgHTTP, f.Collector)
		if fn == nil {
			r.Unres("R05a", f.Name, "", "collector "+f.Collector+" not found")
			continue
		}
		// does the selection look through field.Message (ancestor closure)?
		closure := false
		for _, g := range c.P.Reach(fn) {
			if g.Pkg() == nil || !isRepoPkg(g.Pkg()) {
				continue
			}
			decl := c.P.Decls[g]
			if decl == nil || decl.Body == nil {
				continue
			}
			info := c.P.DeclPkg[g].TypesInfo
			ast.Inspect(decl.Body, func(n ast.Node) bool {
				call, ok := n.(*ast.CallExpr)
				if !ok {
					return true
				}
				cal := Callee(info, call)
				if cal == nil || !isRepoPkg(cal.Pkg()) {
					return true
				}
				for _, a := range call.Args {
					if strings.HasSuffix(types.ExprString(ast.Unparen(a)), ".Message") {
						// a repo function applied to a field's message type: the selection descends
						if t := info.TypeOf(a); t != nil && typeIsNamed(t, "compiler/protogen", "Message") {
							closure = true
						}
					}
				}
				return true
			})
		}
		if f.Name == "enum_value" {
			// the enum codec is a MarshalJSON on the enum TYPE; no message encoder consults it
			r.Bad("R05a", f.Name+": encoder reaches every occurrence of the annotated type", c.P.Pos(c.P.Decls[fn].Pos()),
				"custom enum values are implemented as MarshalJSON/UnmarshalJSON on the enum type only; protojson (used for every message, also inside the generated message encoders) never calls them, so an enum field is written with its proto name wherever it occurs unless the containing struct is encoded with encoding/json (unwrap containers)", nil)
			continue
		}
		r.Check(closure, "R05a", f.Name+": encoder exists for ancestors of annotated messages", c.P.Pos(c.P.Decls[fn].Pos()),
			fmt.Sprintf("%s selects a message only by its own fields: a message that contains an annotated message (singular child, list element, map value, oneof variant) gets no encoder and is written by protojson, which ignores the child's MarshalJSON — the %s form appears only when the annotated message is the RPC's top-level message", f.Collector, f.Name))
	}
	// unwrap: containers are collected globally (parents of unwrap fields get encoders) — inventory only
	if fn := c.P.Func(pkgHTTP, "collectUnwrapMapFields"); fn != nil {
		r.OK("R05a", "unwrap: container messages of unwrap value types are collected (collectUnwrapMapFields)", c.P.Pos(c.P.Decls[fn].Pos()))
	}

	// ---------------- R05b
	codecPrecedence(c, "R05b", false)

	// ---------------- R05c
	for _, f := range c05Features {
		if f.Name == "enum_value" {
			continue
		}
		ri := c.Root(pkgHTTP, f.Suffix)
		if ri == nil {
			r.Unres("R05c", f.Name, "", "unit root not found")
			continue
		}
		ex := c.ExploreT(ri.Fn, 6000)
		bad, pos := "", ""
		n := 0
		for _, v := range ex.Variants {
			for _, u := range v.Units {
				fset, file, err := ParseUnit(u)
				if err != nil {
					continue
				}
				for _, d := range file.Decls {
					fd, ok := d.(*ast.FuncDecl)
					if !ok || fd.Body == nil || fd.Recv == nil || fd.Name.Name != "MarshalJSON" {
						continue
					}
					n++
					// first protojson marshal of the receiver
					found := false
					ast.Inspect(fd.Body, func(nd ast.Node) bool {
						call, ok := nd.(*ast.CallExpr)
						if !ok || len(call.Args) != 1 {
							return true
						}
						fun := types.ExprString(call.Fun)
						if (strings.HasPrefix(fun, "protojson.") && strings.HasSuffix(fun, "Marshal")) || strings.HasSuffix(fun, ".Marshal") && strings.Contains(fun, "protojson") {
							if id, ok := ast.Unparen(call.Args[0]).(*ast.Ident); ok && id.Name == "x" {
								found = true
							}
						}
						return true
					})
					if !found && bad == "" {
						bad = "MarshalJSON of " + holeFree(types.ExprString(fd.Recv.List[0].Type))
						line := fset.Position(fd.Pos()).Line
						if line >= 1 && line <= len(u.Lines) {
							pos = c.P.Pos(u.Lines[line-1].Pos)
						}
					}
				}
			}
		}
		r.Check(bad == "" && n > 0, "R05c", f.Name+": encoder derives the message from protojson.Marshal(x)", pos,
			fmt.Sprintf("%s (%d encoders inspected): %s does not start from protojson.Marshal(x): fields without an annotation are not guaranteed their proto3 JSON form", f.Name, n, bad))
	}

	// ---------------- R05d
	for _, arm := range c05Arms {
		ri := c.Root(pkgHTTP, arm.Unit)
		if ri == nil {
			r.Unres("R05d", arm.Unit+" "+arm.Const, "", "unit root not found")
			continue
		}
		run := c.W.NewRun(map[string]int{}, false)
		run.Fix = func(dk, cr string) (int, bool) {
			dk = eraseIters(dk)
			if strings.HasPrefix(dk, "n:") {
				return 1, true
			}
			if arm.KeySuffix != "" && strings.HasPrefix(dk, "v:") && strings.HasSuffix(dk, arm.KeySuffix) {
				if strings.HasSuffix(cr, arm.Const) {
					return 1, true
				}
				return 0, true
			}
			return 0, false
		}
		run.Start(ri.Fn)
		encText, decText := "", ""
		for _, u := range run.Units {
			dir := ""
			for _, l := range u.Lines {
				t := lineText(l.Segs)
				if strings.HasPrefix(t, "func (x ") {
					dir = ""
					if strings.Contains(t, "MarshalJSON()") {
						dir = "enc"
					} else if strings.Contains(t, "UnmarshalJSON(") {
						dir = "dec"
					}
				}
				switch dir {
				case "enc":
					encText += t + "\n"
				case "dec":
					decText += t + "\n"
				}
			}
		}
		name := arm.Const
		if name == "" {
			name = "nullable"
		}
		pos := c.P.Pos(c.P.Decls[ri.Fn].Pos())
		for _, tok := range arm.Enc {
			r.Check(regexp.MustCompile(tok).MatchString(encText), "R05d", fmt.Sprintf("%s: encoder uses %s", name, tok), pos,
				fmt.Sprintf("for %s the emitted MarshalJSON does not contain %s: the value is not written in the documented form", name, tok))
		}
		for _, tok := range arm.Dec {
			r.Check(regexp.MustCompile(tok).MatchString(decText), "R05d", fmt.Sprintf("%s: decoder uses %s", name, tok), pos,
				fmt.Sprintf("for %s the emitted UnmarshalJSON does not contain %s: the documented form is not read back exactly (precision or alphabet differs)", name, tok))
		}
		// no codec of another constant in this arm
		if arm.Unit == "_bytes_encoding.pb.go" {
			for _, other := range c05Arms {
				if other.Unit != arm.Unit || other.Const == arm.Const {
					continue
				}
				r.Check(!regexp.MustCompile(other.Enc[0]).MatchString(encText), "R05d", fmt.Sprintf("%s: encoder does not use the codec of %s", name, other.Const), pos,
					fmt.Sprintf("for %s the emitted MarshalJSON contains %s, the codec of %s", name, other.Enc[0], other.Const))
			}
		}
	}

	// ---------------- R05e (decided by interpreting the code on concrete values, not by its shape)
	c05DiscriminatorValues(c, "R05e")
	c05DiscriminatorValuesSymbolic(c, "R05e")
	enumTables(c, "R05e")

	c05Consumers(c)
	r.Rule("R05i", "scenario messages: the keys the emitted encoder writes are the keys of the documented mapping", 4)
	crossScenarioKeys(c, "R05i", "go")
	r.Rule("R05h", "codec collectors visit nested declarations unconditionally", 14)
	collectorRecursion(c, "R05h")
	r.Rule("R05r", "emitted Go never serialises a value through its String() method: an enum keeps the JSON form its own codec defines", 1)
	c05NoEnumThroughString(c, "R05r")
	r.Rule("R05q", "a scratch map an emitted codec function serialises per child is fresh for each child (shared with C04/R04v): a second flattened child is decoded from its own keys only", 1)
	scratchMapsPerChild(c, "R05q")
	r.Rule("R05j", "codec emitters are called on every successful path of generateFile (not behind the no-services return)", 2)
	codecEmittersUnconditional(c, "R05j")
	r.Rule("R05l", "flattened discriminated oneof: every arm of the emitted decoder sets the oneof unconditionally (corpus, both plugins)", 2)
	flattenedArmsSetOneof(c, "R05l")
	r.Rule("R05k", "bytes decoded by a child's own UnmarshalJSON are not re-decoded by the final protojson decode", 2)
	customFormReachesProtojson(c, "R05k")
}

// c05Consumers: R05g. Annotations are identified by the extension they are stored in
// (http.E_*); an accessor "reads" the extensions mentioned by it or by the
// internal/annotations functions it calls.
func c05Consumers(c *Ctx) {
	r := c.R
	annDecls := c.oaDecls("internal/annotations")
	direct := map[*types.Func]map[string]bool{}
	calls := map[*types.Func][]*types.Func{}
	for fn, decl := range annDecls {
		info := c.P.DeclPkg[fn].TypesInfo
		direct[fn] = map[string]bool{}
		ast.Inspect(decl.Body, func(n ast.Node) bool {
			switch x := n.(type) {
			case *ast.SelectorExpr:
				if obj, ok := info.Uses[x.Sel].(*types.Var); ok && obj.Pkg() != nil && obj.Pkg().Path() == modPath+"/http" && strings.HasPrefix(obj.Name(), "E_") {
					direct[fn][obj.Name()] = true
				}
			case *ast.CallExpr:
				if cal := Callee(info, x); cal != nil && cal.Pkg() != nil && cal.Pkg().Path() == modPath+"/internal/annotations" {
					calls[fn] = append(calls[fn], cal)
				}
			}
			return true
		})
	}
	var reads func(f *types.Func, seen map[*types.Func]bool) map[string]bool
	reads = func(f *types.Func, seen map[*types.Func]bool) map[string]bool {
		out := map[string]bool{}
		if seen[f] {
			return out
		}
		seen[f] = true
		for e := range direct[f] {
			out[e] = true
		}
		for _, g := range calls[f] {
			for e := range reads(g, seen) {
				out[e] = true
			}
		}
		return out
	}
	// extensions consumed by the functions of a package (optionally filtered)
	consumed := func(rel string, only func(*types.Func) bool) map[string]string {
		out := map[string]string{}
		for fn, decl := range c.oaDecls(rel) {
			if only != nil && !only(fn) {
				continue
			}
			info := c.P.DeclPkg[fn].TypesInfo
			ast.Inspect(decl.Body, func(n ast.Node) bool {
				call, ok := n.(*ast.CallExpr)
				if !ok {
					return true
				}
				cal := Callee(info, call)
				if cal == nil || cal.Pkg() == nil || cal.Pkg().Path() != modPath+"/internal/annotations" {
					return true
				}
				for e := range reads(cal, map[*types.Func]bool{}) {
					if _, ok := out[e]; !ok {
						out[e] = fn.Name() + " → annotations." + cal.Name() + " at " + c.P.Pos(call.Pos())
					}
				}
				return true
			})
		}
		return out
	}
	notValidator := func(fn *types.Func) bool {
		n := strings.ToLower(fn.Name())
		return !strings.HasPrefix(n, "validate") && !strings.Contains(n, "conflict")
	}
	typeMapping := func(fn *types.Func) bool { return true }
	oa := consumed(pkgOpenAPI, typeMapping)
	ts := consumed("internal/tscommon", typeMapping)
	srv := consumed(pkgHTTP, notValidator)
	// routing/documentation annotations are C03/C09's subject
	skip := map[string]bool{"E_Config": true, "E_ServiceConfig": true, "E_ServiceHeaders": true, "E_MethodHeaders": true, "E_Query": true, "E_FieldExamples": true}
	all := map[string]bool{}
	for k := range oa {
		all[k] = true
	}
	for k := range ts {
		all[k] = true
	}
	n := 0
	for _, e := range sortedKeys(all) {
		if skip[e] {
			continue
		}
		n++
		where := oa[e]
		if where == "" {
			where = ts[e]
		}
		pos := where[strings.LastIndex(where, " at ")+4:]
		_, inSrv := srv[e]
		r.CheckD(inSrv, "R05g", "annotation "+strings.TrimPrefix(e, "E_")+" is consumed by a Go server emitter", pos,
			fmt.Sprintf("the OpenAPI/TypeScript type mapping changes the published JSON form by the (sebuf.http.%s) annotation (%s), but no emitting function of protoc-gen-go-http reads it (only validators do): the documents and TypeScript types describe a form the Go server never writes or reads", strings.ToLower(strings.TrimPrefix(e, "E_")), where),
			map[string]any{"openapi": oa[e], "ts": ts[e], "go-http": srv[e]})
	}
	r.Count("JSON-mapping annotations cross-checked", n)
	_ = sort.Strings
}

func init() { props["C05"] = checkC05 }

// collectorRecursion: every codec collector visits nested declarations
// unconditionally — the self-call on <elem>.Messages is a top-level statement of the
// loop body and no continue/break/return can precede it in the body.
func collectorRecursion(c *Ctx, rule string) {
	r := c.R
	for _, pkg := range []string{pkgHTTP, pkgClient} {
		for _, f := range c05Features {
			name := f.Collector
			if name == "collectEnumsWithCustomValues" {
				name = "collectEnumsFromMessage"
			}
			fn := c.P.Func(pkg, name)
			if fn == nil {
				if pkg == pkgHTTP {
					r.Unres(rule, pkgShort(pkg)+" "+name, "", "collector not found")
				}
				continue
			}
			decl := c.P.Decls[fn]
			info := c.P.DeclPkg[fn].TypesInfo
			ok, why := false, "no unconditional self-call on the nested declarations"
			ast.Inspect(decl.Body, func(n ast.Node) bool {
				rs, isRange := n.(*ast.RangeStmt)
				if !isRange {
					return true
				}
				elem, _ := rs.Value.(*ast.Ident)
				for i, st := range rs.Body.List {
					es, isExpr := st.(*ast.ExprStmt)
					if !isExpr {
						continue
					}
					call, isCall := es.X.(*ast.CallExpr)
					if !isCall || Callee(info, call) != fn || len(call.Args) == 0 {
						continue
					}
					arg := types.ExprString(call.Args[0])
					nested := (elem != nil && arg == elem.Name+".Messages") || strings.HasSuffix(arg, ".Messages") || (elem != nil && arg == elem.Name)
					if !nested {
						continue
					}
					// nothing before it in the body may leave the iteration
					leaves := ""
					for _, prev := range rs.Body.List[:i] {
						ast.Inspect(prev, func(m ast.Node) bool {
							switch b := m.(type) {
							case *ast.BranchStmt:
								leaves = b.Tok.String()
							case *ast.ReturnStmt:
								leaves = "return"
							case *ast.FuncLit:
								return false
							}
							return true
						})
					}
					if leaves == "" {
						ok = true
					} else {
						why = "a `" + leaves + "` can be taken before the self-call on the nested declarations"
					}
				}
				return true
			})
			r.Check(ok, rule, pkgShort(pkg)+" "+name+" visits nested declarations unconditionally", c.P.Pos(decl.Pos()),
				fmt.Sprintf("%s.%s: %s: a message declared inside another message gets no %s codec unless its parent satisfies some condition, so it is written in plain protojson form and read back differently from the documented form", pkgShort(pkg), name, why, f.Name))
		}
	}
}

// codecEmittersUnconditional: in both Go plugins' generateFile every emitter of a
// codec unit (a unit that declares MarshalJSON/UnmarshalJSON) lies on every path
// that can succeed — in particular it is not behind the "file has no services"
// return: a file of messages only is encoded by the services of other files.
func codecEmittersUnconditional(c *Ctx, rid string) {
	r := c.R
	for _, pkg := range []string{pkgHTTP, pkgClient} {
		gf := c.P.Func(pkg, "Generator.generateFile")
		if gf == nil {
			r.Unres(rid, pkgShort(pkg)+" generateFile", "", "not found")
			continue
		}
		decl := c.P.Decls[gf]
		info := c.P.DeclPkg[gf].TypesInfo
		codec := map[*types.Func]string{}
		for _, ri := range c.goUnitRoots() {
			if ri.Pkg == pkg && unitDeclaresCodec(c.Explore(ri.Fn, 1, 6000)) {
				codec[ri.Fn] = ri.Suffix
			}
		}
		n := 0
		parentsGF := parentMap(decl.Body)
		ast.Inspect(decl.Body, func(nd ast.Node) bool {
			call, ok := nd.(*ast.CallExpr)
			if !ok {
				return true
			}
			var sufs []string
			loopCall := false
			if cal := Callee(info, call); cal != nil {
				if suf, ok := codec[cal]; ok {
					sufs = append(sufs, suf)
				}
			} else {
				for _, ic := range IndirectCallees(info, decl.Body, call) {
					if suf, ok := codec[ic]; ok {
						sufs = append(sufs, suf)
						loopCall = true
					}
				}
			}
			if len(sufs) == 0 {
				return true
			}
			n += len(sufs)
			site := call.Pos()
			if loopCall {
				// a loop over a table of emitters: every element is called unless the loop is left on an error;
				// what must lie on every successful path is the loop itself
				for p := parentsGF[ast.Node(call)]; p != nil; p = parentsGF[p] {
					if rs, ok := p.(*ast.RangeStmt); ok {
						site = rs.X.Pos()
						break
					}
				}
			}
			suf := strings.Join(sufs, ", *")
			ok2, esc := mustPass(info, decl.Body, []token.Pos{site})
			pos := c.P.Pos(call.Pos())
			why := ""
			if !ok2 {
				why = fmt.Sprintf("%s generateFile can return successfully at %s without having called the emitter of *%s: messages of such a file (for example a file without services) carry the annotation but get no codec, so they are encoded with the plain proto3 JSON mapping while the schema and the TypeScript types describe the annotated form", pkgShort(pkg), c.P.Pos(esc), suf)
			}
			r.Check(ok2, rid, pkgShort(pkg)+" generateFile: *"+suf+" is emitted on every successful path", pos, why)
			return true
		})
		if n < len(codec) {
			r.Bad(rid, pkgShort(pkg)+" generateFile calls every codec emitter", c.P.Pos(decl.Pos()), fmt.Sprintf("%d of %d codec unit emitters are called directly from generateFile", n, len(codec)), nil)
		}
	}
}

// customFormReachesProtojson: in an emitted UnmarshalJSON that re-marshals a key
// map M and hands it to protojson.Unmarshal(…, x), bytes V that were handed to a
// child's own UnmarshalJSON (so V may be in the child's annotated form, which
// protojson does not understand) must not be part of M when it is re-decoded:
//
//	(a) no `M[k] = V`;
//	(b) when V was read from M[k], the key is deleted or overwritten (with bytes
//	    that did not go to a custom decoder, i.e. protojson.Marshal output).
//
// Otherwise the final protojson decode re-reads the annotated form with the plain
// mapping (and resets what the child's decoder produced).
func customFormReachesProtojson(c *Ctx, rid string) {
	r := c.R
	type site struct{ pos, msg string }
	sites := map[string]site{}
	okSites := map[string]string{}
	for _, ri := range c.goUnitRoots() {
		ex := c.ExploreT(ri.Fn, 6000)
		if !unitDeclaresCodec(ex) {
			continue
		}
		for _, v := range ex.Variants {
			for _, u := range v.Units {
				fset, f, err := ParseUnit(u)
				if err != nil {
					continue
				}
				at := func(p token.Pos) (string, string) {
					line := fset.Position(p).Line
					if line >= 1 && line <= len(u.Lines) {
						em := "?"
						if u.Lines[line-1].Fn != nil {
							em = u.Lines[line-1].Fn.Name()
						}
						return c.P.Pos(u.Lines[line-1].Pos), em
					}
					return "", "?"
				}
				for _, d := range f.Decls {
					fd, ok := d.(*ast.FuncDecl)
					if !ok || fd.Body == nil || fd.Name.Name != "UnmarshalJSON" {
						continue
					}
					// M: maps re-marshalled into the bytes of the final protojson decode
					marsh := map[string]string{} // result var -> map name
					maps := map[string]bool{}
					custom := map[string]bool{}
					ast.Inspect(fd.Body, func(n ast.Node) bool {
						switch x := n.(type) {
						case *ast.AssignStmt:
							if len(x.Rhs) == 1 {
								if call, ok := x.Rhs[0].(*ast.CallExpr); ok && types.ExprString(call.Fun) == "json.Marshal" && len(call.Args) == 1 {
									if id, ok := call.Args[0].(*ast.Ident); ok {
										if l, ok := x.Lhs[0].(*ast.Ident); ok {
											marsh[l.Name] = id.Name
										}
									}
								}
							}
						case *ast.CallExpr:
							if sel, ok := x.Fun.(*ast.SelectorExpr); ok && sel.Sel.Name == "UnmarshalJSON" && len(x.Args) == 1 {
								if id, ok := x.Args[0].(*ast.Ident); ok {
									custom[id.Name] = true
								}
							}
						}
						return true
					})
					ast.Inspect(fd.Body, func(n ast.Node) bool {
						if call, ok := n.(*ast.CallExpr); ok && types.ExprString(call.Fun) == "protojson.Unmarshal" && len(call.Args) == 2 && types.ExprString(call.Args[1]) == "x" {
							if id, ok := call.Args[0].(*ast.Ident); ok && marsh[id.Name] != "" {
								maps[marsh[id.Name]] = true
							}
						}
						return true
					})
					if len(maps) == 0 || len(custom) == 0 {
						continue
					}
					isM := func(e ast.Expr) (string, bool) {
						ix, ok := e.(*ast.IndexExpr)
						if !ok {
							return "", false
						}
						id, ok := ix.X.(*ast.Ident)
						if !ok || !maps[id.Name] {
							return "", false
						}
						return types.ExprString(ix.Index), true
					}
					// (a) and collect overwrites / deletes per key
					cleared := map[string]bool{}
					ast.Inspect(fd.Body, func(n ast.Node) bool {
						switch x := n.(type) {
						case *ast.AssignStmt:
							if len(x.Lhs) == 1 && len(x.Rhs) == 1 {
								if k, ok := isM(x.Lhs[0]); ok {
									if id, ok := x.Rhs[0].(*ast.Ident); ok && custom[id.Name] {
										pos, em := at(x.Pos())
										sites[pkgShort(ri.Pkg)+" "+em+": bytes given to the child's own UnmarshalJSON are stored into the re-decoded map"] = site{pos,
											fmt.Sprintf("the emitted decoder stores %s, which was handed to the child's own UnmarshalJSON (annotated form), into %s: the final protojson.Unmarshal re-reads it with the plain proto3 JSON mapping (rejects or mis-reads the annotated form, and resets the value the child's decoder produced)", id.Name, holeFree(types.ExprString(x.Lhs[0])))}
									} else {
										cleared[k] = true
									}
								}
							}
						case *ast.CallExpr:
							if id, ok := x.Fun.(*ast.Ident); ok && id.Name == "delete" && len(x.Args) == 2 {
								if m, ok := x.Args[0].(*ast.Ident); ok && maps[m.Name] {
									cleared[types.ExprString(x.Args[1])] = true
								}
							}
						}
						return true
					})
					// (b) V read from M[k]
					ast.Inspect(fd.Body, func(n ast.Node) bool {
						as, ok := n.(*ast.AssignStmt)
						if !ok || as.Tok != token.DEFINE || len(as.Rhs) != 1 || len(as.Lhs) == 0 {
							return true
						}
						k, ok := isM(as.Rhs[0])
						if !ok {
							return true
						}
						id, ok := as.Lhs[0].(*ast.Ident)
						if !ok || !custom[id.Name] {
							return true
						}
						pos, em := at(as.Pos())
						key := pkgShort(ri.Pkg) + " " + em + ": bytes read from the map and given to the child's own UnmarshalJSON are removed from (or replaced in) the re-decoded map"
						if cleared[k] {
							okSites[key] = pos
						} else {
							sites[key] = site{pos, fmt.Sprintf("the emitted decoder hands %s (read from the key map) to the child's own UnmarshalJSON and leaves it in the map: the final protojson.Unmarshal(…, x) decodes the same bytes again with the plain proto3 JSON mapping and replaces the child — a child with an annotated JSON form (timestamp_format, bytes_encoding, nullable, nested flatten/oneof …) is rejected or mis-read", id.Name)}
						}
						return true
					})
				}
			}
		}
	}
	for k, p := range okSites {
		if _, bad := sites[k]; !bad {
			r.OK(rid, k, p)
		}
	}
	for _, k := range sortedKeys(sites) {
		r.Bad(rid, k, sites[k].pos, sites[k].msg, nil)
	}
	r.Count("decoders checked for custom-form bytes reaching protojson", len(okSites)+len(sites))
}

// c05DiscriminatorValues: annotations.GetOneofDiscriminatorInfo is interpreted on a concrete oneof whose
// members do / do not carry (sebuf.http.oneof_value): the variant's discriminator value must be the
// explicit value, else the proto field name.
func c05DiscriminatorValues(c *Ctx, rid string) {
	r := c.R
	fn := c.P.Func("internal/annotations", "GetOneofDiscriminatorInfo")
	if fn == nil {
		r.Unres(rid, "GetOneofDiscriminatorInfo", "", "not found")
		return
	}
	pos := c.P.Pos(c.P.Decls[fn].Pos())
	c.W.Concrete, c.W.ExternStructs = true, true
	defer func() { c.W.Concrete, c.W.ExternStructs = false, false }()
	a := fld("text_part", "message").msg(cMessage("TextContent", fld("body", "string")))
	b := fld("image_ref", "message").msg(cMessage("ImageContent", fld("url", "string"))).ann("GetOneofVariantValue", constStr("img"))
	s := fld("note", "string")
	m := cMessage("Event", fld("id", "string"), a, b, s)
	o := cOneof(m, "content", a, b, s)
	o.Fields["@GetOneofConfig"] = oneofConfig("kind", false)
	run := c.W.NewRun(map[string]int{}, false)
	run.InlineAll, run.FollowSlices = true, true
	run.CallHook = c.xHookT
	run.StartArgs(fn, map[string]Val{"oneof": o})
	if len(run.Used) > 0 || run.Aborted != "" {
		r.Undec(rid, "discriminator values of a concrete oneof", pos, fmt.Sprintf("open decisions %v aborted %q", usedKeys(run), run.Aborted))
		return
	}
	got := []string{}
	if st, ok := run.Result.(*VStruct); ok {
		// by role, not by field name: the list member holds the variants, the string member of a variant its value
		for _, k := range sortedKeys(st.Fields) {
			vl, ok := st.Fields[k].(VList)
			if !ok {
				continue
			}
			for _, v := range vl.Elems {
				if vs, ok := v.(*VStruct); ok {
					for _, fk := range sortedKeys(vs.Fields) {
						if sv, ok := vs.Fields[fk].(VStr); ok {
							got = append(got, valText(sv))
						}
					}
				}
			}
		}
	}
	want := []string{"text_part", "img", "note"}
	r.Check(strings.Join(got, ",") == strings.Join(want, ","), rid, "discriminator value is oneof_value, else the proto field name", pos,
		fmt.Sprintf("GetOneofDiscriminatorInfo on oneof {text_part (no oneof_value), image_ref (oneof_value \"img\"), note (scalar, no oneof_value)} yields the discriminator values %v; annotations.proto documents %v (explicit value, else the proto field name)", got, want))
}

// enumTables: the *_enum_encoding.pb.go unit of both Go plugins is reconstructed for an enum of which
// only some values carry (sebuf.http.enum_value), nested in a message beside a same-named enum of another
// message. The encoder table maps every value to its custom string or its proto name; the decoder table
// reads every string the encoder can write (and the proto name of a value that has a custom string).
func enumTables(c *Ctx, rid string) {
	r := c.R
	for _, pkg := range []string{pkgHTTP, pkgClient} {
		prio := cEnum("Task_Priority", "pkg.Task.Priority", cEnumValue{"PRIORITY_LOW", "low"}, cEnumValue{"PRIORITY_MEDIUM", ""}, cEnumValue{"PRIORITY_HIGH", "high"})
		kind2 := cEnum("Shipment_Priority", "pkg.Shipment.Priority", cEnumValue{"EXPRESS", "x"}, cEnumValue{"STANDARD", ""})
		top := cEnum("Color", "pkg.Color", cEnumValue{"COLOR_RED", "red"}, cEnumValue{"COLOR_BLUE", ""})
		plain := cEnum("Plain", "pkg.Plain", cEnumValue{"PLAIN_A", ""}, cEnumValue{"PLAIN_B", ""})
		task := nest(cMessage("Task", fld("id", "string")), nil, []*VStruct{prio})
		ship := nest(cMessage("Shipment", fld("id", "string")), []*VStruct{nest(cMessage("Shipment_Leg", fld("n", "int32")), nil, []*VStruct{kind2})}, nil)
		file := cFile([]*VStruct{task, ship}, []*VStruct{top, plain}, nil)
		units, pos, prob := c.runUnitConcrete(pkg, "_enum_encoding.pb.go", file)
		name := pkgShort(pkg) + " *_enum_encoding.pb.go"
		if prob != "" {
			r.Undec(rid, name+": tables of partially annotated enums", pos, prob)
			continue
		}
		toJSON, fromJSON := map[string]map[string]string{}, map[string]map[string]string{}
		cur, dir := "", ""
		reTo := regexp.MustCompile(`^var (\w+)ToJSON = map\[(\w+)\]string\{`)
		reFrom := regexp.MustCompile(`^var (\w+)FromJSON = map\[string\](\w+)\{`)
		reToE := regexp.MustCompile(`^(\w+): "([^"]*)",$`)
		reFromE := regexp.MustCompile(`^"([^"]*)": (\w+),$`)
		for _, l := range unitLines(units) {
			t := strings.TrimSpace(l)
			if m := reTo.FindStringSubmatch(t); m != nil {
				cur, dir = m[2], "to"
				toJSON[cur] = map[string]string{}
				continue
			}
			if m := reFrom.FindStringSubmatch(t); m != nil {
				cur, dir = m[2], "from"
				fromJSON[cur] = map[string]string{}
				continue
			}
			if t == "}" {
				dir = ""
			}
			if m := reToE.FindStringSubmatch(t); m != nil && dir == "to" {
				toJSON[cur][m[1]] = m[2]
			}
			if m := reFromE.FindStringSubmatch(t); m != nil && dir == "from" {
				fromJSON[cur][m[1]] = m[2]
			}
		}
		type want struct {
			enum string
			to   map[string]string
			also []string // proto names that must be readable too
		}
		wants := []want{
			{"Task_Priority", map[string]string{"Task_Priority_PRIORITY_LOW": "low", "Task_Priority_PRIORITY_MEDIUM": "PRIORITY_MEDIUM", "Task_Priority_PRIORITY_HIGH": "high"}, []string{"PRIORITY_LOW", "PRIORITY_HIGH"}},
			{"Shipment_Priority", map[string]string{"Shipment_Priority_EXPRESS": "x", "Shipment_Priority_STANDARD": "STANDARD"}, []string{"EXPRESS"}},
			{"Color", map[string]string{"Color_COLOR_RED": "red", "Color_COLOR_BLUE": "COLOR_BLUE"}, []string{"COLOR_RED"}},
		}
		for _, w := range wants {
			var bad []string
			if toJSON[w.enum] == nil || fromJSON[w.enum] == nil {
				bad = append(bad, "no lookup tables are emitted for this enum (tables emitted for: "+strings.Join(sortedKeys(toJSON), ", ")+")")
			} else {
				for _, v := range sortedKeys(w.to) {
					if toJSON[w.enum][v] != w.to[v] {
						bad = append(bad, fmt.Sprintf("encoder table writes %s as %q (documented: %q)", v, toJSON[w.enum][v], w.to[v]))
					}
					if fromJSON[w.enum][w.to[v]] != v {
						bad = append(bad, fmt.Sprintf("decoder table reads %q as %q: the string the encoder writes for %s is not read back", w.to[v], fromJSON[w.enum][w.to[v]], v))
					}
				}
				for _, pn := range w.also {
					if fromJSON[w.enum][pn] == "" {
						bad = append(bad, fmt.Sprintf("decoder table does not accept the proto name %q", pn))
					}
				}
			}
			r.Check(len(bad) == 0, rid, name+": enum "+w.enum+" (some values with enum_value): encoder/decoder tables", pos,
				fmt.Sprintf("%s for enum %s: %s", name, w.enum, strings.Join(bad, "; ")))
		}
		// symbolic side: the only test on a value's custom string is emptiness
		if ri := c.Root(pkg, "_enum_encoding.pb.go"); ri != nil {
			ex := c.Explore(ri.Fn, 1, 4000)
			var other []string
			nEmpty := 0
			for _, pt := range ex.Points {
				if !strings.Contains(pt.Key, "GetEnumValueMapping(") {
					continue
				}
				if strings.HasPrefix(eraseIters(pt.Key), "b:isempty(") {
					nEmpty++
				} else {
					other = append(other, eraseIters(pt.Key))
				}
			}
			r.Check(len(other) == 0 && nEmpty > 0, rid, name+": the custom enum_value is used whenever it is non-empty (no other condition on it)", pos,
				fmt.Sprintf("the emitter's choice between the custom string and the proto value name depends on %v", other))
		}
		// the enum's MarshalJSON must be in the method set of a VALUE: encoding/json (used by the unwrap codecs for
		// sibling fields and map values) calls it for x.Status / map[string]Status only then
		reEnc := regexp.MustCompile(`^func \(\w+ (\*?)(\w+)\) MarshalJSON\(\)`)
		nEnc := 0
		var ptrRecv []string
		for _, l := range unitLines(units) {
			if m := reEnc.FindStringSubmatch(l); m != nil {
				nEnc++
				if m[1] == "*" {
					ptrRecv = append(ptrRecv, m[2])
				}
			}
		}
		r.Check(len(ptrRecv) == 0 && nEnc >= 3, rid, name+": enum MarshalJSON has a value receiver", pos,
			fmt.Sprintf("MarshalJSON of %v is declared on the pointer: encoding/json does not find it for an enum VALUE (a struct field next to an unwrap map, the values of a root-unwrapped map<string, Enum>) and writes the number instead of the custom string", ptrRecv))
		_, hasPlain := toJSON["Plain"]
		r.Check(!hasPlain, rid, name+": an enum without enum_value gets no tables", pos, "tables are emitted for an enum none of whose values carries enum_value: its JSON form would change from the proto3 mapping's")
	}
}

// c05DiscriminatorValuesSymbolic: GetOneofDiscriminatorInfo evaluated with the explicit oneof_value left
// symbolic: the only thing the choice between the explicit value and the proto field name may depend on is
// whether the explicit value is empty.
func c05DiscriminatorValuesSymbolic(c *Ctx, rid string) {
	r := c.R
	fn := c.P.Func("internal/annotations", "GetOneofDiscriminatorInfo")
	if fn == nil {
		return
	}
	pos := c.P.Pos(c.P.Decls[fn].Pos())
	c.W.FollowAnnHelpers = true
	outs, probs, capped := c.W.EvalAll(fn, nil, true, 256)
	c.W.FollowAnnHelpers = false
	if len(probs) > 0 || capped || len(outs) == 0 {
		r.Undec(rid, "discriminator value choice (symbolic oneof_value)", pos, fmt.Sprintf("outcomes=%d capped=%v problems=%v", len(outs), capped, probs))
		return
	}
	bad := []string{}
	nDec := 0
	for _, o := range outs {
		for _, u := range o.Used {
			if !strings.Contains(u.Key, "GetOneofVariantValue") {
				continue
			}
			nDec++
			k := eraseIters(u.Key)
			if !strings.HasPrefix(k, "b:isempty(") {
				bad = append(bad, "the choice depends on a test of the explicit value other than emptiness: "+k)
			}
		}
	}
	sort.Strings(bad)
	bad = uniqStrings(bad)
	r.Check(len(bad) == 0 && nDec > 0, rid, "the explicit oneof_value is used whenever it is non-empty (no other condition on it)", pos,
		fmt.Sprintf("GetOneofDiscriminatorInfo evaluated with a symbolic oneof_value (%d decisions on it in %d outcomes): %s", nDec, len(outs), strings.Join(bad, "; ")))
}

func uniqStrings(xs []string) []string {
	var out []string
	for i, x := range xs {
		if i == 0 || x != xs[i-1] {
			out = append(out, x)
		}
	}
	return out
}

func valKey(v Val) string {
	if v == nil {
		return "<nil>"
	}
	return v.key()
}

// c05NoEnumThroughString — R05r. Emitted Go never serialises a value through its String() method
// (json.Marshal(x.F.String())): for an enum that writes the proto value name and bypasses the MarshalJSON the
// enum-encoding unit generates for enums with (sebuf.http.enum_value) mappings, so "STATUS_ACTIVE" is sent where the
// documented custom string "active" belongs.
func c05NoEnumThroughString(c *Ctx, rid string) {
	r := c.R
	nCalls := 0
	reported := map[string]bool{}
	for _, ri := range c.goUnitRoots() {
		if ri.Suffix == "_enum_encoding.pb.go" {
			continue // the unit that DEFINES the enum's JSON form: its MarshalJSON falls back to the receiver's own name
		}
		ex := c.ExploreT(ri.Fn, 6000)
		for _, v := range ex.Variants {
			for _, u := range v.Units {
				fset, f, err := ParseUnit(u)
				if err != nil {
					continue
				}
				ast.Inspect(f, func(n ast.Node) bool {
					call, ok := n.(*ast.CallExpr)
					if !ok || len(call.Args) != 1 {
						return true
					}
					if fun := types.ExprString(call.Fun); fun != "json.Marshal" {
						return true
					}
					nCalls++
					inner, ok := ast.Unparen(call.Args[0]).(*ast.CallExpr)
					if !ok || len(inner.Args) != 0 {
						return true
					}
					sel, ok := inner.Fun.(*ast.SelectorExpr)
					if !ok || sel.Sel.Name != "String" {
						return true
					}
					k := fmt.Sprintf("%s *%s: json.Marshal is not applied to a String() result", pkgShort(ri.Pkg), ri.Suffix)
					if !reported[k] {
						reported[k] = true
						pos := ""
						if line := fset.Position(call.Pos()).Line; line >= 1 && line <= len(u.Lines) {
							pos = c.P.Pos(u.Lines[line-1].Pos)
						}
						r.Bad(rid, k, pos, "the emitted code writes "+holeFree(types.ExprString(call))+": the value's String() form (for an enum: its proto value name) replaces the type's own JSON form, so an enum with (sebuf.http.enum_value) mappings is sent by name instead of by its documented custom string", nil)
					}
					return true
				})
			}
		}
	}
	r.OKd(rid, "json.Marshal calls of emitted Go inspected", "", map[string]any{"calls": nCalls, "through_String": len(reported)})
}
