package main

import (
	"fmt"
	"go/ast"
	"go/constant"
	"go/token"
	"go/types"
	"regexp"
	"sort"
	"strings"

	"golang.org/x/tools/go/cfg"
	"golang.org/x/tools/go/packages"
)

func init() { props["C16"] = checkC16 }

// recursiveFuncs returns, for every repository function in a call-graph cycle,
// the members of its strongly connected component.
func (c *Ctx) sccs() [][]*types.Func {
	var fns []*types.Func
	for f := range c.P.Decls {
		fns = append(fns, f)
	}
	sort.Slice(fns, func(i, j int) bool { return FuncName(fns[i]) < FuncName(fns[j]) })
	index := map[*types.Func]int{}
	low := map[*types.Func]int{}
	on := map[*types.Func]bool{}
	var stack []*types.Func
	var out [][]*types.Func
	n := 0
	var strong func(v *types.Func)
	strong = func(v *types.Func) {
		index[v] = n
		low[v] = n
		n++
		stack = append(stack, v)
		on[v] = true
		for _, w := range c.P.StaticCallees(v) {
			if _, seen := index[w]; !seen {
				strong(w)
				if low[w] < low[v] {
					low[v] = low[w]
				}
			} else if on[w] && index[w] < low[v] {
				low[v] = index[w]
			}
		}
		if low[v] == index[v] {
			var comp []*types.Func
			for {
				w := stack[len(stack)-1]
				stack = stack[:len(stack)-1]
				on[w] = false
				comp = append(comp, w)
				if w == v {
					break
				}
			}
			self := false
			if len(comp) == 1 {
				for _, w := range c.P.StaticCallees(v) {
					if w == v {
						self = true
					}
				}
			}
			if len(comp) > 1 || self {
				out = append(out, comp)
			}
		}
	}
	for _, f := range fns {
		if _, seen := index[f]; !seen {
			strong(f)
		}
	}
	return out
}

// reachAvoiding: is the call at target reachable from the entry of body along a
// path that does not execute the statement at avoid first?
func reachAvoiding(body *ast.BlockStmt, target, avoid token.Pos) bool {
	g := buildCFG(body)
	seen := map[*cfg.Block]bool{}
	found := false
	var dfs func(b *cfg.Block)
	dfs = func(b *cfg.Block) {
		if seen[b] || found {
			return
		}
		seen[b] = true
		for _, n := range b.Nodes {
			if avoid.IsValid() && nodeContains(n, avoid) {
				// the insertion may share a node with the target only if it comes first
				if nodeContains(n, target) && target < avoid {
					found = true
				}
				return
			}
			if nodeContains(n, target) {
				found = true
				return
			}
		}
		for _, s := range b.Succs {
			dfs(s)
		}
	}
	if len(g.Blocks) > 0 {
		dfs(g.Blocks[0])
	}
	return found
}

// visitedGuard finds, in fn, a map M and key K with an entry test
// (`if M[K] { return }` / `if _, ok := M[K]; ok { return }`) and returns the
// positions of the insertions M[K] = ….
func (c *Ctx) visitedGuard(fn *types.Func) (tested bool, insertions []token.Pos, desc string) {
	decl := c.P.Decls[fn]
	info := c.P.DeclPkg[fn].TypesInfo
	type mk struct{ m, k string }
	tests := map[mk]bool{}
	isMapIdx := func(e ast.Expr) (mk, bool) {
		ix, ok := ast.Unparen(e).(*ast.IndexExpr)
		if !ok {
			return mk{}, false
		}
		if tv, ok := info.Types[ix.X]; ok {
			if _, isMap := tv.Type.Underlying().(*types.Map); isMap {
				return mk{types.ExprString(ix.X), types.ExprString(ix.Index)}, true
			}
		}
		return mk{}, false
	}
	for _, st := range decl.Body.List {
		ifs, ok := st.(*ast.IfStmt)
		if !ok || !terminates(ifs.Body) {
			continue
		}
		if k, ok := isMapIdx(ifs.Cond); ok {
			tests[k] = true
		}
		if as, ok := ifs.Init.(*ast.AssignStmt); ok && len(as.Rhs) == 1 && len(as.Lhs) == 2 {
			if k, ok := isMapIdx(as.Rhs[0]); ok {
				if id, ok := ast.Unparen(ifs.Cond).(*ast.Ident); ok {
					if l, ok := as.Lhs[1].(*ast.Ident); ok && l.Name == id.Name {
						tests[k] = true
					}
				}
			}
		}
	}
	ast.Inspect(decl.Body, func(n ast.Node) bool {
		switch n.(type) {
		case *ast.FuncLit, *ast.DeferStmt, *ast.GoStmt:
			return false // runs later: does not mark the node before the recursion
		}
		as, ok := n.(*ast.AssignStmt)
		if !ok {
			return true
		}
		for _, l := range as.Lhs {
			if k, ok := isMapIdx(l); ok && tests[k] {
				insertions = append(insertions, as.Pos())
				desc = k.m + "[" + k.k + "]"
			}
		}
		return true
	})
	return len(tests) > 0, insertions, desc
}

// entryGuarded: g tests a visited map at entry and every recursive call in g
// is preceded, on every path, by the insertion into that map.
func (c *Ctx) entryGuarded(g *types.Func, inSCC map[*types.Func]bool) bool {
	tested, ins, _ := c.visitedGuard(g)
	if !tested || len(ins) == 0 {
		return false
	}
	decl := c.P.Decls[g]
	for _, cs := range c.callSites(g) {
		if !inSCC[cs.Callee] {
			continue
		}
		dominated := false
		for _, ip := range ins {
			if !reachAvoiding(decl.Body, cs.Call.Pos(), ip) {
				dominated = true
			}
		}
		if !dominated {
			return false
		}
	}
	return true
}

// exceptions confirmed by reading, one line of reason each.
var nilGuardExceptions = map[string]string{
	"generateFlattenedUnmarshal variant.Field.Message":   "reached only for info.Flatten; validateOneofFlatten refuses flatten=true with non-message variants (R12a keeps the validator on every run)",
	"generateMockMapFieldAssignment field.Message":       "called only under `case field.Desc.IsMap()`: map fields always carry their entry message",
	"buildFlattenedVariantSchemas variant.Field.Message": "guarded by variant.IsMessage (struct invariant: IsMessage = field.Message != nil)",
}

var panicAccepted = map[string]string{
	"main.readRequest":          "stdin unreadable or not a CodeGeneratorRequest: outside 'well-formed request'",
	"main.writeResponse":        "marshalling the response / writing stdout failed: I/O failure, not a function of the request",
	"main.writeResponseMessage": "marshalling the response / writing stdout failed: I/O failure, not a function of the request",
}

func checkC16(c *Ctx) {
	r := c.R
	r.Explain = "Decides structural clauses of C16 on the generators' own code. R16a: every call-graph cycle among repository functions (SCCs over type-resolved static callees) is classified per recursive call site: containment recursion (argument is <x>.Messages/.Enums or a range variable over it — the declaration tree is finite) is discharged; recursion along message references (field.Message, method.Input …) is discharged only if every path from the function entry to the call passes the insertion into a visited map that is tested with an early return at entry (go/cfg), or if all recursive sites sit in the map arm (IsMap/IsMapEntry) and recurse on the map's value FIELD (a map value is never a map, depth <= 1) or, when they recurse on the value's message, the function tests a visited set at entry. R16b: no `for` without range (no unbounded loop). R16c: panic/log.Fatal/os.Exit sites (allowed only for unreadable input and stdout failure), nil-guard discipline for the optional links Field.Message/Enum/Oneof (dominating guard in the function, at all callers, or a struct witness such as OneofVariant.IsMessage; the remaining sites are a frozen, reasoned table), constant indexes guarded by a length/IsMap guard. Not decided: numeric time/memory bounds, output size, behaviour inside protogen/libopenapi."
	r.Trusted = []string{"protobuf descriptors: the declaration tree (nested messages/enums) is finite and acyclic; map values cannot be maps; a map entry message has exactly two fields"}
	r.Rule("R16a", "every recursion cycle is containment-decreasing, visited-guarded, or confined to the map arm", 30)
	r.Rule("R16b", "no unbounded loop: every for statement in generator packages is a range (or a bounded induction)", 8)
	r.Rule("R16d", "visited sets are keyed injectively (full name or descriptor pointer)", 2)
	visitedKeysInjective(c, "R16d", nil)
	r.Rule("R16e", "a path-scoped visited mark is removed only after it was set (never ahead of the entry test)", 1)
	visitedUnmarkAfterMark(c, "R16e")
	r.Rule("R16c-panic", "no panic/log.Fatal/os.Exit on a path that depends on a well-formed request", 2)
	r.Rule("R16c-nil", "every dereference of Field.Message/Enum/Oneof is dominated by a guard establishing it is non-nil", 30)
	r.Rule("R16c-index", "constant indexes into descriptor-derived slices are dominated by a length / IsMap guard", 5)
	r.Rule("R16c-errpair", "a pointer returned together with an error is not dereferenced on a path on which that error is known to be non-nil", 9)
	errPairedValueUse(c, "R16c-errpair")
	r.Rule("R16c-nilable", "the result of a library call that can be nil without an error (SchemaProxy.BuildSchema / Schema) is tested against nil on every path to a dereference", 1)
	nilableResultUse(c, "R16c-nilable")
	r.Rule("R16h", "every length / capacity handed to make in generator packages is non-negative by construction (a negative one panics)", 1)
	makeSizesNonNegative(c, "R16h")
	r.Rule("R16g", "nothing but the encoded response is written to standard output: no fmt.Print*/println, no write to os.Stdout in generator packages other than the plugin's response writer", 1)
	stdoutDiscipline(c, "R16g")

	// ---- R16a
	for _, comp := range c.sccs() {
		if !isRepoGenPkg(comp[0]) {
			continue
		}
		inSCC := map[*types.Func]bool{}
		for _, f := range comp {
			inSCC[f] = true
		}
		sort.Slice(comp, func(i, j int) bool { return FuncName(comp[i]) < FuncName(comp[j]) })
		type site struct {
			fn    *types.Func
			call  *ast.CallExpr
			class string
			arg   string
		}
		var sites []site
		for _, f := range comp {
			decl := c.P.Decls[f]
			info := c.P.DeclPkg[f].TypesInfo
			parents := parentMap(decl.Body)
			tested, ins, vdesc := c.visitedGuard(f)
			for _, cs := range c.callSites(f) {
				if !inSCC[cs.Callee] {
					continue
				}
				st := site{fn: f, call: cs.Call}
				// containment?
				contain, ref := false, ""
				for _, a := range cs.Call.Args {
					ae := ast.Unparen(a)
					if sel, ok := ae.(*ast.SelectorExpr); ok && (sel.Sel.Name == "Messages" || sel.Sel.Name == "Enums") {
						contain = true
						st.arg = types.ExprString(a)
					}
					if id, ok := ae.(*ast.Ident); ok {
						// range variable over <x>.Messages
						obj := info.ObjectOf(id)
						ast.Inspect(decl.Body, func(n ast.Node) bool {
							if rs, ok := n.(*ast.RangeStmt); ok {
								if v, ok := rs.Value.(*ast.Ident); ok && info.ObjectOf(v) == obj {
									if sel, ok := ast.Unparen(rs.X).(*ast.SelectorExpr); ok && (sel.Sel.Name == "Messages" || sel.Sel.Name == "Enums") {
										contain = true
										st.arg = types.ExprString(rs.X) + " element"
									}
								}
							}
							return true
						})
					}
					if tv, ok := info.Types[a]; ok && tv.Type != nil && !contain {
						if typeIsNamed(tv.Type, "compiler/protogen", "Message") || typeIsNamed(tv.Type, "compiler/protogen", "Field") {
							ref = types.ExprString(a)
						}
					}
				}
				switch {
				case contain:
					st.class = "containment"
				default:
					st.arg = ref
					// map arm?
					mapArm := false
					for p := parents[cs.Call]; p != nil; p = parents[p] {
						if ifs, ok := p.(*ast.IfStmt); ok && nodeContains(ifs.Body, cs.Call.Pos()) {
							cs2 := types.ExprString(ifs.Cond)
							if strings.HasSuffix(cs2, ".Desc.IsMap()") || strings.HasSuffix(cs2, ".Desc.IsMapEntry()") {
								mapArm = true
							}
						}
					}
					argIsMessage := false
					for _, a := range cs.Call.Args {
						if tv, ok := info.Types[a]; ok && tv.Type != nil && typeIsNamed(tv.Type, "compiler/protogen", "Message") {
							argIsMessage = true
						}
					}
					if mapArm && argIsMessage && !tested {
						// a map VALUE FIELD is never a map, so a call on the value field cannot take the map arm again;
						// a call on the value's MESSAGE can (its own fields may be maps) unless the function tests a visited set at entry
						st.class = "unguarded: the map arm recurses on the value's message (whose fields may again be maps) and the function keeps no visited set"
					} else if mapArm {
						st.class = "map-arm"
					} else if cs.Callee != f && c.entryGuarded(cs.Callee, inSCC) {
						st.class = "visited: callee " + cs.Callee.Name() + " tests and marks its visited set before recursing"
					} else if tested && len(ins) > 0 {
						dominated := false
						for _, ip := range ins {
							if !reachAvoiding(decl.Body, cs.Call.Pos(), ip) {
								dominated = true
							}
						}
						if dominated {
							st.class = "visited:" + vdesc
						} else {
							st.class = "unguarded: the visited-set insertion " + vdesc + " does not precede the recursive call on every path"
						}
					} else {
						st.class = "unguarded: recursion along a message reference without a visited set"
					}
				}
				// a visited set protects only if the SAME set travels along the cycle
				if st.class == "map-arm" || strings.HasPrefix(st.class, "visited") {
					for _, a := range cs.Call.Args {
						tv, ok := info.Types[a]
						if !ok || tv.Type == nil {
							continue
						}
						if _, isMap := tv.Type.Underlying().(*types.Map); !isMap {
							continue
						}
						switch x := ast.Unparen(a).(type) {
						case *ast.CompositeLit:
							st.class = "unguarded: a fresh (empty) visited set " + types.ExprString(x) + " is passed to the recursive call, so the callee's entry test never fires"
						case *ast.CallExpr:
							if id, ok := x.Fun.(*ast.Ident); ok && id.Name == "make" {
								st.class = "unguarded: a fresh visited set (make) is passed to the recursive call, so the callee's entry test never fires"
							}
						}
					}
				}
				sites = append(sites, st)
			}
		}
		// map-arm sites are sound only if every other reference site is visited-guarded
		for _, st := range sites {
			ok := st.class == "containment" || strings.HasPrefix(st.class, "visited:") || st.class == "map-arm"
			key := fmt.Sprintf("%s -> recursive call with %s", FuncName(st.fn), st.arg)
			if st.class == "map-arm" {
				for _, o := range sites {
					if strings.HasPrefix(o.class, "unguarded") {
						ok = false
					}
				}
			}
			r.CheckD(ok, "R16a", key, c.P.Pos(st.call.Pos()),
				"recursion is not well-founded on cyclic message graphs (message A { A next = 1; }): "+st.class, map[string]any{"class": st.class})
		}
	}

	// ---- R16b, R16c-panic, R16c-index per package
	for _, pk := range c.genPkgs() {
		info := pk.TypesInfo
		rel := strings.TrimPrefix(pk.PkgPath, modPath+"/")
		nFor, nRange := 0, 0
		for _, f := range pk.Syntax {
			for _, d := range f.Decls {
				fd, ok := d.(*ast.FuncDecl)
				if !ok || fd.Body == nil {
					continue
				}
				parents := parentMap(fd.Body)
				ast.Inspect(fd.Body, func(n ast.Node) bool {
					switch x := n.(type) {
					case *ast.RangeStmt:
						nRange++
					case *ast.ForStmt:
						nFor++
						bounded := false
						if x.Cond != nil && x.Post != nil {
							if be, ok := x.Cond.(*ast.BinaryExpr); ok && (be.Op == token.LSS || be.Op == token.LEQ || be.Op == token.GTR || be.Op == token.GEQ || be.Op == token.NEQ) {
								if _, ok := x.Post.(*ast.IncDecStmt); ok {
									bounded = true
								}
							}
						}
						if !bounded && consumingLoop(pk.TypesInfo, x) {
							bounded = true // every full iteration drops at least one element of a string or slice
						}
						r.Check(bounded, "R16b", c.enclosingFunc(pk, x.Pos())+" for-loop", c.P.Pos(x.Pos()), "loop without a range clause or a monotone induction bound")
					case *ast.CallExpr:
						name := ""
						if id, ok := x.Fun.(*ast.Ident); ok && id.Name == "panic" {
							if _, isB := info.ObjectOf(id).(*types.Builtin); isB {
								name = "panic"
							}
						}
						if cal := Callee(info, x); cal != nil && cal.Pkg() != nil {
							if cal.Pkg().Path() == "log" && (strings.HasPrefix(cal.Name(), "Fatal") || strings.HasPrefix(cal.Name(), "Panic")) {
								name = "log." + cal.Name()
							}
							if cal.Pkg().Path() == "os" && cal.Name() == "Exit" {
								name = "os.Exit"
							}
						}
						if name != "" {
							where := c.enclosingFunc(pk, x.Pos())
							_, acc := panicAccepted[where]
							arg := ""
							if len(x.Args) > 0 {
								arg = types.ExprString(x.Args[0])
							}
							r.CheckD(acc, "R16c-panic", fmt.Sprintf("%s %s(%s)", where, name, arg), c.P.Pos(x.Pos()),
								"the plugin crashes instead of answering with CodeGeneratorResponse.error", map[string]any{"accepted_because": panicAccepted[where]})
						}
					case *ast.SelectorExpr:
						// descriptor lookups by name/number return nil when nothing matches: a method called on the result
						// without a nil test panics for a name that does not exist (a path variable with no matching field)
						if inner, ok := ast.Unparen(x.X).(*ast.CallExpr); ok {
							if isel, ok := inner.Fun.(*ast.SelectorExpr); ok {
								switch isel.Sel.Name {
								case "ByName", "ByNumber", "ByJSONName", "ByTextName":
									if tv, ok := info.Types[inner]; ok && tv.Type != nil && strings.Contains(tv.Type.String(), "protoreflect.") {
										key := fmt.Sprintf("%s calls .%s on the result of %s(…) without a nil test", c.enclosingFunc(pk, x.Pos()), x.Sel.Name, isel.Sel.Name)
										r.Bad("R16c-nil", key, c.P.Pos(x.Pos()), "a protoreflect lookup returns nil when no element has that name or number; the chained call dereferences it: a definition that names a non-existing field (accepted by this plugin) crashes the plugin instead of being answered", nil)
									}
								}
							}
						}
					case *ast.SliceExpr:
						// x[:v] / x[v+1:] where v is the result of a search (strings.Index…): -1 when nothing is found
						for _, be := range []ast.Expr{x.Low, x.High, x.Max} {
							if be == nil {
								continue
							}
							ast.Inspect(be, func(m ast.Node) bool {
								id, ok := m.(*ast.Ident)
								if !ok {
									return true
								}
								def := localDef(info, fd.Body, id)
								call, ok := def.(*ast.CallExpr)
								if !ok {
									return true
								}
								cal := Callee(info, call)
								if cal == nil || cal.Pkg() == nil || !searchFuncs[cal.Pkg().Path()+"."+cal.Name()] {
									return true
								}
								guard := findSignGuard(parents, x, id.Name)
								key := fmt.Sprintf("%s %s sliced at the position found by %s.%s", c.enclosingFunc(pk, x.Pos()), types.ExprString(x.X), cal.Pkg().Name(), cal.Name())
								r.CheckD(guard != "", "R16c-index", key, c.P.Pos(x.Pos()), fmt.Sprintf("%s is the result of %s.%s, which is -1 when nothing is found, and is used as a slice bound without a dominating test of its sign: an input without the searched character makes the plugin panic with `slice bounds out of range` instead of answering", id.Name, cal.Pkg().Name(), cal.Name()), map[string]any{"guard": guard})
								return true
							})
						}
						// x[:k] / x[k:] with a constant k > 0 on a string or slice: needs a length guard
						xt, ok := info.Types[x.X]
						if !ok {
							return true
						}
						isStr := false
						if b, ok := xt.Type.Underlying().(*types.Basic); ok && b.Info()&types.IsString != 0 {
							isStr = true
						}
						if _, isSlice := xt.Type.Underlying().(*types.Slice); !isSlice && !isStr {
							return true
						}
						bound := ""
						for _, be := range []ast.Expr{x.Low, x.High} {
							if be == nil {
								continue
							}
							if tv, ok := info.Types[be]; ok && tv.Value != nil && tv.Value.ExactString() != "0" {
								bound = tv.Value.ExactString()
							}
						}
						if bound == "" {
							return true
						}
						base := types.ExprString(x.X)
						guard := c.findLenGuard(info, parents, x, base, bound)
						key := fmt.Sprintf("%s %s sliced at %s", c.enclosingFunc(pk, x.Pos()), base, bound)
						r.CheckD(guard != "", "R16c-index", key, c.P.Pos(x.Pos()), "a string/slice is cut at a constant bound without a dominating length or emptiness guard: an empty element (a name segment such as the one after a trailing underscore) makes the plugin panic with `slice bounds out of range` instead of answering", map[string]any{"guard": guard})
					case *ast.IndexExpr:
						// constant index into a slice (not a map, not a type instantiation)
						tv, ok := info.Types[x.Index]
						if !ok || tv.Value == nil {
							return true
						}
						xt, ok := info.Types[x.X]
						if !ok {
							return true
						}
						if _, isSlice := xt.Type.Underlying().(*types.Slice); !isSlice {
							return true
						}
						base := types.ExprString(x.X)
						guard := c.findLenGuard(info, parents, x, base, tv.Value.ExactString())
						key := fmt.Sprintf("%s %s[%s]", c.enclosingFunc(pk, x.Pos()), base, tv.Value.ExactString())
						if guard == "" {
							if why, ok := indexExceptions[key]; ok {
								guard = "table: " + why
							}
						}
						if guard == "" && fd != nil && fd.Body != nil {
							if idx, exact := constant.Int64Val(tv.Value); exact {
								guard = c.submatchGuard(pk, info, fd.Body, x.X, int(idx))
							}
						}
						r.CheckD(guard != "", "R16c-index", key, c.P.Pos(x.Pos()), "constant index without a dominating length guard: a descriptor with fewer elements crashes the plugin", map[string]any{"guard": guard})
					}
					return true
				})
			}
		}
		r.OKd("R16b", "package "+rel+" loops", "", map[string]any{"range_loops": nRange, "for_loops": nFor})

		// ---- R16c-nil
		witness := c.witnessFields()
		for _, s := range c.DerefSites(pk) {
			guard := s.Guard
			fnName := "?"
			if s.Fn != nil {
				fnName = s.Fn.Name()
			}
			key := fmt.Sprintf("%s dereferences %s.%s", FuncName(s.Fn), s.Base, s.Link)
			if guard == "" {
				guard = c.witnessGuard(pk, s, witness)
			}
			if guard == "" {
				guard = c.callerGuard(pk, s, 0)
			}
			if guard == "" {
				if why, ok := nilGuardExceptions[fnName+" "+s.Base+"."+s.Link]; ok {
					guard = "table: " + why
				}
			}
			r.CheckD(guard != "", "R16c-nil", key, c.P.Pos(s.Expr.Pos()),
				fmt.Sprintf("%s.%s may be nil here (scalar field / field outside a oneof): nil pointer dereference crashes the plugin", s.Base, s.Link), map[string]any{"guard": guard})
		}
	}
}

func isRepoGenPkg(f *types.Func) bool {
	if f.Pkg() == nil {
		return false
	}
	rel := strings.TrimPrefix(f.Pkg().Path(), modPath+"/")
	return strings.HasPrefix(rel, "internal/") || strings.HasPrefix(rel, "cmd/")
}

var indexExceptions = map[string]string{
	"tscommon.RootUnwrapTSType msg.Fields[0]":                                     "callers test annotations.IsRootUnwrap(msg) first (len(Fields) == 1)",
	"httpgen.(*Generator).generateMockMapFieldAssignment field.Message.Fields[0]": "called only for map fields: a map entry message has exactly two fields",
	"httpgen.(*Generator).generateMockMapFieldAssignment field.Message.Fields[1]": "called only for map fields: a map entry message has exactly two fields",
}

// findLenGuard: dominating guard for X[idx]: len(X) compared, IsMap() for
// <f>.Message.Fields, loop over regexp submatches, …
func (c *Ctx) findLenGuard(info *types.Info, parents map[ast.Node]ast.Node, at ast.Node, base, idx string) string {
	mentionsLen := func(cond ast.Expr) bool {
		found := false
		ast.Inspect(cond, func(n ast.Node) bool {
			if call, ok := n.(*ast.CallExpr); ok {
				if id, ok := call.Fun.(*ast.Ident); ok && id.Name == "len" && len(call.Args) == 1 && types.ExprString(call.Args[0]) == base {
					found = true
				}
			}
			// emptiness test of a string: x == "" / x != ""
			if be, ok := n.(*ast.BinaryExpr); ok && (be.Op == token.EQL || be.Op == token.NEQ) {
				if types.ExprString(be.X) == base && types.ExprString(be.Y) == `""` {
					found = true
				}
			}
			return true
		})
		return found
	}
	isMapGuard := func(cond ast.Expr) bool {
		// base = <f>.Message.Fields  guarded by <f>.Desc.IsMap()
		if !strings.HasSuffix(base, ".Message.Fields") {
			return false
		}
		f := strings.TrimSuffix(base, ".Message.Fields")
		found := false
		ast.Inspect(cond, func(n ast.Node) bool {
			if e, ok := n.(ast.Expr); ok && types.ExprString(e) == f+".Desc.IsMap()" {
				found = true
			}
			return true
		})
		return found
	}
	var child ast.Node = at
	for p := parents[at]; p != nil; child, p = p, parents[p] {
		switch x := p.(type) {
		case *ast.IfStmt:
			if x.Body == child && (mentionsLen(x.Cond) || isMapGuard(x.Cond)) {
				return "if: " + types.ExprString(x.Cond)
			}
			if x.Init != nil && x.Body == child {
				if as, ok := x.Init.(*ast.AssignStmt); ok && len(as.Lhs) == 1 && types.ExprString(as.Lhs[0]) == base && mentionsLen(x.Cond) {
					return "if-init: " + types.ExprString(x.Cond)
				}
			}
		case *ast.BlockStmt:
			for _, st := range x.List {
				if st == child || st.Pos() >= child.Pos() {
					break
				}
				if ifs, ok := st.(*ast.IfStmt); ok && terminates(ifs.Body) && (mentionsLen(ifs.Cond)) {
					return "early exit: " + types.ExprString(ifs.Cond)
				}
				if ifs, ok := st.(*ast.IfStmt); ok && terminates(ifs.Body) {
					if un, ok := ast.Unparen(ifs.Cond).(*ast.UnaryExpr); ok && un.Op == token.NOT && isMapGuard(un.X) {
						return "early exit: " + types.ExprString(ifs.Cond)
					}
				}
			}
		case *ast.CaseClause:
			// a later arm of a tagless switch runs only when every earlier arm's condition was false:
			// `switch { case part == "": … default: part[:1] }`
			if sw, ok := parents[parents[p]].(*ast.SwitchStmt); ok && sw.Tag == nil {
				for _, st := range sw.Body.List {
					cc := st.(*ast.CaseClause)
					if cc == x {
						break
					}
					for _, e := range cc.List {
						if mentionsLen(e) {
							return "earlier switch arm: " + types.ExprString(e)
						}
					}
				}
			}
		case *ast.FuncLit, *ast.FuncDecl:
			return ""
		}
	}
	return ""
}

type witnessKey struct{ structName, boolField string }

// witnessFields: struct types that carry a *protogen.Field F together with a
// bool B constructed as `F.Message != nil` (annotations.OneofVariant.IsMessage).
func (c *Ctx) witnessFields() map[witnessKey]string {
	out := map[witnessKey]string{}
	for _, pk := range c.genPkgs() {
		info := pk.TypesInfo
		for _, f := range pk.Syntax {
			ast.Inspect(f, func(n ast.Node) bool {
				cl, ok := n.(*ast.CompositeLit)
				if !ok {
					return true
				}
				tv, ok := info.Types[cl]
				if !ok {
					return true
				}
				named, ok := tv.Type.(*types.Named)
				if !ok {
					return true
				}
				fieldOf := map[string]string{}
				for _, el := range cl.Elts {
					if kv, ok := el.(*ast.KeyValueExpr); ok {
						if id, ok := kv.Key.(*ast.Ident); ok {
							fieldOf[id.Name] = types.ExprString(kv.Value)
						}
					}
				}
				for bname, bexpr := range fieldOf {
					if strings.HasSuffix(bexpr, ".Message != nil") {
						src := strings.TrimSuffix(bexpr, ".Message != nil")
						for fname, fexpr := range fieldOf {
							if fexpr == src {
								out[witnessKey{named.Obj().Name(), bname}] = fname
							}
						}
					}
				}
				return true
			})
		}
	}
	return out
}

// witnessGuard: the site's base is V.<F> and an enclosing condition tests V.<B>.
func (c *Ctx) witnessGuard(pk *packages.Package, s derefSite, witness map[witnessKey]string) string {
	if s.Link != "Message" || s.Fn == nil {
		return ""
	}
	info := pk.TypesInfo
	sel, ok := ast.Unparen(s.Expr.X).(*ast.SelectorExpr) // V.F
	if !ok {
		return ""
	}
	vt, ok := info.Types[sel.X]
	if !ok {
		return ""
	}
	decl := c.P.Decls[s.Fn]
	if decl == nil {
		return ""
	}
	return witnessGuardAt(parentMap(decl.Body), s.Expr, types.ExprString(sel.X), vt.Type, sel.Sel.Name, witness)
}

func witnessGuardAt(parents map[ast.Node]ast.Node, at ast.Node, v string, vtype types.Type, fieldName string, witness map[witnessKey]string) string {
	t := vtype
	if pt, ok := t.(*types.Pointer); ok {
		t = pt.Elem()
	}
	named, ok := t.(*types.Named)
	if !ok {
		return ""
	}
	for wk, f := range witness {
		if wk.structName != named.Obj().Name() || f != fieldName {
			continue
		}
		want := v + "." + wk.boolField
		conj := func(cond ast.Expr) bool {
			found := false
			var walk func(e ast.Expr)
			walk = func(e ast.Expr) {
				e = ast.Unparen(e)
				if be, ok := e.(*ast.BinaryExpr); ok && be.Op == token.LAND {
					walk(be.X)
					walk(be.Y)
					return
				}
				if types.ExprString(e) == want {
					found = true
				}
			}
			walk(cond)
			return found
		}
		var child ast.Node = at
		for p := parents[at]; p != nil; child, p = p, parents[p] {
			switch x := p.(type) {
			case *ast.IfStmt:
				if x.Body == child && conj(x.Cond) {
					return "witness: " + want
				}
			case *ast.CaseClause:
				for _, ce := range x.List {
					if conj(ce) {
						return "witness case: " + want
					}
				}
			}
		}
	}
	return ""
}

// callerGuard: the base is rooted at a parameter; every call site of the
// function passes an argument for which the caller establishes the link.
func (c *Ctx) callerGuard(pk *packages.Package, s derefSite, depth int) string {
	if s.Fn == nil || depth > 1 {
		return ""
	}
	decl := c.P.Decls[s.Fn]
	if decl == nil {
		return ""
	}
	// parameter name and index
	root := s.Base
	rest := ""
	if i := strings.Index(root, "."); i >= 0 {
		root, rest = s.Base[:i], s.Base[i:]
	}
	pi, i := -1, 0
	for _, f := range decl.Type.Params.List {
		for _, n := range f.Names {
			if n.Name == root {
				pi = i
			}
			i++
		}
	}
	if pi < 0 {
		return ""
	}
	nSites := 0
	for caller, cdecl := range c.P.Decls {
		if cdecl.Body == nil {
			continue
		}
		cinfo := c.P.DeclPkg[caller].TypesInfo
		var parents map[ast.Node]ast.Node
		ok := true
		ast.Inspect(cdecl.Body, func(n ast.Node) bool {
			call, isCall := n.(*ast.CallExpr)
			if !isCall || Callee(cinfo, call) != s.Fn || pi >= len(call.Args) {
				return true
			}
			nSites++
			if parents == nil {
				parents = parentMap(cdecl.Body)
			}
			abase := types.ExprString(ast.Unparen(call.Args[pi])) + rest
			g := c.findGuard(cinfo, parents, call, abase, s.Link)
			if g == "" && s.Link == "Message" && strings.Count(rest, ".") == 1 {
				// witness at the caller: argument V with rest ".F"
				if tv, okT := cinfo.Types[call.Args[pi]]; okT {
					g = witnessGuardAt(parents, call, types.ExprString(ast.Unparen(call.Args[pi])), tv.Type, strings.TrimPrefix(rest, "."), c.witnessFields())
				}
			}
			if g == "" {
				ok = false
			}
			return true
		})
		if !ok {
			return ""
		}
	}
	if nSites == 0 {
		return ""
	}
	return fmt.Sprintf("guarded at all %d call sites", nSites)
}

// searchFuncs return -1 when nothing is found.
var searchFuncs = map[string]bool{}

func init() {
	for _, p := range []string{"strings", "bytes"} {
		for _, n := range []string{"Index", "IndexByte", "IndexRune", "IndexAny", "IndexFunc", "LastIndex", "LastIndexByte", "LastIndexAny", "LastIndexFunc"} {
			searchFuncs[p+"."+n] = true
		}
	}
	searchFuncs["slices.Index"], searchFuncs["slices.IndexFunc"] = true, true
}

// findSignGuard: the use `at` of the search result v is dominated by a test that excludes v < 0:
// it sits in the body of `if v >= 0 / v > 0 / v != -1 / v > -1 (&& …)`, in the else arm of
// `if v < 0 / v == -1 / v <= -1`, or after such an `if` whose body terminates.
func findSignGuard(parents map[ast.Node]ast.Node, at ast.Node, v string) string {
	cmp := func(cond ast.Expr, positive bool) bool {
		found := false
		var walk func(e ast.Expr)
		walk = func(e ast.Expr) {
			e = ast.Unparen(e)
			be, ok := e.(*ast.BinaryExpr)
			if !ok {
				return
			}
			if positive && be.Op == token.LAND || !positive && be.Op == token.LOR {
				walk(be.X)
				walk(be.Y)
				return
			}
			if types.ExprString(be.X) != v {
				return
			}
			y := types.ExprString(be.Y)
			if positive {
				switch {
				case be.Op == token.GEQ && y == "0", be.Op == token.GTR && (y == "0" || y == "-1"), be.Op == token.NEQ && y == "-1":
					found = true
				}
			} else {
				switch {
				case be.Op == token.LSS && y == "0", be.Op == token.EQL && y == "-1", be.Op == token.LEQ && (y == "-1" || y == "0"):
					found = true
				}
			}
		}
		walk(cond)
		return found
	}
	var child ast.Node = at
	for p := parents[at]; p != nil; child, p = p, parents[p] {
		switch x := p.(type) {
		case *ast.IfStmt:
			if x.Body == child && cmp(x.Cond, true) {
				return "if: " + types.ExprString(x.Cond)
			}
			if x.Else == child && cmp(x.Cond, false) {
				return "else of: " + types.ExprString(x.Cond)
			}
		case *ast.BlockStmt:
			for _, st := range x.List {
				if st == child || st.Pos() >= child.Pos() {
					break
				}
				if ifs, ok := st.(*ast.IfStmt); ok && terminates(ifs.Body) && cmp(ifs.Cond, false) {
					return "early exit: " + types.ExprString(ifs.Cond)
				}
			}
		case *ast.FuncLit, *ast.FuncDecl:
			return ""
		}
	}
	return ""
}

// visitedKeysInjective: the key of every visited set that guards a recursion along
// message references identifies ONE message: it is derived from Desc.FullName()
// (or the map is keyed by the descriptor pointer). A coarser key (short name,
// GoName) still terminates, but two different messages with the same short name
// are conflated: the second is silently skipped.
func visitedKeysInjective(c *Ctx, rid string, only func(fn *types.Func) bool) {
	r := c.R
	n := 0
	for _, comp := range c.sccs() {
		if !isRepoGenPkg(comp[0]) {
			continue
		}
		for _, f := range comp {
			if only != nil && !only(f) {
				continue
			}
			tested, ins, vdesc := c.visitedGuard(f)
			if !tested || len(ins) == 0 {
				continue
			}
			decl := c.P.Decls[f]
			info := c.P.DeclPkg[f].TypesInfo
			// the key expression of the insertion
			var keyExpr ast.Expr
			var mapType types.Type
			ast.Inspect(decl.Body, func(nd ast.Node) bool {
				as, ok := nd.(*ast.AssignStmt)
				if !ok {
					return true
				}
				for _, l := range as.Lhs {
					if ix, ok := ast.Unparen(l).(*ast.IndexExpr); ok && types.ExprString(ix.X)+"["+types.ExprString(ix.Index)+"]" == vdesc {
						keyExpr = ix.Index
						if tv, ok := info.Types[ix.X]; ok {
							mapType = tv.Type
						}
					}
				}
				return true
			})
			if keyExpr == nil {
				continue
			}
			n++
			src := ast.Unparen(keyExpr)
			if id, ok := src.(*ast.Ident); ok {
				if d := localDef(info, decl.Body, id); d != nil {
					src = ast.Unparen(d)
				}
			}
			text := types.ExprString(src)
			ok := strings.Contains(text, ".FullName()")
			if m, isMap := mapType.Underlying().(*types.Map); isMap {
				if _, isPtr := m.Key().Underlying().(*types.Pointer); isPtr {
					ok = true
				}
			}
			r.Check(ok, rid, FuncName(f)+": visited set "+vdesc+" is keyed by the message's full name", c.P.Pos(keyExpr.Pos()),
				fmt.Sprintf("%s guards its recursion with %s where the key is %s: two different messages with the same short name (pkg.a.Item and pkg.b.Item, or a nested Outer.Item beside a top-level Item) share one key, so the second one is treated as already visited and skipped", FuncName(f), vdesc, text))
		}
	}
	r.Count("visited sets whose key was classified", n)
}

// visitedUnmarkAfterMark: a path-scoped visited set is unmarked only by the activation that marked it: a
// `defer delete(visited, key)` (or a plain delete) registered ahead of the entry test also runs when the test
// finds the key and returns — it removes the ANCESTOR's mark, and a message with two references to itself is
// expanded without bound.
func visitedUnmarkAfterMark(c *Ctx, rid string) {
	r := c.R
	n := 0
	for _, comp := range c.sccs() {
		if !isRepoGenPkg(comp[0]) {
			continue
		}
		for _, f := range comp {
			tested, ins, vdesc := c.visitedGuard(f)
			if !tested || len(ins) == 0 {
				continue
			}
			decl := c.P.Decls[f]
			mapName := vdesc[:strings.Index(vdesc, "[")]
			first := ins[0]
			for _, p := range ins {
				if p < first {
					first = p
				}
			}
			ast.Inspect(decl.Body, func(nd ast.Node) bool {
				call, ok := nd.(*ast.CallExpr)
				if !ok {
					return true
				}
				id, ok := call.Fun.(*ast.Ident)
				if !ok || id.Name != "delete" || len(call.Args) != 2 || types.ExprString(call.Args[0]) != mapName {
					return true
				}
				n++
				r.Check(call.Pos() > first, rid, FuncName(f)+": the visited mark "+vdesc+" is removed only after it was set", c.P.Pos(call.Pos()),
					fmt.Sprintf("%s removes %s (at %s) ahead of the statement that sets it: when the entry test finds the key and returns, the removal still runs and deletes the mark of the activation further up the stack, so the recursion is no longer bounded for a message that refers to itself twice", FuncName(f), vdesc, c.P.Pos(call.Pos())))
				return true
			})
		}
	}
	r.Count("visited-set removals checked", n)
}

// submatchGuard: base is the element variable of a range over the result of (*regexp.Regexp).FindAll[String]Submatch
// on a package-level regexp compiled from a constant pattern. Every element of that result is one match with
// exactly 1+NumSubexp entries, so a constant index up to the number of capture groups cannot be out of range.
// (The pattern is parsed by the checker; nothing of the repository runs.)
func (c *Ctx) submatchGuard(pk *packages.Package, info *types.Info, body *ast.BlockStmt, base ast.Expr, idx int) string {
	id, ok := ast.Unparen(base).(*ast.Ident)
	if !ok {
		return ""
	}
	obj := info.ObjectOf(id)
	var ranged ast.Expr
	ast.Inspect(body, func(n ast.Node) bool {
		if rs, ok := n.(*ast.RangeStmt); ok {
			if v, ok := rs.Value.(*ast.Ident); ok && info.ObjectOf(v) == obj {
				ranged = rs.X
			}
		}
		return true
	})
	if ranged == nil {
		return ""
	}
	call, _ := ast.Unparen(ranged).(*ast.CallExpr)
	if call == nil {
		if rid, ok := ast.Unparen(ranged).(*ast.Ident); ok {
			call, _ = localDef(info, body, rid).(*ast.CallExpr)
		}
	}
	if call == nil {
		return ""
	}
	cal := Callee(info, call)
	if cal == nil || cal.Pkg() == nil || cal.Pkg().Path() != "regexp" || (cal.Name() != "FindAllStringSubmatch" && cal.Name() != "FindAllSubmatch") {
		return ""
	}
	sel, ok := call.Fun.(*ast.SelectorExpr)
	if !ok {
		return ""
	}
	var reObj types.Object
	switch x := ast.Unparen(sel.X).(type) {
	case *ast.Ident:
		reObj = info.ObjectOf(x)
	case *ast.SelectorExpr:
		reObj = info.ObjectOf(x.Sel)
	}
	rv, ok := reObj.(*types.Var)
	if !ok || rv.Pkg() == nil || rv.Parent() != rv.Pkg().Scope() {
		return ""
	}
	init, ipk := c.W.pkgVarInit(rv)
	if init == nil {
		return ""
	}
	icall, ok := ast.Unparen(init).(*ast.CallExpr)
	if !ok || len(icall.Args) != 1 {
		return ""
	}
	ical := Callee(ipk.TypesInfo, icall)
	if ical == nil || ical.Pkg() == nil || ical.Pkg().Path() != "regexp" || (ical.Name() != "MustCompile" && ical.Name() != "MustCompilePOSIX") {
		return ""
	}
	tv, ok := ipk.TypesInfo.Types[icall.Args[0]]
	if !ok || tv.Value == nil || tv.Value.Kind() != constant.String {
		return ""
	}
	re, err := regexp.Compile(constant.StringVal(tv.Value))
	if err != nil || idx > re.NumSubexp() {
		return ""
	}
	return fmt.Sprintf("element of %s.%s on %s (%d capture groups): every match has %d entries", "regexp", cal.Name(), rv.Name(), re.NumSubexp(), re.NumSubexp()+1)
}

// errPairedValueUse — R16c-errpair. For `x, err := f(…)` with x a pointer (or interface / map / slice / func) and err an
// error, Go's convention is that x is meaningless (nil) when err != nil. On the go/cfg graph of the function, every path is
// followed from the assignment; passing the true arm of `err != nil` (false arm of `err == nil`) makes the error known
// non-nil, the other arm known nil; a path ends where err or x is assigned again. A dereferencing use of x (method call,
// field selection, *x, index) reached while the error is known non-nil is a crash on exactly the requests the error reports —
// for the plugins' main functions that is a panic instead of an error response.
func errPairedValueUse(c *Ctx, rid string) {
	r := c.R
	n := 0
	for fn, decl := range c.P.Decls {
		if decl.Body == nil || !isRepoGenPkg(fn) && !strings.Contains(fn.Pkg().Path(), "/cmd/") {
			continue
		}
		if strings.HasSuffix(c.P.Pos(decl.Pos()), "_test.go") || strings.Contains(c.P.Pos(decl.Pos()), "_test.go:") {
			continue
		}
		info := c.P.DeclPkg[fn].TypesInfo
		type pair struct {
			x, err types.Object
			as    *ast.AssignStmt
		}
		var pairs []pair
		ast.Inspect(decl.Body, func(nd ast.Node) bool {
			if _, isLit := nd.(*ast.FuncLit); isLit {
				return false
			}
			as, ok := nd.(*ast.AssignStmt)
			if !ok || len(as.Lhs) != 2 || len(as.Rhs) != 1 {
				return true
			}
			if _, isCall := ast.Unparen(as.Rhs[0]).(*ast.CallExpr); !isCall {
				return true
			}
			xi, ok1 := as.Lhs[0].(*ast.Ident)
			ei, ok2 := as.Lhs[1].(*ast.Ident)
			if !ok1 || !ok2 || xi.Name == "_" || ei.Name == "_" {
				return true
			}
			xo, eo := info.ObjectOf(xi), info.ObjectOf(ei)
			if xo == nil || eo == nil || !isErrorType(eo.Type()) {
				return true
			}
			switch xo.Type().Underlying().(type) {
			case *types.Pointer, *types.Interface, *types.Map, *types.Signature:
				pairs = append(pairs, pair{xo, eo, as})
			}
			return true
		})
		if len(pairs) == 0 {
			continue
		}
		g := buildCFG(decl.Body)
		for _, p := range pairs {
			n++
			// block and index of the assignment
			var start *cfg.Block
			startIdx := -1
			for _, b := range g.Blocks {
				for i, nd := range b.Nodes {
					if nd == ast.Node(p.as) {
						start, startIdx = b, i
					}
				}
			}
			if start == nil {
				continue // assignment in an init clause etc.: go/cfg keeps it as a node; if not found, not decided here
			}
			// does node assign x or err?
			reassigns := func(nd ast.Node) bool {
				hit := false
				ast.Inspect(nd, func(m ast.Node) bool {
					if as, ok := m.(*ast.AssignStmt); ok {
						for _, l := range as.Lhs {
							if id, ok := l.(*ast.Ident); ok {
								if o := info.ObjectOf(id); o == p.x || o == p.err {
									hit = true
								}
							}
						}
					}
					return !hit
				})
				return hit
			}
			derefUse := func(nd ast.Node) ast.Node {
				var at ast.Node
				ast.Inspect(nd, func(m ast.Node) bool {
					if at != nil {
						return false
					}
					if _, isLit := m.(*ast.FuncLit); isLit {
						return false
					}
					var base ast.Expr
					switch x := m.(type) {
					case *ast.SelectorExpr:
						base = x.X
					case *ast.StarExpr:
						base = x.X
					case *ast.IndexExpr:
						base = x.X
					}
					if id, ok := ast.Unparen(base).(*ast.Ident); base != nil && ok && info.ObjectOf(id) == p.x {
						if _, isPtr := p.x.Type().Underlying().(*types.Pointer); isPtr {
							at = m
						} else if _, isIface := p.x.Type().Underlying().(*types.Interface); isIface {
							at = m
						}
					}
					return true
				})
				return at
			}
			// condition classification: +1 cond true means err != nil, -1 cond true means err == nil, 0 unrelated
			condKind := func(e ast.Expr) int {
				be, ok := ast.Unparen(e).(*ast.BinaryExpr)
				if !ok || (be.Op != token.NEQ && be.Op != token.EQL) {
					return 0
				}
				var other ast.Expr
				if id, ok := ast.Unparen(be.X).(*ast.Ident); ok && info.ObjectOf(id) == p.err {
					other = be.Y
				} else if id, ok := ast.Unparen(be.Y).(*ast.Ident); ok && info.ObjectOf(id) == p.err {
					other = be.X
				}
				if other == nil || !isNilIdent(other) {
					return 0
				}
				if be.Op == token.NEQ {
					return 1
				}
				return -1
			}
			type st struct {
				b     *cfg.Block
				state int // 0 unknown, 1 err non-nil, -1 err nil
			}
			seen := map[st]bool{}
			var bad ast.Node
			var walk func(b *cfg.Block, from int, state int)
			walk = func(b *cfg.Block, from int, state int) {
				if bad != nil {
					return
				}
				if from == 0 {
					k := st{b, state}
					if seen[k] {
						return
					}
					seen[k] = true
				}
				for i := from; i < len(b.Nodes); i++ {
					nd := b.Nodes[i]
					if state == 1 {
						if u := derefUse(nd); u != nil {
							bad = u
							return
						}
					}
					if reassigns(nd) {
						return
					}
				}
				if len(b.Succs) == 2 && len(b.Nodes) > 0 {
					if cond, ok := b.Nodes[len(b.Nodes)-1].(ast.Expr); ok {
						switch condKind(cond) {
						case 1:
							if state != -1 {
								walk(b.Succs[0], 0, 1)
							}
							if state != 1 {
								walk(b.Succs[1], 0, -1)
							}
							return
						case -1:
							if state != 1 {
								walk(b.Succs[0], 0, -1)
							}
							if state != -1 {
								walk(b.Succs[1], 0, 1)
							}
							return
						}
					}
				}
				for _, s := range b.Succs {
					walk(s, 0, state)
				}
			}
			walk(start, startIdx+1, 0)
			key := fmt.Sprintf("%s: %s is not dereferenced where its error is non-nil", FuncName(fn), p.x.Name())
			if bad != nil {
				r.Bad(rid, key, c.P.Pos(bad.Pos()), fmt.Sprintf("%s uses %s (%s) on a path on which the error returned together with it (%s, assigned at %s) is known to be non-nil: the value is nil there, so the plugin crashes with a nil dereference instead of answering with the error", FuncName(fn), p.x.Name(), types.ExprString(bad.(ast.Expr)), p.err.Name(), c.P.Pos(p.as.Pos())), nil)
			} else {
				r.OK(rid, key, c.P.Pos(p.as.Pos()))
			}
		}
	}
	if n == 0 {
		r.Unres(rid, "value/error pairs in generator packages", "", "none found")
	}
}

// stdoutDiscipline — R16g. protoc reads the plugin's standard output as one CodeGeneratorResponse. A diagnostic printed
// there (fmt.Printf of a warning) prefixes the response bytes: the plugin exits 0 but its answer does not parse — neither
// files nor an error. Allowed: os.Stdout.Write(<marshalled response>) in package main (protogen's Run does the same), and
// any writer other than standard output (os.Stderr).
func stdoutDiscipline(c *Ctx, rid string) {
	r := c.R
	n, nAllowed := 0, 0
	for fn, decl := range c.P.Decls {
		if decl.Body == nil || !isRepoGenPkg(fn) || strings.Contains(c.P.Pos(decl.Pos()), "_test.go") {
			continue
		}
		info := c.P.DeclPkg[fn].TypesInfo
		inMain := strings.Contains(fn.Pkg().Path(), "/cmd/")
		ast.Inspect(decl.Body, func(nd ast.Node) bool {
			switch x := nd.(type) {
			case *ast.CallExpr:
				if id, ok := x.Fun.(*ast.Ident); ok && (id.Name == "print" || id.Name == "println") {
					if _, isB := info.ObjectOf(id).(*types.Builtin); isB {
						return true // builtin print writes to stderr
					}
				}
				cal := Callee(info, x)
				if cal == nil || cal.Pkg() == nil {
					return true
				}
				if cal.Pkg().Path() == "fmt" && (cal.Name() == "Print" || cal.Name() == "Printf" || cal.Name() == "Println") {
					n++
					r.Bad(rid, FuncName(fn)+" prints to standard output with fmt."+cal.Name(), c.P.Pos(x.Pos()),
						FuncName(fn)+" calls fmt."+cal.Name()+": standard output is the plugin's response channel, so the text precedes the encoded CodeGeneratorResponse and protoc can parse neither files nor an error out of it", nil)
				}
			case *ast.SelectorExpr:
				if v, ok := info.Uses[x.Sel].(*types.Var); ok && v.Pkg() != nil && v.Pkg().Path() == "os" && v.Name() == "Stdout" {
					n++
					if inMain {
						nAllowed++
						return true // the response writer of the plugin main
					}
					r.Bad(rid, FuncName(fn)+" uses os.Stdout", c.P.Pos(x.Pos()),
						FuncName(fn)+" writes to os.Stdout outside the plugin's response writer: anything written there corrupts the encoded response", nil)
				}
			}
			return true
		})
	}
	r.OKd(rid, "standard output is used by the response writer only", "", map[string]any{"stdout_uses": n, "in_plugin_main": nAllowed})
}

// nilableResults: library functions whose pointer result can be nil although no error is reported (one reason each,
// confirmed by reading the pinned module source).
var nilableResults = map[string]string{
	"(*github.com/pb33f/libopenapi/datamodel/high/base.SchemaProxy).BuildSchema": "libopenapi v0.33.11 schema_proxy.go: returns sp.Schema(), which is nil for a reference proxy (CreateSchemaProxyRef) — every message-typed field — and for a nil proxy, with a nil error",
	"(*github.com/pb33f/libopenapi/datamodel/high/base.SchemaProxy).Schema":      "libopenapi v0.33.11 schema_proxy.go: nil for a reference proxy whose target is not resolvable in a document under construction",
}

// nilableResultUse — R16c-nilable. `x, err := p.BuildSchema()` / `x := p.Schema()`: on the go/cfg graph every path from the
// assignment to a dereferencing use of x (x.f, *x, x[i]) must pass the non-nil arm of a test of x against nil.
func nilableResultUse(c *Ctx, rid string) {
	r := c.R
	n := 0
	for fn, decl := range c.P.Decls {
		if decl.Body == nil || !isRepoGenPkg(fn) && !strings.Contains(fn.Pkg().Path(), "/cmd/") {
			continue
		}
		if strings.Contains(c.P.Pos(decl.Pos()), "_test.go") {
			continue
		}
		info := c.P.DeclPkg[fn].TypesInfo
		type site struct {
			x   types.Object
			as  *ast.AssignStmt
			why string
			cal string
		}
		var sites []site
		ast.Inspect(decl.Body, func(nd ast.Node) bool {
			if _, isLit := nd.(*ast.FuncLit); isLit {
				return false
			}
			as, ok := nd.(*ast.AssignStmt)
			if !ok || len(as.Rhs) != 1 || len(as.Lhs) == 0 {
				return true
			}
			call, ok := ast.Unparen(as.Rhs[0]).(*ast.CallExpr)
			if !ok {
				return true
			}
			cal := Callee(info, call)
			if cal == nil {
				return true
			}
			why, ok := nilableResults[cal.FullName()]
			if !ok {
				return true
			}
			if xi, ok := as.Lhs[0].(*ast.Ident); ok && xi.Name != "_" {
				if xo := info.ObjectOf(xi); xo != nil {
					sites = append(sites, site{xo, as, why, cal.Name()})
				}
			}
			return true
		})
		if len(sites) == 0 {
			continue
		}
		g := buildCFG(decl.Body)
		for _, p := range sites {
			n++
			var start *cfg.Block
			startIdx := -1
			for _, b := range g.Blocks {
				for i, nd := range b.Nodes {
					if nd == ast.Node(p.as) {
						start, startIdx = b, i
					}
				}
			}
			key := fmt.Sprintf("%s: %s (result of %s) is tested against nil before it is dereferenced", FuncName(fn), p.x.Name(), p.cal)
			if start == nil {
				r.Undec(rid, key, c.P.Pos(p.as.Pos()), "assignment not found as a node of the control-flow graph")
				continue
			}
			reassigns := func(nd ast.Node) bool {
				hit := false
				ast.Inspect(nd, func(m ast.Node) bool {
					if as, ok := m.(*ast.AssignStmt); ok {
						for _, l := range as.Lhs {
							if id, ok := l.(*ast.Ident); ok && info.ObjectOf(id) == p.x {
								hit = true
							}
						}
					}
					return !hit
				})
				return hit
			}
			derefUse := func(nd ast.Node) ast.Node {
				var at ast.Node
				ast.Inspect(nd, func(m ast.Node) bool {
					if at != nil {
						return false
					}
					if _, isLit := m.(*ast.FuncLit); isLit {
						return false
					}
					var base ast.Expr
					switch x := m.(type) {
					case *ast.SelectorExpr:
						// a method call on a nil pointer is not by itself a dereference; a field selection is
						if sel, ok := info.Selections[x]; ok && sel.Kind() == types.FieldVal {
							base = x.X
						}
					case *ast.StarExpr:
						base = x.X
					}
					if id, ok := ast.Unparen(base).(*ast.Ident); base != nil && ok && info.ObjectOf(id) == p.x {
						at = m
					}
					return true
				})
				return at
			}
			var condArms func(e ast.Expr) (int, int)
			atom := func(e ast.Expr) int { // +1: true arm means x != nil; -1: true arm means x == nil
				be, ok := ast.Unparen(e).(*ast.BinaryExpr)
				if !ok || (be.Op != token.NEQ && be.Op != token.EQL) {
					return 0
				}
				var other ast.Expr
				if id, ok := ast.Unparen(be.X).(*ast.Ident); ok && info.ObjectOf(id) == p.x {
					other = be.Y
				} else if id, ok := ast.Unparen(be.Y).(*ast.Ident); ok && info.ObjectOf(id) == p.x {
					other = be.X
				}
				if other == nil || !isNilIdent(other) {
					return 0
				}
				if be.Op == token.NEQ {
					return 1
				}
				return -1
			}
			// what each arm of a (possibly compound) condition establishes about x: 1 non-nil, -1 nil, 0 nothing
			condArms = func(e ast.Expr) (int, int) {
				e = ast.Unparen(e)
				if ue, ok := e.(*ast.UnaryExpr); ok && ue.Op == token.NOT {
					t, f := condArms(ue.X)
					return f, t
				}
				if be, ok := e.(*ast.BinaryExpr); ok && (be.Op == token.LOR || be.Op == token.LAND) {
					t1, f1 := condArms(be.X)
					t2, f2 := condArms(be.Y)
					pick := func(a, b int) int {
						if a != 0 {
							return a
						}
						return b
					}
					if be.Op == token.LOR {
						return 0, pick(f1, f2) // both operands false on the false arm
					}
					return pick(t1, t2), 0 // both operands true on the true arm
				}
				switch atom(e) {
				case 1:
					return 1, -1
				case -1:
					return -1, 1
				}
				return 0, 0
			}
			type st struct {
				b     *cfg.Block
				state int
			}
			seen := map[st]bool{}
			var bad ast.Node
			var walk func(b *cfg.Block, from int, state int)
			walk = func(b *cfg.Block, from int, state int) {
				if bad != nil {
					return
				}
				if from == 0 {
					k := st{b, state}
					if seen[k] {
						return
					}
					seen[k] = true
				}
				for i := from; i < len(b.Nodes); i++ {
					nd := b.Nodes[i]
					if state != 1 {
						if u := derefUse(nd); u != nil {
							bad = u
							return
						}
					}
					if reassigns(nd) {
						return
					}
				}
				if len(b.Succs) == 2 && len(b.Nodes) > 0 {
					if cond, ok := b.Nodes[len(b.Nodes)-1].(ast.Expr); ok {
						if t, f := condArms(cond); t != 0 || f != 0 {
							next := func(k int) int {
								if k != 0 {
									return k
								}
								return state
							}
							walk(b.Succs[0], 0, next(t))
							walk(b.Succs[1], 0, next(f))
							return
						}
					}
				}
				for _, s := range b.Succs {
					walk(s, 0, state)
				}
			}
			walk(start, startIdx+1, 0)
			if bad != nil {
				r.Bad(rid, key, c.P.Pos(bad.Pos()), fmt.Sprintf("%s dereferences %s (%s) on a path on which it was not tested against nil; %s can return nil without an error (%s): the plugin crashes with a nil dereference instead of returning the document", FuncName(fn), p.x.Name(), types.ExprString(bad.(ast.Expr)), p.cal, p.why), nil)
			} else {
				r.OK(rid, key, c.P.Pos(p.as.Pos()))
			}
		}
	}
	if n == 0 {
		r.Unres(rid, "uses of nil-able library results", "", "none found (BuildSchema / Schema are no longer called: revisit the table)")
	}
}

// makeSizesNonNegative — R16h. A negative length or capacity makes `make` panic (makeslice: cap out of range). In generator
// packages every size argument of make must be non-negative by construction: constants, len/cap, sums, products, min/max of
// those, a local defined once as such. A subtraction is accepted only under a comparison guard that mentions its operands.
func makeSizesNonNegative(c *Ctx, rid string) {
	r := c.R
	n := 0
	for fn, decl := range c.P.Decls {
		if decl.Body == nil || !isRepoGenPkg(fn) && !strings.Contains(fn.Pkg().Path(), "/cmd/") {
			continue
		}
		if strings.Contains(c.P.Pos(decl.Pos()), "_test.go") {
			continue
		}
		info := c.P.DeclPkg[fn].TypesInfo
		parents := parentMap(decl.Body)
		var nonNeg func(e ast.Expr, depth int) (bool, ast.Expr)
		nonNeg = func(e ast.Expr, depth int) (bool, ast.Expr) {
			e = ast.Unparen(e)
			if tv, ok := info.Types[e]; ok && tv.Value != nil {
				if tv.Value.Kind() == constant.Int && constant.Sign(tv.Value) >= 0 {
					return true, nil
				}
				return false, e
			}
			switch x := e.(type) {
			case *ast.CallExpr:
				if id, ok := x.Fun.(*ast.Ident); ok {
					if _, isB := info.ObjectOf(id).(*types.Builtin); isB {
						switch id.Name {
						case "len", "cap":
							return true, nil
						case "min", "max":
							for _, a := range x.Args {
								if ok, w := nonNeg(a, depth); !ok {
									return false, w
								}
							}
							return true, nil
						}
					}
				}
				if tv, ok := info.Types[x.Fun]; ok && tv.IsType() && len(x.Args) == 1 {
					return nonNeg(x.Args[0], depth)
				}
				return true, nil // a function's result: not a subtraction the rule can see
			case *ast.BinaryExpr:
				switch x.Op {
				case token.ADD, token.MUL, token.QUO, token.REM, token.SHR, token.SHL:
					if ok, w := nonNeg(x.X, depth); !ok {
						return false, w
					}
					return nonNeg(x.Y, depth)
				case token.SUB:
					return false, x
				}
				return true, nil
			case *ast.UnaryExpr:
				if x.Op == token.SUB {
					return false, x
				}
				return true, nil
			case *ast.Ident:
				if depth < 3 {
					if d := localDef(info, decl.Body, x); d != nil {
						return nonNeg(d, depth+1)
					}
				}
				return true, nil
			}
			return true, nil
		}
		ast.Inspect(decl.Body, func(nd ast.Node) bool {
			call, ok := nd.(*ast.CallExpr)
			if !ok {
				return true
			}
			id, ok := call.Fun.(*ast.Ident)
			if !ok || id.Name != "make" || len(call.Args) < 2 {
				return true
			}
			if _, isB := info.ObjectOf(id).(*types.Builtin); !isB {
				return true
			}
			n++
			for _, a := range call.Args[1:] {
				ok, w := nonNeg(a, 0)
				if ok {
					continue
				}
				// guarded? an enclosing if (or an earlier early-exit if in an enclosing block) comparing the operands
				guarded := false
				if be, isSub := w.(*ast.BinaryExpr); isSub {
					ops := []string{types.ExprString(ast.Unparen(be.X)), types.ExprString(ast.Unparen(be.Y))}
					mentions := func(cond ast.Expr) bool {
						hit := false
						ast.Inspect(cond, func(m ast.Node) bool {
							if cb, ok := m.(*ast.BinaryExpr); ok {
								switch cb.Op {
								case token.LSS, token.GTR, token.LEQ, token.GEQ, token.EQL, token.NEQ:
									t := types.ExprString(cb)
									if strings.Contains(t, ops[0]) && (strings.Contains(t, ops[1]) || info.Types[be.Y].Value != nil) {
										hit = true
									}
								}
							}
							return !hit
						})
						return hit
					}
					for p := parents[ast.Node(call)]; p != nil; p = parents[p] {
						switch q := p.(type) {
						case *ast.IfStmt:
							if mentions(q.Cond) {
								guarded = true
							}
						case *ast.BlockStmt:
							for _, st := range q.List {
								if st.Pos() >= call.Pos() {
									break
								}
								if ifs, ok := st.(*ast.IfStmt); ok && mentions(ifs.Cond) {
									guarded = true
								}
							}
						}
					}
				}
				key := fmt.Sprintf("%s: make size %s is non-negative", FuncName(fn), types.ExprString(a))
				if guarded {
					r.OKd(rid, key, c.P.Pos(call.Pos()), map[string]any{"guarded": true})
				} else {
					r.Bad(rid, key, c.P.Pos(call.Pos()), fmt.Sprintf("%s sizes a make with %s, which contains %s: nothing on the way establishes that it is not negative; for a request where it is (more bound parameters than fields, an empty list) the plugin panics with `makeslice: len/cap out of range` instead of returning files or an error", FuncName(fn), types.ExprString(a), types.ExprString(w)), nil)
				}
			}
			return true
		})
	}
	r.OKd(rid, "sized make calls in generator packages inspected", "", map[string]any{"sized_make_calls": n})
}

// consumingLoop: a scan that terminates because it eats its input. The last statement of the body is `v = v[lo:]` for a
// string or slice local v, with lo = X + c, c a constant >= 1 and every operand of X non-negative (len, a non-negative
// constant, or a local that an earlier top-level `if id < 0 { break | return }` of the body has excluded from being
// negative); no `continue` skips that statement. Each iteration that does not leave the loop shortens v by at least c.
func consumingLoop(info *types.Info, fs *ast.ForStmt) bool {
	if fs.Post != nil || fs.Body == nil || len(fs.Body.List) == 0 {
		return false
	}
	hasContinue := false
	ast.Inspect(fs.Body, func(n ast.Node) bool {
		switch x := n.(type) {
		case *ast.FuncLit:
			return false
		case *ast.ForStmt, *ast.RangeStmt:
			if n != ast.Node(fs) {
				return false // a continue inside an inner loop belongs to that loop
			}
		case *ast.BranchStmt:
			if x.Tok == token.CONTINUE || x.Tok == token.GOTO {
				hasContinue = true
			}
		}
		return true
	})
	if hasContinue {
		return false
	}
	last, ok := fs.Body.List[len(fs.Body.List)-1].(*ast.AssignStmt)
	if !ok || last.Tok != token.ASSIGN || len(last.Lhs) != 1 || len(last.Rhs) != 1 {
		return false
	}
	v, ok := last.Lhs[0].(*ast.Ident)
	if !ok {
		return false
	}
	switch t := info.TypeOf(v).Underlying().(type) {
	case *types.Slice:
	case *types.Basic:
		if t.Info()&types.IsString == 0 {
			return false
		}
	default:
		return false
	}
	sl, ok := ast.Unparen(last.Rhs[0]).(*ast.SliceExpr)
	if !ok || sl.High != nil || sl.Low == nil {
		return false
	}
	if b, ok := ast.Unparen(sl.X).(*ast.Ident); !ok || info.ObjectOf(b) != info.ObjectOf(v) {
		return false
	}
	// locals excluded from being negative by an earlier exit
	guarded := map[types.Object]bool{}
	for _, st := range fs.Body.List[:len(fs.Body.List)-1] {
		ifs, ok := st.(*ast.IfStmt)
		if !ok || ifs.Else != nil || len(ifs.Body.List) == 0 {
			continue
		}
		exits := false
		switch e := ifs.Body.List[len(ifs.Body.List)-1].(type) {
		case *ast.BranchStmt:
			exits = e.Tok == token.BREAK && e.Label == nil
		case *ast.ReturnStmt:
			exits = true
		}
		be, ok := ast.Unparen(ifs.Cond).(*ast.BinaryExpr)
		if !exits || !ok || be.Op != token.LSS {
			continue
		}
		if tv, ok := info.Types[be.Y]; ok && tv.Value != nil && constant.Sign(tv.Value) == 0 {
			if id, ok := ast.Unparen(be.X).(*ast.Ident); ok {
				guarded[info.ObjectOf(id)] = true
			}
		}
	}
	// lo = sum of terms; at least one constant term >= 1, every other term non-negative
	var terms []ast.Expr
	var flat func(e ast.Expr)
	flat = func(e ast.Expr) {
		e = ast.Unparen(e)
		if be, ok := e.(*ast.BinaryExpr); ok && be.Op == token.ADD {
			flat(be.X)
			flat(be.Y)
			return
		}
		terms = append(terms, e)
	}
	flat(sl.Low)
	positive := false
	for _, t := range terms {
		if tv, ok := info.Types[t]; ok && tv.Value != nil && tv.Value.Kind() == constant.Int {
			switch constant.Sign(tv.Value) {
			case 1:
				positive = true
			case -1:
				return false
			}
			continue
		}
		switch x := t.(type) {
		case *ast.Ident:
			if !guarded[info.ObjectOf(x)] {
				return false
			}
		case *ast.CallExpr:
			id, ok := x.Fun.(*ast.Ident)
			if !ok || id.Name != "len" {
				return false
			}
		default:
			return false
		}
	}
	return positive
}
