package main

// worlds.go — R13b / R20a: shape worlds. For one codec emitter and one field
// shape, the emitter is walked with the descriptor questions about its field
// answered by the shape (one message, one field); the text it emits is then
// type-checked against a stand-in for protoc-gen-go's output whose field has
// the Go type of that shape. Type errors other than "undefined <other emitted
// or generated symbol>" are what the Go compiler would report on the real
// package.

import (
	"fmt"
	"go/ast"
	"go/parser"
	"go/token"
	"go/types"
	"os"
	"regexp"
	"sort"
	"strings"
)

type worldSpec struct {
	Name      string
	Suffix    string // unit file-name suffix
	Predicate string // collector predicate over *protogen.Message (has…Fields), "" = none
	Validator string // internal/annotations validator of the annotation, "" = none
	Field     string // validator's field parameter
	// Extra restricts the shapes beyond predicate/validator (reading of the collectors).
	Extra func(Shape) bool
}

var codecWorlds = []worldSpec{
	{Name: "int64_encoding=NUMBER", Suffix: "_encoding.pb.go", Predicate: "hasInt64NumberFields"},
	{Name: "nullable", Suffix: "_nullable.pb.go", Predicate: "hasNullableFields", Validator: "ValidateNullableAnnotation", Field: "field"},
	{Name: "empty_behavior", Suffix: "_empty_behavior.pb.go", Predicate: "hasEmptyBehaviorFields", Validator: "ValidateEmptyBehaviorAnnotation", Field: "field"},
	{Name: "timestamp_format", Suffix: "_timestamp_format.pb.go", Predicate: "hasTimestampFormatFields", Validator: "ValidateTimestampFormatAnnotation", Field: "field"},
	{Name: "bytes_encoding", Suffix: "_bytes_encoding.pb.go", Predicate: "hasBytesEncodingFields", Validator: "ValidateBytesEncodingAnnotation", Field: "field"},
	{Name: "flatten", Suffix: "_flatten.pb.go", Predicate: "hasFlattenFields", Validator: "ValidateFlattenField", Field: "field"},
}

// shapeReaches: some combination of annotation values makes the collector's
// predicate true for a message whose only field has shape s, and the
// annotation's validator accepts that field.
func (c *Ctx) shapeReaches(pkg string, ws worldSpec, s Shape) (bool, string) {
	fix := func(dk, cr string) (int, bool) {
		if strings.HasPrefix(dk, "n:") {
			return 1, true
		}
		return s.AnswerAny(dk, cr)
	}
	if ws.Predicate != "" {
		pf := c.P.Func(pkg, ws.Predicate)
		if pf == nil {
			return false, "predicate " + ws.Predicate + " not found"
		}
		c.W.InlineAllRuns = true
		outs, probs, _ := c.W.EvalAll(pf, fix, true, 128)
		c.W.InlineAllRuns = false
		if len(probs) > 0 {
			return false, strings.Join(probs, "; ")
		}
		any := false
		for _, o := range outs {
			if b, ok := o.Result.(VBool); ok && b.B {
				any = true
			}
		}
		if !any {
			return false, ""
		}
	}
	if ws.Validator != "" {
		vf := c.P.Func("internal/annotations", ws.Validator)
		if vf == nil {
			return false, "validator not found"
		}
		outs, _, _ := c.W.EvalAll(vf, func(dk, cr string) (int, bool) { return s.Answer(ws.Field, dk, cr) }, false, 128)
		// accepted with the annotation present: the validator has an accepting outcome other than the "no annotation" one;
		// approximated by: not every annotated outcome is refused = at least two accepting outcomes or no refusing outcome
		acc, rej := 0, 0
		for _, o := range outs {
			if o.NilError() {
				acc++
			} else {
				rej++
			}
		}
		if rej > 0 && acc <= 1 && ws.Name != "flatten" {
			return false, ""
		}
		if ws.Name == "flatten" {
			// flatten: annotated (IsFlattenField true) outcomes must accept
			ok := false
			for _, o := range outs {
				isFl := false
				for _, u := range o.Used {
					if strings.Contains(u.Key, "IsFlattenField(") && u.Chosen == 0 {
						isFl = true
					}
				}
				if isFl && o.NilError() {
					ok = true
				}
			}
			if !ok {
				return false, ""
			}
		}
	}
	if ws.Extra != nil && !ws.Extra(s) {
		return false, ""
	}
	return true, ""
}

var undefinedRe = regexp.MustCompile(`^undefined: ([A-Za-z_][A-Za-z0-9_]*)$`)
var noFieldRe = regexp.MustCompile(`^([A-Za-z_.\[\]"0-9()]+)\.([A-Za-z_][A-Za-z0-9_]*) undefined \(type (\*?)([A-Za-z_][A-Za-z0-9_.]*) has no field or method ([A-Za-z_][A-Za-z0-9_]*)\)`)

type typeFinding struct {
	Msg  string
	Line int
	Text string
	File string
}

// typeCheckWorld type-checks the unit against synthesized protoc-gen-go stand-ins.
// fieldHoles: placeholder names of the annotated field's GoName.
func (c *Ctx) typeCheckWorld(u *Unit, fieldHoles map[string]bool, s Shape, withRuntime bool) ([]typeFinding, error) {
	src := u.Text()
	fset := token.NewFileSet()
	f, err := parser.ParseFile(fset, "world"+u.Suffix(), src, 0)
	if err != nil {
		return nil, fmt.Errorf("parse: %v", err)
	}
	pkgName := f.Name.Name
	// receivers
	recv := map[string]bool{}
	for _, d := range f.Decls {
		if fd, ok := d.(*ast.FuncDecl); ok && fd.Recv != nil && len(fd.Recv.List) > 0 {
			t := fd.Recv.List[0].Type
			if st, ok := t.(*ast.StarExpr); ok {
				t = st.X
			}
			if id, ok := t.(*ast.Ident); ok {
				recv[id.Name] = true
			}
		}
	}
	extraTypes := map[string]bool{}
	declaredInUnit := map[string]bool{}
	markDeclared := func(af *ast.File) {
		for _, d := range af.Decls {
			if gd, ok := d.(*ast.GenDecl); ok {
				for _, sp := range gd.Specs {
					if ts, ok := sp.(*ast.TypeSpec); ok {
						declaredInUnit[ts.Name.Name] = true
					}
				}
			}
		}
	}
	markDeclared(f)
	for t := range recv {
		if declaredInUnit[t] {
			delete(recv, t)
		}
	}
	// mock / client worlds: message types come from composite literals and parameters; collected on demand
	extraFuncs := map[string]bool{}
	extraFields := map[string]map[string]string{} // type -> field -> go type
	imp, err := c.newImporter(fset)
	if err != nil {
		return nil, err
	}
	var files []*ast.File
	files = append(files, f)
	srcOf := map[string]string{"world" + u.Suffix(): src}
	if c.extraWorldUnit != nil {
		esrc := c.extraWorldUnit.Text()
		ename := "worldextra" + c.extraWorldUnit.Suffix()
		ef, err := parser.ParseFile(fset, ename, esrc, 0)
		if err != nil {
			return nil, fmt.Errorf("service unit does not parse: %v", err)
		}
		files = append(files, ef)
		srcOf[ename] = esrc
		var asrt strings.Builder
		asrt.WriteString("package " + pkgName + "\n")
		for _, m := range ifaceRe.FindAllStringSubmatch(esrc, -1) {
			asrt.WriteString("var _ " + m[1] + "Server = (*Mock" + m[1] + "Server)(nil)\n")
		}
		af, err := parser.ParseFile(fset, "worldassert.go", asrt.String(), 0)
		if err == nil {
			files = append(files, af)
			srcOf["worldassert.go"] = asrt.String()
		}
		ast.Inspect(ef, func(n ast.Node) bool { return true })
	}
	if withRuntime {
		ep, err := c.ServerRuntime()
		if err != nil {
			return nil, err
		}
		for _, ef := range ep.Files {
			rf, err := parser.ParseFile(fset, ef.Name, strings.Replace(ef.Src, "package "+ef.AST.Name.Name, "package "+pkgName, 1), 0)
			if err != nil {
				return nil, err
			}
			files = append(files, rf)
		}
	}
	// the message type of a message-kind field: the placeholder the emitter prints for field.Message.GoIdent, if any
	msgType := "ShapeMsg"
	for _, l := range u.Lines {
		for _, sg := range l.Segs {
			if sg.Hole != nil && fieldMsgIdent.MatchString(sg.Hole.Key) && !strings.Contains(sg.Hole.Key, ".Message.Fields@") {
				msgType = HoleName(sg.Hole)
			}
		}
	}
	goType, direct := s.GoType(msgType, "ShapeEnum")
	if s.Kind == "timestamp" && msgType != "ShapeMsg" {
		goType = strings.Replace(goType, "timestamppb.Timestamp", msgType, 1)
	}
	base, _ := Shape{Kind: s.Kind, Card: "singular", Pres: "implicit"}.GoType(msgType, "ShapeEnum")
	if s.Kind == "timestamp" && msgType != "ShapeMsg" {
		base = "*" + msgType
	}
	if msgType != "ShapeMsg" {
		extraTypes[msgType] = true
	}
	for round := 0; round < 12; round++ {
		var b strings.Builder
		b.WriteString("package " + pkgName + "\n\nimport (\n\t\"google.golang.org/protobuf/reflect/protoreflect\"\n\ttimestamppb \"google.golang.org/protobuf/types/known/timestamppb\"\n)\n\n")
		b.WriteString("var _ = timestamppb.Now\nvar _ protoreflect.Message\n\n")
		b.WriteString("type ShapeMsg struct{}\nfunc (*ShapeMsg) ProtoReflect() protoreflect.Message { return nil }\nfunc (*ShapeMsg) Reset() {}\nfunc (*ShapeMsg) String() string { return \"\" }\n")
		b.WriteString("type ShapeEnum int32\nfunc (ShapeEnum) String() string { return \"\" }\nfunc (ShapeEnum) Number() protoreflect.EnumNumber { return 0 }\n\n")
		all := map[string]bool{}
		for t := range recv {
			all[t] = true
		}
		for t := range extraTypes {
			all[t] = true
		}
		for _, t := range sortedKeys(all) {
			b.WriteString("type " + t + " struct {\n")
			if (recv[t] || extraTypes[t]) && t != msgType {
				for _, fh := range sortedKeys(fieldHoles) {
					if direct {
						b.WriteString("\t" + fh + " " + goType + "\n")
					}
				}
			}
			for fn, ft := range extraFields[t] {
				if !fieldHoles[fn] {
					b.WriteString("\t" + fn + " " + ft + "\n")
				}
			}
			b.WriteString("}\n")
			b.WriteString("func (*" + t + ") ProtoReflect() protoreflect.Message { return nil }\nfunc (*" + t + ") Reset() {}\nfunc (*" + t + ") String() string { return \"\" }\n")
			for _, fh := range sortedKeys(fieldHoles) {
				ret := base
				if s.Card == "list" {
					ret = "[]" + base
				} else if s.Card == "map" {
					ret = "map[string]" + base
				}
				b.WriteString("func (*" + t + ") Get" + fh + "() " + ret + " { var z " + ret + "; return z }\n")
			}
		}
		for _, fn := range sortedKeys(extraFuncs) {
			b.WriteString("func " + fn + "(args ...any) any { return nil }\n")
		}
		if os.Getenv("VERIF_DEBUG_STUB") != "" && round > 0 {
			fmt.Println("---- STUB round", round, "fieldHoles", sortedKeys(fieldHoles))
			fmt.Println(b.String())
		}
		stub, err := parser.ParseFile(fset, fmt.Sprintf("stub%d.go", round), b.String(), 0)
		if err != nil {
			return nil, fmt.Errorf("stub does not parse: %v\n%s", err, b.String())
		}
		var errs []types.Error
		conf := types.Config{Importer: imp, Error: func(e error) {
			if te, ok := e.(types.Error); ok {
				errs = append(errs, te)
			}
		}}
		info := &types.Info{}
		if c.worldInspect != nil {
			info.Types = map[ast.Expr]types.TypeAndValue{}
			info.Uses = map[*ast.Ident]types.Object{}
			info.Defs = map[*ast.Ident]types.Object{}
		}
		conf.Check("world/"+pkgName, fset, append(append([]*ast.File{}, files...), stub), info)
		changed := false
		var findings []typeFinding
		for _, te := range errs {
			pos := fset.Position(te.Pos)
			if !strings.HasPrefix(pos.Filename, "world") {
				continue // errors inside stub/runtime caused by earlier ones
			}
			if m := undefinedRe.FindStringSubmatch(te.Msg); m != nil {
				name := m[1]
				// a type (used in a composite literal / conversion / declaration) or a function?
				if !extraTypes[name] && !extraFuncs[name] && !recv[name] {
					callee := false
					for _, wf := range files {
						if usedAsCallee(wf, name) {
							callee = true
						}
					}
					if callee {
						extraFuncs[name] = true
					} else {
						extraTypes[name] = true
					}
					changed = true
				}
				continue
			}
			if m := noFieldRe.FindStringSubmatch(te.Msg); m != nil {
				typ, field := m[4], m[2]
				typ = strings.TrimPrefix(typ, pkgName+".")
				if (extraTypes[typ] || recv[typ]) && !fieldHoles[field] && holeRe.MatchString(field) {
					if extraFields[typ] == nil {
						extraFields[typ] = map[string]string{}
					}
					if _, ok := extraFields[typ][field]; !ok {
						extraFields[typ][field] = "string"
						changed = true
					}
					continue
				}
			}
			lines := strings.Split(srcOf[pos.Filename], "\n")
			text := ""
			if pos.Line >= 1 && pos.Line <= len(lines) {
				text = strings.TrimSpace(lines[pos.Line-1])
			}
			ln := pos.Line
			if pos.Filename != "world"+u.Suffix() {
				ln = 0
			}
			findings = append(findings, typeFinding{Msg: te.Msg, Line: ln, Text: text, File: pos.Filename})
		}
		if !changed {
			if c.worldInspect != nil {
				for _, fd := range c.worldInspect(fset, f, info) {
					lines := strings.Split(src, "\n")
					if fd.Line >= 1 && fd.Line <= len(lines) {
						fd.Text = strings.TrimSpace(lines[fd.Line-1])
					}
					fd.File = "world" + u.Suffix()
					findings = append(findings, fd)
				}
			}
			return findings, nil
		}
	}
	return nil, fmt.Errorf("stub synthesis did not converge")
}

func usedAsCallee(f *ast.File, name string) bool {
	found := false
	ast.Inspect(f, func(n ast.Node) bool {
		if call, ok := n.(*ast.CallExpr); ok {
			if id, ok := call.Fun.(*ast.Ident); ok && id.Name == name {
				found = true
			}
		}
		return !found
	})
	return found
}

// fieldGoNameHoles: placeholders of holes whose provenance is a field's GoName.
func fieldGoNameHoles(u *Unit) map[string]bool {
	out := map[string]bool{}
	for _, l := range u.Lines {
		for _, sg := range l.Segs {
			if sg.Hole == nil {
				continue
			}
			k := sg.Hole.Key
			if strings.HasSuffix(k, ".GoName") && !strings.HasSuffix(k, ".GoIdent.GoName") && !notFieldGoName.MatchString(k) {
				out[HoleName(sg.Hole)] = true
			}
			if strings.HasSuffix(k, "FieldGoName") {
				out[HoleName(sg.Hole)] = true
			}
		}
	}
	return out
}

var fieldMsgIdent = regexp.MustCompile(`(Fields@\d+|\.Field|\bfield)\.Message\.GoIdent(\.GoName)?$`)

var notFieldGoName = regexp.MustCompile(`(Methods@\d+|Services@\d+|\.Oneof|\.Enum|\.Message)\.GoName$`)

func classifyTypeError(msg string) string {
	msg = holeFree(msg)
	switch {
	case strings.HasPrefix(msg, "lossy conversion"):
		return msg
	case strings.Contains(msg, "mismatched types"):
		return "mismatched types in comparison"
	case strings.Contains(msg, "invalid argument") && strings.Contains(msg, "for built-in len"):
		return "len() of a non-collection"
	case strings.Contains(msg, "has no field or method"):
		return "no such field or method"
	case strings.Contains(msg, "cannot use"):
		return "value of wrong type"
	case strings.Contains(msg, "invalid operation"):
		return "invalid operation"
	case strings.Contains(msg, "declared and not used"):
		return "declared and not used"
	case strings.Contains(msg, "redeclared"):
		return "redeclared"
	}
	if len(msg) > 60 {
		msg = msg[:60]
	}
	return msg
}

// checkShapeWorlds runs every codec world for both Go plugins.
func checkShapeWorlds(c *Ctx, rule string) {
	checkShapeWorldsSel(c, rule, nil, func(fd typeFinding) bool { return !strings.HasPrefix(fd.Msg, "lossy conversion") })
}

// checkShapeWorldsSel: the worlds selected by only (nil = all); of the findings those that keep admits are reported.
func checkShapeWorldsSel(c *Ctx, rule string, only func(worldSpec) bool, keep func(typeFinding) bool, okLabel ...string) {
	label := "type-checks"
	if len(okLabel) > 0 {
		label = okLabel[0]
	}
	r := c.R
	nWorlds, nChecked := 0, 0
	for _, pkg := range []string{pkgHTTP, pkgClient} {
		for _, ws := range codecWorlds {
			if only != nil && !only(ws) {
				continue
			}
			ri := c.Root(pkg, ws.Suffix)
			if ri == nil {
				r.Unres(rule, pkgShort(pkg)+" "+ws.Name, "", "unit *"+ws.Suffix+" not found")
				continue
			}
			type agg struct {
				kinds map[string]bool
				msg   string
				text  string
				pos   string
			}
			bad := map[string]*agg{}
			okShapes := map[string][]string{}
			for _, s := range AllShapes() {
				s := s
				reach, prob := c.shapeReaches(pkg, ws, s)
				if prob != "" {
					r.Undec(rule, fmt.Sprintf("%s %s on %s", pkgShort(pkg), ws.Name, s), "", "cannot evaluate the collector/validator for this shape: "+prob)
					continue
				}
				if !reach {
					continue
				}
				nWorlds++
				fix := func(dk, cr string) (int, bool) {
					if strings.HasPrefix(dk, "n:") {
						if strings.HasSuffix(dk, ".Messages") || strings.HasSuffix(dk, ".Enums") {
							return 0, true
						}
						return 1, true
					}
					return s.AnswerAny(dk, cr)
				}
				c.W.InlineAllRuns = true
				outs, probs, _ := c.W.EvalAll(ri.Fn, fix, true, 96)
				c.W.InlineAllRuns = false
				class := s.Card
				if s.Card == "singular" {
					class = s.Pres
				}
				if len(probs) > 0 {
					r.Undec(rule, fmt.Sprintf("%s %s on %s", pkgShort(pkg), ws.Name, s), "", strings.Join(probs, "; "))
					continue
				}
				produced := false
				for _, o := range outs {
					if o.Aborted != "" || len(o.Units) == 0 {
						continue
					}
					produced = true
					u := o.Units[0]
					nChecked++
					fhs := fieldGoNameHoles(u)
					finds, err := c.typeCheckWorld(u, fhs, s, false)
					if err != nil {
						r.Undec(rule, fmt.Sprintf("%s %s on %s", pkgShort(pkg), ws.Name, s), "", err.Error())
						continue
					}
					kept := finds[:0:0]
					for _, fd := range finds {
						if keep == nil || keep(fd) {
							kept = append(kept, fd)
						}
					}
					finds = kept
					for _, fd := range finds {
						em, pos := "?", ""
						if fd.Line >= 1 && fd.Line <= len(u.Lines) {
							if u.Lines[fd.Line-1].Fn != nil {
								em = u.Lines[fd.Line-1].Fn.Name()
							}
							pos = c.P.Pos(u.Lines[fd.Line-1].Pos)
						}
						k := fmt.Sprintf("%s %s on %s: %s", pkgShort(pkg), ws.Name, class, classifyTypeError(fd.Msg))
						_ = em
						if bad[k] == nil {
							bad[k] = &agg{kinds: map[string]bool{}, msg: holeFree(fd.Msg), text: holeFree(fd.Text), pos: pos}
						}
						bad[k].kinds[s.Kind] = true
					}
					if len(finds) == 0 {
						okShapes[class] = append(okShapes[class], s.Kind)
					}
				}
				if !produced {
					r.Undec(rule, fmt.Sprintf("%s %s on %s", pkgShort(pkg), ws.Name, s), "", "the shape reaches the collector but no walk of the unit root emitted the file")
				}
			}
			for _, class := range sortedKeys(okShapes) {
				ks := dedupeSorted(okShapes[class])
				r.OKd(rule, fmt.Sprintf("%s %s on %s {%s} %s", pkgShort(pkg), ws.Name, class, strings.Join(ks, ","), label), "", nil)
			}
			for _, k := range sortedKeys(bad) {
				a := bad[k]
				r.Bad(rule, k+" {"+strings.Join(sortedKeys(a.kinds), ",")+"}", a.pos,
					fmt.Sprintf(worldMsg(a.msg), a.msg, a.text), nil)
			}
		}
	}
	r.Count("shape_worlds", nWorlds)
	r.Count("world_units_type_checked", nChecked)
}

func dedupeSorted(xs []string) []string {
	sort.Strings(xs)
	var out []string
	for i, x := range xs {
		if i == 0 || xs[i-1] != x {
			out = append(out, x)
		}
	}
	return out
}

func worldMsg(msg string) string {
	if strings.HasPrefix(msg, "lossy conversion") {
		return "for a field of this shape the generators accept the annotation, and the emitted codec converts the field's value to a type that cannot hold all of its values: %s  (emitted line: %s)"
	}
	return "for a field of this shape the generators accept the annotation, but the emitted Go does not compile: %s  (emitted line: %s)"
}

// lossyConversions is a worldInspect pass: a conversion T(e) between basic numeric types where e is not a constant and some
// value of e's type is not representable in T (other sign, smaller width, 64-bit integer to a float, float to an integer).
func lossyConversions(fset *token.FileSet, f *ast.File, info *types.Info) []typeFinding {
	var out []typeFinding
	width := func(b *types.Basic) (bits int, signed, isFloat bool) {
		switch b.Kind() {
		case types.Int8:
			return 8, true, false
		case types.Int16:
			return 16, true, false
		case types.Int32:
			return 32, true, false
		case types.Int64, types.Int:
			return 64, true, false
		case types.Uint8:
			return 8, false, false
		case types.Uint16:
			return 16, false, false
		case types.Uint32:
			return 32, false, false
		case types.Uint64, types.Uint, types.Uintptr:
			return 64, false, false
		case types.Float32:
			return 24, true, true
		case types.Float64:
			return 53, true, true
		}
		return 0, false, false
	}
	ast.Inspect(f, func(n ast.Node) bool {
		call, ok := n.(*ast.CallExpr)
		if !ok || len(call.Args) != 1 {
			return true
		}
		tv, ok := info.Types[call.Fun]
		if !ok || !tv.IsType() {
			return true
		}
		av, ok := info.Types[call.Args[0]]
		if !ok || av.Value != nil || av.Type == nil {
			return true
		}
		tb, ok1 := tv.Type.Underlying().(*types.Basic)
		sb, ok2 := av.Type.Underlying().(*types.Basic)
		if !ok1 || !ok2 || tb.Info()&types.IsNumeric == 0 || sb.Info()&types.IsNumeric == 0 {
			return true
		}
		tw, ts, tf := width(tb)
		sw, ss, sf := width(sb)
		if tw == 0 || sw == 0 {
			return true
		}
		lossy := false
		switch {
		case sf && !tf:
			lossy = true // float -> integer truncates
		case !sf && tf:
			lossy = sw > tw // integer wider than the mantissa
		case sf && tf:
			lossy = sw > tw
		default:
			switch {
			case ss == ts:
				lossy = sw > tw
			case ss && !ts:
				lossy = true // negative values
			case !ss && ts:
				lossy = sw >= tw
			}
		}
		if lossy {
			out = append(out, typeFinding{Msg: fmt.Sprintf("lossy conversion %s(%s)", tb.Name(), sb.Name()), Line: fset.Position(call.Pos()).Line})
		}
		return true
	})
	return out
}

// checkWorldConversions — R04p: in the shape worlds of the integer codecs no emitted conversion loses values of the field.
func checkWorldConversions(c *Ctx, rule string) {
	c.worldInspect = lossyConversions
	defer func() { c.worldInspect = nil }()
	// quick: the integer codecs; thorough: every codec world (nullable, timestamp, bytes, flatten … for every shape)
	checkShapeWorldsSel(c, rule, func(ws worldSpec) bool { return c.Thorough() || ws.Name == "int64_encoding=NUMBER" },
		func(fd typeFinding) bool { return strings.HasPrefix(fd.Msg, "lossy conversion") }, "converts the field's value without loss")
}
