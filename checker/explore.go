package main

// explore.go — enumeration of words of the emission grammar (variants).
//
// Decisions are discovered dynamically. Level 1 covers every arm of every
// decision at least once (on top of the assignment under which the decision
// was first reached); level 2 covers every pair of arms of two decisions.
// Each run is additionally repeated in "rotate" mode, where the arm taken
// depends on the loop iteration, so that two iterations of one loop take
// different arms.

import (
	"crypto/sha256"
	"fmt"
	"go/ast"
	"go/types"
	"sort"
	"strings"
)

type Variant struct {
	Root   *types.Func
	Dec    map[string]int
	Rotate bool
	Units  []*Unit
	Trunc  int
	ID     int
}

func (v *Variant) DecString() string {
	var parts []string
	for _, k := range sortedKeys(v.Dec) {
		parts = append(parts, fmt.Sprintf("%s=%d", k, v.Dec[k]))
	}
	s := strings.Join(parts, " ")
	if v.Rotate {
		s += " [rotate]"
	}
	return s
}

type point struct {
	Key   string
	Kind  DecKind
	Arity int
	Ctx   map[string]int
	Pos   string
}

type Exploration struct {
	Root     *types.Func
	Variants []*Variant
	Runs     int
	Aborted  int
	Dups     int
	Points   []*point
	Problems []string
	Capped   bool
	pidx     map[string]int
	seen     map[[32]byte]bool
	probSeen map[string]bool
}

func copyDec(m map[string]int) map[string]int {
	o := make(map[string]int, len(m)+2)
	for k, v := range m {
		o[k] = v
	}
	return o
}

func (w *Walker) Explore(root *types.Func, level int, maxRuns int) *Exploration {
	ex := &Exploration{Root: root, pidx: map[string]int{}, seen: map[[32]byte]bool{}, probSeen: map[string]bool{}}
	runOne := func(dec map[string]int, rotate bool) {
		if ex.Runs >= maxRuns {
			ex.Capped = true
			return
		}
		ex.Runs++
		r := w.NewRun(dec, rotate)
		r.Start(root)
		for _, p := range r.Problems {
			if !ex.probSeen[p] {
				ex.probSeen[p] = true
				ex.Problems = append(ex.Problems, p)
			}
		}
		for _, u := range r.Used {
			if i, ok := ex.pidx[u.Key]; ok {
				if u.Arity > ex.Points[i].Arity {
					ex.Points[i].Arity = u.Arity
				}
			} else {
				ex.pidx[u.Key] = len(ex.Points)
				ex.Points = append(ex.Points, &point{Key: u.Key, Kind: u.Kind, Arity: u.Arity, Ctx: copyDec(dec), Pos: w.P.Pos(u.Pos)})
			}
		}
		if r.Aborted != "" {
			ex.Aborted++
			return
		}
		h := sha256.New()
		for _, u := range r.Units {
			h.Write([]byte(u.NameText()))
			h.Write([]byte{0})
			h.Write([]byte(u.Text()))
			h.Write([]byte{1})
		}
		var sum [32]byte
		copy(sum[:], h.Sum(nil))
		if ex.seen[sum] {
			ex.Dups++
			return
		}
		ex.seen[sum] = true
		ex.Variants = append(ex.Variants, &Variant{Root: root, Dec: copyDec(dec), Rotate: rotate, Units: r.Units, Trunc: r.Trunc, ID: len(ex.Variants)})
	}
	runOne(map[string]int{}, false)
	runOne(map[string]int{}, true)
	// level 1: each arm of each decision, fixpoint over discovered decisions
	tested := map[string]bool{}
	for changed := true; changed; {
		changed = false
		for i := 0; i < len(ex.Points); i++ {
			p := ex.Points[i]
			for arm := 1; arm < p.Arity; arm++ {
				tk := fmt.Sprintf("%s=%d", p.Key, arm)
				if tested[tk] {
					continue
				}
				tested[tk] = true
				changed = true
				d := copyDec(p.Ctx)
				d[p.Key] = arm
				runOne(d, false)
				runOne(d, true)
			}
		}
	}
	if level >= 2 {
		n := len(ex.Points)
		for i := 0; i < n; i++ {
			for j := i + 1; j < n; j++ {
				pi, pj := ex.Points[i], ex.Points[j]
				for a := 0; a < pi.Arity; a++ {
					for b := 0; b < pj.Arity; b++ {
						if a == 0 && b == 0 {
							continue
						}
						d := copyDec(pi.Ctx)
						for k, v := range pj.Ctx {
							d[k] = v
						}
						d[pi.Key] = a
						d[pj.Key] = b
						runOne(d, false)
					}
				}
			}
		}
	}
	return ex
}

// UnitRoots returns the generator functions that create a GeneratedFile and
// print into it through P (directly or through a Printer closure).
func (w *Walker) UnitRoots() []*types.Func {
	var roots []*types.Func
	for fn, decl := range w.P.Decls {
		if decl.Body == nil || !w.emitter[fn] {
			continue
		}
		info := w.P.DeclPkg[fn].TypesInfo
		has := false
		ast.Inspect(decl.Body, func(n ast.Node) bool {
			if call, ok := n.(*ast.CallExpr); ok {
				if c := Callee(info, call); c != nil && c.Name() == "NewGeneratedFile" && c.Pkg() != nil &&
					c.Pkg().Path() == "google.golang.org/protobuf/compiler/protogen" {
					has = true
				}
			}
			return !has
		})
		if has {
			roots = append(roots, fn)
		}
	}
	sort.Slice(roots, func(i, j int) bool { return FuncName(roots[i]) < FuncName(roots[j]) })
	return roots
}
