package main

// c06.go — C06: wire JSON bodies and parameters validate against the generated
// OpenAPI document.
//
// Validation of concrete bodies quantifies over values. What is decided here is
// the agreement of two sibling translations of the same descriptors — the wire
// mapping (proto3 JSON as modified by the documented annotations) and the
// schema mapping — by abstract evaluation of the OpenAPI generator's own
// conversion code over the finite field-shape domain:
//
//   R06a  convertField, evaluated for each of the 90 field shapes under every
//         annotation scenario, yields the JSON type the documented mapping puts
//         on the wire for that shape (scalar table, list → array/items, map →
//         object/additionalProperties, nullable → type ∪ null, empty_behavior
//         NULL → oneOf[…, null])
//   R06c  the container-unaware entry convertScalarField is called only from
//         element contexts (frozen table, one reason each)
//   R06d  property names: every schema property is named by the accessor the
//         Go server's encoder of that feature uses for the key
//   R06e  well-known types with a special proto3 JSON form are published in it
//   R06f  custom codec precedence: every JSON arm of the server's and the
//         client's body codecs consults the message's own (Un)MarshalJSON before
//         protojson, so the annotated form is what travels
//   R06g  responses: 200 → the RPC's output, 400 → ValidationError, default →
//         Error; the built-in schemas list exactly the JSON names of the
//         sebuf.http error messages

import (
	"fmt"
	"go/ast"
	"go/token"
	"go/types"
	"os"
	"reflect"
	"regexp"
	"sort"
	"strings"
)

// oaHook models the libopenapi / orderedmap constructors the generator uses so
// that evaluated schemas stay structured values.
func oaHook(fn *types.Func, recv Val, args []Val) (Val, bool) {
	if fn.Pkg() == nil {
		return nil, false
	}
	switch fn.Pkg().Path() + "." + fn.Name() {
	case "github.com/pb33f/libopenapi/datamodel/high/base.CreateSchemaProxy":
		if len(args) == 1 {
			return args[0], true
		}
	case "github.com/pb33f/libopenapi/datamodel/high/base.CreateSchemaProxyRef":
		if len(args) == 1 {
			return &VStruct{Name: "$ref", Fields: map[string]Val{"ref": args[0]}}, true
		}
	case "github.com/pb33f/libopenapi/datamodel/high/base.BuildSchema":
		if recv != nil {
			return VTuple{recv, VNil{}}, true
		}
	case "github.com/pb33f/libopenapi/orderedmap.New":
		return &VStruct{Name: "omap", Fields: map[string]Val{}}, true
	case "github.com/pb33f/libopenapi/orderedmap.Set", "github.com/pb33f/ordered-map/v2.Set":
		if st, ok := recv.(*VStruct); ok && st.Name == "omap" && len(args) == 2 {
			k := valText(args[0])
			st.Fields[k] = args[1]
			return VNil{}, true
		}
	case "github.com/pb33f/libopenapi/orderedmap.Get", "github.com/pb33f/ordered-map/v2.Get":
		if st, ok := recv.(*VStruct); ok && st.Name == "omap" && len(args) == 1 {
			if v, ok := st.Fields[valText(args[0])]; ok {
				return VTuple{v, VBool{B: true}}, true
			}
			return VTuple{VNil{}, VBool{B: false}}, true
		}
	}
	return nil, false
}

// absSchema is the abstract JSON-Schema shape of an evaluated schema value.
func absSchema(v Val, depth int) string {
	if depth > 6 {
		return "…"
	}
	st, ok := v.(*VStruct)
	if !ok {
		if v == nil {
			return "∅"
		}
		return "⟦" + v.key() + "⟧"
	}
	if st.Name == "$ref" {
		return "$ref"
	}
	var parts []string
	if t, ok := st.Fields["Type"]; ok {
		parts = append(parts, "type="+valText(t))
	}
	if _, ok := st.Fields["Minimum"]; ok {
		parts = append(parts, "min0")
	}
	for _, k := range []string{"Items", "AdditionalProperties"} {
		if dv, ok := st.Fields[k].(*VStruct); ok {
			if a, ok := dv.Fields["A"]; ok {
				parts = append(parts, strings.ToLower(k[:1])+k[1:]+"="+absSchema(a, depth+1))
			} else if b, ok := dv.Fields["B"]; ok {
				parts = append(parts, strings.ToLower(k[:1])+k[1:]+"="+valText(b))
			}
		}
	}
	if oo, ok := st.Fields["OneOf"].(VList); ok {
		var os []string
		for _, e := range oo.Elems {
			os = append(os, absSchema(e, depth+1))
		}
		parts = append(parts, "oneOf["+strings.Join(os, "|")+"]")
	}
	return "{" + strings.Join(parts, " ") + "}"
}

func valText(v Val) string {
	switch x := v.(type) {
	case VStr:
		if c, ok := x.isConst(); ok {
			return c
		}
		return keyText(x.Segs)
	case VList:
		if x.Elems == nil {
			return "⟦" + x.Key + "⟧"
		}
		var es []string
		for _, e := range x.Elems {
			es = append(es, valText(e))
		}
		return "[" + strings.Join(es, ",") + "]"
	case VBool:
		return fmt.Sprint(x.B)
	case nil:
		return "∅"
	}
	return "⟦" + v.key() + "⟧"
}

// c06Scenario: one assignment of the annotations that influence the JSON type.
type c06Scenario struct {
	Name        string
	Int64Number bool
	EnumNumber  bool
	Bytes       string // "", HEX, BASE64_RAW, BASE64URL, BASE64URL_RAW
	Timestamp   string // "", UNIX_SECONDS, UNIX_MILLIS, DATE
	Nullable    bool
	EmptyNull   bool
}

func c06Scenarios(s Shape) []c06Scenario {
	base := []c06Scenario{{Name: "no annotation"}}
	switch s.Kind {
	case "int64", "sint64", "sfixed64", "uint64", "fixed64":
		base = append(base, c06Scenario{Name: "int64_encoding=NUMBER", Int64Number: true})
	case "enum":
		base = append(base, c06Scenario{Name: "enum_encoding=NUMBER", EnumNumber: true})
	case "bytes":
		for _, e := range []string{"HEX", "BASE64_RAW", "BASE64URL", "BASE64URL_RAW"} {
			base = append(base, c06Scenario{Name: "bytes_encoding=" + e, Bytes: e})
		}
	case "timestamp":
		for _, f := range []string{"UNIX_SECONDS", "UNIX_MILLIS", "DATE"} {
			base = append(base, c06Scenario{Name: "timestamp_format=" + f, Timestamp: f})
		}
	}
	var out []c06Scenario
	for _, b := range base {
		out = append(out, b)
		if s.Card == "singular" && s.Pres == "optional" && s.Kind != "message" && s.Kind != "timestamp" {
			n := b
			n.Nullable = true
			n.Name += " + nullable"
			out = append(out, n)
		}
		if s.Card == "singular" && s.Kind == "message" {
			n := b
			n.EmptyNull = true
			n.Name += " + empty_behavior=NULL"
			out = append(out, n)
		}
	}
	return out
}

// wireElem: the JSON type the documented mapping puts on the wire for one
// element of the shape's kind.
func wireElem(kind string, sc c06Scenario) string {
	switch kind {
	case "bool":
		return "{type=[boolean]}"
	case "int32", "sint32", "sfixed32":
		return "{type=[integer]}"
	case "uint32", "fixed32":
		return "{type=[integer] min0}" // unsigned: a lower bound of 0 is part of the wire form
	case "int64", "sint64", "sfixed64":
		if sc.Int64Number {
			return "{type=[integer]}" // signed: no lower bound may be published
		}
		return "{type=[string]}"
	case "uint64", "fixed64":
		if sc.Int64Number {
			return "{type=[integer] min0}"
		}
		return "{type=[string]}"
	case "float", "double":
		return "{type=[number]}"
	case "string", "bytes":
		return "{type=[string]}"
	case "enum":
		if sc.EnumNumber {
			return "{type=[integer]}"
		}
		return "{type=[string]}"
	case "message":
		return "$ref"
	case "timestamp":
		switch sc.Timestamp {
		case "UNIX_SECONDS", "UNIX_MILLIS":
			return "{type=[integer]}"
		}
		return "{type=[string]}"
	}
	return "?"
}

func wireShape(s Shape, sc c06Scenario) string {
	el := wireElem(s.Kind, sc)
	switch s.Card {
	case "list":
		return "{type=[array] items=" + el + "}"
	case "map":
		return "{type=[object] additionalProperties=" + el + "}"
	}
	if sc.Nullable {
		return strings.Replace(el, "]", ",null]", 1)
	}
	if sc.EmptyNull {
		return "{oneOf[" + el + "|{type=[null]}]}"
	}
	return el
}

// fix answers the walker's decisions for field `prefix` of shape s under sc.
func (sc c06Scenario) fix(s Shape, prefix string) func(dk, cr string) (int, bool) {
	b := func(v bool) (int, bool) {
		if v {
			return 1, true
		}
		return 0, true
	}
	return func(dk, cr string) (int, bool) {
		dk = eraseIters(dk)
		switch {
		case strings.Contains(dk, "Comments.Leading"), strings.Contains(dk, "GetFieldExamples"):
			return 0, true
		case strings.Contains(dk, "annotations.IsInt64NumberEncoding("):
			return b(sc.Int64Number)
		case strings.Contains(dk, "annotations.IsNullableField("):
			return b(sc.Nullable)
		case strings.Contains(dk, "annotations.HasEmptyBehaviorAnnotation("):
			return b(sc.EmptyNull)
		case strings.HasPrefix(dk, "v:annotations.GetEmptyBehavior("):
			return b(sc.EmptyNull && strings.HasSuffix(cr, "EMPTY_BEHAVIOR_NULL"))
		case strings.HasPrefix(dk, "v:annotations.GetEnumEncoding("):
			return b(sc.EnumNumber && strings.HasSuffix(cr, "ENUM_ENCODING_NUMBER"))
		case strings.HasPrefix(dk, "v:annotations.GetBytesEncoding("):
			return b(sc.Bytes != "" && strings.HasSuffix(cr, "BYTES_ENCODING_"+sc.Bytes))
		case strings.HasPrefix(dk, "v:annotations.GetTimestampFormat("):
			return b(sc.Timestamp != "" && strings.HasSuffix(cr, "TIMESTAMP_FORMAT_"+sc.Timestamp))
		case strings.Contains(dk, "annotations.IsTimestampField("):
			return b(s.Kind == "timestamp")
		case strings.Contains(dk, "annotations.FindUnwrapField("):
			return b(true) // isnil(FindUnwrapField(…)) : no unwrap in the value message
		case strings.Contains(dk, "BuildSchema()"):
			return 0, true
		}
		// the map entry's value field
		for _, vp := range []string{prefix + ".Message.Fields@", "openapiv3.getMapValueField(" + prefix + ")"} {
			if strings.Contains(dk, vp) && s.Card == "map" {
				vs := Shape{Kind: s.Kind, Card: "singular", Pres: "implicit"}
				if strings.HasSuffix(dk, ".Desc.Number()") {
					return b(cr == "2" || cr == "mapValueFieldNumber")
				}
				if a, ok := vs.Answer(vp, dk, cr); ok {
					return a, true
				}
			}
		}
		if strings.HasPrefix(dk, "n:"+prefix+".Message.Fields") {
			return 2, true
		}
		return s.Answer(prefix, dk, cr)
	}
}

func checkC06(c *Ctx) {
	r := c.R
	r.Explain = "Validation of concrete bodies quantifies over values and is not decided. Decided: the agreement of the schema mapping with the documented wire mapping, by abstract evaluation of the OpenAPI generator's own conversion code over the finite field-shape domain (nothing is executed). R06a: convertField is evaluated for each of the 90 field shapes (18 kinds x implicit/optional/oneof-member/repeated/map) under every annotation scenario that changes the JSON type (int64_encoding, enum_encoding, bytes_encoding, timestamp_format, nullable, empty_behavior=NULL), with libopenapi's constructors modelled as identities; the resulting abstract schema (type list, items, additionalProperties, oneOf) must be the JSON type the documented mapping puts on the wire for that shape. R06c: convertScalarField, which ignores repeated/map/nullable, is called only from element contexts (frozen table). R06d: schema property names and the keys the Go server's encoders write are spelled by the same accessors (JSONName, flatten prefix + JSONName, discriminator, variant JSONName). R06e: well-known types with a special proto3 JSON form are published in that form. R06f: every JSON arm of the server's marshalResponse / bindDataBasedOnContentType and of the Go client's marshalRequest / unmarshalResponse consults the message's own (Un)MarshalJSON before protojson. R06g: responses 200/400/default reference the RPC's output, ValidationError and Error, and the built-in schemas list exactly the JSON names of the sebuf.http error messages. Not decided: numeric ranges and formats of concrete values, NaN/Infinity strings for float fields, additional-property strictness, satisfiability of component schemas."
	r.Rule("R06a", "schema type of every field shape under every annotation scenario is the wire type of the documented mapping", 150)
	r.Rule("R06c", "the container-unaware schema entry is used only in element contexts", 6)
	r.Rule("R06d", "schema property names are spelled like the encoder's keys", 8)
	r.Rule("R06e", "well-known types are published in their proto3 JSON form", 1)
	r.Rule("R06f", "JSON arms of body codecs consult the message's own codec first", 6)
	r.Rule("R06g", "operation responses and built-in error schemas", 6)

	r.Rule("R06i", "string-valued enum/const scalars of the published schemas (discriminator values, enum names) are tagged as strings (shared with C19/R19f)", 4)
	if pk := c.P.Pkg(pkgOpenAPI); pk != nil {
		c19StringTags(c, c.oaDecls(pkgOpenAPI), pk.TypesInfo, "R06i")
	}

	r.Rule("R06j", "codec emitters are called on every successful path of generateFile: a message described by the annotated schema gets its codec also in a file without services (shared with C05/R05j)", 2)
	codecEmittersUnconditional(c, "R06j")

	c06NilSliceEncoded(c)
	c06SliceAliasInLoop(c)

	conv := c.P.Func(pkgOpenAPI, "Generator.convertField")
	if conv == nil {
		r.Unres("R06a", "convertField", "", "not found")
		return
	}
	c.W.HookRuns = oaHook
	c.W.ExternStructs = true
	defer func() { c.W.HookRuns = nil; c.W.ExternStructs = false }()

	// ---------------- R06a
	type agg struct {
		shapes []string
		pos    string
		got    string
		want   string
	}
	bad := map[string]*agg{}
	nOK := 0
	for _, s := range AllShapes() {
		for _, sc := range c06Scenarios(s) {
			outs, probs, capped := c.W.EvalAll(conv, sc.fix(s, "field"), true, 64)
			key := fmt.Sprintf("%s, %s", s, sc.Name)
			if len(probs) > 0 || capped || len(outs) == 0 {
				r.Undec("R06a", key, c.P.Pos(c.P.Decls[conv].Pos()), fmt.Sprintf("convertField does not evaluate for this shape (outcomes=%d capped=%v problems=%v)", len(outs), capped, probs))
				continue
			}
			want := wireShape(s, sc)
			got := map[string]bool{}
			for _, o := range outs {
				got[absSchema(o.Result, 0)] = true
			}
			gs := sortedKeys(got)
			if len(gs) == 1 && gs[0] == want {
				nOK++
				r.OK("R06a", key, "")
				continue
			}
			// aggregate by (kind class, scenario, got, want)
			k := fmt.Sprintf("%s %s, %s: schema %s, wire %s", cardClass(s), s.Kind, sc.Name, strings.Join(gs, " / "), want)
			if bad[k] == nil {
				bad[k] = &agg{pos: c.P.Pos(c.P.Decls[conv].Pos()), got: strings.Join(gs, " / "), want: want}
			}
			bad[k].shapes = append(bad[k].shapes, s.String())
		}
	}
	for _, k := range sortedKeys(bad) {
		a := bad[k]
		r.Bad("R06a", k, a.pos, fmt.Sprintf("for %s the OpenAPI generator publishes %s while the documented mapping puts %s on the wire: bodies of that shape do not validate against the operation's schema", strings.Join(a.shapes, ", "), a.got, a.want), nil)
	}
	r.Count("shape x scenario evaluated", nOK+len(bad))

	r.Rule("R06h", "scenario messages: the component schema describes exactly the keys the documented mapping puts on the wire", 5)
	crossScenarioKeys(c, "R06h", "openapi")
	c.W.HookRuns = oaHook
	c.W.ExternStructs = true
	c06Callers(c)
	c06PropertyNames(c)
	c06WKT(c)
	c06CodecPrecedence(c)
	c06Responses(c)
}

func cardClass(s Shape) string {
	if s.Card == "singular" {
		return s.Pres
	}
	return s.Card
}

// c06ScalarCallers: who may call convertScalarField (element contexts only).
var c06ScalarCallers = map[string]string{
	"convertField":                    "array items of a repeated field, and the singular arm after the repeated/map arms were taken",
	"getMapValueSchema":               "value of a map entry (a map value is never repeated or a map)",
	"createUnwrapArraySchema":         "element of the unwrapped repeated field (the array wrapper is built by the caller)",
	"buildRootUnwrapSchema":           "element of the root-unwrapped repeated field (the array wrapper is built here)",
	"buildScalarAdditionalProperties": "value of a root-unwrapped map entry",
	"buildNestedOneofVariants":        "member of a oneof (never repeated or a map)",
}

func c06Callers(c *Ctx) {
	r := c.R
	target := c.P.Func(pkgOpenAPI, "Generator.convertScalarField")
	if target == nil {
		r.Unres("R06c", "convertScalarField", "", "not found")
		return
	}
	info := c.P.Pkg(pkgOpenAPI).TypesInfo
	seen := map[string]bool{}
	for _, nf := range sortedFuncNames(c.oaDecls(pkgOpenAPI)) {
		decl := c.P.Decls[nf.fn]
		ast.Inspect(decl.Body, func(n ast.Node) bool {
			call, ok := n.(*ast.CallExpr)
			if !ok || Callee(info, call) != target {
				return true
			}
			why, okc := c06ScalarCallers[nf.fn.Name()]
			seen[nf.fn.Name()] = true
			if okc {
				r.OKd("R06c", nf.fn.Name()+" calls convertScalarField in an element context", c.P.Pos(call.Pos()), map[string]any{"reason": why})
			} else {
				r.Bad("R06c", nf.fn.Name()+" calls convertScalarField", c.P.Pos(call.Pos()),
					nf.fn.Name()+" builds a property schema with convertScalarField, which ignores repeated, map and nullable: a repeated/map/nullable field is published with its element type, so the array/object/null on the wire does not validate (use convertField)", nil)
			}
			return true
		})
	}
}

var keyFamilyRe = regexp.MustCompile(`JSONName\(\)|Desc\.Name\(\)|GoName|\.Discriminator\b|\.DiscriminatorVal\b|GetFlattenPrefix|\.Prefix\b`)

func c06PropertyNames(c *Ctx) {
	r := c.R
	info := c.P.Pkg(pkgOpenAPI).TypesInfo
	// OpenAPI side: every X.Set(name, …) on a properties map in the object builders
	type site struct{ fn, name, pos string }
	var sites []site
	builders := map[string]bool{"buildObjectSchema": true, "buildNestedOneofSchema": true, "buildFlattenedObjectSchema": true, "buildFlattenedVariantSchemas": true, "buildNestedOneofVariants": true}
	for _, nf := range sortedFuncNames(c.oaDecls(pkgOpenAPI)) {
		if !builders[nf.fn.Name()] {
			continue
		}
		decl := c.P.Decls[nf.fn]
		ast.Inspect(decl.Body, func(n ast.Node) bool {
			call, ok := n.(*ast.CallExpr)
			if !ok {
				return true
			}
			sel, ok := call.Fun.(*ast.SelectorExpr)
			if !ok || sel.Sel.Name != "Set" || len(call.Args) != 2 {
				return true
			}
			if t := info.TypeOf(sel.X); t == nil || !strings.Contains(t.String(), "orderedmap.Map[string,") || !strings.Contains(t.String(), "SchemaProxy") || types.ExprString(sel.X) == "g.schemas" {
				return true
			}
			name := ast.Unparen(call.Args[0])
			txt := types.ExprString(name)
			if id, ok := name.(*ast.Ident); ok {
				if d := localDef(info, decl.Body, id); d != nil {
					txt = types.ExprString(d)
				}
			}
			sites = append(sites, site{nf.fn.Name(), txt, c.P.Pos(call.Pos())})
			return true
		})
	}
	want := map[string][]string{
		"buildObjectSchema":            {"field.Desc.JSONName()"},
		"buildNestedOneofSchema":       {"field.Desc.JSONName()"},
		"buildFlattenedObjectSchema":   {"field.Desc.JSONName()", "prefix + childField.Desc.JSONName()"},
		"buildFlattenedVariantSchemas": {"field.Desc.JSONName()", "info.Discriminator", "childField.Desc.JSONName()"},
		"buildNestedOneofVariants":     {"info.Discriminator", "variant.Field.Desc.JSONName()"},
	}
	for _, s := range sites {
		ok := false
		for _, w := range want[s.fn] {
			if s.name == w {
				ok = true
			}
		}
		r.Check(ok, "R06d", s.fn+": property named "+s.name, s.pos,
			fmt.Sprintf("%s names a property %s; the wire key of that datum is one of %v (protojson uses the field's JSON name, the flatten and oneof encoders prefix / discriminator + JSON name)", s.fn, s.name, want[s.fn]))
	}
	r.Count("property name sites", len(sites))
	// Go server side: accessor classes of the keys the feature encoders write
	wantEnc := map[string][]string{
		"_flatten.pb.go":             {".Prefix", "JSONName()"},
		"_oneof_discriminator.pb.go": {".Discriminator", ".DiscriminatorVal", "JSONName()"},
	}
	for _, suffix := range sortedKeys(wantEnc) {
		ri := c.Root(pkgHTTP, suffix)
		if ri == nil {
			r.Unres("R06d", "go-http *"+suffix, "", "unit root not found")
			continue
		}
		ex := c.ExploreT(ri.Fn, 6000)
		enc := map[string]bool{}
		for _, v := range ex.Variants {
			for _, u := range v.Units {
				dir := ""
				for _, l := range u.Lines {
					t := lineText(l.Segs)
					if strings.HasPrefix(t, "func (x ") {
						dir = ""
						if strings.Contains(t, "MarshalJSON()") {
							dir = "enc"
						}
					}
					if dir == "" || !(strings.Contains(t, `["`) || strings.Contains(t, `delete(`) || strings.HasPrefix(strings.TrimSpace(t), `case "`)) {
						continue
					}
					off := 0
					for _, sg := range l.Segs {
						if sg.Hole == nil {
							off += len(sg.Const)
							continue
						}
						before := t[:off]
						off += len(HoleName(sg.Hole))
						if strings.Count(before, `"`)%2 == 1 {
							enc[accessorClass(sg.Hole.Key)] = true
						}
					}
				}
			}
		}
		got := sortedKeys(enc)
		extra := []string{}
		for _, g := range got {
			in := false
			for _, w := range wantEnc[suffix] {
				if g == w {
					in = true
				}
			}
			if !in {
				extra = append(extra, g)
			}
		}
		r.CheckD(len(extra) == 0 && len(got) > 0, "R06d", "go-http *"+suffix+": encoder keys are spelled by the accessors the schema uses", c.P.Pos(c.P.Decls[ri.Fn].Pos()),
			fmt.Sprintf("the encoder of *%s writes keys spelled by %v; the schema names the properties by %v: for fields where the spellings differ the body carries a property the schema does not describe", suffix, got, wantEnc[suffix]), map[string]any{"encoder": got})
	}
}

func c06WKT(c *Ctx) {
	r := c.R
	// which google.protobuf full names does the schema mapping special-case?
	special := map[string]bool{}
	for _, rel := range []string{pkgOpenAPI, "internal/annotations"} {
		for fn, decl := range c.oaDecls(rel) {
			info := c.P.DeclPkg[fn].TypesInfo
			ast.Inspect(decl.Body, func(n ast.Node) bool {
				if e, ok := n.(ast.Expr); ok {
					if tv, ok := info.Types[e]; ok && tv.Value != nil {
						s := strings.Trim(tv.Value.ExactString(), `"`)
						if strings.HasPrefix(s, "google.protobuf.") {
							special[s] = true
						}
					}
				}
				return true
			})
		}
	}
	need := []string{"google.protobuf.Timestamp", "google.protobuf.Duration", "google.protobuf.FieldMask", "google.protobuf.Struct", "google.protobuf.Value", "google.protobuf.ListValue", "google.protobuf.Any",
		"google.protobuf.StringValue", "google.protobuf.Int64Value", "google.protobuf.BoolValue"}
	var missing []string
	for _, n := range need {
		if !special[n] {
			missing = append(missing, strings.TrimPrefix(n, "google.protobuf."))
		}
	}
	pos := ""
	if f := c.P.Func(pkgOpenAPI, "Generator.convertScalarField"); f != nil {
		pos = c.P.Pos(c.P.Decls[f].Pos())
	}
	r.Check(len(missing) == 0, "R06e", "well-known types other than Timestamp have their proto3 JSON form in the schema", pos,
		fmt.Sprintf("message-typed fields of well-known types %v are published as a $ref to an object schema built from the type's descriptor fields (Duration → {seconds, nanos}), while protojson writes their special JSON form (\"3.5s\", a bare scalar for wrappers, arbitrary JSON for Struct/Value, a string for FieldMask): such a field never validates", missing))
}

// c06CodecPrecedence: R06f.
func c06CodecPrecedence(c *Ctx) { codecPrecedence(c, "R06f", true) }

// codecPrecedence checks that every JSON arm of the body codecs consults the
// message's own codec before protojson (server runtime; optionally the Go client).
func codecPrecedence(c *Ctx, rule string, withClient bool) {
	r := c.R
	check := func(where, fname string, fd *ast.FuncDecl, pos func(ast.Node) string) {
		// every protojson.Marshal/Unmarshal call must be in a statement list that has, earlier,
		// an if with a type assertion to json.Marshaler / json.Unmarshaler that returns
		parents := parentMap(fd.Body)
		n := 0
		ast.Inspect(fd.Body, func(nd ast.Node) bool {
			call, ok := nd.(*ast.CallExpr)
			if !ok {
				return true
			}
			f := types.ExprString(call.Fun)
			if f != "protojson.Marshal" && f != "protojson.Unmarshal" {
				return true
			}
			n++
			iface := "json.Marshaler"
			if f == "protojson.Unmarshal" {
				iface = "json.Unmarshaler"
			}
			// enclosing statement list
			var stmt ast.Node = call
			var list []ast.Stmt
			for p := parents[stmt]; p != nil; p = parents[p] {
				switch x := p.(type) {
				case *ast.CaseClause:
					list = x.Body
				case *ast.BlockStmt:
					list = x.List
				}
				if list != nil {
					break
				}
				stmt = p
			}
			guarded := false
			for _, st := range list {
				if st.Pos() >= call.Pos() {
					break
				}
				ifs, ok := st.(*ast.IfStmt)
				if !ok || ifs.Init == nil {
					continue
				}
				as, ok := ifs.Init.(*ast.AssignStmt)
				if !ok || len(as.Rhs) != 1 {
					continue
				}
				ta, ok := as.Rhs[0].(*ast.TypeAssertExpr)
				if !ok || ta.Type == nil || types.ExprString(ta.Type) != iface {
					continue
				}
				// the test is unconditional: `if m, ok := x.(I); ok { return … }`
				okID, _ := ast.Unparen(ifs.Cond).(*ast.Ident)
				if okID == nil || len(as.Lhs) != 2 || types.ExprString(as.Lhs[1]) != okID.Name {
					continue
				}
				if terminates(ifs.Body) {
					guarded = true
				}
			}
			arm := "?"
			for p := parents[ast.Node(call)]; p != nil; p = parents[p] {
				if cc, ok := p.(*ast.CaseClause); ok {
					if cc.List == nil {
						arm = "default"
					} else {
						var ls []string
						for _, e := range cc.List {
							ls = append(ls, types.ExprString(e))
						}
						arm = strings.Join(ls, ",")
					}
					break
				}
			}
			r.Check(guarded, rule, fmt.Sprintf("%s %s arm %s: %s is preceded by the %s test", where, fname, arm, f, iface), pos(call),
				fmt.Sprintf("%s %s, arm %s: %s is applied without first consulting the message's own %s: an annotated message travels in plain protojson form under that content type, which neither its peer's codec nor its schema describes", where, fname, arm, f, iface))
			return true
		})
		r.Check(n > 0, rule, where+" "+fname+" has JSON arms", pos(fd), "no protojson call found in "+fname)
	}
	// server runtime (typed reconstruction)
	ep, err := c.ServerRuntime()
	if err != nil {
		r.Unres(rule, "server runtime", "", err.Error())
	} else {
		for _, name := range []string{"marshalResponse", "bindDataFromJSONRequest"} {
			fd := ep.Funcs[name]
			if fd == nil {
				r.Unres(rule, "server "+name, "", "function not found in the reconstructed runtime")
				continue
			}
			check("go-http", name, fd, func(n ast.Node) string { return ep.GenPos(n.Pos()) })
		}
	}
	if !withClient {
		return
	}
	// client: every variant of the client unit
	ri := c.Root(pkgClient, "_client.pb.go")
	if ri == nil {
		r.Unres(rule, "client unit", "", "not found")
		return
	}
	ex := c.Explore(ri.Fn, 1, 6000)
	done := map[string]bool{}
	for _, v := range ex.Variants {
		for _, u := range v.Units {
			fset, f, err := ParseUnit(u)
			if err != nil {
				continue
			}
			for _, d := range f.Decls {
				fd, ok := d.(*ast.FuncDecl)
				if !ok || fd.Body == nil || (fd.Name.Name != "marshalRequest" && fd.Name.Name != "unmarshalResponse") || done[fd.Name.Name] {
					continue
				}
				done[fd.Name.Name] = true
				check("go-client", fd.Name.Name, fd, func(n ast.Node) string {
					line := fset.Position(n.Pos()).Line
					if line >= 1 && line <= len(u.Lines) {
						return c.P.Pos(u.Lines[line-1].Pos)
					}
					return ""
				})
			}
		}
	}
	r.Check(done["marshalRequest"] && done["unmarshalResponse"], rule, "client codecs found", c.P.Pos(c.P.Decls[ri.Fn].Pos()), "marshalRequest / unmarshalResponse not found in any client variant")
}

func c06Responses(c *Ctx) {
	r := c.R
	_ = c.P.Pkg(pkgOpenAPI)
	// buildResponses: interpreted on a concrete method (libopenapi constructors modelled as identities); the
	// evaluated response map gives code → referenced schema, however the function is written
	if f := c.P.Func(pkgOpenAPI, "Generator.buildResponses"); f != nil {
		decl := c.P.Decls[f]
		pos := c.P.Pos(decl.Pos())
		prevC, prevE := c.W.Concrete, c.W.ExternStructs
		c.W.Concrete, c.W.ExternStructs = true, true
		out := cMessage("ZqOutput", fld("v", "string"))
		meth := cMethod("DoIt", cMessage("ZqInput", fld("v", "string")), out, nil)
		g := cstruct("Generator", map[string]Val{"schemas": &VStruct{Name: "omap", Fields: map[string]Val{}}})
		run := c.W.NewRun(map[string]int{}, false)
		run.InlineAll, run.FollowSlices = true, true
		run.CallHook = c.xHookT
		run.StartArgs(f, map[string]Val{"g": g, "method": meth})
		c.W.Concrete, c.W.ExternStructs = prevC, prevE
		got := map[string]string{}
		if len(run.Used) > 0 || run.Aborted != "" {
			r.Undec("R06g", "responses of a concrete operation", pos, fmt.Sprintf("buildResponses does not evaluate: open decisions %v aborted %q", usedKeys(run), run.Aborted))
		} else {
			// Responses{Codes: omap{code → Response{Content: omap{"application/json" → MediaType{Schema: $ref}}}}, Default: Response}
			var collect func(v Val, code string)
			refOf := func(resp Val) string {
				rs, ok := resp.(*VStruct)
				if !ok {
					return ""
				}
				content, ok := rs.Fields["Content"].(*VStruct)
				if !ok {
					return ""
				}
				mt, ok := content.Fields["application/json"].(*VStruct)
				if !ok {
					return ""
				}
				if ref, ok := mt.Fields["Schema"].(*VStruct); ok && ref.Name == "$ref" {
					return valText(ref.Fields["ref"])
				}
				return ""
			}
			collect = func(v Val, code string) {
				st, ok := v.(*VStruct)
				if !ok {
					return
				}
				if st.Name == "omap" {
					for k, e := range st.Fields {
						if rf := refOf(e); rf != "" {
							got[k] = rf
						}
					}
					return
				}
				if rf := refOf(st); rf != "" && code != "" {
					got[code] = rf
				}
				for k, e := range st.Fields {
					next := ""
					if k == "Default" {
						next = "default"
					}
					collect(e, next)
				}
			}
			collect(run.Result, "")
			want := map[string]string{"200": "#/components/schemas/ZqOutput", "400": "#/components/schemas/ValidationError", "default": "#/components/schemas/Error"}
			for _, code := range []string{"200", "400", "default"} {
				r.Check(got[code] == want[code], "R06g", "response "+code+" references "+strings.TrimPrefix(want[code], "#/components/schemas/"), pos,
					fmt.Sprintf("buildResponses (evaluated for an RPC whose output message is ZqOutput) publishes for %s the schema %q (expected %q): the body the server writes for that status is described by another schema", code, got[code], want[code]))
			}
			r.Check(len(got) == 3, "R06g", "exactly the responses 200, 400 and default are published", pos, fmt.Sprintf("buildResponses publishes the responses %v", sortedKeys(got)))
		}
	} else {
		r.Unres("R06g", "buildResponses", "", "not found")
	}
	// the 400 body satisfies FieldViolation.required
	if ep, err := c.ServerRuntime(); err == nil {
		violationFieldNonEmpty(c, ep, "R06g")
	}
	// built-in schemas vs the sebuf.http messages
	f := c.P.Func(pkgOpenAPI, "addBuiltinErrorSchemas")
	if f == nil {
		r.Unres("R06g", "addBuiltinErrorSchemas", "", "not found")
		return
	}
	run := c.W.NewRun(map[string]int{}, false)
	run.InlineAll = true
	schemas := &VStruct{Name: "omap", Fields: map[string]Val{}}
	run.StartArgs(f, map[string]Val{"schemas": schemas})
	if os.Getenv("VERIF_DEBUG_C06") != "" {
		fmt.Println("DEBUG builtin schemas:", sortedKeys(schemas.Fields), run.Problems, run.Aborted)
		for _, a := range run.Assigned {
			fmt.Println("   assigned", a.Target)
		}
	}
	httpPkg := c.P.Pkg("http")
	for _, name := range []string{"Error", "ValidationError", "FieldViolation"} {
		st, ok := schemas.Fields[name].(*VStruct)
		if !ok {
			r.Bad("R06g", "built-in schema "+name, c.P.Pos(c.P.Decls[f].Pos()), "addBuiltinErrorSchemas does not store a schema named "+name, nil)
			continue
		}
		var props []string
		if pm, ok := st.Fields["Properties"].(*VStruct); ok {
			props = sortedKeys(pm.Fields)
		}
		// JSON names of the Go message's fields
		var wantProps []string
		if httpPkg != nil {
			if obj := httpPkg.Types.Scope().Lookup(name); obj != nil {
				if stt, ok := obj.Type().Underlying().(*types.Struct); ok {
					for i := 0; i < stt.NumFields(); i++ {
						tag := reflect.StructTag(stt.Tag(i)).Get("protobuf")
						if tag == "" {
							continue
						}
						jn := ""
						for _, part := range strings.Split(tag, ",") {
							if strings.HasPrefix(part, "json=") {
								jn = strings.TrimPrefix(part, "json=")
							}
							if strings.HasPrefix(part, "name=") && jn == "" {
								jn = strings.TrimPrefix(part, "name=")
							}
						}
						wantProps = append(wantProps, jn)
					}
				}
			}
		}
		sort.Strings(wantProps)
		r.Check(len(wantProps) > 0 && strings.Join(props, ",") == strings.Join(wantProps, ","), "R06g", "built-in schema "+name+" lists the JSON names of sebuf.http."+name, c.P.Pos(c.P.Decls[f].Pos()),
			fmt.Sprintf("the built-in %s schema has properties %v, the message sebuf.http.%s has JSON names %v", name, props, name, wantProps))
	}
}

func init() { props["C06"] = checkC06 }

// c06NilSliceEncoded: R06k — in an emitted MarshalJSON a slice that is JSON-encoded (json.Marshal(v)) is created
// non-nil: `var v []T` encodes an empty list as null, while the published schema of a repeated field / unwrap
// list is `type: array` (protojson writes [] as well).
func c06NilSliceEncoded(c *Ctx) {
	r := c.R
	r.Rule("R06k", "emitted encoders never JSON-encode a nil-declared slice (an empty list must be [], not null)", 1)
	bad := map[string]string{}
	nEnc, nMake := 0, 0
	for _, ri := range c.goUnitRoots() {
		ex := c.ExploreT(ri.Fn, 6000)
		if !unitDeclaresCodec(ex) {
			continue
		}
		for _, v := range ex.Variants {
			for _, u := range v.Units {
				fset, f, err := ParseUnit(u)
				if err != nil {
					continue
				}
				for _, d := range f.Decls {
					fd, ok := d.(*ast.FuncDecl)
					if !ok || fd.Body == nil || fd.Name.Name != "MarshalJSON" {
						continue
					}
					nEnc++
					nilDecl := map[string]token.Pos{}
					ast.Inspect(fd.Body, func(n ast.Node) bool {
						switch x := n.(type) {
						case *ast.DeclStmt:
							if gd, ok := x.Decl.(*ast.GenDecl); ok && gd.Tok == token.VAR {
								for _, sp := range gd.Specs {
									vs := sp.(*ast.ValueSpec)
									if _, isSlice := vs.Type.(*ast.ArrayType); isSlice && len(vs.Values) == 0 {
										for _, nm := range vs.Names {
											nilDecl[nm.Name] = nm.Pos()
										}
									}
								}
							}
						case *ast.AssignStmt:
							if x.Tok == token.DEFINE && len(x.Rhs) == 1 {
								if call, ok := x.Rhs[0].(*ast.CallExpr); ok {
									if id, ok := call.Fun.(*ast.Ident); ok && id.Name == "make" {
										nMake++
									}
								}
							}
						case *ast.CallExpr:
							if types.ExprString(x.Fun) == "json.Marshal" && len(x.Args) == 1 {
								if id, ok := x.Args[0].(*ast.Ident); ok {
									if p, isNil := nilDecl[id.Name]; isNil {
										line := fset.Position(p).Line
										pos, em := "", "?"
										if line >= 1 && line <= len(u.Lines) {
											pos = c.P.Pos(u.Lines[line-1].Pos)
											if u.Lines[line-1].Fn != nil {
												em = u.Lines[line-1].Fn.Name()
											}
										}
										bad[pkgShort(ri.Pkg)+" *"+ri.Suffix+": a slice declared with `var` (nil) is JSON-encoded"] = pos
										_ = em
									}
								}
							}
						}
						return true
					})
				}
			}
		}
	}
	for _, k := range sortedKeys(bad) {
		r.Bad("R06k", k, bad[k], "an empty list is encoded as null: the schema published for the field is `type: array` (and protojson writes [] for the same field), so the response does not validate against the document", nil)
	}
	r.OKd("R06k", "slices encoded by emitted MarshalJSON functions are created with make", "", map[string]any{"encoders": nEnc, "make_sites": nMake, "nil_declared_and_encoded": len(bad)})
}

// c06SliceAliasInLoop: R06l — a slice that is extended inside a loop must not start as a plain copy of a slice
// variable declared outside the loop (`v := outer` … `v = append(v, x)`): when outer has spare capacity every
// iteration writes into the same backing array and an earlier iteration's result (a `required` list already
// stored in a schema) is overwritten by a later one.
func c06SliceAliasInLoop(c *Ctx) {
	r := c.R
	r.Rule("R06m", "schema constraint keywords are derived only from rules that bound the same quantity in the same unit (shared with C19/R19j): a body the rules accept is not rejected by a keyword the rules do not state", 14)
	// for C06 a keyword that is implied by the rule (at most N bytes implies at most N characters) rejects no accepted body
	keywordSources(c, "R06m", map[string][]string{"MaxLength": {"MaxBytes"}})
	r.Rule("R06n", "the flatten and discriminated-oneof encoders remove the wrapper key whenever the field is set (never conditionally on the child's content): the wire carries only the promoted keys the schema describes", 2)
	wrapperKeyAlwaysRemoved(c, "R06n")
	r.Rule("R06q", "a float32 rule value reaches the published const / enum / bound through its own shortest decimal text, never through a bare float64(…) widening (shares the concern of C19/R19e, R19l)", 1)
	noBareFloatWidening(c, "R06q")
	r.Rule("R06p", "the published enum list of an enum-typed field holds every value of the enum (string and NUMBER encodings)", 2)
	c06EnumListComplete(c, "R06p")
	r.Rule("R06o", "children promoted from a (sebuf.http.flatten) message field are not listed in required: the keys are absent whenever the flattened field is unset, which the rules and the generated code accept", 1)
	if pk0 := c.P.Pkg(pkgOpenAPI); pk0 != nil {
		c19Required(c, c.oaDecls(pkgOpenAPI), pk0.TypesInfo, "R06o", true)
	}
	r.Rule("R06l", "per-iteration slices (required lists, parameter lists) of the OpenAPI generator do not share a backing array with a slice from outside the loop", 1)
	pk := c.P.Pkg(pkgOpenAPI)
	if pk == nil {
		r.Unres("R06l", pkgOpenAPI, "", "package not loaded")
		return
	}
	info := pk.TypesInfo
	nLoops, nCopies := 0, 0
	for _, f := range pk.Syntax {
		for _, d := range f.Decls {
			fd, ok := d.(*ast.FuncDecl)
			if !ok || fd.Body == nil {
				continue
			}
			ast.Inspect(fd.Body, func(n ast.Node) bool {
				var body *ast.BlockStmt
				switch x := n.(type) {
				case *ast.RangeStmt:
					body = x.Body
				case *ast.ForStmt:
					body = x.Body
				default:
					return true
				}
				nLoops++
				loopPos, loopEnd := n.Pos(), n.End()
				// v := outer / var v = outer / v = outer inside the loop, outer a slice variable declared outside it
				ast.Inspect(body, func(m ast.Node) bool {
					as, ok := m.(*ast.AssignStmt)
					if !ok || len(as.Lhs) != len(as.Rhs) {
						return true
					}
					for i, rh := range as.Rhs {
						rid, ok := ast.Unparen(rh).(*ast.Ident)
						if !ok {
							continue
						}
						robj := info.ObjectOf(rid)
						if robj == nil || (robj.Pos() >= loopPos && robj.Pos() < loopEnd) {
							continue
						}
						if _, isSlice := robj.Type().Underlying().(*types.Slice); !isSlice {
							continue
						}
						lid, ok := as.Lhs[i].(*ast.Ident)
						if !ok {
							continue
						}
						lobj := info.ObjectOf(lid)
						if lobj == nil {
							continue
						}
						nCopies++
						// is the copy appended to (v = append(v, …)) within the loop?
						appended := false
						ast.Inspect(body, func(k ast.Node) bool {
							if call, ok := k.(*ast.CallExpr); ok {
								if fid, ok := call.Fun.(*ast.Ident); ok && fid.Name == "append" && len(call.Args) > 0 {
									if aid, ok := ast.Unparen(call.Args[0]).(*ast.Ident); ok && info.ObjectOf(aid) == lobj {
										appended = true
									}
								}
							}
							return true
						})
						// the outer slice can only have spare capacity if it was itself grown with append (or made with a capacity)
						grown := false
						ast.Inspect(fd.Body, func(k ast.Node) bool {
							if call, ok := k.(*ast.CallExpr); ok {
								if fid, ok := call.Fun.(*ast.Ident); ok && len(call.Args) > 0 {
									if aid, ok := ast.Unparen(call.Args[0]).(*ast.Ident); ok && fid.Name == "append" && info.ObjectOf(aid) == robj {
										grown = true
									}
								}
							}
							if as2, ok := k.(*ast.AssignStmt); ok && len(as2.Rhs) == 1 {
								if call, ok := as2.Rhs[0].(*ast.CallExpr); ok {
									if fid, ok := call.Fun.(*ast.Ident); ok && fid.Name == "make" && len(call.Args) == 3 {
										if l0, ok := as2.Lhs[0].(*ast.Ident); ok && info.ObjectOf(l0) == robj {
											grown = true
										}
									}
								}
							}
							return true
						})
						if _, isParam := robj.(*types.Var); isParam && robj.Parent() != nil && robj.Pos() < fd.Body.Pos() {
							grown = true // a parameter: the caller may have left spare capacity
						}
						key := fmt.Sprintf("%s: %s starts as a copy of the outer slice %s", fd.Name.Name, lid.Name, rid.Name)
						r.Check(!(appended && grown), "R06l", key, c.P.Pos(as.Pos()),
							fmt.Sprintf("inside a loop %s is initialised with the slice header of %s (declared outside the loop) and then extended with append: iterations share %s's backing array, so the list stored by an earlier iteration is overwritten by a later one (with two required common fields the second variant's required child replaces the first's)", lid.Name, rid.Name, rid.Name))
					}
					return true
				})
				return true
			})
		}
	}
	r.OKd("R06l", "loops of internal/openapiv3 inspected for slice headers copied from outside and appended to", "", map[string]any{"loops": nLoops, "outer_slice_copies": nCopies})
}

// c06EnumListComplete — R06p. Every loop of the OpenAPI generator over an enum's values that fills a schema's `enum` list
// lists every value: the append is a statement of the loop body itself (not under a condition on the value) and nothing in
// the body leaves the iteration early. A value left out (the zero value "because proto3 JSON never writes the default") is
// still on the wire in repeated fields, map values, optional fields and oneof members, and then fails the published enum.
func c06EnumListComplete(c *Ctx, rid string) {
	r := c.R
	pk := c.P.Pkg(pkgOpenAPI)
	if pk == nil {
		r.Unres(rid, pkgOpenAPI, "", "package not loaded")
		return
	}
	info := pk.TypesInfo
	n := 0
	for _, nf := range sortedFuncNames(c.oaDecls(pkgOpenAPI)) {
		decl := c.oaDecls(pkgOpenAPI)[nf.fn]
		if decl == nil || decl.Body == nil {
			continue
		}
		ast.Inspect(decl.Body, func(nd ast.Node) bool {
			rs, ok := nd.(*ast.RangeStmt)
			if !ok {
				return true
			}
			// a loop over an enum's values, whatever the enum is reached through (field.Enum.Values, a parameter's .Values)
			isEnumValues := false
			if t := info.TypeOf(rs.X); t != nil {
				if sl, ok := t.Underlying().(*types.Slice); ok && typeIsNamed(sl.Elem(), "compiler/protogen", "EnumValue") {
					isEnumValues = true
				}
			}
			if !isEnumValues {
				return true
			}
			// does the loop fill an `Enum` list?
			fills := false
			ast.Inspect(rs.Body, func(m ast.Node) bool {
				if as, ok := m.(*ast.AssignStmt); ok && len(as.Lhs) == 1 {
					if sel, ok := ast.Unparen(as.Lhs[0]).(*ast.SelectorExpr); ok && sel.Sel.Name == "Enum" {
						fills = true
					}
				}
				return true
			})
			if !fills {
				return true
			}
			n++
			topLevel := false
			for _, st := range rs.Body.List {
				if as, ok := st.(*ast.AssignStmt); ok && len(as.Lhs) == 1 && len(as.Rhs) == 1 {
					if sel, ok := ast.Unparen(as.Lhs[0]).(*ast.SelectorExpr); ok && sel.Sel.Name == "Enum" {
						if call, ok := ast.Unparen(as.Rhs[0]).(*ast.CallExpr); ok && types.ExprString(call.Fun) == "append" {
							topLevel = true
						}
					}
				}
			}
			early := ""
			ast.Inspect(rs.Body, func(m ast.Node) bool {
				switch x := m.(type) {
				case *ast.FuncLit:
					return false
				case *ast.BranchStmt:
					if x.Tok == token.CONTINUE || x.Tok == token.BREAK {
						early = x.Tok.String()
					}
				case *ast.ReturnStmt:
					early = "return"
				}
				return true
			})
			key := fmt.Sprintf("%s: loop %d over %s lists every value in the schema's enum", nf.name, n, types.ExprString(rs.X))
			r.Check(topLevel && early == "", rid, key, c.P.Pos(rs.Pos()),
				fmt.Sprintf("%s fills the schema's enum list from %s but not with every value (append unconditional in the loop body: %v; early exit: %q): a value that is left out is still written by the generated servers and clients — in repeated fields, map values, optional fields, oneof members — and fails the published enum", nf.name, types.ExprString(rs.X), topLevel, early))
			return true
		})
	}
	if n == 0 {
		r.Unres(rid, "enum-list loops of internal/openapiv3", "", "no loop over .Enum.Values that fills a schema's enum list")
	}
}
