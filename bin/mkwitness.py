#!/usr/bin/env python3
"""mkwitness.py <prop> <name> <file> <<< 'OLD\n====\nNEW' [more FILE blocks separated by '####' lines: file\nOLD\n====\nNEW]
Creates witness/<prop>/<name>.patch from a textual replacement applied to a scratch copy of /repo."""
import sys, subprocess, tempfile, shutil, os
prop, name = sys.argv[1], sys.argv[2]
spec = sys.stdin.read()
blocks = spec.split('\n####\n')
tmp = tempfile.mkdtemp(prefix='/var/tmp/sebuf-mk.')
try:
    subprocess.run(['git', '-C', '/repo', 'worktree', 'add', '--detach', '-q', tmp + '/wt', 'HEAD'], check=True)
    wt = tmp + '/wt'
    for b in blocks:
        file, rest = b.split('\n', 1)
        old, new = rest.split('\n====\n')
        new = new.rstrip('\n') if not new.endswith('\n\n') else new
        p = os.path.join(wt, file.strip())
        s = open(p).read()
        if old.rstrip('\n') not in s:
            print('OLD text not found in', file); sys.exit(1)
        s = s.replace(old.rstrip('\n'), new.rstrip('\n'), 1)
        open(p, 'w').write(s)
    env = dict(os.environ, PATH='/opt/veriftools/go1.26.8/bin:' + os.environ['PATH'], GOTOOLCHAIN='local', GOFLAGS='-mod=mod', GOPROXY='off', GOSUMDB='off', GOWORK='off')
    r = subprocess.run(['go', 'build', './...'], cwd=wt, env=env, capture_output=True, text=True)
    if r.returncode != 0:
        print('witness does not compile:\n', r.stderr[:800]); sys.exit(1)
    d = subprocess.run(['git', 'diff'], cwd=wt, capture_output=True, text=True).stdout
    os.makedirs(f'/verif/witness/{prop}', exist_ok=True)
    open(f'/verif/witness/{prop}/{name}.patch', 'w').write(d)
    print('wrote', f'witness/{prop}/{name}.patch', len(d.splitlines()), 'lines')
finally:
    subprocess.run(['git', '-C', '/repo', 'worktree', 'remove', '--force', tmp + '/wt'])
    shutil.rmtree(tmp, ignore_errors=True)
