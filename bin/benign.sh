#!/bin/bash
# bin/benign.sh [name ...] — behaviour-preserving refactorings (benign/*.patch, written by independent sub-agents
# and confirmed byte-identical / behaviour-identical by them): every check must stay silent on each.
HERE=$(cd "$(dirname "$0")/.." && pwd)
names="$*"; [ -z "$names" ] && names=$(ls "$HERE"/benign/*.patch | xargs -n1 basename | sed 's/\.patch$//')
fail=0
for n in $names; do
  out=$("$HERE/bin/trybenign.sh" "$HERE/benign/$n.patch" 2>&1); code=$?
  if [ $code -eq 0 ]; then echo "BENIGN $n: silent"; else echo "BENIGN $n: FALSE ALARM"; echo "$out" | grep -E "ALARM|rule=|VACUOUS|UNRES|UNDEC|apply" | cut -c1-300 | head -12; fail=1; fi
done
exit $fail
