# Environment every /verif command needs (offline Go toolchain that can load /repo).
export PATH=/opt/veriftools/go1.26.8/bin:$PATH
export GOTOOLCHAIN=local GOFLAGS=-mod=mod GOPROXY=off GOSUMDB=off GOWORK=off
unset GOWORK_FILE 2>/dev/null || true
