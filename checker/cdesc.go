package main

// cdesc.go — concrete descriptor scenarios for message-level validators.
//
// The field-level predicates are decided exhaustively over the shape domain
// (E5). Message-level validators (collision maps, path/query/body coverage,
// oneof rules) relate several fields of one message; they are evaluated here by
// the walker in "concrete" mode on small hand-built descriptor values: structs
// standing for *protogen.Message / Field / Oneof / Method / Service whose
// descriptor methods and annotation accessors are answered from the value
// (CallHook), with maps, errors and slices modelled as values. Nothing is
// executed; the validator's syntax tree is interpreted. Each scenario states a
// documented rule instance and the verdict the rule demands.

import (
	"go/types"
	"strings"
)

var cdescID = -1

func cstruct(name string, fields map[string]Val) *VStruct {
	cdescID--
	return &VStruct{Name: name, Fields: fields, id: cdescID, Concrete: true}
}

var kindNum = map[string]int64{"double": 1, "float": 2, "int64": 3, "uint64": 4, "int32": 5, "fixed64": 6, "fixed32": 7, "bool": 8, "string": 9, "group": 10,
	"message": 11, "bytes": 12, "uint32": 13, "enum": 14, "sfixed32": 15, "sfixed64": 16, "sint32": 17, "sint64": 18}

var kindLabel = map[string]string{"double": "DoubleKind", "float": "FloatKind", "int64": "Int64Kind", "uint64": "Uint64Kind", "int32": "Int32Kind", "fixed64": "Fixed64Kind",
	"fixed32": "Fixed32Kind", "bool": "BoolKind", "string": "StringKind", "group": "GroupKind", "message": "MessageKind", "bytes": "BytesKind", "uint32": "Uint32Kind", "enum": "EnumKind",
	"sfixed32": "Sfixed32Kind", "sfixed64": "Sfixed64Kind", "sint32": "Sint32Kind", "sint64": "Sint64Kind"}

type cField struct {
	Name, JSON, Kind string
	List, Map, Opt   bool
	Msg              *VStruct
	Ann              map[string]Val // "@IsFlattenField": VBool…, answered to annotations accessors
	v                *VStruct
}

func snakeToCamelJSON(s string) string {
	parts := strings.Split(s, "_")
	for i := 1; i < len(parts); i++ {
		if parts[i] != "" {
			parts[i] = strings.ToUpper(parts[i][:1]) + parts[i][1:]
		}
	}
	return strings.Join(parts, "")
}

func (f *cField) val() *VStruct {
	if f.v != nil {
		return f.v
	}
	if f.JSON == "" {
		f.JSON = snakeToCamelJSON(f.Name)
	}
	desc := cstruct("FieldDesc", map[string]Val{
		"Name()": constStr(f.Name), "JSONName()": constStr(f.JSON), "IsList()": VBool{B: f.List}, "IsMap()": VBool{B: f.Map},
		"HasOptionalKeyword()": VBool{B: f.Opt}, "Kind()": VInt{N: kindNum[f.Kind], Label: kindLabel[f.Kind]},
		"HasPresence()": VBool{B: f.Opt || f.Kind == "message"}, "Options()": VNil{},
	})
	var msg Val = VNil{}
	if f.Msg != nil {
		msg = f.Msg
	}
	fields := map[string]Val{"Desc": desc, "Message": msg, "Enum": VNil{}, "Oneof": VNil{}, "GoName": constStr(strings.Title(snakeToCamelJSON(f.Name))),
		"Comments": cstruct("CommentSet", map[string]Val{"Leading": constStr("")})}
	for k, v := range f.Ann {
		fields[k] = v
	}
	f.v = cstruct("Field", fields)
	return f.v
}

func cMessage(name string, fields ...*cField) *VStruct {
	fl := VList{Key: "fields", Elems: []Val{}}
	for _, f := range fields {
		fl.Elems = append(fl.Elems, f.val())
	}
	desc := cstruct("MessageDesc", map[string]Val{"Name()": constStr(name), "FullName()": constStr("pkg." + name), "IsMapEntry()": VBool{}})
	return cstruct("Message", map[string]Val{"Fields": fl, "Oneofs": VList{Key: "oneofs", Elems: []Val{}}, "Messages": VList{Key: "msgs", Elems: []Val{}}, "Desc": desc,
		"GoIdent": cstruct("GoIdent", map[string]Val{"GoName": constStr(name)}), "Comments": cstruct("CommentSet", map[string]Val{"Leading": constStr("")})})
}

// cOneof groups fields of msg into a oneof (real, not synthetic).
func cOneof(msg *VStruct, name string, members ...*cField) *VStruct {
	ml := VList{Key: "ofields", Elems: []Val{}}
	o := cstruct("Oneof", map[string]Val{"Desc": cstruct("OneofDesc", map[string]Val{"Name()": constStr(name), "IsSynthetic()": VBool{}}), "GoName": constStr(strings.Title(name))})
	for _, m := range members {
		m.val().Fields["Oneof"] = o
		ml.Elems = append(ml.Elems, m.val())
	}
	o.Fields["Fields"] = ml
	ol := msg.Fields["Oneofs"].(VList)
	ol.Elems = append(ol.Elems, o)
	msg.Fields["Oneofs"] = ol
	return o
}

func cMethod(name string, in, out *VStruct, ann map[string]Val) *VStruct {
	f := map[string]Val{"Input": in, "Output": out, "GoName": constStr(name), "Desc": cstruct("MethodDesc", map[string]Val{"Name()": constStr(name)})}
	for k, v := range ann {
		f[k] = v
	}
	return cstruct("Method", f)
}

func cService(name string, methods ...*VStruct) *VStruct {
	ml := VList{Key: "methods", Elems: []Val{}}
	for _, m := range methods {
		ml.Elems = append(ml.Elems, m)
	}
	return cstruct("Service", map[string]Val{"Methods": ml, "GoName": constStr(name), "Desc": cstruct("ServiceDesc", map[string]Val{"Name()": constStr(name)})})
}

func cHTTPConfig(path, method string) *VStruct {
	ps := VList{Key: "pp", Elems: []Val{}}
	for _, m := range c03ParamRe.FindAllStringSubmatch(path, -1) {
		ps.Elems = append(ps.Elems, constStr(m[1]))
	}
	return cstruct("HTTPConfig", map[string]Val{"Path": constStr(path), "Method": constStr(method), "PathParams": ps})
}

func cQueryParams(fields ...[2]string) VList {
	l := VList{Key: "qps", Elems: []Val{}}
	for _, f := range fields {
		l.Elems = append(l.Elems, cstruct("QueryParam", map[string]Val{"FieldName": constStr(f[0]), "ParamName": constStr(f[1]), "FieldJSONName": constStr(snakeToCamelJSON(f[0])),
			"FieldGoName": constStr(f[0]), "Required": VBool{}, "FieldKind": constStr("string"), "Field": VNil{}}))
	}
	return l
}

// cdescHook answers descriptor methods and option-reading annotation accessors
// from concrete scenario values.
func (c *Ctx) cdescHook(fn *types.Func, recv Val, args []Val) (Val, bool) {
	if st, ok := recv.(*VStruct); ok && st.Concrete {
		if v, ok := st.Fields[fn.Name()+"()"]; ok {
			return v, true
		}
	}
	if st, ok := recv.(*VStruct); ok && st.Name == "builder" && fn.Pkg() != nil && fn.Pkg().Path() == "strings" {
		switch fn.Name() {
		case "WriteString":
			if len(args) == 1 {
				a, _ := toStr(st.Fields["buf"])
				b, _ := toStr(args[0])
				st.Fields["buf"] = foldConsts(VStr{Segs: append(append([]Seg{}, a.Segs...), b.Segs...)})
				return VTuple{VInt{}, VNil{}}, true
			}
		case "String":
			return st.Fields["buf"], true
		}
	}
	if st, ok := recv.(*VStruct); ok && st.Name == "omap" && fn.Name() == "Len" {
		return VInt{N: int64(len(st.Fields))}, true
	}
	if iv, ok := recv.(VInt); ok && fn.Name() == "String" && strings.HasSuffix(iv.Label, "Kind") {
		return constStr(strings.ToLower(strings.TrimSuffix(iv.Label, "Kind"))), true
	}
	if fn.Pkg() != nil && fn.Pkg().Path() == modPath+"/internal/annotations" && len(args) >= 1 && c.W.readsOptions(fn) {
		if st, ok := args[0].(*VStruct); ok && st.Concrete {
			// functions that merely call other accessors are interpreted; base accessors are answered
			if !c.W.readsOptionsDirect(fn) {
				return nil, false
			}
			if v, ok := st.Fields["@"+fn.Name()]; ok {
				return v, true
			}
			// unset annotation: the zero value of the result
			sig := fn.Type().(*types.Signature)
			if sig.Results().Len() == 1 {
				switch u := sig.Results().At(0).Type().Underlying().(type) {
				case *types.Basic:
					switch {
					case u.Info()&types.IsBoolean != 0:
						return VBool{}, true
					case u.Info()&types.IsString != 0:
						return constStr(""), true
					case u.Info()&types.IsInteger != 0:
						return VInt{N: 0, Label: "0"}, true
					}
				default:
					return VNil{}, true
				}
			}
		}
	}
	return nil, false
}

