package main

// c19.go — C19: OpenAPI constraints accept exactly what the declared
// buf.validate rules accept.
//
// The iff over values cannot be decided from the code's shape. What is decided
// are the structural necessary conditions of a faithful translation, on the
// type-resolved syntax tree of internal/openapiv3/validation.go and its callers:
//
//   R19a  libopenapi DynamicValue literals select the arm they fill (a literal
//         that fills B without N: 1 renders the zero A value)
//   R19b  rule → keyword table: under the presence test of rule K the keyword
//         of K is assigned from the getter of K; the supported rules are all there
//   R19c  kind → rule-arm dispatch: the rules read for a field kind are the
//         rules buf.validate keeps for that kind
//   R19d  numeric keywords are attached only to numerically typed schemas
//   R19e  no lossy conversion on the rule-value → keyword-value path
//   R19f  string-valued const/enum YAML scalars carry the !!str tag
//   R19g  every property set from a field is listed as required, under the same
//         name, exactly when checkIfFieldRequired(field)

import (
	"fmt"
	"go/ast"
	"go/token"
	"go/types"
	"sort"
	"strings"
)

var c19Keyword = map[string]string{
	"MinLen": "MinLength", "MaxLen": "MaxLength", "Pattern": "Pattern", "In": "Enum", "Const": "Const",
	"Gte": "Minimum", "Gt": "ExclusiveMinimum", "Lte": "Maximum", "Lt": "ExclusiveMaximum",
	"MinItems": "MinItems", "MaxItems": "MaxItems", "Unique": "UniqueItems",
	"MinPairs": "MinProperties", "MaxPairs": "MaxProperties",
}

var c19Format = map[string]string{
	"Email": "email", "Uuid": "uuid", "Uri": "uri", "UriRef": "uri-reference", "Hostname": "hostname", "Ipv4": "ipv4", "Ipv6": "ipv6",
}

var c19Supported = map[string][]string{
	"GetString": {"MinLen", "MaxLen", "Pattern", "In", "Const"},
	"GetInt32":  {"Gt", "Gte", "Lt", "Lte", "In", "Const"}, "GetInt64": {"Gt", "Gte", "Lt", "Lte", "In", "Const"},
	"GetFloat": {"Gt", "Gte", "Lt", "Lte", "In", "Const"}, "GetDouble": {"Gt", "Gte", "Lt", "Lte", "In", "Const"},
	"GetRepeated": {"MinItems", "MaxItems", "Unique"}, "GetMap": {"MinPairs", "MaxPairs"},
}

var c19KindArm = map[string]string{
	"StringKind": "GetString", "Int32Kind": "GetInt32", "Sint32Kind": "GetSint32", "Sfixed32Kind": "GetSfixed32",
	"Uint32Kind": "GetUint32", "Fixed32Kind": "GetFixed32", "Int64Kind": "GetInt64", "Sint64Kind": "GetSint64",
	"Sfixed64Kind": "GetSfixed64", "Uint64Kind": "GetUint64", "Fixed64Kind": "GetFixed64", "FloatKind": "GetFloat", "DoubleKind": "GetDouble",
}

// c19Apply describes one apply*Constraints function.
type c19Apply struct {
	fn     *types.Func
	decl   *ast.FuncDecl
	arm    string // GetInt32 …
	rcName string // local holding the rules
	// rule → assigned keyword fields, and the getters used in the body
	rules map[string]*c19Rule
}
type c19Rule struct {
	hasCond bool // the guard is a presence test (HasK()), not the value getter
	pos     token.Pos
	fields  []string
	getters []string
	convs   []string // conversions applied to the getter value, e.g. float64(int64)
	format  string
}

func (c *Ctx) c19ParseApply(fn *types.Func) *c19Apply {
	decl := c.P.Decls[fn]
	info := c.P.DeclPkg[fn].TypesInfo
	a := &c19Apply{fn: fn, decl: decl, rules: map[string]*c19Rule{}}
	// rc := constraints.GetX()
	for _, st := range decl.Body.List {
		if as, ok := st.(*ast.AssignStmt); ok && as.Tok == token.DEFINE && len(as.Rhs) == 1 {
			if call, ok := as.Rhs[0].(*ast.CallExpr); ok {
				if sel, ok := call.Fun.(*ast.SelectorExpr); ok && strings.HasPrefix(sel.Sel.Name, "Get") {
					if id, ok := as.Lhs[0].(*ast.Ident); ok && a.rcName == "" {
						a.rcName = id.Name
						a.arm = sel.Sel.Name
					}
				}
			}
		}
	}
	if a.rcName == "" {
		// the rules arrive as a parameter of their own type (*validate.StringRules …): the arm is named by the type
		for _, f := range decl.Type.Params.List {
			t := info.TypeOf(f.Type)
			pt, ok := t.(*types.Pointer)
			if !ok {
				continue
			}
			nm, ok := pt.Elem().(*types.Named)
			if !ok || nm.Obj().Pkg() == nil || !strings.HasSuffix(nm.Obj().Pkg().Path(), "/validate") {
				continue
			}
			tn := nm.Obj().Name()
			if tn == "FieldRules" || !strings.HasSuffix(tn, "Rules") || len(f.Names) != 1 {
				continue
			}
			a.rcName = f.Names[0].Name
			a.arm = "Get" + strings.TrimSuffix(tn, "Rules")
		}
	}
	if a.rcName == "" {
		return a
	}
	// locals of the function that hold the value of a rule getter (v := rc.GetK()), by object
	getterLocals := map[types.Object]string{}
	ast.Inspect(decl.Body, func(n ast.Node) bool {
		if as, ok := n.(*ast.AssignStmt); ok && len(as.Lhs) == len(as.Rhs) {
			for i, l := range as.Lhs {
				id, ok := l.(*ast.Ident)
				if !ok {
					continue
				}
				if call, ok := ast.Unparen(as.Rhs[i]).(*ast.CallExpr); ok {
					if sel, ok := call.Fun.(*ast.SelectorExpr); ok && types.ExprString(sel.X) == a.rcName && strings.HasPrefix(sel.Sel.Name, "Get") && a.rcName != "" {
						if o := info.ObjectOf(id); o != nil {
							getterLocals[o] = strings.TrimPrefix(sel.Sel.Name, "Get")
						}
					}
				}
			}
		}
		return true
	})
	ruleOfCond := func(e ast.Expr) string {
		e = ast.Unparen(e)
		// len(rc.GetIn()) > 0
		if be, ok := e.(*ast.BinaryExpr); ok {
			if call, ok := be.X.(*ast.CallExpr); ok {
				if id, ok := call.Fun.(*ast.Ident); ok && id.Name == "len" && len(call.Args) == 1 {
					e = call.Args[0]
				}
			}
		}
		if id, ok := ast.Unparen(e).(*ast.Ident); ok {
			// a local that holds the value of the rule's getter (in := rc.GetIn(); len(in) != 0)
			if g, ok := getterLocals[info.ObjectOf(id)]; ok {
				return g
			}
			return ""
		}
		call, ok := e.(*ast.CallExpr)
		if !ok {
			return ""
		}
		sel, ok := call.Fun.(*ast.SelectorExpr)
		if !ok || types.ExprString(sel.X) != a.rcName {
			return ""
		}
		n := sel.Sel.Name
		switch {
		case strings.HasPrefix(n, "Has"):
			return strings.TrimPrefix(n, "Has")
		case strings.HasPrefix(n, "Get"):
			return strings.TrimPrefix(n, "Get")
		}
		return ""
	}
	fmtArgs := map[ast.Expr]bool{}
	condIsPresence := func(e ast.Expr) bool {
		pres := false
		ast.Inspect(e, func(n ast.Node) bool {
			if call, ok := n.(*ast.CallExpr); ok {
				if sel, ok := call.Fun.(*ast.SelectorExpr); ok && types.ExprString(sel.X) == a.rcName && strings.HasPrefix(sel.Sel.Name, "Has") {
					pres = true
				}
			}
			return true
		})
		return pres
	}
	var curCond ast.Expr
	collect := func(rule string, pos token.Pos, body []ast.Stmt) {
		ru := a.rules[rule]
		if ru == nil {
			ru = &c19Rule{pos: pos}
			a.rules[rule] = ru
		}
		if curCond != nil && condIsPresence(curCond) {
			ru.hasCond = true
		}
		for _, st := range body {
			ast.Inspect(st, func(n ast.Node) bool {
				switch x := n.(type) {
				case *ast.AssignStmt:
					for i, l := range x.Lhs {
						if sel, ok := l.(*ast.SelectorExpr); ok && types.ExprString(sel.X) == "schema" {
							ru.fields = append(ru.fields, sel.Sel.Name)
							if sel.Sel.Name == "Format" && i < len(x.Rhs) {
								if tv, ok := info.Types[x.Rhs[i]]; ok && tv.Value != nil {
									ru.format = strings.Trim(tv.Value.ExactString(), `"`)
								}
							}
						}
					}
				case *ast.Ident:
					if g, ok := getterLocals[info.Uses[x]]; ok {
						ru.getters = append(ru.getters, g)
					}
				case *ast.CallExpr:
					if sel, ok := x.Fun.(*ast.SelectorExpr); ok && types.ExprString(sel.X) == a.rcName && strings.HasPrefix(sel.Sel.Name, "Get") {
						ru.getters = append(ru.getters, strings.TrimPrefix(sel.Sel.Name, "Get"))
					}
					// number formatters must render the value at its own width, shortest round-trip form
					if cal := Callee(info, x); cal != nil && cal.Pkg() != nil && cal.Pkg().Path() == "strconv" {
						switch cal.Name() {
						case "FormatFloat":
							if len(x.Args) == 4 {
								fmtArgs[ast.Unparen(x.Args[0])] = true // widening for the formatter is exact
								src := 64
								if cv, ok := ast.Unparen(x.Args[0]).(*ast.CallExpr); ok && len(cv.Args) == 1 {
									if tv, ok := info.Types[cv.Fun]; ok && tv.IsType() {
										if ft := info.TypeOf(cv.Args[0]); ft != nil && types.TypeString(ft, nil) == "float32" {
											src = 32
										}
									}
								}
								bits, prec := "", ""
								if tv, ok := info.Types[x.Args[3]]; ok && tv.Value != nil {
									bits = tv.Value.ExactString()
								}
								if tv, ok := info.Types[x.Args[2]]; ok && tv.Value != nil {
									prec = tv.Value.ExactString()
								}
								if bits != fmt.Sprint(src) || prec != "-1" {
									ru.convs = append(ru.convs, fmt.Sprintf("strconv.FormatFloat(float%d value, prec %s, bitSize %s)", src, prec, bits))
								}
							}
						case "FormatInt", "FormatUint":
							if len(x.Args) == 2 {
								if tv, ok := info.Types[x.Args[1]]; ok && tv.Value != nil && tv.Value.ExactString() != "10" {
									ru.convs = append(ru.convs, "strconv."+cal.Name()+" base "+tv.Value.ExactString())
								}
							}
						}
					}
					// conversion T(rc.GetK()) between numeric types
					if tv, ok := info.Types[x.Fun]; ok && tv.IsType() && len(x.Args) == 1 && !fmtArgs[ast.Expr(x)] {
						from := info.TypeOf(x.Args[0])
						if from != nil {
							ru.convs = append(ru.convs, types.TypeString(tv.Type, nil)+"("+types.TypeString(from, nil)+")")
						}
					}
				}
				return true
			})
		}
	}
	for _, st := range decl.Body.List {
		switch x := st.(type) {
		case *ast.IfStmt:
			if rule := ruleOfCond(x.Cond); rule != "" {
				curCond = x.Cond
				collect(rule, x.Pos(), x.Body.List)
				curCond = nil
			}
		case *ast.SwitchStmt:
			if x.Tag != nil {
				continue
			}
			for _, cs := range x.Body.List {
				cc := cs.(*ast.CaseClause)
				for _, e := range cc.List {
					if rule := ruleOfCond(e); rule != "" {
						collect(rule, cc.Pos(), cc.Body)
					}
				}
			}
		}
	}
	return a
}

func checkC19(c *Ctx) {
	r := c.R
	r.Explain = "Decides structural necessary conditions of C19 on the type-resolved syntax tree of internal/openapiv3 (the value-level iff between buf.validate and JSON Schema semantics is not decidable from the code's shape and is not claimed). R19a: every libopenapi DynamicValue literal selects the arm it fills (N: 1 with B), otherwise the rendered keyword is the zero value of the other arm (exclusiveMinimum: false). R19b: in every apply*Constraints function each presence test of rule K guards an assignment of exactly K's keyword from K's getter; all rules the property lists are translated; well-known string formats map to the JSON Schema names. R19c: extractValidationConstraints reads, for each field kind, the rule arm buf.validate keeps for that kind. R19d: numeric keywords are attached only where convertScalarField types the schema numerically. R19e: rule values reach the keyword without a lossy numeric conversion. R19f: string-valued const/enum scalars are tagged !!str so that they are not re-read as numbers, booleans or null. R19g: at every site where a property is set from a field, the same property name is appended to required exactly under checkIfFieldRequired(field). Not decided: regex dialect differences, libopenapi's rendering of zero-valued keywords, float text round-trips."
	r.Rule("R19a", "DynamicValue literals select the arm they fill", 12)
	r.Rule("R19b", "rule → keyword table and completeness per rule arm", 30)
	r.Rule("R19c", "field kind → rule arm dispatch", 13)
	r.Rule("R19d", "numeric keywords only on numerically typed schemas", 4)
	r.Rule("R19e", "no lossy conversion between rule value and keyword value", 8)
	r.Rule("R19f", "string-valued const/enum scalars are tagged as strings", 4)
	r.Rule("R19g", "required lists follow checkIfFieldRequired under the property's own name", 4)
	r.Rule("R19j", "every constraint keyword is derived from (and guarded by) a rule that constrains the same quantity in the same unit (converse of R19b)", 14)
	keywordSources(c, "R19j")
	r.Rule("R19l", "helpers that widen a float32 rule value to the keyword's float64 go through the value's shortest decimal text on every path a value can take", 2)
	c19WideningHelpers(c, "R19l")
	r.Rule("R19m", "a reversed numeric range (protovalidate: values outside it) is recognised, with equal bounds counted as an ordinary range", 2)
	c19ReversedRanges(c, "R19m")
	r.Rule("R19k", "a schema rebuilt as a copy of another (a literal whose fields are read from one source schema) copies every constraint keyword: a wrapper such as the nullable form must not drop the bounds the rules state", 1)
	schemaCopiesKeepConstraints(c, "R19k")

	decls := c.oaDecls(pkgOpenAPI)
	pk := c.P.Pkg(pkgOpenAPI)
	if pk == nil || len(decls) < 20 {
		r.Unres("R19a", "package internal/openapiv3", "", "package not loaded")
		return
	}
	info := pk.TypesInfo

	// ---------------- R19a
	for fn, decl := range decls {
		ast.Inspect(decl.Body, func(n ast.Node) bool {
			cl, ok := n.(*ast.CompositeLit)
			if !ok {
				return true
			}
			t := info.TypeOf(cl)
			if t == nil || !strings.Contains(t.String(), "base.DynamicValue[") {
				return true
			}
			set := map[string]ast.Expr{}
			for _, el := range cl.Elts {
				if kv, ok := el.(*ast.KeyValueExpr); ok {
					set[types.ExprString(kv.Key)] = kv.Value
				}
			}
			nval := "0"
			if e, ok := set["N"]; ok {
				if tv, ok := info.Types[e]; ok && tv.Value != nil {
					nval = tv.Value.ExactString()
				} else {
					nval = "?"
				}
			}
			_, hasA := set["A"]
			_, hasB := set["B"]
			want := "0"
			if hasB && !hasA {
				want = "1"
			}
			key := fmt.Sprintf("%s: DynamicValue literal filling %s", fn.Name(), map[bool]string{true: "B", false: "A"}[want == "1"])
			r.Check(nval == want, "R19a", key+" @"+lineKey(c, cl.Pos(), decl), c.P.Pos(cl.Pos()),
				fmt.Sprintf("%s fills arm %s of %s but N is %s: libopenapi renders arm %s, i.e. the zero value (an exclusive bound is published as `false`, additionalProperties as null)",
					fn.Name(), map[bool]string{true: "B", false: "A"}[want == "1"], shortType(t), nval, map[string]string{"0": "A", "1": "B", "?": "?"}[nval]))
			return true
		})
	}

	// ---------------- R19b, R19e
	applies := map[string]*c19Apply{}
	for fn := range decls {
		if strings.HasPrefix(fn.Name(), "apply") && strings.HasSuffix(fn.Name(), "Constraints") {
			a := c.c19ParseApply(fn)
			applies[fn.Name()] = a
			pos := c.P.Pos(a.decl.Pos())
			if a.arm == "" {
				r.Unres("R19b", fn.Name()+" rule arm", pos, "no `x := constraints.GetArm()` found")
				continue
			}
			for _, rule := range sortedKeys(a.rules) {
				ru := a.rules[rule]
				rpos := c.P.Pos(ru.pos)
				if want, ok := c19Keyword[rule]; ok {
					okF := len(ru.fields) > 0
					for _, f := range ru.fields {
						if f != want {
							okF = false
						}
					}
					r.Check(okF, "R19b", fmt.Sprintf("%s: rule %s sets keyword %s", fn.Name(), rule, want), rpos,
						fmt.Sprintf("%s: under the presence test of rule %s the schema fields %v are assigned (expected %s): the published constraint is not the rule's", fn.Name(), rule, ru.fields, want))
					okG := true
					for _, g := range ru.getters {
						if g != rule {
							okG = false
						}
					}
					if rule == "Unique" {
						// boolean rule: the value getter used as the guard is the value; a presence test (HasUnique) is also
						// true for an explicit `unique: false`, which must not publish uniqueItems: true
						valueRead := false
						for _, g := range ru.getters {
							if g == "Unique" {
								valueRead = true
							}
						}
						r.Check(!ru.hasCond || valueRead, "R19b", fmt.Sprintf("%s: boolean rule %s is published by its value, not by its presence", fn.Name(), rule), rpos,
							fmt.Sprintf("%s publishes %s under the presence test Has%s() without reading the value: an explicit `%s: false` is published as true, so lists the rules accept (duplicates allowed) are rejected by the schema", fn.Name(), c19Keyword[rule], rule, strings.ToLower(rule)))
						okG = true
						ru.getters = append(ru.getters, "Unique")
					}
					r.Check(okG && len(ru.getters) > 0, "R19b", fmt.Sprintf("%s: rule %s publishes its own value", fn.Name(), rule), rpos,
						fmt.Sprintf("%s: under the presence test of rule %s the value is read with getters %v: the bound of another rule is published", fn.Name(), rule, ru.getters))
					// R19e
					for _, cv := range ru.convs {
						if strings.HasPrefix(cv, "strconv.") {
							r.Bad("R19e", fmt.Sprintf("%s: rule %s value formatting %s", fn.Name(), rule, cv), rpos,
								fmt.Sprintf("%s: the value of rule %s is rendered with %s: the text is not the shortest round-trip form of the value at its own width, so the published const/enum member differs from the rule's value", fn.Name(), rule, cv), nil)
							continue
						}
						lossy := cv == "float64(int64)" || cv == "float64(uint64)" || cv == "float32(float64)" || cv == "int(int64)" || cv == "int32(int64)" || cv == "float64(float32)"
						why := ""
						switch cv {
						case "float64(int64)", "float64(uint64)":
							why = "64-bit integer bounds beyond 2^53 are rounded when the keyword is a float64"
						case "float64(float32)":
							why = "a float32 bound such as 0.1 becomes 0.10000000149011612; protojson prints the field value as 0.1, which then fails the published bound although it satisfies the rule"
						default:
							why = "narrowing conversion"
						}
						r.Check(!lossy, "R19e", fmt.Sprintf("rule %s value conversion %s", rule, cv), rpos,
							fmt.Sprintf("%s: the value of rule %s passes through %s: %s", fn.Name(), rule, cv, why))
					}
				} else if want, ok := c19Format[rule]; ok {
					r.Check(ru.format == want, "R19b", fmt.Sprintf("%s: well-known format %s → %q", fn.Name(), rule, want), rpos,
						fmt.Sprintf("%s: string rule %s is published as format %q, the JSON Schema name is %q", fn.Name(), strings.ToLower(rule), ru.format, want))
				}
			}
			for _, need := range c19Supported[a.arm] {
				r.Check(a.rules[need] != nil, "R19b", fmt.Sprintf("%s translates rule %s", fn.Name(), need), pos,
					fmt.Sprintf("%s has no translation of rule %s: values the rule rejects validate against the schema", fn.Name(), need))
			}
		}
	}

	// ---------------- R19c
	evc := c.P.Func(pkgOpenAPI, "extractValidationConstraints")
	kindFn := map[string]string{}
	if evc == nil {
		r.Unres("R19c", "extractValidationConstraints", "", "not found")
	} else {
		decl := c.P.Decls[evc]
		ast.Inspect(decl.Body, func(n ast.Node) bool {
			cc, ok := n.(*ast.CaseClause)
			if !ok {
				return true
			}
			target := ""
			for _, st := range cc.Body {
				if es, ok := st.(*ast.ExprStmt); ok {
					if call, ok := es.X.(*ast.CallExpr); ok {
						if cal := Callee(info, call); cal != nil {
							target = cal.Name()
						}
					}
				}
			}
			for _, e := range cc.List {
				if sel, ok := e.(*ast.SelectorExpr); ok {
					kindFn[sel.Sel.Name] = target
				}
			}
			return true
		})
		for _, kind := range sortedKeys(c19KindArm) {
			want := c19KindArm[kind]
			fnName := kindFn[kind]
			got := ""
			if a := applies[fnName]; a != nil {
				got = a.arm
			}
			r.Check(got == want, "R19c", fmt.Sprintf("%s fields read the %s rules", kind, strings.TrimPrefix(want, "Get")), c.P.Pos(decl.Pos()),
				fmt.Sprintf("for %s fields extractValidationConstraints calls %s, which reads FieldRules.%s(); buf.validate keeps the rules of this kind under %s(), so gt/gte/lt/lte/in/const of such a field are never published (the schema accepts what the rules reject)", kind, fnName, got, want))
		}
		// list / map
		for _, spec := range [][3]string{{"IsList", "applyRepeatedConstraints", "GetRepeated"}, {"IsMap", "applyMapConstraints", "GetMap"}} {
			okD := false
			ast.Inspect(decl.Body, func(n ast.Node) bool {
				if ifs, ok := n.(*ast.IfStmt); ok && strings.Contains(types.ExprString(ifs.Cond), spec[0]+"()") && !strings.Contains(types.ExprString(ifs.Cond), "!") {
					ast.Inspect(ifs.Body, func(m ast.Node) bool {
						if call, ok := m.(*ast.CallExpr); ok {
							if cal := Callee(info, call); cal != nil && cal.Name() == spec[1] && applies[spec[1]] != nil && applies[spec[1]].arm == spec[2] {
								okD = true
							}
						}
						return true
					})
				}
				return true
			})
			r.Check(okD, "R19c", spec[0]+" fields read the "+strings.TrimPrefix(spec[2], "Get")+" rules", c.P.Pos(decl.Pos()),
				"extractValidationConstraints does not apply "+spec[1]+" (reading "+spec[2]+") under field.Desc."+spec[0]+"()")
		}
	}

	// ---------------- R19d: kinds typed "string" by convertScalarField whose apply function sets numeric keywords
	if csf := c.P.Func(pkgOpenAPI, "Generator.convertScalarField"); csf != nil {
		decl := c.P.Decls[csf]
		numeric := map[string]bool{"Minimum": true, "Maximum": true, "ExclusiveMinimum": true, "ExclusiveMaximum": true}
		ast.Inspect(decl.Body, func(n ast.Node) bool {
			cc, ok := n.(*ast.CaseClause)
			if !ok {
				return true
			}
			var kinds []string
			for _, e := range cc.List {
				if sel, ok := e.(*ast.SelectorExpr); ok && strings.HasSuffix(sel.Sel.Name, "Kind") {
					kinds = append(kinds, sel.Sel.Name)
				}
			}
			if len(kinds) == 0 {
				return true
			}
			// does some branch of this arm type the schema as string?
			stringTyped := false
			var spos token.Pos
			for _, st := range cc.Body {
				ast.Inspect(st, func(m ast.Node) bool {
					as, ok := m.(*ast.AssignStmt)
					if !ok || len(as.Lhs) != 1 || types.ExprString(as.Lhs[0]) != "schema.Type" {
						return true
					}
					if cl, ok := as.Rhs[0].(*ast.CompositeLit); ok && len(cl.Elts) == 1 {
						if tv, ok := info.Types[cl.Elts[0]]; ok && tv.Value != nil && tv.Value.ExactString() == `"string"` {
							stringTyped = true
							spos = as.Pos()
						}
					}
					return true
				})
			}
			if !stringTyped {
				return true
			}
			for _, k := range kinds {
				a := applies[kindFn[k]]
				if a == nil {
					continue
				}
				setsNumeric := false
				for _, ru := range a.rules {
					for _, f := range ru.fields {
						if numeric[f] {
							setsNumeric = true
						}
					}
				}
				if k == "StringKind" || k == "BytesKind" {
					continue
				}
				// a guard on schema.Type inside the apply function would make it safe
				guarded := false
				ast.Inspect(a.decl.Body, func(m ast.Node) bool {
					if sel, ok := m.(*ast.SelectorExpr); ok && types.ExprString(sel) == "schema.Type" {
						guarded = true
					}
					return true
				})
				r.Check(!setsNumeric || guarded, "R19d", k+": numeric keywords only when the schema is numerically typed", c.P.Pos(spos),
					fmt.Sprintf("convertScalarField types %s fields as string (default 64-bit encoding) and then %s attaches minimum/maximum/exclusive bounds: JSON Schema ignores numeric keywords on strings, so the schema accepts every value the rules reject", k, a.fn.Name()))
			}
			return true
		})
	}

	// ---------------- R19f
	c19StringTags(c, decls, info, "R19f")

	// ---------------- R19g
	c19Required(c, decls, info, "R19g", false)
	c19ContainerRulesReached(c, decls, info)
	c19RequiredDependsOnRuleOnly(c)
}

func shortType(t types.Type) string {
	s := t.String()
	s = strings.ReplaceAll(s, "github.com/pb33f/libopenapi/datamodel/high/", "")
	return strings.TrimPrefix(s, "*")
}

// lineKey: ordinal of the construct among same-kind constructs of the function (stable under line shifts).
func lineKey(c *Ctx, pos token.Pos, decl *ast.FuncDecl) string {
	n := 0
	ast.Inspect(decl.Body, func(nd ast.Node) bool {
		if cl, ok := nd.(*ast.CompositeLit); ok && cl.Pos() < pos {
			n++
		}
		return true
	})
	return fmt.Sprintf("#%d", n)
}

// c19NodeRole: the schema field a yaml.Node literal ends up in.
func c19NodeRole(decl *ast.FuncDecl, cl *ast.CompositeLit) string {
	parents := parentMap(decl.Body)
	for p := parents[ast.Node(cl)]; p != nil; p = parents[p] {
		switch x := p.(type) {
		case *ast.KeyValueExpr:
			k := types.ExprString(x.Key)
			if k == "Enum" || k == "Const" || k == "Example" || k == "Examples" {
				return k
			}
		case *ast.AssignStmt:
			for _, l := range x.Lhs {
				s := types.ExprString(l)
				switch {
				case strings.HasSuffix(s, ".Enum"), s == "enumValues":
					return "Enum"
				case strings.HasSuffix(s, ".Const"):
					return "Const"
				case strings.HasSuffix(s, ".Example"), strings.Contains(s, ".Examples"):
					return "Example"
				}
			}
		}
	}
	return ""
}

// c19ValueSource classifies the Value expression of a scalar node.
func c19ValueSource(info *types.Info, body *ast.BlockStmt, e ast.Expr) string {
	e = ast.Unparen(e)
	if call, ok := e.(*ast.CallExpr); ok {
		if cal := Callee(info, call); cal != nil && cal.Pkg() != nil {
			switch cal.Pkg().Path() + "." + cal.Name() {
			case "strconv.Itoa", "strconv.FormatInt", "strconv.FormatUint", "strconv.FormatFloat":
				return "number"
			case "fmt.Sprintf":
				if tv, ok := info.Types[call.Args[0]]; ok && tv.Value != nil {
					f := strings.Trim(tv.Value.ExactString(), `"`)
					if f == "%d" || f == "%g" || f == "%v" && false {
						return "number"
					}
				}
			}
		}
	}
	return "string"
}

// c19Required: R19g.
func c19Required(c *Ctx, decls map[*types.Func]*ast.FuncDecl, info *types.Info, rid string, onlyOver bool) {
	r := c.R
	req := c.P.Func(pkgOpenAPI, "checkIfFieldRequired")
	if req == nil {
		r.Unres(rid, "checkIfFieldRequired", "", "not found")
		return
	}
	// checkIfFieldRequired returns GetRequired()
	if !onlyOver {
		decl := c.P.Decls[req]
		okR := false
		for _, st := range decl.Body.List {
			if ret, ok := st.(*ast.ReturnStmt); ok && len(ret.Results) == 1 && strings.HasSuffix(types.ExprString(ret.Results[0]), ".GetRequired()") {
				okR = true
			}
		}
		r.Check(okR, rid, "checkIfFieldRequired answers with FieldRules.GetRequired()", c.P.Pos(decl.Pos()), "checkIfFieldRequired does not end in `return fieldConstraints.GetRequired()`")
	}
	canon := func(body *ast.BlockStmt, e ast.Expr) string {
		e = ast.Unparen(e)
		if id, ok := e.(*ast.Ident); ok {
			if d := localDef(info, body, id); d != nil {
				return types.ExprString(d)
			}
		}
		return types.ExprString(e)
	}
	names := sortedFuncNames(decls)
	for _, fname := range names {
		fn := fname.fn
		decl := decls[fn]
		parents := parentMap(decl.Body)
		ast.Inspect(decl.Body, func(n ast.Node) bool {
			call, ok := n.(*ast.CallExpr)
			if !ok {
				return true
			}
			sel, ok := call.Fun.(*ast.SelectorExpr)
			if !ok || sel.Sel.Name != "Set" || len(call.Args) != 2 {
				return true
			}
			// the value is (a variable holding) convertField(f)
			val := ast.Unparen(call.Args[1])
			if id, ok := val.(*ast.Ident); ok {
				if d := localDef(info, decl.Body, id); d != nil {
					val = d
				}
			}
			vcall, ok := val.(*ast.CallExpr)
			if !ok {
				return true
			}
			cal := Callee(info, vcall)
			if cal == nil || cal != c.P.Func(pkgOpenAPI, "Generator.convertField") || len(vcall.Args) != 1 {
				return true
			}
			fieldVar := types.ExprString(vcall.Args[0])
			nameC := canon(decl.Body, call.Args[0])
			// enclosing loop body
			var loop *ast.RangeStmt
			for p := parents[ast.Node(call)]; p != nil; p = parents[p] {
				if rs, ok := p.(*ast.RangeStmt); ok {
					loop = rs
					break
				}
			}
			key := fmt.Sprintf("%s: property %s of %s", fn.Name(), nameC, fieldVar)
			if loop == nil {
				r.Unres(rid, key, c.P.Pos(call.Pos()), "property set outside a loop over fields")
				return true
			}
			found, sameName := false, false
			appended := ""
			ast.Inspect(loop.Body, func(m ast.Node) bool {
				ifs, ok := m.(*ast.IfStmt)
				if !ok {
					return true
				}
				cc, ok := ast.Unparen(ifs.Cond).(*ast.CallExpr)
				if !ok || Callee(info, cc) != req || len(cc.Args) != 1 || types.ExprString(cc.Args[0]) != fieldVar {
					return true
				}
				found = true
				ast.Inspect(ifs.Body, func(k ast.Node) bool {
					if ac, ok := k.(*ast.CallExpr); ok {
						if id, ok := ac.Fun.(*ast.Ident); ok && id.Name == "append" && len(ac.Args) == 2 {
							appended = canon(decl.Body, ac.Args[1])
							if appended == nameC {
								sameName = true
							}
						}
					}
					return true
				})
				return true
			})
			if why, ok := c19RequiredExceptions[fn.Name()+"/"+fieldVar]; ok {
				if found {
					r.Bad(rid, key+" (must not be listed as required)", c.P.Pos(call.Pos()),
						fmt.Sprintf("%s lists %s in required under checkIfFieldRequired(%s), but the key is absent from every body in which the enclosing field is unset: the schema rejects bodies the rules and the generated code accept (%s)", fn.Name(), nameC, fieldVar, why), nil)
				} else {
					r.OKd(rid, key+" (reasoned exception)", c.P.Pos(call.Pos()), map[string]any{"exception": why})
				}
				return true
			}
			if onlyOver {
				return true
			}
			switch {
			case !found:
				r.Bad(rid, key, c.P.Pos(call.Pos()),
					fmt.Sprintf("%s sets property %s from %s but never consults checkIfFieldRequired(%s): a field the rules require is not listed in required (the schema accepts bodies the rules reject)", fn.Name(), nameC, fieldVar, fieldVar), nil)
			case !sameName:
				r.Bad(rid, key, c.P.Pos(call.Pos()),
					fmt.Sprintf("%s sets property %s but lists %s in required: the required name is not a property of the schema, every valid body fails `required`", fn.Name(), nameC, appended), nil)
			default:
				r.OK(rid, key, c.P.Pos(call.Pos()))
			}
			return true
		})
	}
}

// c19RequiredExceptions: property sites that deliberately do not list required (one reason each).
var c19RequiredExceptions = map[string]string{
	"buildFlattenedObjectSchema/childField": "children of a (sebuf.http.flatten) message field: buf.validate enforces the child's required rule only when the flattened message itself is set, and an unset message contributes no keys at all; a JSON Schema `required` in the allOf member would reject those bodies, so the conditional requirement is not expressible and is left out",
}

type namedFn struct {
	name string
	fn   *types.Func
}

func sortedFuncNames(decls map[*types.Func]*ast.FuncDecl) []namedFn {
	var out []namedFn
	for fn := range decls {
		out = append(out, namedFn{FuncName(fn), fn})
	}
	sort.Slice(out, func(i, j int) bool { return out[i].name < out[j].name })
	return out
}

func init() { props["C19"] = checkC19 }

// c19StringTags: string-valued const/enum YAML scalars carry the !!str tag.
func c19StringTags(c *Ctx, decls map[*types.Func]*ast.FuncDecl, info *types.Info, rid string) {
	r := c.R
	for fn, decl := range decls {
		ast.Inspect(decl.Body, func(n ast.Node) bool {
			cl, ok := n.(*ast.CompositeLit)
			if !ok {
				return true
			}
			t := info.TypeOf(cl)
			if t == nil || !strings.HasSuffix(t.String(), "yaml/v4.Node") {
				return true
			}
			set := map[string]ast.Expr{}
			for _, el := range cl.Elts {
				if kv, ok := el.(*ast.KeyValueExpr); ok {
					set[types.ExprString(kv.Key)] = kv.Value
				}
			}
			val := set["Value"]
			if val == nil {
				return true
			}
			// where does the node go: Const / Enum (constraints) vs Example(s)
			role := c19NodeRole(decl, cl)
			if role != "Enum" && role != "Const" {
				return true
			}
			// numeric text (strconv / %d / %g) needs no tag
			src := c19ValueSource(info, decl.Body, val)
			if src == "number" {
				r.OK(rid, fmt.Sprintf("%s: %s scalar from a number formatter", fn.Name(), role)+" @"+lineKey(c, cl.Pos(), decl), c.P.Pos(cl.Pos()))
				return true
			}
			tag := ""
			if e, ok := set["Tag"]; ok {
				if tv, ok := info.Types[e]; ok && tv.Value != nil {
					tag = strings.Trim(tv.Value.ExactString(), `"`)
				}
				// the tag (and the text) arrive as parameters of a helper: each call site is a (tag, text source) pair
				if tagIdx, valIdx := paramIndex(info, decl, e), calleeParamIndex(info, decl, val); tagIdx >= 0 && valIdx >= 0 {
					bad := ""
					nSites := 0
					for cfn, cdecl := range decls {
						ast.Inspect(cdecl.Body, func(m ast.Node) bool {
							call, ok := m.(*ast.CallExpr)
							if !ok || Callee(info, call) != fn || len(call.Args) <= tagIdx || len(call.Args) <= valIdx {
								return true
							}
							nSites++
							siteTag := ""
							if tv, ok := info.Types[call.Args[tagIdx]]; ok && tv.Value != nil {
								siteTag = strings.Trim(tv.Value.ExactString(), `"`)
							}
							textIsNumber := false
							if lit, ok := ast.Unparen(call.Args[valIdx]).(*ast.FuncLit); ok {
								textIsNumber = true
								ast.Inspect(lit.Body, func(q ast.Node) bool {
									if ret, ok := q.(*ast.ReturnStmt); ok && len(ret.Results) == 1 {
										if c19ValueSource(info, lit.Body, ret.Results[0]) != "number" {
											textIsNumber = false
										}
									}
									return true
								})
							}
							if !textIsNumber && siteTag != "!!str" && bad == "" {
								bad = fmt.Sprintf("%s calls %s with tag %q for string-valued text", cfn.Name(), fn.Name(), siteTag)
							}
							return true
						})
					}
					if nSites > 0 {
						r.Check(bad == "", rid, fmt.Sprintf("%s: string-valued %s scalars are tagged !!str at every call site of the helper", fn.Name(), role), c.P.Pos(cl.Pos()),
							bad+": the published "+strings.ToLower(role)+" member is re-read by YAML as a number, boolean or null")
						return true
					}
				}
			}
			_, styled := set["Style"]
			r.Check(tag == "!!str" || styled, rid, fmt.Sprintf("%s: string-valued %s scalar (%s) is tagged !!str", fn.Name(), role, types.ExprString(val)), c.P.Pos(cl.Pos()),
				fmt.Sprintf("%s publishes the string %s as an untagged plain YAML scalar: a value such as \"123\", \"true\", \"null\" or \"\" is re-read as a number, boolean or null, so the %s keyword no longer admits the string the rule admits", fn.Name(), types.ExprString(val), strings.ToLower(role)))
			return true
		})
	}

}

// c19ContainerRulesReached: R19h — in extractValidationConstraints the repeated/map rules (minItems, maxItems,
// uniqueItems, min/maxProperties) are applied for every element kind: once the field's rules are in hand no arm of
// the kind switch may leave the function ahead of applyRepeatedConstraints / applyMapConstraints (a repeated
// field's Kind() is its element kind).
func c19ContainerRulesReached(c *Ctx, decls map[*types.Func]*ast.FuncDecl, info *types.Info) {
	r := c.R
	r.Rule("R19h", "repeated and map rules are applied whatever the element kind (no exit between the kind switch and the container rules)", 1)
	for fn, decl := range decls {
		if fn != c.P.Func(pkgOpenAPI, "extractValidationConstraints") {
			continue
		}
		var sw *ast.SwitchStmt
		var last token.Pos
		n := 0
		ast.Inspect(decl.Body, func(nd ast.Node) bool {
			switch x := nd.(type) {
			case *ast.SwitchStmt:
				if x.Tag != nil && strings.HasSuffix(types.ExprString(x.Tag), ".Desc.Kind()") && sw == nil {
					sw = x
				}
			case *ast.CallExpr:
				if cal := Callee(info, x); cal != nil && (cal == c.P.Func(pkgOpenAPI, "applyRepeatedConstraints") || cal == c.P.Func(pkgOpenAPI, "applyMapConstraints")) {
					n++
					if x.Pos() > last {
						last = x.Pos()
					}
				}
			}
			return true
		})
		pos := c.P.Pos(decl.Pos())
		if sw == nil || n < 2 {
			r.Undec("R19h", "container rules in extractValidationConstraints", pos, fmt.Sprintf("kind switch found: %v, calls of applyRepeatedConstraints/applyMapConstraints: %d", sw != nil, n))
			return
		}
		bad := ""
		ast.Inspect(decl.Body, func(nd ast.Node) bool {
			if _, ok := nd.(*ast.FuncLit); ok {
				return false
			}
			if ret, ok := nd.(*ast.ReturnStmt); ok && ret.Pos() > sw.Pos() && ret.Pos() < last {
				bad = c.P.Pos(ret.Pos())
			}
			return true
		})
		if last < sw.Pos() {
			bad = "the container rules are applied before the kind switch only at " + c.P.Pos(last)
		}
		if bad != "" {
			pos = bad
		}
		r.Check(bad == "", "R19h", "no exit between the element-kind switch and the repeated/map rules", pos,
			"extractValidationConstraints can return (at "+bad+") after it has the field's rules and before applyRepeatedConstraints / applyMapConstraints: for the element kinds of that arm a repeated or map field publishes none of minItems, maxItems, uniqueItems, minProperties, maxProperties, so the schema accepts lists the rules reject")
		return
	}
	r.Unres("R19h", "extractValidationConstraints", "", "not found")
}

// c19RequiredDependsOnRuleOnly: R19i — whether a property is listed in `required` depends on the field's
// (buf.validate.field).required rule alone: checkIfFieldRequired is walked with every descriptor fact symbolic and
// may consult nothing about the field's presence discipline (oneof membership — which protogen also reports for
// proto3 optional fields —, optional keyword, kind, cardinality).
func c19RequiredDependsOnRuleOnly(c *Ctx) {
	r := c.R
	r.Rule("R19i", "the required list depends on the required rule only (not on oneof membership, the optional keyword, kind or cardinality)", 1)
	fn := c.P.Func(pkgOpenAPI, "checkIfFieldRequired")
	if fn == nil {
		r.Unres("R19i", "checkIfFieldRequired", "", "not found")
		return
	}
	pos := c.P.Pos(c.P.Decls[fn].Pos())
	outs, probs, capped := c.W.EvalAll(fn, nil, true, 128)
	if len(probs) > 0 || capped || len(outs) == 0 {
		r.Undec("R19i", "checkIfFieldRequired", pos, fmt.Sprintf("outcomes=%d capped=%v problems=%v", len(outs), capped, probs))
		return
	}
	var bad []string
	seen := map[string]bool{}
	reads := false
	for _, o := range outs {
		if v := o.Result; v != nil && strings.Contains(v.key(), "GetRequired") {
			reads = true
		}
		for _, u := range o.Used {
			k := eraseIters(u.Key)
			if strings.Contains(k, "GetRequired") {
				reads = true
			}
			for _, w := range []string{".Oneof", "HasOptionalKeyword", "HasPresence", "Kind()", "IsList()", "IsMap()", "Cardinality", "Syntax"} {
				if strings.Contains(k, w) && !seen[k] {
					seen[k] = true
					bad = append(bad, k)
				}
			}
		}
	}
	sort.Strings(bad)
	r.Check(len(bad) == 0 && reads, "R19i", "checkIfFieldRequired consults the required rule only", pos,
		fmt.Sprintf("checkIfFieldRequired decides on %v (result mentions the rule: %v): a field that carries (buf.validate.field).required = true but is a proto3 optional field (protogen gives it a synthetic oneof) or a oneof member is dropped from `required`, so the schema accepts objects the rule rejects", bad, reads))
}

// c19KeywordOf: JSON Schema keyword (libopenapi field) -> the buf.validate rules that constrain the same quantity in the same unit.
var c19KeywordOf = map[string][]string{
	"MinLength": {"MinLen", "Len"}, "MaxLength": {"MaxLen", "Len"}, "Pattern": {"Pattern"}, "Enum": {"In"}, "Const": {"Const"},
	"Minimum": {"Gte"}, "ExclusiveMinimum": {"Gt"}, "Maximum": {"Lte"}, "ExclusiveMaximum": {"Lt"},
	"MinItems": {"MinItems"}, "MaxItems": {"MaxItems"}, "UniqueItems": {"Unique"},
	"MinProperties": {"MinPairs"}, "MaxProperties": {"MaxPairs"},
}

// keywordSources — R19j / R06m (the converse of R19b). Every assignment of a constraint keyword of the schema inside an
// apply*Constraints function lies under a presence test of a rule that constrains the same quantity in the same unit
// (minLength counts characters: min_len, not min_bytes; minimum is inclusive: gte, not gt …), and reads only such rules.
// A keyword derived from any other rule publishes a bound the rule does not state: documents the rules accept fail the schema.
func keywordSources(c *Ctx, rid string, weaker ...map[string][]string) {
	r := c.R
	decls := c.oaDecls(pkgOpenAPI)
	n := 0
	for fn, decl := range decls {
		if !(strings.HasPrefix(fn.Name(), "apply") && strings.HasSuffix(fn.Name(), "Constraints")) || decl.Body == nil {
			continue
		}
		a := c.c19ParseApply(fn)
		if a.rcName == "" {
			continue
		}
		// rule names mentioned (Has*/Get* on the rules local) in an expression
		rulesIn := func(e ast.Node) []string {
			var out []string
			ast.Inspect(e, func(nd ast.Node) bool {
				if call, ok := nd.(*ast.CallExpr); ok {
					if sel, ok := call.Fun.(*ast.SelectorExpr); ok && types.ExprString(sel.X) == a.rcName {
						nm := sel.Sel.Name
						if strings.HasPrefix(nm, "Has") || strings.HasPrefix(nm, "Get") {
							out = append(out, nm[3:])
						}
					}
				}
				return true
			})
			return out
		}
		// locals defined from rule getters: local -> rules
		finfo := c.P.DeclPkg[fn].TypesInfo
		localRules := map[types.Object][]string{}
		ast.Inspect(decl.Body, func(nd ast.Node) bool {
			if as, ok := nd.(*ast.AssignStmt); ok && len(as.Lhs) == len(as.Rhs) {
				for i, l := range as.Lhs {
					if id, ok := l.(*ast.Ident); ok {
						if rs := rulesIn(as.Rhs[i]); len(rs) > 0 {
							if o := finfo.ObjectOf(id); o != nil {
								localRules[o] = append(localRules[o], rs...)
							}
						}
					}
				}
			}
			return true
		})
		var visit func(stmts []ast.Stmt, guards []string)
		checkAssign := func(as *ast.AssignStmt, guards []string) {
			for i, l := range as.Lhs {
				sel, ok := l.(*ast.SelectorExpr)
				if !ok || types.ExprString(sel.X) != "schema" {
					continue
				}
				allowed, isKw := c19KeywordOf[sel.Sel.Name]
				if !isKw {
					continue
				}
				for _, w := range weaker {
					allowed = append(append([]string{}, allowed...), w[sel.Sel.Name]...)
				}
				n++
				okRule := func(x string) bool {
					for _, al := range allowed {
						if al == x {
							return true
						}
					}
					return false
				}
				// value sources
				var srcs []string
				if i < len(as.Rhs) {
					srcs = rulesIn(as.Rhs[i])
					ast.Inspect(as.Rhs[i], func(nd ast.Node) bool {
						if id, ok := nd.(*ast.Ident); ok {
							if o := finfo.ObjectOf(id); o != nil {
								srcs = append(srcs, localRules[o]...)
							}
						}
						return true
					})
				}
				guarded := false
				for _, g := range guards {
					if okRule(g) {
						guarded = true
					}
				}
				// a value read from the rule's own getter and tested for emptiness (in := rc.GetIn(); if len(in) != 0)
				// is guarded by that rule
				for _, g := range guards {
					if strings.HasPrefix(g, "local:") && okRule(strings.TrimPrefix(g, "local:")) {
						guarded = true
					}
				}
				var foreign []string
				for _, sname := range srcs {
					if !okRule(sname) {
						foreign = append(foreign, sname)
					}
				}
				key := fmt.Sprintf("%s: keyword %s is derived from rule %s", fn.Name(), sel.Sel.Name, strings.Join(allowed, "/"))
				switch {
				case len(foreign) > 0:
					r.Bad(rid, key, c.P.Pos(as.Pos()), fmt.Sprintf("%s assigns schema.%s from rule(s) %v; the keyword corresponds to %v — a bound in another unit or of another kind (bytes vs characters, exclusive vs inclusive) is published, so values the rules accept are rejected by the schema (or the reverse)", fn.Name(), sel.Sel.Name, dedupeSorted(foreign), allowed), nil)
				case !guarded:
					r.Bad(rid, key, c.P.Pos(as.Pos()), fmt.Sprintf("%s assigns schema.%s under the presence tests %v, none of which is the rule the keyword corresponds to (%v)", fn.Name(), sel.Sel.Name, guards, allowed), nil)
				default:
					r.OK(rid, key, c.P.Pos(as.Pos()))
				}
			}
		}
		localGuards := func(e ast.Expr) []string {
			var out []string
			ast.Inspect(e, func(nd ast.Node) bool {
				if id, ok := nd.(*ast.Ident); ok {
					if o := finfo.ObjectOf(id); o != nil {
						for _, rn := range localRules[o] {
							out = append(out, "local:"+rn)
						}
					}
				}
				return true
			})
			return out
		}
		visit = func(stmts []ast.Stmt, guards []string) {
			for _, st := range stmts {
				switch x := st.(type) {
				case *ast.IfStmt:
					g := append(append([]string{}, guards...), rulesIn(x.Cond)...)
					g = append(g, localGuards(x.Cond)...)
					if x.Init != nil {
						visit([]ast.Stmt{x.Init}, guards)
					}
					visit(x.Body.List, g)
					if x.Else != nil {
						visit([]ast.Stmt{x.Else}, guards)
					}
				case *ast.BlockStmt:
					visit(x.List, guards)
				case *ast.SwitchStmt:
					for _, cs := range x.Body.List {
						cc := cs.(*ast.CaseClause)
						g := append([]string{}, guards...)
						for _, e := range cc.List {
							g = append(g, rulesIn(e)...)
						}
						if x.Tag != nil {
							g = append(g, rulesIn(x.Tag)...)
						}
						visit(cc.Body, g)
					}
				case *ast.ForStmt:
					visit(x.Body.List, guards)
				case *ast.RangeStmt:
					visit(x.Body.List, guards)
				case *ast.AssignStmt:
					checkAssign(x, guards)
				}
			}
		}
		visit(decl.Body.List, nil)
	}
	if n == 0 {
		r.Unres(rid, "apply*Constraints keyword assignments", "", "no assignment of a constraint keyword found")
	}
}

// schemaCopiesKeepConstraints — R19k. A composite literal of libopenapi's base.Schema at least two of whose fields are read
// from the same source schema value (Format: src.Format, Enum: src.Enum …) is a partial copy of that schema. Every
// constraint keyword the generator ever sets (the keys of c19KeywordOf) must then be among the copied fields; a missing one
// means the copy accepts values the rules reject whenever the source carried that keyword.
func schemaCopiesKeepConstraints(c *Ctx, rid string) {
	r := c.R
	decls := c.oaDecls(pkgOpenAPI)
	nLits, nCopies := 0, 0
	for fn, decl := range decls {
		if decl.Body == nil {
			continue
		}
		info := c.P.DeclPkg[fn].TypesInfo
		ast.Inspect(decl.Body, func(nd ast.Node) bool {
			lit, ok := nd.(*ast.CompositeLit)
			if !ok {
				return true
			}
			tv, ok := info.Types[lit]
			if !ok || !typeIsNamed(tv.Type, "datamodel/high/base", "Schema") {
				return true
			}
			nLits++
			copied := map[string]bool{}
			srcCount := map[string]int{}
			for _, el := range lit.Elts {
				kv, ok := el.(*ast.KeyValueExpr)
				if !ok {
					continue
				}
				k, ok := kv.Key.(*ast.Ident)
				if !ok {
					continue
				}
				ast.Inspect(kv.Value, func(m ast.Node) bool {
					if sel, ok := m.(*ast.SelectorExpr); ok {
						if t := info.TypeOf(sel.X); t != nil && typeIsNamed(t, "datamodel/high/base", "Schema") && sel.Sel.Name == k.Name {
							copied[k.Name] = true
							srcCount[types.ExprString(sel.X)]++
						}
					}
					return true
				})
			}
			src, best := "", 0
			for s2, n := range srcCount {
				if n > best {
					src, best = s2, n
				}
			}
			if best < 2 {
				return true
			}
			nCopies++
			var missing []string
			for _, kw := range sortedKeys(c19KeywordOf) {
				if !copied[kw] {
					missing = append(missing, kw)
				}
			}
			r.Check(len(missing) == 0, rid, FuncName(fn)+": the schema copied from "+src+" keeps every constraint keyword", c.P.Pos(lit.Pos()),
				fmt.Sprintf("%s builds a new schema from fields of %s but leaves out %v: when the source schema carries one of them (a length, pattern, bound or const from the field's rules) the copy — here the published form — no longer states it and accepts values the rules reject", FuncName(fn), src, missing))
			return true
		})
	}
	r.OKd(rid, "schema literals inspected for partial copies", "", map[string]any{"schema_literals": nLits, "partial_copies": nCopies})
}

// paramIndex: e is an identifier naming a parameter of decl; its position in the parameter list, else -1.
func paramIndex(info *types.Info, decl *ast.FuncDecl, e ast.Expr) int {
	id, ok := ast.Unparen(e).(*ast.Ident)
	if !ok {
		return -1
	}
	o := info.ObjectOf(id)
	i := 0
	for _, f := range decl.Type.Params.List {
		for _, nm := range f.Names {
			if info.ObjectOf(nm) == o {
				return i
			}
			i++
		}
	}
	return -1
}

// calleeParamIndex: e is a call of a function-typed parameter of decl (valueOf(x)); that parameter's position, else -1.
func calleeParamIndex(info *types.Info, decl *ast.FuncDecl, e ast.Expr) int {
	call, ok := ast.Unparen(e).(*ast.CallExpr)
	if !ok {
		return -1
	}
	return paramIndex(info, decl, call.Fun)
}

// c19WideningHelpers — R19l. A helper of the OpenAPI generator that turns a float32 rule value into the float64 a keyword
// holds must not hand back the exact widening float64(v) on any path a value can take: the JSON form of a float field is its
// shortest float32 text, and for most values (0.1, but also whole numbers beyond 2^24 such as float32(1e11)) that text denotes
// a different float64. A `return float64(v)` is accepted only as the unreachable failure arm of the ParseFloat round trip.
func c19WideningHelpers(c *Ctx, rid string) {
	r := c.R
	pk := c.P.Pkg(pkgOpenAPI)
	if pk == nil {
		r.Unres(rid, pkgOpenAPI, "", "package not loaded")
		return
	}
	info := pk.TypesInfo
	n := 0
	for _, nf := range sortedFuncNames(c.oaDecls(pkgOpenAPI)) {
		decl := c.oaDecls(pkgOpenAPI)[nf.fn]
		sig := nf.fn.Type().(*types.Signature)
		if decl == nil || decl.Body == nil || sig.Params().Len() != 1 || sig.Results().Len() != 1 {
			continue
		}
		if types.TypeString(sig.Params().At(0).Type(), nil) != "float32" || types.TypeString(sig.Results().At(0).Type(), nil) != "float64" {
			continue
		}
		n++
		param := sig.Params().At(0)
		parents := parentMap(decl.Body)
		isWidening := func(e ast.Expr) bool {
			e = ast.Unparen(e)
			if id, ok := e.(*ast.Ident); ok {
				if d := localDef(info, decl.Body, id); d != nil {
					e = ast.Unparen(d)
				}
			}
			call, ok := e.(*ast.CallExpr)
			if !ok || len(call.Args) != 1 {
				return false
			}
			if tv, ok := info.Types[call.Fun]; !ok || !tv.IsType() {
				return false
			}
			id, ok := ast.Unparen(call.Args[0]).(*ast.Ident)
			return ok && info.ObjectOf(id) == types.Object(param)
		}
		ast.Inspect(decl.Body, func(nd ast.Node) bool {
			ret, ok := nd.(*ast.ReturnStmt)
			if !ok || len(ret.Results) != 1 {
				return true
			}
			key := fmt.Sprintf("%s: return %s", nf.name, types.ExprString(ret.Results[0]))
			if !isWidening(ret.Results[0]) {
				r.OK(rid, key, c.P.Pos(ret.Pos()))
				return true
			}
			// accepted only directly under `if err != nil` (the error of the text round trip)
			underErr := false
			for p := parents[ast.Node(ret)]; p != nil; p = parents[p] {
				if ifs, ok := p.(*ast.IfStmt); ok {
					if be, ok := ast.Unparen(ifs.Cond).(*ast.BinaryExpr); ok && be.Op == token.NEQ && isNilIdent(be.Y) {
						if id, ok := ast.Unparen(be.X).(*ast.Ident); ok && isErrorType(info.TypeOf(id)) {
							// the return must be in the then-branch
							if ret.Pos() >= ifs.Body.Pos() && ret.End() <= ifs.Body.End() {
								underErr = true
							}
						}
					}
					break
				}
			}
			r.Check(underErr, rid, key, c.P.Pos(ret.Pos()),
				fmt.Sprintf("%s returns the exact widening of its float32 argument on a path values take (not only as the failure arm of the decimal-text round trip): the published bound is then a float64 the JSON form of the boundary value does not equal (0.1 → 0.10000000149011612; float32(1e11) → 99999997952 while the field value prints as 1e+11), so gte/lte reject a value the rule accepts and gt/lt accept one it rejects", nf.name))
			return true
		})
	}
	if n == 0 {
		r.Unres(rid, "float32 → float64 helpers of internal/openapiv3", "", "none found: float bounds no longer pass through a helper (R19e decides direct conversions)")
	}
}

// c19ReversedRanges — R19m. protovalidate reads a lower bound above the upper bound as "outside the range"; with the bounds
// equal the range is an ordinary one (one value). The generator therefore has to compare the published upper bound with the
// lower one somewhere on the way from extractValidationConstraints, and every such comparison must put equality on the
// not-reversed side: U < L, L > U (reversed) or U >= L, L <= U (not reversed). A comparison with equality on the other side
// treats {gte: 5, lte: 5} as reversed and drops or negates a legal range.
func c19ReversedRanges(c *Ctx, rid string) {
	r := c.R
	evc := c.P.Func(pkgOpenAPI, "extractValidationConstraints")
	if evc == nil {
		r.Unres(rid, "extractValidationConstraints", "", "not found")
		return
	}
	nGood := 0
	for _, fn := range c.P.Reach(evc) {
		decl := c.P.Decls[fn]
		if decl == nil || decl.Body == nil || fn.Pkg() == nil || !strings.HasSuffix(fn.Pkg().Path(), pkgOpenAPI) {
			continue
		}
		info := c.P.DeclPkg[fn].TypesInfo
		// side of an operand: "U" (Maximum / ExclusiveMaximum), "L" (Minimum / ExclusiveMinimum), "" otherwise
		var side func(e ast.Expr, depth int) string
		side = func(e ast.Expr, depth int) string {
			res := ""
			note := func(s string) {
				if s == "" {
					return
				}
				if res == "" {
					res = s
				} else if res != s {
					res = "?"
				}
			}
			ast.Inspect(e, func(n ast.Node) bool {
				switch x := n.(type) {
				case *ast.SelectorExpr:
					switch x.Sel.Name {
					case "Maximum", "ExclusiveMaximum":
						note("U")
					case "Minimum", "ExclusiveMinimum":
						note("L")
					}
				case *ast.Ident:
					if depth < 3 {
						if v, ok := info.ObjectOf(x).(*types.Var); ok && v.Pkg() != nil && v.Parent() != v.Pkg().Scope() {
							ast.Inspect(decl.Body, func(m ast.Node) bool {
								if as, ok := m.(*ast.AssignStmt); ok {
									for i, lh := range as.Lhs {
										if li, ok := lh.(*ast.Ident); ok && info.ObjectOf(li) == types.Object(v) {
											if len(as.Rhs) == len(as.Lhs) {
												note(side(as.Rhs[i], depth+1))
											} else if len(as.Rhs) == 1 {
												note(side(as.Rhs[0], depth+1))
											}
										}
									}
								}
								return true
							})
						}
					}
				}
				return true
			})
			return res
		}
		ast.Inspect(decl.Body, func(n ast.Node) bool {
			be, ok := n.(*ast.BinaryExpr)
			if !ok {
				return true
			}
			switch be.Op {
			case token.LSS, token.GTR, token.LEQ, token.GEQ:
			default:
				return true
			}
			sx, sy := side(be.X, 0), side(be.Y, 0)
			if !(sx == "U" && sy == "L" || sx == "L" && sy == "U") {
				return true
			}
			// normalise to  U op L
			op := be.Op
			if sx == "L" {
				op = map[token.Token]token.Token{token.LSS: token.GTR, token.GTR: token.LSS, token.LEQ: token.GEQ, token.GEQ: token.LEQ}[op]
			}
			key := fmt.Sprintf("%s: comparison %s of the upper with the lower bound", fn.Name(), types.ExprString(be))
			good := op == token.LSS || op == token.GEQ
			if good {
				nGood++
			}
			r.Check(good, rid, key, c.P.Pos(be.Pos()),
				fmt.Sprintf("%s tells a reversed range from an ordinary one with `%s`, which puts equal bounds on the reversed side: the legal one-value range {gte: 5, lte: 5} is treated as reversed and its bounds are dropped or negated, so the schema accepts values the rules reject", fn.Name(), types.ExprString(be)))
			return true
		})
	}
	r.Check(nGood > 0, rid, "a reversed range (lower bound above the upper bound) is recognised on the way from extractValidationConstraints", c.P.Pos(c.P.Decls[evc].Pos()),
		"no function reached from extractValidationConstraints compares the published upper bound with the lower one: {gt: 10, lt: 5} (protovalidate: greater than 10 or less than 5) is published as exclusiveMinimum 10 with exclusiveMaximum 5, which no value satisfies")
}

// noBareFloatWidening — R06q (shares the concern of R19e/R19l). In the OpenAPI generator a float32 rule value is never
// widened to float64 by a bare conversion on its way into a published keyword, const or enum member: float64(float32(0.1)) is
// 0.10000000149011612, while the wire carries the field value as 0.1, which then fails the published const/enum/bound.
// Accepted: the conversion as the argument of strconv.FormatFloat(…, 32) (the value's own shortest text) and inside a
// float32→float64 helper (decided by R19l).
func noBareFloatWidening(c *Ctx, rid string) {
	r := c.R
	pk := c.P.Pkg(pkgOpenAPI)
	if pk == nil {
		r.Unres(rid, pkgOpenAPI, "", "package not loaded")
		return
	}
	info := pk.TypesInfo
	n := 0
	for _, nf := range sortedFuncNames(c.oaDecls(pkgOpenAPI)) {
		decl := c.oaDecls(pkgOpenAPI)[nf.fn]
		if decl == nil || decl.Body == nil {
			continue
		}
		sig := nf.fn.Type().(*types.Signature)
		if sig.Params().Len() == 1 && sig.Results().Len() == 1 && types.TypeString(sig.Params().At(0).Type(), nil) == "float32" && types.TypeString(sig.Results().At(0).Type(), nil) == "float64" {
			continue
		}
		parents := parentMap(decl.Body)
		ast.Inspect(decl.Body, func(nd ast.Node) bool {
			call, ok := nd.(*ast.CallExpr)
			if !ok || len(call.Args) != 1 {
				return true
			}
			tv, ok := info.Types[call.Fun]
			if !ok || !tv.IsType() || types.TypeString(tv.Type, nil) != "float64" {
				return true
			}
			if at := info.TypeOf(call.Args[0]); at == nil || types.TypeString(at.Underlying(), nil) != "float32" {
				return true
			}
			n++
			okUse := false
			if p, ok := parents[ast.Node(call)].(*ast.CallExpr); ok {
				if cal := Callee(info, p); cal != nil && cal.Pkg() != nil && cal.Pkg().Path() == "strconv" && cal.Name() == "FormatFloat" && len(p.Args) == 4 {
					if bv, ok := info.Types[p.Args[3]]; ok && bv.Value != nil && bv.Value.ExactString() == "32" {
						okUse = true
					}
				}
			}
			r.Check(okUse, rid, fmt.Sprintf("%s: float32 value %s is not widened by a bare conversion", nf.name, types.ExprString(call.Args[0])), c.P.Pos(call.Pos()),
				fmt.Sprintf("%s converts the float32 value %s with float64(…) outside strconv.FormatFloat(…, 32): the published const / enum member / bound is the exact widening (0.1 → 0.10000000149011612), which the JSON form of the field value (0.1) does not equal, so bodies the rules accept fail the schema", nf.name, types.ExprString(call.Args[0])))
			return true
		})
	}
	r.OKd(rid, "float32 → float64 conversions of the OpenAPI generator inspected", "", map[string]any{"conversions_outside_helpers": n})
}
