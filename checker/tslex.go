package main

// tslex.go — E4: lexical analysis of emitted TypeScript. There is no
// TypeScript parser in the sandbox; this tokenizer (strings, template literals
// with ${} nesting, comments, regex literals) with a bracket stack decides only
// delimiter balance and duplicate block-scoped declarations. It does not
// type-check.

import (
	"fmt"
	"strings"
	"unicode"
)

type tsTok struct {
	Kind string // ident | num | str | tmpl | regex | punct
	Text string
	Line int
}

func tsLex(src string) ([]tsTok, error) {
	var toks []tsTok
	line := 1
	i := 0
	n := len(src)
	prevSignificant := func() *tsTok {
		if len(toks) == 0 {
			return nil
		}
		return &toks[len(toks)-1]
	}
	regexAllowed := func() bool {
		p := prevSignificant()
		if p == nil {
			return true
		}
		switch p.Kind {
		case "num", "str", "tmpl", "regex":
			return false
		case "ident":
			switch p.Text {
			case "return", "typeof", "case", "in", "of", "delete", "void", "throw", "new", "else":
				return true
			}
			return false
		case "punct":
			switch p.Text {
			case ")", "]", "}":
				return false
			}
			return true
		}
		return true
	}
	var lexTemplate func() error
	lexTemplate = func() error {
		// src[i] == '`'
		start := line
		i++
		for i < n {
			c := src[i]
			switch {
			case c == '\\':
				i += 2
			case c == '`':
				i++
				toks = append(toks, tsTok{"tmpl", "`…`", start})
				return nil
			case c == '$' && i+1 < n && src[i+1] == '{':
				i += 2
				depth := 1
				for i < n && depth > 0 {
					switch src[i] {
					case '{':
						depth++
						i++
					case '}':
						depth--
						i++
					case '`':
						if err := lexTemplate(); err != nil {
							return err
						}
						toks = toks[:len(toks)-1]
					case '\'', '"':
						q := src[i]
						i++
						for i < n && src[i] != q {
							if src[i] == '\\' {
								i++
							}
							if src[i] == '\n' {
								line++
							}
							i++
						}
						i++
					case '\n':
						line++
						i++
					default:
						i++
					}
				}
				if depth != 0 {
					return fmt.Errorf("line %d: unterminated ${ in template literal", start)
				}
			default:
				if c == '\n' {
					line++
				}
				i++
			}
		}
		return fmt.Errorf("line %d: unterminated template literal", start)
	}
	for i < n {
		c := src[i]
		switch {
		case c == '\n':
			line++
			i++
		case c == ' ' || c == '\t' || c == '\r':
			i++
		case c == '/' && i+1 < n && src[i+1] == '/':
			for i < n && src[i] != '\n' {
				i++
			}
		case c == '/' && i+1 < n && src[i+1] == '*':
			j := strings.Index(src[i+2:], "*/")
			if j < 0 {
				return toks, fmt.Errorf("line %d: unterminated block comment", line)
			}
			line += strings.Count(src[i:i+2+j+2], "\n")
			i += 2 + j + 2
		case c == '"' || c == '\'':
			start := line
			q := c
			j := i + 1
			for j < n && src[j] != q {
				if src[j] == '\\' {
					j++
				}
				if j < n && src[j] == '\n' {
					return toks, fmt.Errorf("line %d: newline in string literal", start)
				}
				j++
			}
			if j >= n {
				return toks, fmt.Errorf("line %d: unterminated string literal", start)
			}
			toks = append(toks, tsTok{"str", src[i : j+1], start})
			i = j + 1
		case c == '`':
			if err := lexTemplate(); err != nil {
				return toks, err
			}
		case c == '/' && regexAllowed():
			start := line
			j := i + 1
			inClass := false
			for j < n && (src[j] != '/' || inClass) {
				if src[j] == '\\' {
					j++
				} else if src[j] == '[' {
					inClass = true
				} else if src[j] == ']' {
					inClass = false
				}
				if j < n && src[j] == '\n' {
					return toks, fmt.Errorf("line %d: newline in regular expression literal", start)
				}
				j++
			}
			if j >= n {
				return toks, fmt.Errorf("line %d: unterminated regular expression literal", start)
			}
			j++
			for j < n && unicode.IsLetter(rune(src[j])) {
				j++
			}
			toks = append(toks, tsTok{"regex", src[i:j], start})
			i = j
		case unicode.IsLetter(rune(c)) || c == '_' || c == '$':
			j := i
			for j < n && (unicode.IsLetter(rune(src[j])) || unicode.IsDigit(rune(src[j])) || src[j] == '_' || src[j] == '$') {
				j++
			}
			toks = append(toks, tsTok{"ident", src[i:j], line})
			i = j
		case unicode.IsDigit(rune(c)):
			j := i
			for j < n && (unicode.IsDigit(rune(src[j])) || unicode.IsLetter(rune(src[j])) || src[j] == '.' || src[j] == '_') {
				j++
			}
			toks = append(toks, tsTok{"num", src[i:j], line})
			i = j
		default:
			// multi-char punctuation is irrelevant for the checks; emit single chars,
			// except => and ?. which must not confuse regex detection
			if c == '=' && i+1 < n && src[i+1] == '>' {
				toks = append(toks, tsTok{"punct", "=>", line})
				i += 2
				continue
			}
			toks = append(toks, tsTok{"punct", string(c), line})
			i++
		}
	}
	return toks, nil
}

type tsProblem struct {
	Line int
	Msg  string
}

// tsCheck: delimiter balance and duplicate block-scoped declarations.
func tsCheck(src string) []tsProblem {
	toks, err := tsLex(src)
	var out []tsProblem
	if err != nil {
		return []tsProblem{{0, err.Error()}}
	}
	type scope struct {
		open   string
		line   int
		decls  map[string]int
		parens int
	}
	stack := []*scope{{open: "file", decls: map[string]int{}}}
	closer := map[string]string{"(": ")", "[": "]", "{": "}"}
	var brackets []tsTok
	for k := 0; k < len(toks); k++ {
		t := toks[k]
		cur := stack[len(stack)-1]
		if t.Kind == "punct" {
			switch t.Text {
			case "(", "[":
				brackets = append(brackets, t)
				cur.parens++
			case "{":
				brackets = append(brackets, t)
				stack = append(stack, &scope{open: "{", line: t.Line, decls: map[string]int{}})
			case ")", "]", "}":
				if len(brackets) == 0 {
					out = append(out, tsProblem{t.Line, "unmatched closing " + t.Text})
					continue
				}
				o := brackets[len(brackets)-1]
				brackets = brackets[:len(brackets)-1]
				if closer[o.Text] != t.Text {
					out = append(out, tsProblem{t.Line, fmt.Sprintf("closing %s does not match %s opened at line %d", t.Text, o.Text, o.Line)})
				}
				if t.Text == "}" {
					if len(stack) > 1 {
						stack = stack[:len(stack)-1]
					}
				} else if cur.parens > 0 {
					cur.parens--
				}
			}
			continue
		}
		if t.Kind == "ident" && cur.parens == 0 {
			switch t.Text {
			case "const", "let", "var", "class":
				if k+1 < len(toks) && toks[k+1].Kind == "ident" {
					// `const enum X` etc. are not emitted; plain binding
					name := toks[k+1].Text
					// property named const (obj.const) – previous token is '.'
					if k > 0 && toks[k-1].Kind == "punct" && toks[k-1].Text == "." {
						continue
					}
					if first, dup := cur.decls[name]; dup {
						out = append(out, tsProblem{t.Line, fmt.Sprintf("block-scoped name %q declared twice in one block (first at line %d)", name, first)})
					} else {
						cur.decls[name] = t.Line
					}
				}
			}
		}
	}
	for _, b := range brackets {
		out = append(out, tsProblem{b.Line, "unclosed " + b.Text})
	}
	return out
}
