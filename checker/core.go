package main

// core.go — E0: loading /repo (type-checked syntax, lazily SSA + call graph) and
// small helpers shared by every rule. Every run re-loads /repo from disk.

import (
	"crypto/sha256"
	"encoding/hex"
	"encoding/json"
	"fmt"
	"go/ast"
	"go/constant"
	"go/token"
	"go/types"
	"os"
	"path/filepath"
	"sort"
	"strings"
	"sync"

	"golang.org/x/tools/go/callgraph"
	"golang.org/x/tools/go/callgraph/cha"
	"golang.org/x/tools/go/callgraph/vta"
	"golang.org/x/tools/go/packages"
	"golang.org/x/tools/go/ssa"
	"golang.org/x/tools/go/ssa/ssautil"
)

const modPath = "github.com/SebastienMelki/sebuf"

// emittedImports: import paths printed by the Go generators (besides
// buf.build/go/protovalidate, which is stubbed). A unit importing anything
// else fails to type-check and is reported as UNRESOLVED.
var emittedImports = []string{
	"bytes", "context", "crypto/rand", "encoding/base64", "encoding/hex", "encoding/json", "errors", "fmt", "io", "math/rand",
	"net/http", "net/url", "strconv", "strings", "sync", "time", "unicode/utf8",
	"google.golang.org/protobuf/encoding/protojson", "google.golang.org/protobuf/proto", "google.golang.org/protobuf/reflect/protoreflect",
	"google.golang.org/protobuf/types/known/timestamppb",
}

// Prog is the loaded repository.
type Prog struct {
	Root string
	Fset *token.FileSet
	// Pkgs are the repository's own packages (non-test), sorted by path.
	Pkgs   []*packages.Package
	ByPath map[string]*packages.Package
	All    []*packages.Package // including dependencies (for SSA)

	Decls   map[*types.Func]*ast.FuncDecl
	DeclPkg map[*types.Func]*packages.Package

	ssaOnce sync.Once
	SSAProg *ssa.Program
	SSAPkgs []*ssa.Package
	cgOnce  sync.Once
	CG      *callgraph.Graph

	nFuncs int

	funcMu     sync.Mutex
	funcMemo   map[string]*types.Func
	anchorOnce sync.Once
	anchorTab  map[string]string
	// Renamed: anchors that were not found under their recorded name and were resolved by fingerprint
	Renamed []string
}

func LoadRepo(root string) (*Prog, error) {
	os.Unsetenv("GOWORK")
	fset := token.NewFileSet()
	cfg := &packages.Config{
		Mode:  packages.LoadAllSyntax,
		Dir:   root,
		Fset:  fset,
		Tests: false,
		Env:   append(os.Environ(), "GOWORK=off", "GOFLAGS=-mod=mod", "GOPROXY=off", "GOSUMDB=off"),
	}
	// Besides the repository, load the packages the EMITTED code imports, in the
	// same load, so that the reconstructed units type-check against the very same
	// *types.Package instances (one identity for proto.Message etc.).
	patterns := append([]string{"./..."}, emittedImports...)
	pkgs, err := packages.Load(cfg, patterns...)
	if err != nil {
		return nil, fmt.Errorf("packages.Load: %w", err)
	}
	if len(pkgs) == 0 {
		return nil, fmt.Errorf("no packages loaded from %s", root)
	}
	p := &Prog{Root: root, Fset: fset, ByPath: map[string]*packages.Package{},
		Decls: map[*types.Func]*ast.FuncDecl{}, DeclPkg: map[*types.Func]*packages.Package{}}
	var errs []string
	packages.Visit(pkgs, nil, func(pk *packages.Package) {
		p.All = append(p.All, pk)
		if strings.HasPrefix(pk.PkgPath, modPath) {
			for _, e := range pk.Errors {
				errs = append(errs, e.Error())
			}
		}
	})
	if len(errs) > 0 {
		return nil, fmt.Errorf("type-check errors in /repo: %s", strings.Join(errs, "; "))
	}
	for _, pk := range pkgs {
		if !strings.HasPrefix(pk.PkgPath, modPath) {
			continue
		}
		p.Pkgs = append(p.Pkgs, pk)
		p.ByPath[pk.PkgPath] = pk
		for _, f := range pk.Syntax {
			for _, d := range f.Decls {
				if fd, ok := d.(*ast.FuncDecl); ok {
					if obj, ok := pk.TypesInfo.Defs[fd.Name].(*types.Func); ok {
						p.Decls[obj] = fd
						p.DeclPkg[obj] = pk
						p.nFuncs++
					}
				}
			}
		}
	}
	sort.Slice(p.Pkgs, func(i, j int) bool { return p.Pkgs[i].PkgPath < p.Pkgs[j].PkgPath })
	if len(p.Pkgs) < 10 {
		return nil, fmt.Errorf("only %d repository packages loaded (expected >= 10)", len(p.Pkgs))
	}
	return p, nil
}

// Pkg returns a repository package by its path relative to the module
// ("internal/httpgen").
func (p *Prog) Pkg(rel string) *packages.Package {
	return p.ByPath[modPath+"/"+rel]
}

// Func finds a package-level function or a method ("(*Generator).generateFile"
// or "Generator.generateFile" both written as "Generator.generateFile").
func (p *Prog) Func(rel, name string) *types.Func {
	k := rel + " " + name
	p.funcMu.Lock()
	defer p.funcMu.Unlock()
	if f, ok := p.funcMemo[k]; ok {
		return f
	}
	f := p.funcByName(rel, name)
	if f == nil {
		f = p.funcByFingerprint(rel, name)
	}
	if f == nil {
		// a method whose unused receiver was dropped (or a function that became a method of the package's one type
		// that has it): same package, same bare name, exactly one candidate
		if i := strings.Index(name, "."); i >= 0 {
			f = p.funcByName(rel, name[i+1:])
		} else if pk := p.Pkg(rel); pk != nil {
			var cands []*types.Func
			for _, tn := range pk.Types.Scope().Names() {
				if t, ok := pk.Types.Scope().Lookup(tn).(*types.TypeName); ok {
					if m := p.funcByName(rel, t.Name()+"."+name); m != nil {
						cands = append(cands, m)
					}
				}
			}
			if len(cands) == 1 {
				f = cands[0]
			}
		}
	}
	if p.funcMemo == nil {
		p.funcMemo = map[string]*types.Func{}
	}
	p.funcMemo[k] = f
	return f
}

func (p *Prog) funcByName(rel, name string) *types.Func {
	pk := p.Pkg(rel)
	if pk == nil {
		return nil
	}
	if i := strings.Index(name, "."); i >= 0 {
		tn, _ := pk.Types.Scope().Lookup(name[:i]).(*types.TypeName)
		if tn == nil {
			return nil
		}
		named, _ := tn.Type().(*types.Named)
		if named == nil {
			return nil
		}
		for i2 := 0; i2 < named.NumMethods(); i2++ {
			if m := named.Method(i2); m.Name() == name[i+1:] {
				return m
			}
		}
		return nil
	}
	f, _ := pk.Types.Scope().Lookup(name).(*types.Func)
	return f
}

func (p *Prog) Pos(pos token.Pos) string {
	if !pos.IsValid() {
		return "?"
	}
	ps := p.Fset.Position(pos)
	rel, err := filepath.Rel(p.Root, ps.Filename)
	if err != nil {
		rel = ps.Filename
	}
	return fmt.Sprintf("%s:%d", rel, ps.Line)
}

// FuncName gives a stable, human-readable name: "httpgen.(*Generator).generateFile".
func FuncName(f *types.Func) string {
	if f == nil {
		return "<nil>"
	}
	pkg := ""
	if f.Pkg() != nil {
		pkg = f.Pkg().Name() + "."
	}
	sig, _ := f.Type().(*types.Signature)
	if sig != nil && sig.Recv() != nil {
		t := sig.Recv().Type()
		ptr := ""
		if pt, ok := t.(*types.Pointer); ok {
			t = pt.Elem()
			ptr = "*"
		}
		if n, ok := t.(*types.Named); ok {
			return fmt.Sprintf("%s(%s%s).%s", pkg, ptr, n.Obj().Name(), f.Name())
		}
	}
	return pkg + f.Name()
}

// Callee resolves the static callee of a call through type information.
func Callee(info *types.Info, call *ast.CallExpr) *types.Func {
	var id *ast.Ident
	switch fn := ast.Unparen(call.Fun).(type) {
	case *ast.Ident:
		id = fn
	case *ast.SelectorExpr:
		id = fn.Sel
	case *ast.IndexExpr:
		switch x := ast.Unparen(fn.X).(type) {
		case *ast.Ident:
			id = x
		case *ast.SelectorExpr:
			id = x.Sel
		}
	}
	if id == nil {
		return nil
	}
	if f, ok := info.Uses[id].(*types.Func); ok {
		return f.Origin()
	}
	return nil
}

func (p *Prog) BuildSSA() {
	p.ssaOnce.Do(func() {
		var initial []*packages.Package
		initial = append(initial, p.Pkgs...)
		prog, pkgs := ssautil.AllPackages(initial, ssa.InstantiateGenerics)
		prog.Build()
		p.SSAProg = prog
		p.SSAPkgs = pkgs
	})
}

func (p *Prog) CallGraph() *callgraph.Graph {
	p.BuildSSA()
	p.cgOnce.Do(func() {
		fns := ssautil.AllFunctions(p.SSAProg)
		p.CG = vta.CallGraph(fns, cha.CallGraph(p.SSAProg))
	})
	return p.CG
}

// isRepoPkg reports whether the package belongs to the repository module.
func isRepoPkg(pkg *types.Package) bool {
	return pkg != nil && strings.HasPrefix(pkg.Path(), modPath)
}

func typeIsNamed(t types.Type, pkgSuffix, name string) bool {
	if pt, ok := t.(*types.Pointer); ok {
		t = pt.Elem()
	}
	n, ok := t.(*types.Named)
	if !ok {
		if a, ok2 := t.(*types.Alias); ok2 {
			return typeIsNamed(types.Unalias(a), pkgSuffix, name)
		}
		return false
	}
	if n.Obj().Name() != name || n.Obj().Pkg() == nil {
		return false
	}
	return strings.HasSuffix(n.Obj().Pkg().Path(), pkgSuffix)
}

// IndirectCallees resolves a call through a local function variable:
//
//	for _, f := range []func(…){a, g.b} { f(x) }      → a, b
//	fs := []func(…){…}; for _, f := range fs { f(x) } → the elements
//	f := g.b; f(x)                                    → b
//
// Only repository-visible function and method values are returned; nil when the
// callee is anything else (a parameter, a field, a closure).
func IndirectCallees(info *types.Info, body *ast.BlockStmt, call *ast.CallExpr) []*types.Func {
	id, ok := ast.Unparen(call.Fun).(*ast.Ident)
	if !ok || body == nil {
		return nil
	}
	obj, ok := info.Uses[id].(*types.Var)
	if !ok {
		return nil
	}
	funcOf := func(e ast.Expr) *types.Func {
		switch x := ast.Unparen(e).(type) {
		case *ast.Ident:
			if f, ok := info.Uses[x].(*types.Func); ok {
				return f.Origin()
			}
		case *ast.SelectorExpr:
			if f, ok := info.Uses[x.Sel].(*types.Func); ok {
				return f.Origin()
			}
		}
		return nil
	}
	var elemsOf func(e ast.Expr, depth int) []*types.Func
	elemsOf = func(e ast.Expr, depth int) []*types.Func {
		switch x := ast.Unparen(e).(type) {
		case *ast.CompositeLit:
			var out []*types.Func
			for _, el := range x.Elts {
				if kv, ok := el.(*ast.KeyValueExpr); ok {
					el = kv.Value
				}
				f := funcOf(el)
				if f == nil {
					return nil
				}
				out = append(out, f)
			}
			return out
		case *ast.Ident:
			if depth > 2 {
				return nil
			}
			if d := localDef(info, body, x); d != nil {
				return elemsOf(d, depth+1)
			}
		}
		return nil
	}
	var out []*types.Func
	ast.Inspect(body, func(n ast.Node) bool {
		switch x := n.(type) {
		case *ast.RangeStmt:
			if v, ok := x.Value.(*ast.Ident); ok && info.Defs[v] == obj {
				out = elemsOf(x.X, 0)
			}
		case *ast.AssignStmt:
			if x.Tok == token.DEFINE && len(x.Lhs) == len(x.Rhs) {
				for i, l := range x.Lhs {
					if lid, ok := l.(*ast.Ident); ok && info.Defs[lid] == obj {
						if f := funcOf(x.Rhs[i]); f != nil {
							out = []*types.Func{f}
						}
					}
				}
			}
		}
		return true
	})
	return out
}

// ConstCompareSet: the string constants an expression compares something with (`x == A || x == B …`),
// upper-cased; calls to repository functions whose body is a single return statement (predicates such
// as methodHasRequestBody(verb)) are looked through.
func (p *Prog) ConstCompareSet(info *types.Info, n ast.Node) []string {
	set := map[string]bool{}
	var walk func(info *types.Info, n ast.Node, depth int)
	walk = func(info *types.Info, n ast.Node, depth int) {
		ast.Inspect(n, func(m ast.Node) bool {
			switch x := m.(type) {
			case *ast.BinaryExpr:
				if x.Op != token.EQL {
					return true
				}
				for _, side := range []ast.Expr{x.X, x.Y} {
					if tv, ok := info.Types[side]; ok && tv.Value != nil && tv.Value.Kind() == constant.String {
						if v := constant.StringVal(tv.Value); v != "" {
							set[strings.ToUpper(v)] = true
						}
					}
				}
			case *ast.CallExpr:
				if depth >= 3 {
					return true
				}
				if f := Callee(info, x); f != nil && f.Pkg() != nil && f.Pkg().Path() == "slices" && f.Name() == "Contains" && len(x.Args) == 2 {
					// slices.Contains(<constant list>, v): membership in the list's constants
					var lit *ast.CompositeLit
					var linfo = info
					switch a := ast.Unparen(x.Args[0]).(type) {
					case *ast.CompositeLit:
						lit = a
					case *ast.Ident:
						if v, ok := info.ObjectOf(a).(*types.Var); ok && v.Pkg() != nil && v.Parent() == v.Pkg().Scope() {
							for _, pk := range p.Pkgs {
								if pk.Types != v.Pkg() {
									continue
								}
								for _, file := range pk.Syntax {
									for _, d := range file.Decls {
										gd, ok := d.(*ast.GenDecl)
										if !ok || gd.Tok != token.VAR {
											continue
										}
										for _, sp := range gd.Specs {
											vs := sp.(*ast.ValueSpec)
											for i, nm := range vs.Names {
												if pk.TypesInfo.Defs[nm] == types.Object(v) && i < len(vs.Values) {
													if cl, ok := vs.Values[i].(*ast.CompositeLit); ok {
														lit, linfo = cl, pk.TypesInfo
													}
												}
											}
										}
									}
								}
							}
						}
					}
					if lit != nil {
						for _, el := range lit.Elts {
							if tv, ok := linfo.Types[el]; ok && tv.Value != nil && tv.Value.Kind() == constant.String {
								if v := constant.StringVal(tv.Value); v != "" {
									set[strings.ToUpper(v)] = true
								}
							}
						}
					}
					return true
				}
				if f := Callee(info, x); f != nil {
					if d := p.Decls[f]; d != nil && d.Body != nil && len(d.Body.List) == 1 {
						if ret, ok := d.Body.List[0].(*ast.ReturnStmt); ok && len(ret.Results) == 1 {
							walk(p.DeclPkg[f].TypesInfo, ret.Results[0], depth+1)
						}
					}
					// a predicate spelled as a switch: `switch v { case A, B: return true; default: return false }`
					if d := p.Decls[f]; d != nil && d.Body != nil && len(d.Body.List) >= 1 {
						if sw, ok := d.Body.List[0].(*ast.SwitchStmt); ok && sw.Tag != nil && sw.Init == nil {
							finfo := p.DeclPkg[f].TypesInfo
							isBool := func(st []ast.Stmt, want bool) bool {
								if len(st) != 1 {
									return false
								}
								ret, ok := st[0].(*ast.ReturnStmt)
								if !ok || len(ret.Results) != 1 {
									return false
								}
								tv, ok := finfo.Types[ret.Results[0]]
								return ok && tv.Value != nil && tv.Value.Kind() == constant.Bool && constant.BoolVal(tv.Value) == want
							}
							okShape := true
							var labels []string
							for _, cs := range sw.Body.List {
								cc := cs.(*ast.CaseClause)
								switch {
								case isBool(cc.Body, true) && cc.List != nil:
									for _, e := range cc.List {
										if tv, ok := finfo.Types[e]; ok && tv.Value != nil && tv.Value.Kind() == constant.String {
											labels = append(labels, strings.ToUpper(constant.StringVal(tv.Value)))
										} else {
											okShape = false
										}
									}
								case isBool(cc.Body, false):
								default:
									okShape = false
								}
							}
							if len(d.Body.List) == 2 && !isBool(d.Body.List[1:], false) || len(d.Body.List) > 2 {
								okShape = false
							}
							if okShape {
								for _, l := range labels {
									if l != "" {
										set[l] = true
									}
								}
							}
						}
					}
				}
			}
			return true
		})
	}
	walk(info, n, 0)
	out := make([]string, 0, len(set))
	for k := range set {
		out = append(out, k)
	}
	sort.Strings(out)
	return out
}

// ---- anchors that survive a rename
//
// Rules name the functions they analyse. A pure rename of an unexported function (a clean-up) must not turn the
// check into UNRESOLVED: anchors.json (committed, written by `sebufcheck anchors` from the tree the rules were
// confirmed on) records for every function of the generator packages a fingerprint of its body with every
// repository-local function name, its own name and its local identifiers erased. When a name is not found, the
// function of the same package and receiver with exactly that fingerprint is taken instead — if there is exactly one.
// The fingerprint is used for nothing else (no rule compares it).

func (p *Prog) fingerprint(fn *types.Func) string {
	decl := p.Decls[fn]
	if decl == nil || decl.Body == nil {
		return ""
	}
	info := p.DeclPkg[fn].TypesInfo
	rename := map[string]string{}
	// every identifier that names something declared in the repository (functions, types, struct fields,
	// constants, package-level variables) is erased: renaming any of them does not change the fingerprint
	ast.Inspect(decl, func(n ast.Node) bool {
		if id, ok := n.(*ast.Ident); ok {
			o := info.Uses[id]
			if o == nil {
				o = info.Defs[id]
			}
			if o != nil && o.Pkg() != nil && strings.HasPrefix(o.Pkg().Path(), modPath) {
				switch o.(type) {
				case *types.Func, *types.TypeName, *types.Const:
					rename[id.Name] = "R"
				case *types.Var:
					if v := o.(*types.Var); v.IsField() || v.Parent() == o.Pkg().Scope() {
						rename[id.Name] = "R"
					}
				}
			}
		}
		return true
	})
	rename[fn.Name()] = "R"
	c := p.CanonFunc(fn, rename)
	h := sha256.Sum256([]byte(c))
	return hex.EncodeToString(h[:12])
}

func recvName(fn *types.Func) string {
	sig, ok := fn.Type().(*types.Signature)
	if !ok || sig.Recv() == nil {
		return ""
	}
	t := sig.Recv().Type()
	if pt, ok := t.(*types.Pointer); ok {
		t = pt.Elem()
	}
	if n, ok := t.(*types.Named); ok {
		return n.Obj().Name()
	}
	return ""
}

func anchorKey(rel string, fn *types.Func) string {
	if r := recvName(fn); r != "" {
		return rel + " " + r + "." + fn.Name()
	}
	return rel + " " + fn.Name()
}

// Anchors computes the table for the loaded tree.
func (p *Prog) Anchors() map[string]string {
	out := map[string]string{}
	for fn := range p.Decls {
		if fn.Pkg() == nil || !strings.HasPrefix(fn.Pkg().Path(), modPath+"/") {
			continue
		}
		rel := strings.TrimPrefix(fn.Pkg().Path(), modPath+"/")
		if !(strings.HasPrefix(rel, "internal/") || strings.HasPrefix(rel, "cmd/")) {
			continue
		}
		if fp := p.fingerprint(fn); fp != "" {
			out[anchorKey(rel, fn)] = fp
		}
	}
	return out
}

func (p *Prog) anchorTable() map[string]string {
	p.loadAnchors()
	return p.anchorTab
}

func (p *Prog) funcByFingerprint(rel, name string) *types.Func {
	p.loadAnchors()
	want, ok := p.anchorTab[rel+" "+name]
	if !ok {
		return nil
	}
	recv := ""
	if i := strings.Index(name, "."); i >= 0 {
		recv = name[:i]
	}
	var found []*types.Func
	for fn := range p.Decls {
		if fn.Pkg() == nil || strings.TrimPrefix(fn.Pkg().Path(), modPath+"/") != rel || recvName(fn) != recv {
			continue
		}
		if p.fingerprint(fn) == want {
			// a function that still carries a recorded name with this fingerprint is itself, not the renamed one
			if own, ok := p.anchorTab[anchorKey(rel, fn)]; ok && own == want {
				continue
			}
			found = append(found, fn)
		}
	}
	if len(found) == 1 {
		p.Renamed = append(p.Renamed, rel+" "+name+" → "+found[0].Name())
		return found[0]
	}
	return nil
}

func (p *Prog) loadAnchors() {
	p.anchorOnce.Do(func() {
		p.anchorTab = map[string]string{}
		dir := os.Getenv("VERIF_DIR")
		if dir == "" {
			dir = "/verif"
		}
		if b, err := os.ReadFile(filepath.Join(dir, "anchors.json")); err == nil {
			_ = json.Unmarshal(b, &p.anchorTab)
		}
	})
}
