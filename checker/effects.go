package main

// effects.go — effect summaries over typed emitted Go code: which functions
// write a message (protoreflect Set/Append…), reset it (protojson/proto
// Unmarshal, UnmarshalJSON), read the request body, write the response header
// or body. Summaries are computed bottom-up over the emitted unit's own call
// graph from a short table of library facts; path rules then walk go/cfg
// graphs over the resulting events.

import (
	"go/ast"
	"go/token"
	"go/types"
	"strings"

	"golang.org/x/tools/go/cfg"
)

const (
	EffWrite       = "write-message"
	EffReset       = "reset-message"
	EffReadBody    = "read-body"
	EffWriteHeader = "write-header"
	EffWriteBody   = "write-body"
)

type effKey struct {
	Kind  string
	Param int
}

type Effects struct {
	ep  *EmittedPkg
	sum map[*types.Func]map[effKey]bool
}

// transparent wrappers: the result denotes (a view of) the same object.
var viewMethods = map[string]bool{"ProtoReflect": true, "Mutable": true, "List": true, "Map": true, "Interface": true, "Message": true}

func (e *Effects) strip(x ast.Expr) ast.Expr {
	for {
		switch y := x.(type) {
		case *ast.ParenExpr:
			x = y.X
		case *ast.TypeAssertExpr:
			x = y.X
		case *ast.StarExpr:
			x = y.X
		case *ast.UnaryExpr:
			if y.Op != token.AND {
				return x
			}
			x = y.X
		case *ast.CallExpr:
			if tv, ok := e.ep.Info.Types[y.Fun]; ok && tv.IsType() && len(y.Args) == 1 {
				x = y.Args[0]
				continue
			}
			if sel, ok := y.Fun.(*ast.SelectorExpr); ok && viewMethods[sel.Sel.Name] {
				x = sel.X
				continue
			}
			return x
		default:
			return x
		}
	}
}

// derived computes the local objects that denote (views of) root inside body.
func (e *Effects) derived(body ast.Node, root types.Object) map[types.Object]bool {
	d := map[types.Object]bool{root: true}
	for changed := true; changed; {
		changed = false
		ast.Inspect(body, func(n ast.Node) bool {
			as, ok := n.(*ast.AssignStmt)
			if !ok {
				return true
			}
			for i, l := range as.Lhs {
				id, ok := l.(*ast.Ident)
				if !ok || id.Name == "_" {
					continue
				}
				var rhs ast.Expr
				if len(as.Rhs) == len(as.Lhs) {
					rhs = as.Rhs[i]
				} else if len(as.Rhs) == 1 && i == 0 {
					rhs = as.Rhs[0]
				}
				if rhs == nil {
					continue
				}
				if rid, ok := e.strip(rhs).(*ast.Ident); ok && d[e.ep.Info.ObjectOf(rid)] {
					if o := e.ep.Info.ObjectOf(id); o != nil && !d[o] {
						d[o] = true
						changed = true
					}
				}
			}
			return true
		})
	}
	return d
}

func (e *Effects) isDerived(x ast.Expr, d map[types.Object]bool) bool {
	id, ok := e.strip(x).(*ast.Ident)
	return ok && d[e.ep.Info.ObjectOf(id)]
}

// Event is one effect occurrence at a call.
type Event struct {
	Kind string
	Pos  token.Pos
	Via  string // callee that produces it
}

// callEvents lists the effects a call has on the object set d.
func (e *Effects) callEvents(call *ast.CallExpr, d map[types.Object]bool) []Event {
	info := e.ep.Info
	var out []Event
	cal := Callee(info, call)
	qn := qname(cal)
	recv := func() ast.Expr {
		if sel, ok := call.Fun.(*ast.SelectorExpr); ok {
			return sel.X
		}
		return nil
	}
	arg := func(i int) ast.Expr {
		if i < len(call.Args) {
			return call.Args[i]
		}
		return nil
	}
	is := func(x ast.Expr) bool { return x != nil && e.isDerived(x, d) }
	bodyOf := func(x ast.Expr) bool { // R.Body with R derived
		if x == nil {
			return false
		}
		if sel, ok := ast.Unparen(x).(*ast.SelectorExpr); ok && sel.Sel.Name == "Body" {
			return is(sel.X)
		}
		return false
	}
	switch {
	case strings.HasSuffix(qn, "protoreflect.(Message).Set"), strings.HasSuffix(qn, "protoreflect.(Message).Clear"),
		strings.HasSuffix(qn, "protoreflect.(List).Append"), strings.HasSuffix(qn, "protoreflect.(List).Set"),
		strings.HasSuffix(qn, "protoreflect.(Map).Set"), strings.HasSuffix(qn, "protoreflect.(Message).SetUnknown"):
		if is(recv()) {
			out = append(out, Event{EffWrite, call.Pos(), qn})
		}
	case qn == "google.golang.org/protobuf/encoding/protojson.Unmarshal", qn == "google.golang.org/protobuf/proto.Unmarshal",
		strings.HasSuffix(qn, "protojson.(UnmarshalOptions).Unmarshal"), strings.HasSuffix(qn, "proto.(UnmarshalOptions).Unmarshal"),
		qn == "google.golang.org/protobuf/proto.Reset":
		a := arg(1)
		if qn == "google.golang.org/protobuf/proto.Reset" {
			a = arg(0)
		}
		if is(a) {
			out = append(out, Event{EffReset, call.Pos(), qn})
		}
	case qn == "encoding/json.(Unmarshaler).UnmarshalJSON":
		if is(recv()) {
			out = append(out, Event{EffReset, call.Pos(), qn})
		}
	case qn == "io.ReadAll", qn == "io.Copy", qn == "encoding/json.NewDecoder", qn == "io.ReadFull":
		for _, a := range call.Args {
			if bodyOf(a) {
				out = append(out, Event{EffReadBody, call.Pos(), qn})
			}
		}
	case qn == "net/http.(ResponseWriter).WriteHeader":
		if is(recv()) {
			out = append(out, Event{EffWriteHeader, call.Pos(), qn})
		}
	case qn == "net/http.(ResponseWriter).Write":
		if is(recv()) {
			out = append(out, Event{EffWriteBody, call.Pos(), qn})
		}
	case qn == "net/http.Error":
		if is(arg(0)) {
			out = append(out, Event{EffWriteHeader, call.Pos(), qn}, Event{EffWriteBody, call.Pos(), qn})
		}
	}
	if strings.HasSuffix(qn, ".Read") && recv() != nil && bodyOf(recv()) {
		out = append(out, Event{EffReadBody, call.Pos(), qn})
	}
	// emitted callee with a summary
	if cal != nil && e.sum[cal] != nil {
		for k := range e.sum[cal] {
			if is(arg(k.Param)) {
				out = append(out, Event{k.Kind, call.Pos(), cal.Name()})
			}
		}
	}
	return out
}

// NewEffects computes the summaries of every emitted top-level function.
func NewEffects(ep *EmittedPkg) *Effects {
	e := &Effects{ep: ep, sum: map[*types.Func]map[effKey]bool{}}
	type fn struct {
		obj  *types.Func
		decl *ast.FuncDecl
	}
	var fns []fn
	for _, fd := range ep.Funcs {
		if obj, ok := ep.Info.Defs[fd.Name].(*types.Func); ok && fd.Body != nil {
			fns = append(fns, fn{obj, fd})
			e.sum[obj] = map[effKey]bool{}
		}
	}
	for changed := true; changed; {
		changed = false
		for _, f := range fns {
			// parameters in order
			var params []types.Object
			for _, fl := range f.decl.Type.Params.List {
				for _, n := range fl.Names {
					params = append(params, ep.Info.Defs[n])
				}
			}
			for pi, p := range params {
				if p == nil {
					continue
				}
				d := e.derived(f.decl.Body, p)
				e.walkCalls(f.decl.Body, func(call *ast.CallExpr) {
					for _, ev := range e.callEvents(call, d) {
						k := effKey{ev.Kind, pi}
						if !e.sum[f.obj][k] {
							e.sum[f.obj][k] = true
							changed = true
						}
					}
				})
			}
		}
	}
	return e
}

// walkCalls visits calls executed when the body runs: function literals are
// skipped unless handed to (*sync.Once).Do or invoked on the spot.
func (e *Effects) walkCalls(body ast.Node, f func(*ast.CallExpr)) {
	var visit func(n ast.Node) bool
	visit = func(n ast.Node) bool {
		switch x := n.(type) {
		case *ast.FuncLit:
			return false
		case *ast.CallExpr:
			f(x)
			if lit, ok := ast.Unparen(x.Fun).(*ast.FuncLit); ok {
				ast.Inspect(lit.Body, visit)
			}
			if cal := Callee(e.ep.Info, x); cal != nil && qname(cal) == "sync.(Once).Do" && len(x.Args) == 1 {
				if lit, ok := x.Args[0].(*ast.FuncLit); ok {
					ast.Inspect(lit.Body, visit)
				}
			}
		}
		return true
	}
	ast.Inspect(body, visit)
}

func (e *Effects) Has(fn *types.Func, kind string, param int) bool {
	return e.sum[fn] != nil && e.sum[fn][effKey{kind, param}]
}

// ---------------------------------------------------------------- path search over events

// NodeEvents returns, in source order, the labelled events of one CFG node.
type labelFn func(call *ast.CallExpr) []string

func nodeLabels(n ast.Node, lf labelFn) []struct {
	Label string
	Pos   token.Pos
} {
	var out []struct {
		Label string
		Pos   token.Pos
	}
	ast.Inspect(n, func(m ast.Node) bool {
		switch x := m.(type) {
		case *ast.FuncLit:
			return false
		case *ast.CallExpr:
			// arguments are evaluated before the call: visit children first
			for _, a := range x.Args {
				for _, l := range nodeLabels(a, lf) {
					out = append(out, l)
				}
			}
			if sel, ok := x.Fun.(*ast.SelectorExpr); ok {
				for _, l := range nodeLabels(sel.X, lf) {
					out = append(out, l)
				}
			}
			for _, l := range lf(x) {
				out = append(out, struct {
					Label string
					Pos   token.Pos
				}{l, x.Pos()})
			}
			return false
		}
		return true
	})
	return out
}

// FindPath searches the CFG of body for a path along which the automaton
// reaches an accepting state. step(state, label) returns the next state
// ("" = stay); accept(state) ends the search. States are small strings.
func FindPath(body *ast.BlockStmt, lf labelFn, start string, step func(state, label string) string, accept func(state string) bool) (found bool, trace []token.Pos) {
	return findPathFiltered(body, lf, start, step, accept, nil)
}

// findPathFiltered: prune(cond) tells which arm of a two-way branch on cond is
// infeasible: 0 = then arm, 1 = else arm, -1 = both feasible.
func findPathFiltered(body *ast.BlockStmt, lf labelFn, start string, step func(state, label string) string, accept func(state string) bool, prune func(cond ast.Expr) int) (found bool, trace []token.Pos) {
	g := cfg.New(body, func(*ast.CallExpr) bool { return true })
	type key struct {
		b *cfg.Block
		s string
	}
	seen := map[key]bool{}
	var dfs func(b *cfg.Block, s string, tr []token.Pos) bool
	dfs = func(b *cfg.Block, s string, tr []token.Pos) bool {
		k := key{b, s}
		if seen[k] {
			return false
		}
		seen[k] = true
		for _, n := range b.Nodes {
			for _, l := range nodeLabels(n, lf) {
				if ns := step(s, l.Label); ns != "" && ns != s {
					s = ns
					tr = append(append([]token.Pos{}, tr...), l.Pos)
					if accept(s) {
						trace = tr
						return true
					}
				}
			}
		}
		skip := -1
		if prune != nil && len(b.Succs) == 2 && len(b.Nodes) > 0 {
			if cond, ok := b.Nodes[len(b.Nodes)-1].(ast.Expr); ok {
				skip = prune(cond)
			}
		}
		for i, succ := range b.Succs {
			if i == skip {
				continue
			}
			if dfs(succ, s, tr) {
				return true
			}
		}
		return false
	}
	if len(g.Blocks) == 0 {
		return false, nil
	}
	return dfs(g.Blocks[0], start, nil), trace
}
