package main

// report.go — obligations, verdicts, known findings, evidence and replay files.

import (
	"encoding/json"
	"fmt"
	"os"
	"path/filepath"
	"sort"
	"strings"
	"time"
)

const (
	Discharged = "DISCHARGED"
	Violated   = "VIOLATED"
	Undecided  = "UNDECIDED"
	Unresolved = "UNRESOLVED"
	Vacuous    = "VACUOUS"
)

// Oblig is one rule instantiated at one construct. Key is symbolic (package,
// function, structural locator) — never a line number.
type Oblig struct {
	Rule   string `json:"rule"`
	Key    string `json:"key"`
	Status string `json:"status"`
	Pos    string `json:"pos,omitempty"`
	Msg    string `json:"msg,omitempty"`
	Detail any    `json:"detail,omitempty"`
}

type RuleInfo struct {
	ID    string `json:"id"`
	Doc   string `json:"doc"`
	Floor int    `json:"floor"` // minimal number of instances confirmed by hand on the pinned tree
	Count int    `json:"instances"`
}

type Report struct {
	Prop     string
	Tier     string
	Start    time.Time
	Obligs   []Oblig
	Rules    map[string]*RuleInfo
	order    []string
	Counters map[string]int
	Notes    []string
	Trusted  []string
	Explain  string
	Assume   []string
	dedupe   map[string]bool
}

func NewReport(prop, tier string) *Report {
	return &Report{Prop: prop, Tier: tier, Start: time.Now(), Rules: map[string]*RuleInfo{}, Counters: map[string]int{}}
}

func (r *Report) Rule(id, doc string, floor int) {
	if _, ok := r.Rules[id]; !ok {
		r.Rules[id] = &RuleInfo{ID: id, Doc: doc, Floor: floor}
		r.order = append(r.order, id)
	}
}

func (r *Report) add(rule, key, status, pos, msg string, detail any) {
	ri := r.Rules[rule]
	if ri == nil {
		panic("rule not declared: " + rule)
	}
	dk := rule + "\x00" + key + "\x00" + status
	if r.dedupe == nil {
		r.dedupe = map[string]bool{}
	}
	if r.dedupe[dk] {
		return
	}
	r.dedupe[dk] = true
	ri.Count++
	r.Obligs = append(r.Obligs, Oblig{Rule: rule, Key: key, Status: status, Pos: pos, Msg: msg, Detail: detail})
}

func (r *Report) OK(rule, key, pos string)                  { r.add(rule, key, Discharged, pos, "", nil) }
func (r *Report) OKd(rule, key, pos string, d any)          { r.add(rule, key, Discharged, pos, "", d) }
func (r *Report) Bad(rule, key, pos, msg string, d any)     { r.add(rule, key, Violated, pos, msg, d) }
func (r *Report) Undec(rule, key, pos, msg string)          { r.add(rule, key, Undecided, pos, msg, nil) }
func (r *Report) Unres(rule, key, pos, msg string)          { r.add(rule, key, Unresolved, pos, msg, nil) }
func (r *Report) Check(ok bool, rule, key, pos, msg string) { r.CheckD(ok, rule, key, pos, msg, nil) }
func (r *Report) CheckD(ok bool, rule, key, pos, msg string, d any) {
	if ok {
		r.add(rule, key, Discharged, pos, "", d)
	} else {
		r.add(rule, key, Violated, pos, msg, d)
	}
}
func (r *Report) Count(name string, n int) { r.Counters[name] += n }
func (r *Report) Note(format string, a ...any) {
	r.Notes = append(r.Notes, fmt.Sprintf(format, a...))
}

// ---------------------------------------------------------------- known findings

type Finding struct {
	Property string `json:"property"`
	Rule     string `json:"rule"`
	Key      string `json:"key"`
	Status   string `json:"status"` // "known" | "fixed"
	What     string `json:"what"`
	Input    string `json:"failing_input,omitempty"`
	Commit   string `json:"commit,omitempty"`
}

func loadFindings(path string) ([]Finding, error) {
	b, err := os.ReadFile(path)
	if err != nil {
		if os.IsNotExist(err) {
			return nil, nil
		}
		return nil, err
	}
	var fs []Finding
	if err := json.Unmarshal(b, &fs); err != nil {
		return nil, fmt.Errorf("%s: %w", path, err)
	}
	return fs, nil
}

// ---------------------------------------------------------------- finish

// Finish prints the verdict lines, writes evidence and replay files, and
// returns the process exit code.
func (r *Report) Finish(verifDir string, seed int) int {
	findings, err := loadFindings(filepath.Join(verifDir, "known_findings.json"))
	if out := os.Getenv("VERIF_OUT"); out != "" {
		// witness / scratch runs write their evidence elsewhere
		verifDir = out
	}
	if err != nil {
		fmt.Println("ERROR reading known findings:", err)
		return 2
	}
	known := map[string]Finding{}
	for _, f := range findings {
		if f.Property == r.Prop && f.Status == "known" {
			known[f.Rule+"\x00"+f.Key] = f
		}
	}
	// vacuity
	for _, id := range r.order {
		ri := r.Rules[id]
		// The floor guards against a rule that silently matches (almost) nothing. A behaviour-preserving
		// clean-up may legitimately merge several instances into one (two call sites extracted into a helper,
		// a table loop instead of eight calls), so the alarm threshold is half of the count confirmed by hand.
		if min := (ri.Floor + 1) / 2; ri.Count < min {
			r.Obligs = append(r.Obligs, Oblig{Rule: id, Key: "instance-floor", Status: Vacuous,
				Msg: fmt.Sprintf("rule matched %d instances; %d were confirmed by hand on the pinned tree (alarm below %d)", ri.Count, ri.Floor, min)})
		}
	}
	byStatus := map[string]int{}
	exit := 0
	nKnown := 0
	nViol := 0
	replayDir := filepath.Join(verifDir, "evidence", "replay")
	os.MkdirAll(replayDir, 0o755)
	// remove stale replay files of this property
	if old, _ := filepath.Glob(filepath.Join(replayDir, r.Prop+"-*.json")); old != nil {
		for _, f := range old {
			os.Remove(f)
		}
	}
	seenKnown := map[string]bool{}
	for i := range r.Obligs {
		o := &r.Obligs[i]
		switch o.Status {
		case Discharged:
			byStatus[Discharged]++
		case Violated:
			if f, ok := known[o.Rule+"\x00"+o.Key]; ok {
				byStatus["KNOWN"]++
				nKnown++
				if !seenKnown[o.Rule+"\x00"+o.Key] {
					seenKnown[o.Rule+"\x00"+o.Key] = true
					fmt.Printf("KNOWN-FINDING: property=%s %s %s: %s\n", r.Prop, o.Rule, o.Key, f.What)
				}
				o.Status = "KNOWN"
				continue
			}
			byStatus[Violated]++
			nViol++
			path := filepath.Join(replayDir, fmt.Sprintf("%s-%d.json", r.Prop, nViol))
			b, _ := json.MarshalIndent(map[string]any{"property": r.Prop, "tier": r.Tier, "obligation": o}, "", " ")
			os.WriteFile(path, b, 0o644)
			fmt.Printf("VIOLATION property=%s replay=%s\n", r.Prop, path)
			fmt.Printf("  rule=%s construct=%s at %s: %s\n", o.Rule, o.Key, o.Pos, o.Msg)
			exit = 1
		default:
			// UNDECIDED / UNRESOLVED / VACUOUS: the rule can no longer see or decide
			// its subject. Reported as a violation of the check (never a silent pass).
			byStatus[o.Status]++
			nViol++
			path := filepath.Join(replayDir, fmt.Sprintf("%s-%d.json", r.Prop, nViol))
			b, _ := json.MarshalIndent(map[string]any{"property": r.Prop, "tier": r.Tier, "obligation": o}, "", " ")
			os.WriteFile(path, b, 0o644)
			fmt.Printf("VIOLATION property=%s replay=%s\n", r.Prop, path)
			fmt.Printf("  %s rule=%s construct=%s at %s: %s\n", o.Status, o.Rule, o.Key, o.Pos, o.Msg)
			exit = 1
		}
	}
	// evidence
	var rules []*RuleInfo
	for _, id := range r.order {
		rules = append(rules, r.Rules[id])
	}
	if os.Getenv("VERIF_ALLOBS") != "" {
		for _, o := range r.Obligs {
			b, _ := json.Marshal(o.Detail)
			fmt.Printf("OBLIG %s %s | %s | %s | %s\n", o.Rule, o.Status, o.Key, o.Pos, b)
		}
	}
	var samples []Oblig
	perRule := map[string]int{}
	for _, o := range r.Obligs {
		if perRule[o.Rule] < 3 {
			perRule[o.Rule]++
			s := o
			if b, _ := json.Marshal(s.Detail); len(b) > 600 {
				s.Detail = string(b[:600]) + "…"
			}
			samples = append(samples, s)
		}
	}
	distinct := map[string]bool{}
	for _, o := range r.Obligs {
		distinct[o.Rule+"\x00"+o.Key] = true
	}
	cov := map[string]any{
		"explanation":         r.Explain,
		"obligations":         len(r.Obligs),
		"discharged":          byStatus[Discharged],
		"by_verdict":          byStatus,
		"evaluations":         len(r.Obligs),
		"distinct_nontrivial": len(distinct),
		"rule":                "one obligation per (rule, construct key); distinct = distinct (rule,key) pairs; every obligation is a rule instance found in /repo's current source on this run",
		"rules":               rules,
		"samples":             samples,
		"counters":            r.Counters,
		"trusted_base":        append([]string{}, r.Trusted...),
		"notes":               append([]string{}, r.Notes...),
		"checker_cmd":         fmt.Sprintf("bin/run %s %s", r.Prop, r.Tier),
		"exhaustive":          false,
	}
	ev := map[string]any{
		"property_id": r.Prop,
		"tier":        r.Tier,
		"seed":        seed,
		"level":       "other",
		"coverage":    cov,
		"assumptions": append([]string{"/repo is analysed as source only: nothing in it is compiled or executed by this check"}, r.Assume...),
		"wall_s":      time.Since(r.Start).Seconds(),
		"violations":  nViol,
	}
	b, _ := json.MarshalIndent(ev, "", " ")
	os.MkdirAll(filepath.Join(verifDir, "evidence"), 0o755)
	if err := os.WriteFile(filepath.Join(verifDir, "evidence", r.Prop+".json"), b, 0o644); err != nil {
		fmt.Println("ERROR writing evidence:", err)
		return 2
	}
	var parts []string
	for _, k := range sortedKeys(byStatus) {
		parts = append(parts, fmt.Sprintf("%s=%d", k, byStatus[k]))
	}
	sort.Strings(parts)
	fmt.Printf("SUMMARY property=%s tier=%s obligations=%d %s rules=%d wall=%.1fs\n", r.Prop, r.Tier, len(r.Obligs), strings.Join(parts, " "), len(rules), time.Since(r.Start).Seconds())
	return exit
}
