#!/bin/bash
# bin/allquick.sh [tier] — run every registered check in parallel and print one line each.
HERE=$(cd "$(dirname "$0")/.." && pwd)
tier=${1:-quick}
props=$(python3 -c "import json;print(' '.join(sorted(c['property_id'] for c in json.load(open('$HERE/MANIFEST.json'))['checks'])))" 2>/dev/null)
[ -z "$props" ] && props=$(python3 -c "import json;m=json.load(open('$HERE/MANIFEST.json'));print(' '.join(sorted(k if isinstance(k,str) else k['property_id'] for k in m.get('properties',m.get('claims',[])))))")
tmp=$(mktemp -d)
for p in $props; do ( "$HERE/bin/run" $p $tier > $tmp/$p.out 2>&1; echo "$p exit=$? $(grep SUMMARY $tmp/$p.out | cut -c1-160)" > $tmp/$p.res ) & done
wait
cat $tmp/*.res
rm -rf $tmp
