package main

// C09 — requests are dispatched only when every required header is present and valid.

import (
	"fmt"
	"go/ast"
	"go/token"
	"go/types"
	"regexp"
	"sort"
	"strings"
)

func init() { props["C09"] = checkC09 }

// switchTable extracts `switch <tag> { case "a", "b": … }` arms of an emitted
// function as label -> names of the functions called in the arm.
func switchTable(ep *EmittedPkg, fd *ast.FuncDecl, tagText string) (arms map[string][]string, def []string, found bool) {
	arms = map[string][]string{}
	ast.Inspect(fd.Body, func(n ast.Node) bool {
		sw, ok := n.(*ast.SwitchStmt)
		if !ok || sw.Tag == nil || types.ExprString(sw.Tag) != tagText {
			return true
		}
		found = true
		for _, st := range sw.Body.List {
			cc := st.(*ast.CaseClause)
			var callees []string
			for _, b := range cc.Body {
				ast.Inspect(b, func(m ast.Node) bool {
					if call, ok := m.(*ast.CallExpr); ok {
						if cal := ep.CalleeOf(call); cal != nil {
							callees = append(callees, ep.RecName(cal))
						}
					}
					return true
				})
			}
			if cc.List == nil {
				def = callees
				continue
			}
			for _, e := range cc.List {
				if tv, ok := ep.Info.Types[e]; ok && tv.Value != nil {
					arms[strings.Trim(tv.Value.ExactString(), `"`)] = callees
				}
			}
		}
		return false
	})
	return
}

var tsCaseRe = regexp.MustCompile(`^\s*case "([^"]*)":`)

// tsSwitchLabels scans emitted TS lines for `switch (<tag>) {` and collects its case labels.
func tsSwitchLabels(lines []string, tag string) (labels []string, found bool) {
	for i, l := range lines {
		if strings.Contains(l, "switch ("+tag+")") {
			found = true
			depth := 0
			for _, m := range lines[i:] {
				depth += strings.Count(m, "{") - strings.Count(m, "}")
				if mm := tsCaseRe.FindStringSubmatch(m); mm != nil {
					labels = append(labels, mm[1])
				}
				if depth <= 0 && m != l {
					break
				}
			}
			return
		}
	}
	return
}

func checkC09(c *Ctx) {
	r := c.R
	r.Explain = "Decides structural clauses of C09. On the reconstructed, type-checked go-http runtime: R09a the validateHeaders call precedes, on every go/cfg path of the handler, every read of the request body and the dispatch, and its failure arm writes the violation and returns; R09b the validation loop has no early exit and each failing arm appends exactly one violation whose Field is the header's name; R09c only required headers enter the merge map, method headers are stored after service headers under the same (lower-cased name) key. R09d vocabulary/strictness table: for every declared (type, format) pair drawn from the case labels of all three implementations, the constraint class each server enforces (Go: emitted switch tables; TS: case labels of the emitted validateHeaderValue) must be implied by what the OpenAPI parameter publishes (mapHeaderTypeToOpenAPI evaluated by walking its syntax tree; format published iff declared, for every type). R09e the header list reaching the TS route and the OpenAPI operation implements 'method replaces service by name' (CombineHeaders). R09f the per-route header literal carries all seven Header fields from the same header. Not decided: accept/reject sets of the validators over header values (regex vs time.Parse, UUID laxness) — value level."
	r.Trusted = []string{"http.Header.Get is case-insensitive (net/http canonicalisation)"}
	r.Rule("R09a", "header validation precedes every body read and the dispatch; failure ends in an error response and return", 3)
	r.Rule("R09b", "one violation per offending header, named after the header; no early exit from the validation loop", 3)
	r.Rule("R09c", "merge: only required headers; method header stored after service header under the same key", 3)
	r.Rule("R09d", "no server enforces a header constraint that the OpenAPI parameter does not publish (type and format classes)", 20)
	r.Rule("R09e", "TS route and OpenAPI operation use the method-overrides-service merge", 2)
	r.Rule("R09f", "header literals carry all seven fields of the same header", 7)

	c09HeaderScenarios(c)
	c17RouteOwnHeaders(c, "R09i")

	ep, err := c.ServerRuntime()
	if err != nil {
		r.Unres("R09a", "emitted server runtime", "", err.Error())
		return
	}
	c09UTF8First(c, ep)
	r.Rule("R09k", "regular expressions shared by all requests of the emitted TS server are stateless", 1)
	c09StatelessRegex(c, "R09k")
	r.Rule("R09m", "the header merge (annotations.CombineHeaders) orders only slices it owns: the service-level header list shared by all methods is never appended into or sorted in place (shared with C15/R15h)", 1)
	sharedSliceMutation(c, "R09m", func(fn *types.Func) bool { return strings.HasSuffix(fn.Pkg().Path(), "internal/annotations") })
	r.Rule("R09n", "the emitted merge of service-level and method-level headers keys the merged map by a case-folded name, so a method-level declaration replaces the service-level one of the same (case-insensitive) header", 2)
	r.Rule("R09o", "annotations.CombineHeaders (the merge behind the OpenAPI parameter list) indexes its name-keyed map by a case-folded name, as the generated Go server's merge does", 2)
	c09CombineKeys(c, "R09o")
	r.Rule("R09p", "the OpenAPI generator never stores, once per loop iteration, the address of a variable that lives across iterations (one shared pointer: every parameter would publish the required flag of the last header)", 1)
	outerAddrStoredInLoop(c, "R09p", pkgOpenAPI)
	r.Rule("R09l", "header violation descriptions are built from the declared name and the error, not from the raw value", 1)
	c09ViolationText(c, ep, "R09l")
	eff := NewEffects(ep)
	fd, lit := middlewareLit(ep)
	if lit == nil {
		r.Unres("R09a", "BindingMiddleware handler literal", "", "not found")
		return
	}
	rObj := paramObj(ep, lit.Type, "r")
	if rObj == nil {
		r.Unres("R09a", "handler parameter r", ep.GenPos(fd.Pos()), "not found")
		return
	}
	dr := eff.derived(lit.Body, rObj)
	lf := func(call *ast.CallExpr) []string {
		var ls []string
		if cal := ep.CalleeOf(call); cal != nil && ep.RecName(cal) == "validateHeaders" {
			ls = append(ls, "H")
		}
		for _, ev := range eff.callEvents(call, dr) {
			if ev.Kind == EffReadBody {
				ls = append(ls, "B")
			}
		}
		if isDispatch(ep, call) {
			ls = append(ls, "D")
		}
		return ls
	}
	if !eff.Has(objOf(ep, "bindDataBasedOnContentType"), EffReadBody, 0) {
		r.Unres("R09a", "effect summaries", "", "bindDataBasedOnContentType is not summarised as reading the request body")
	}
	for _, tgt := range []struct{ l, what string }{{"B", "a read of the request body"}, {"D", "the dispatch to the handler"}} {
		tgt := tgt
		found, tr := FindPath(lit.Body, lf, "0", func(s, l string) string {
			if l == "H" {
				return "checked"
			}
			if l == tgt.l && s == "0" {
				return "early"
			}
			return ""
		}, func(s string) bool { return s == "early" })
		pos := ""
		var det map[string]any
		if found {
			pos = ep.GenPos(tr[len(tr)-1])
			det = map[string]any{"path": traceLines(ep, tr)}
		}
		r.CheckD(!found, "R09a", "BindingMiddleware: validateHeaders precedes "+tgt.what, pos,
			"a path reaches "+tgt.what+" before the required headers were checked: the 400 for a missing header is not decided before the body is read", det)
	}
	okArm, why, p2 := binderFailureArm(ep, lit, "validateHeaders")
	r.Check(okArm, "R09a", "BindingMiddleware: failure of validateHeaders ends in writeErrorWithHandler + return", ep.GenPos(p2), why)

	// ---- R09b / R09c on validateHeaders
	vh := ep.Funcs["validateHeaders"]
	if vh == nil {
		r.Unres("R09b", "validateHeaders", "", "emitted function not found")
	} else {
		var loops []*ast.RangeStmt
		ast.Inspect(vh.Body, func(n ast.Node) bool {
			if rs, ok := n.(*ast.RangeStmt); ok {
				loops = append(loops, rs)
			}
			return true
		})
		// by role: a merge loop stores into a map; the validation loop constructs the violations. The validation loop
		// ranges over the merged map itself or over a slice of its keys that every merge loop appends to.
		var vloop *ast.RangeStmt
		var mergeLoops []*ast.RangeStmt
		storesIntoMap := func(l *ast.RangeStmt) bool {
			hit := false
			ast.Inspect(l.Body, func(n ast.Node) bool {
				if as, ok := n.(*ast.AssignStmt); ok {
					for _, lh := range as.Lhs {
						if ix, ok := lh.(*ast.IndexExpr); ok {
							if tv, ok := ep.Info.Types[ix.X]; ok {
								if _, isMap := tv.Type.Underlying().(*types.Map); isMap {
									hit = true
								}
							}
						}
					}
				}
				return true
			})
			return hit
		}
		buildsViolation := func(l *ast.RangeStmt) bool {
			hit := false
			ast.Inspect(l.Body, func(n ast.Node) bool {
				if x, ok := n.(*ast.CompositeLit); ok {
					if tv, ok := ep.Info.Types[x]; ok && typeIsNamed(tv.Type, "sebuf/http", "FieldViolation") {
						hit = true
					}
				}
				return true
			})
			return hit
		}
		for _, l := range loops {
			switch {
			case buildsViolation(l):
				vloop = l
			case storesIntoMap(l):
				mergeLoops = append(mergeLoops, l)
			}
		}
		c09MergeKeysFolded(c, ep, "R09n")
		specName := "headerSpec"
		if vloop != nil {
			if tv, ok := ep.Info.Types[vloop.X]; ok {
				if _, isMap := tv.Type.Underlying().(*types.Map); isMap {
					if id, ok := vloop.Value.(*ast.Ident); ok {
						specName = id.Name
					}
				} else {
					// range over a key slice: the spec is m[key]; every merge loop must append its key to that slice
					keyVar, _ := vloop.Value.(*ast.Ident)
					sliceObj := ep.Info.ObjectOf(rootIdentOf(vloop.X))
					okSpec := false
					ast.Inspect(vloop.Body, func(n ast.Node) bool {
						if as, ok := n.(*ast.AssignStmt); ok && len(as.Lhs) == 1 && len(as.Rhs) == 1 {
							if ix, ok := ast.Unparen(as.Rhs[0]).(*ast.IndexExpr); ok && keyVar != nil {
								if id, ok := ast.Unparen(ix.Index).(*ast.Ident); ok && ep.Info.ObjectOf(id) == ep.Info.ObjectOf(keyVar) {
									if l, ok := as.Lhs[0].(*ast.Ident); ok {
										specName = l.Name
										okSpec = true
									}
								}
							}
						}
						return true
					})
					r.Check(okSpec, "R09b", "validateHeaders: the validation loop over the key list reads each header from the merged map", ep.GenPos(vloop.Pos()),
						"the validation loop ranges over "+ep.Text(vloop.X)+" but does not look the header up in the merged map by that key")
					for _, ml := range mergeLoops {
						appends := false
						ast.Inspect(ml.Body, func(n ast.Node) bool {
							if as, ok := n.(*ast.AssignStmt); ok && len(as.Lhs) == 1 && len(as.Rhs) == 1 {
								if call, ok := ast.Unparen(as.Rhs[0]).(*ast.CallExpr); ok && types.ExprString(call.Fun) == "append" {
									if id := rootIdentOf(as.Lhs[0]); id != nil && ep.Info.ObjectOf(id) == sliceObj {
										appends = true
									}
								}
							}
							return true
						})
						r.Check(appends, "R09b", "validateHeaders: every merge loop adds its keys to the list the validation loop follows ("+ep.Text(ml.X)+")", ep.GenPos(ml.Pos()),
							"the merge loop over "+ep.Text(ml.X)+" stores headers into the map but not into "+ep.Text(vloop.X)+", the list the validation loop follows: required headers declared only there are never validated")
					}
				}
			}
		}
		if vloop == nil {
			r.Unres("R09b", "validation loop", ep.GenPos(vh.Pos()), "no loop that builds the header violations")
		} else {
			early := ""
			nAppend := 0
			fieldsOK := true
			ast.Inspect(vloop.Body, func(n ast.Node) bool {
				switch x := n.(type) {
				case *ast.ReturnStmt:
					early = "return"
				case *ast.BranchStmt:
					if x.Tok == token.BREAK {
						early = "break"
					}
				case *ast.CompositeLit:
					if tv, ok := ep.Info.Types[x]; ok && typeIsNamed(tv.Type, "sebuf/http", "FieldViolation") {
						nAppend++
						f := ""
						for _, el := range x.Elts {
							if kv, ok := el.(*ast.KeyValueExpr); ok {
								if id, ok := kv.Key.(*ast.Ident); ok && id.Name == "Field" {
									f = types.ExprString(kv.Value)
								}
							}
						}
						if f != specName+".GetName()" {
							// a local of the loop that holds the header's name (name := headerSpec.GetName())
							okAlias := false
							ast.Inspect(vloop.Body, func(m ast.Node) bool {
								if as, ok := m.(*ast.AssignStmt); ok && len(as.Lhs) == 1 && len(as.Rhs) == 1 {
									if types.ExprString(as.Lhs[0]) == f && types.ExprString(as.Rhs[0]) == specName+".GetName()" {
										okAlias = true
									}
								}
								return true
							})
							if !okAlias {
								fieldsOK = false
							}
						}
					}
				}
				return true
			})
			r.Check(early == "", "R09b", "validateHeaders: validation loop has no early exit", ep.GenPos(vloop.Pos()),
				"the loop over required headers stops at the first offending header ("+early+"): the response does not list one violation per offending header")
			r.Check(nAppend == 2, "R09b", "validateHeaders: one violation for a missing header, one for an invalid value", ep.GenPos(vloop.Pos()),
				fmt.Sprintf("expected exactly two violation constructions in the loop (missing / invalid), found %d", nAppend))
			r.Check(fieldsOK, "R09b", "validateHeaders: violations are named after the header", ep.GenPos(vloop.Pos()), "a header violation's Field is not headerSpec.GetName()")
			// the missing-header arm must `continue` (not also validate the empty value)
		}
		// R09c
		if len(mergeLoops) != 2 {
			r.Unres("R09c", "merge loops", ep.GenPos(vh.Pos()), fmt.Sprintf("expected two merge loops (service, method), found %d", len(mergeLoops)))
		} else {
			keyOf := func(l *ast.RangeStmt) (key string, guarded bool, src string) {
				src = types.ExprString(l.X)
				ast.Inspect(l.Body, func(n ast.Node) bool {
					if as, ok := n.(*ast.AssignStmt); ok && len(as.Lhs) == 1 {
						if ix, ok := as.Lhs[0].(*ast.IndexExpr); ok {
							key = types.ExprString(ix.Index)
							// enclosing if header.GetRequired()
						}
					}
					if ifs, ok := n.(*ast.IfStmt); ok && strings.HasSuffix(types.ExprString(ifs.Cond), ".GetRequired()") {
						guarded = true
					}
					return true
				})
				return
			}
			k1, g1, s1 := keyOf(mergeLoops[0])
			k2, g2, s2 := keyOf(mergeLoops[1])
			r.Check(s1 == "serviceHeaders" && s2 == "methodHeaders", "R09c", "validateHeaders: service headers are merged before method headers", ep.GenPos(mergeLoops[0].Pos()),
				"merge order is "+s1+" then "+s2+": a service-level declaration would replace the method-level one")
			r.Check(k1 == k2 && k1 != "", "R09c", "validateHeaders: both merges use the same key expression", ep.GenPos(mergeLoops[1].Pos()),
				"service and method headers are keyed differently ("+k1+" vs "+k2+"): an override would not replace the service declaration")
			r.Check(g1 && g2, "R09c", "validateHeaders: only required headers are checked", ep.GenPos(mergeLoops[0].Pos()), "a merge loop is not guarded by GetRequired()")
		}
	}

	// ---- R09d vocabulary table
	checkHeaderVocabulary(c, ep)

	// ---- R09e merge agreement
	combine := c.P.Func("internal/annotations", "CombineHeaders")
	for _, site := range []struct{ pkg, fn, what string }{
		{"internal/tsservergen", "Generator.generateRouteEntry", "TS server route header configs"},
		{"internal/openapiv3", "Generator.processMethod", "OpenAPI operation header parameters"},
	} {
		fn := c.P.Func(site.pkg, site.fn)
		if fn == nil || combine == nil {
			r.Unres("R09e", site.what, "", "function not found")
			continue
		}
		uses := false
		for _, f := range c.P.Reach(fn) {
			if f == combine {
				uses = true
			}
		}
		r.Check(uses, "R09e", site.what+" use annotations.CombineHeaders", c.P.Pos(c.P.Decls[fn].Pos()),
			"service-level and method-level header declarations are not merged with method-overrides-service: a method-level declaration of the same header with a laxer type does not replace the service one, so a request valid per the published (merged) parameter list is rejected")
	}

	// ---- R09f literal fidelity
	want := map[string]string{"Name": "GetName()", "Description": "GetDescription()", "Type": "GetType()", "Required": "GetRequired()", "Format": "GetFormat()", "Example": "GetExample()", "Deprecated": "GetDeprecated()"}
	got := map[string]string{}
	if ri := c.Root(pkgHTTP, "_http.pb.go"); ri == nil {
		r.Unres("R09f", "_http.pb.go", "", "unit not found")
	} else {
		ex := c.ExploreT(ri.Fn, 4000)
		for _, v := range ex.Variants {
			for _, u := range v.Units {
				for _, l := range u.Lines {
					if l.Fn == nil || l.Fn != c.P.Func(pkgHTTP, "Generator.generateHeaderLiteral") || len(l.Segs) < 2 || l.Segs[0].Hole != nil {
						continue
					}
					label := strings.TrimSpace(strings.SplitN(l.Segs[0].Const, ":", 2)[0])
					for _, sg := range l.Segs {
						if sg.Hole != nil {
							got[label] = sg.Hole.Key
						}
					}
				}
			}
		}
		var base string
		for _, k := range sortedKeys(want) {
			g, ok := got[k]
			okk := ok && strings.Contains(g, want[k])
			if okk {
				b := g[:strings.Index(g, "."+want[k])]
				b = strings.TrimPrefix(b, "strconv.FormatBool(")
				if base == "" {
					base = eraseIters(b)
				} else if eraseIters(b) != base {
					okk = false
				}
			}
			r.Check(okk, "R09f", "header literal field "+k+" comes from header."+want[k], "", fmt.Sprintf("emitted header literal field %s is filled from %q", k, g))
		}
	}
}

func checkHeaderVocabulary(c *Ctx, ep *EmittedPkg) {
	r := c.R
	vhv, vsh := ep.Funcs["validateHeaderValue"], ep.Funcs["validateStringHeader"]
	if vhv == nil || vsh == nil {
		r.Unres("R09d", "go validators", "", "validateHeaderValue/validateStringHeader not found in emitted runtime")
		return
	}
	goType, goTypeDef, ok1 := switchTable(ep, vhv, "headerType")
	goFmt, _, ok2 := switchTable(ep, vsh, "format")
	if !ok1 || !ok2 {
		r.Unres("R09d", "go validator tables", ep.GenPos(vhv.Pos()), "switch over headerType / format not found")
		return
	}
	// TS tables from the emitted server module
	ri := c.Root("internal/tsservergen", "_server.ts")
	if ri == nil {
		r.Unres("R09d", "ts server unit", "", "not found")
		return
	}
	ex := c.Explore(ri.Fn, 1, 6000)
	var tsLines []string
	for _, v := range ex.Variants {
		for _, u := range v.Units {
			has := false
			for _, l := range u.Lines {
				if l.Fn != nil && l.Fn == c.P.Func(pkgTSServer, "Generator.writeValidateHeaderValueFn") {
					has = true
					tsLines = append(tsLines, lineText(l.Segs))
				}
			}
			if has {
				break
			}
		}
		if len(tsLines) > 0 {
			break
		}
	}
	tsType, okT := tsSwitchLabels(tsLines, "config.type")
	tsFmt, okF := tsSwitchLabels(tsLines, "config.format")
	if !okT || !okF {
		r.Unres("R09d", "ts validator tables", "", "emitted TS validateHeaderValue has no switch over config.type / config.format")
		return
	}
	// TS applies the format switch regardless of type iff it is not nested in the type switch: check `if (config.format)` exists
	mapFn := c.P.Func("internal/openapiv3", "mapHeaderTypeToOpenAPI")
	convFn := c.P.Func("internal/openapiv3", "convertHeadersToParameters")
	if mapFn == nil || convFn == nil {
		r.Unres("R09d", "openapi header functions", "", "mapHeaderTypeToOpenAPI / convertHeadersToParameters not found")
		return
	}
	// domain
	tset := map[string]bool{"": true, "x-unknown-type": true, "STRING": true, "Integer": true}
	for k := range goType {
		tset[k] = true
	}
	for _, k := range tsType {
		tset[k] = true
	}
	// constants the OpenAPI mapper compares with
	{
		run := c.W.NewRun(nil, false)
		run.StartArgs(mapFn, nil)
		for _, d := range c.W.domains {
			for _, v := range d {
				if strings.HasPrefix(v, `"`) {
					tset[strings.Trim(v, `"`)] = true
				}
			}
		}
	}
	fset := map[string]bool{"": true, "x-unknown-format": true}
	for k := range goFmt {
		fset[k] = true
	}
	for _, k := range tsFmt {
		fset[k] = true
	}
	typesL, fmtsL := sortedKeys(tset), sortedKeys(fset)
	goTypeClass := func(t string) string {
		callees, ok := goType[t]
		if !ok {
			callees = goTypeDef
		}
		for _, cal := range callees {
			switch cal {
			case "validateIntegerHeader":
				return "integer"
			case "validateNumberHeader":
				return "number"
			case "validateBooleanHeader":
				return "boolean"
			case "validateArrayHeader":
				return "array"
			case "validateStringHeader":
				return "string"
			}
		}
		return "none"
	}
	inList := func(l []string, s string) bool {
		for _, x := range l {
			if x == s {
				return true
			}
		}
		return false
	}
	n := 0
	for _, t := range typesL {
		// published type
		run := c.W.NewRun(nil, false)
		run.InlineAll = true
		run.StartArgs(mapFn, map[string]Val{"headerType": constStr(t)})
		pub := ""
		if sv, ok := run.Result.(VStr); ok {
			pub, _ = sv.isConst()
		}
		if pub == "" {
			r.Undec("R09d", "published type for "+fmt.Sprintf("%q", t), "", "mapHeaderTypeToOpenAPI does not evaluate to a constant for this type")
			continue
		}
		gt := goTypeClass(t)
		tt := "string"
		if inList(tsType, t) {
			tt = t
		}
		n++
		key := fmt.Sprintf("type %q: published %s", t, pub)
		r.CheckD(gt == "string" || gt == pub, "R09d", key+" vs go-http", ep.GenPos(vhv.Pos()),
			fmt.Sprintf("the Go server validates a header declared with type %q as %s while the OpenAPI document publishes %s: a value valid per the published schema is rejected", t, gt, pub), map[string]any{"go": gt})
		r.CheckD(tt == "string" || tt == pub, "R09d", key+" vs ts-server", "",
			fmt.Sprintf("the TS server validates a header declared with type %q as %s while the OpenAPI document publishes %s", t, tt, pub), map[string]any{"ts": tt})
		for _, f := range fmtsL {
			if f == "" {
				continue
			}
			// is the format published for (t, f)?  walk convertHeadersToParameters with one header
			published := formatPublished(c, convFn, t, f)
			goEnf := gt == "string" && goFmt[f] != nil
			tsEnf := inList(tsFmt, f)
			k2 := fmt.Sprintf("type %q format %q", t, f)
			if goEnf {
				r.Check(published, "R09d", k2+": go-http enforces a published format", c.P.Pos(c.P.Decls[convFn].Pos()),
					fmt.Sprintf("the Go server enforces format %q for a header declared with type %q, but the OpenAPI parameter does not publish that format: a request that satisfies the published parameter list is rejected with 400", f, t))
			}
			if tsEnf {
				r.Check(published, "R09d", k2+": ts-server enforces a published format", c.P.Pos(c.P.Decls[convFn].Pos()),
					fmt.Sprintf("the TS server enforces format %q for a header declared with type %q, but the OpenAPI parameter does not publish that format", f, t))
			}
		}
	}
	r.Count("header_type_labels", len(typesL))
	r.Count("header_format_labels", len(fmtsL))
	_ = sort.Strings
}

// formatPublished walks convertHeadersToParameters for one header with the
// given declared type and format and reports whether schema.Format is assigned
// on every path that emits the parameter.
func formatPublished(c *Ctx, conv *types.Func, t, f string) bool {
	fix := func(dk, cr string) (int, bool) {
		switch {
		case strings.HasPrefix(dk, "n:headers"):
			return 1, true
		case strings.HasSuffix(dk, ".GetName())") && strings.HasPrefix(dk, "b:isempty("):
			return 0, true
		case strings.HasSuffix(dk, ".GetFormat())") && strings.HasPrefix(dk, "b:isempty("):
			return 0, true
		case strings.HasPrefix(dk, "v:") && strings.HasSuffix(dk, ".GetType()"):
			if cr == fmt.Sprintf("%q", t) {
				return 1, true
			}
			return 0, true
		case strings.HasPrefix(dk, "b:isempty(") && strings.HasSuffix(dk, ".GetType())"):
			if t == "" {
				return 1, true
			}
			return 0, true
		case strings.HasPrefix(dk, "v:") && strings.HasSuffix(dk, ".GetFormat()"):
			if cr == fmt.Sprintf("%q", f) {
				return 1, true
			}
			return 0, true
		case strings.Contains(dk, "strings.EqualFold(") || strings.Contains(dk, "strings.ToLower("):
			// comparisons on the declared type through case folding: decide concretely
			if strings.HasPrefix(dk, "v:") {
				if strings.Trim(cr, `"`) == strings.ToLower(t) {
					return 1, true
				}
				return 0, true
			}
			if m := regexp.MustCompile(`strings\.EqualFold\([^,]*GetType\(\),"([^"]*)"\)`).FindStringSubmatch(dk); m != nil {
				if strings.EqualFold(t, m[1]) {
					return 1, true
				}
				return 0, true
			}
		}
		return 0, false
	}
	// the format given in the schema literal itself (Format: header.GetFormat()) is published on every path
	if decl := c.P.Decls[conv]; decl != nil && decl.Body != nil {
		info := c.P.DeclPkg[conv].TypesInfo
		inLiteral := false
		ast.Inspect(decl.Body, func(n ast.Node) bool {
			lit, ok := n.(*ast.CompositeLit)
			if !ok {
				return true
			}
			if tv, ok := info.Types[lit]; !ok || !typeIsNamed(tv.Type, "datamodel/high/base", "Schema") {
				return true
			}
			for _, el := range lit.Elts {
				if kv, ok := el.(*ast.KeyValueExpr); ok && types.ExprString(kv.Key) == "Format" && strings.HasSuffix(types.ExprString(kv.Value), ".GetFormat()") {
					inLiteral = true
				}
			}
			return true
		})
		if inLiteral {
			return true
		}
	}
	outs, _, _ := c.W.EvalAll(conv, fix, true, 64)
	if len(outs) == 0 {
		return false
	}
	for _, o := range outs {
		assigned := false
		r := o
		_ = r
		for _, a := range o.assigned {
			if a.Sel == "Format" {
				assigned = true
			}
		}
		if !assigned {
			return false
		}
	}
	return true
}

// ---- concrete header scenarios (interpreted, not executed)

func cHeader(name, typ, format string, required bool) *VStruct {
	return cstruct("Header", map[string]Val{"GetName()": constStr(name), "GetType()": constStr(typ), "GetFormat()": constStr(format), "GetRequired()": VBool{B: required},
		"GetDescription()": constStr(""), "GetExample()": constStr(""), "GetDeprecated()": VBool{}, "Required": VBool{B: required}})
}

func c09HeaderScenarios(c *Ctx) {
	r := c.R
	r.Rule("R09g", "the Go server's header getters list every declared header, also when a method header repeats a service header's name", 2)
	r.Rule("R09h", "the TS server's per-route header configuration carries the declared format whatever the declared type is", 6)
	c.W.Concrete = true
	defer func() { c.W.Concrete = false }()
	// R09g
	if fn := c.P.Func(pkgHTTP, "Generator.generateHeaderGetters"); fn != nil {
		in, out := cMessage("Req"), cMessage("Resp")
		m1 := cMethod("GetItem", in, out, map[string]Val{"@GetMethodHeaders": VList{Key: "mh", Elems: []Val{cHeader("X-Request-ID", "string", "uuid", true), cHeader("X-Zq-Extra", "string", "", true)}}})
		m2 := cMethod("ListItems", in, out, map[string]Val{"@GetMethodHeaders": VList{Key: "mh2", Elems: []Val{}}})
		svc := cService("Items", m1, m2)
		svc.Fields["@GetServiceHeaders"] = VList{Key: "sh", Elems: []Val{cHeader("x-request-id", "integer", "", true)}}
		run := c.W.NewRun(map[string]int{}, false)
		run.InlineAll, run.FollowSlices = true, true
		run.CallHook = c.cdescHook
		run.Units = []*Unit{{}}
		run.StartArgs(fn, map[string]Val{"service": svc})
		pos := c.P.Pos(c.P.Decls[fn].Pos())
		if len(run.Used) > 0 {
			r.Undec("R09g", "header getters on a concrete service", pos, fmt.Sprintf("open decisions %v", usedKeys(run)))
		} else {
			text := ""
			for _, u := range run.Units {
				for _, l := range u.Lines {
					text += lineText(l.Segs) + "\n"
				}
			}
			// the body of getGetItemHeaders
			body := ""
			if i := strings.Index(text, "func getGetItemHeaders()"); i >= 0 {
				body = text[i:]
				if j := strings.Index(body, "\n}\n"); j >= 0 {
					body = body[:j]
				}
			}
			has := func(n string) bool { return strings.Contains(body, `Name: "`+n+`"`) }
			r.Check(has("X-Request-ID") && has("X-Zq-Extra"), "R09g", "method headers are all emitted (one repeats a service header's name in another case, with another type)", pos,
				fmt.Sprintf("service header x-request-id (integer) and method headers X-Request-ID (string, uuid), X-Zq-Extra: get<Method>Headers() lists X-Request-ID=%v X-Zq-Extra=%v — a method header that is not emitted cannot override the service header, so the route validates against the service-level type and format", has("X-Request-ID"), has("X-Zq-Extra")))
			r.Check(strings.Contains(text, "func getListItemsHeaders()") && strings.Contains(text, `Name: "x-request-id"`), "R09g", "service headers and a getter for every method are emitted", pos,
				"the getter of a method without headers or the service header literal is missing")
		}
	} else {
		r.Unres("R09g", "generateHeaderGetters", "", "not found")
	}
	// R09h
	if fn := c.P.Func(pkgTSServer, "Generator.generateHeaderValidation"); fn != nil {
		pos := c.P.Pos(c.P.Decls[fn].Pos())
		for _, typ := range []string{"", "string", "String", "integer", "number", "boolean"} {
			run := c.W.NewRun(map[string]int{}, false)
			run.InlineAll, run.FollowSlices, run.AmbientPrinter = true, true, true
			run.CallHook = c.cdescHook
			shl := VList{Key: "sh", Elems: []Val{cHeader("X-Trace-ID", typ, "uuid", true)}}
			mhl := VList{Key: "mh", Elems: []Val{}}
			// the header lists reach the emitter as parameters or are fetched by it from the service and the method
			run.Inject = map[string]Val{}
			for _, f := range c.P.Decls[fn].Type.Params.List {
				t := c.P.DeclPkg[fn].TypesInfo.TypeOf(f.Type)
				for _, nm := range f.Names {
					switch {
					case t != nil && typeIsNamed(t, "compiler/protogen", "Service"):
						run.Inject["annotations.GetServiceHeaders("+nm.Name+")"] = shl
					case t != nil && typeIsNamed(t, "compiler/protogen", "Method"):
						run.Inject["annotations.GetMethodHeaders("+nm.Name+")"] = mhl
					}
				}
			}
			run.StartArgs(fn, map[string]Val{"serviceHeaders": shl, "methodHeaders": mhl})
			key := fmt.Sprintf("declared type %q with format uuid", typ)
			if len(run.Used) > 0 {
				r.Undec("R09h", key, pos, fmt.Sprintf("open decisions %v", usedKeys(run)))
				continue
			}
			line := ""
			for _, u := range run.Units {
				for _, l := range u.Lines {
					if t := lineText(l.Segs); strings.Contains(t, `name: "X-Trace-ID"`) {
						line = t
					}
				}
			}
			r.Check(strings.Contains(line, `format: "uuid"`), "R09h", key, pos,
				fmt.Sprintf("for a header declared with type %q and format uuid the TS route configuration is %q: the format is not handed to validateHeaders, so a malformed value is dispatched although the Go server (which treats this type as a string) and the OpenAPI parameter reject it", typ, strings.TrimSpace(line)))
		}
	} else {
		r.Unres("R09h", "generateHeaderValidation", "", "not found")
	}
}

// c09UTF8First: R09j — in the emitted validateStringHeader every path that can accept the value has tested
// utf8.ValidString: the format validators (uuid, email, date-time …) look at shape only.
func c09UTF8First(c *Ctx, ep *EmittedPkg) {
	r := c.R
	r.Rule("R09j", "string header values are tested for valid UTF-8 on every accepting path, whatever the declared format", 1)
	fd := ep.Funcs["validateStringHeader"]
	if fd == nil {
		r.Unres("R09j", "validateStringHeader", "", "emitted function not found")
		return
	}
	var sites []token.Pos
	ast.Inspect(fd.Body, func(n ast.Node) bool {
		if call, ok := n.(*ast.CallExpr); ok {
			if cal := ep.CalleeOf(call); cal != nil && cal.Pkg() != nil && cal.Pkg().Path() == "unicode/utf8" && (cal.Name() == "ValidString" || cal.Name() == "Valid") {
				sites = append(sites, call.Pos())
			}
		}
		return true
	})
	if len(sites) == 0 {
		r.Bad("R09j", "validateStringHeader tests utf8.ValidString", ep.GenPos(fd.Pos()), "the string header validator never tests the value for valid UTF-8", nil)
		return
	}
	ok, esc := mustPass(ep.Info, fd.Body, sites)
	pos := ep.GenPos(fd.Pos())
	if !ok {
		pos = ep.GenPos(esc)
	}
	r.Check(ok, "R09j", "validateStringHeader: utf8.ValidString precedes every accepting return", pos,
		"validateStringHeader can accept a value (directly or through a format validator that only looks at the shape) without having tested it for valid UTF-8: a required header with a declared format and a non-UTF-8 value of the right shape is dispatched instead of being answered with 400")
}

// c09StatelessRegex: R09k — regular-expression literals of the emitted TypeScript server (module-level constants
// shared by every request) carry neither the g nor the y flag: with either, RegExp.prototype.test keeps lastIndex
// between calls and an anchored pattern alternately accepts and rejects the same well-formed value.
func c09StatelessRegex(c *Ctx, rid string) {
	r := c.R
	sl, spos := c.unitLines(pkgTSServer, "_server.ts")
	cl, _ := c.unitLines(pkgTSClient, "_client.ts")
	if sl == nil {
		r.Unres(rid, "TS server unit", "", "not found")
		return
	}
	re := regexp.MustCompile(`= /(?:[^/\\\n]|\\.)+/([a-z]*);`)
	n := 0
	var bad []string
	for _, l := range append(sl, cl...) {
		t := lineText(l.Segs)
		for _, m := range re.FindAllStringSubmatch(t, -1) {
			n++
			if strings.ContainsAny(m[1], "gy") {
				bad = append(bad, strings.TrimSpace(holeFree(t)))
				spos = c.P.Pos(l.Pos)
			}
		}
	}
	r.Check(n >= 3 && len(bad) == 0, rid, "regular expressions of the emitted TS modules are stateless (no g / y flag)", spos,
		fmt.Sprintf("%d of %d regular-expression constants carry the g or y flag (%s): .test() on a shared global regex remembers lastIndex, so every second well-formed header value (or the second header of that format in one request) is rejected with 400 although it matches what the OpenAPI document publishes", len(bad), n, firstOf(bad)))
}

// c09ViolationText: R09l — the description of a header violation is built from the header's declared name and the
// validator's error only: the raw header value is arbitrary bytes, and a proto3 string field that is not valid UTF-8
// makes the marshalling of the 400 body fail (the client then gets a bare text error without any violation).
func c09ViolationText(c *Ctx, ep *EmittedPkg, rid string) {
	r := c.R
	fd := ep.Funcs["validateHeaders"]
	if fd == nil {
		r.Unres(rid, "validateHeaders", "", "emitted function not found")
		return
	}
	// variables holding raw header values: results of <x>.Header.Get(…) / Values(…)
	raw := map[types.Object]bool{}
	ast.Inspect(fd.Body, func(n ast.Node) bool {
		as, ok := n.(*ast.AssignStmt)
		if !ok || len(as.Rhs) != 1 {
			return true
		}
		call, ok := as.Rhs[0].(*ast.CallExpr)
		if !ok {
			return true
		}
		if cal := ep.CalleeOf(call); cal != nil && cal.Pkg() != nil && (cal.Pkg().Path() == "net/http" || cal.Pkg().Path() == "net/textproto") && (cal.Name() == "Get" || cal.Name() == "Values") {
			for _, l := range as.Lhs {
				if id, ok := l.(*ast.Ident); ok {
					raw[ep.Info.ObjectOf(id)] = true
				}
			}
		}
		return true
	})
	n := 0
	bad := ""
	var bpos token.Pos
	ast.Inspect(fd.Body, func(nd ast.Node) bool {
		kv, ok := nd.(*ast.KeyValueExpr)
		if !ok || types.ExprString(kv.Key) != "Description" {
			return true
		}
		n++
		call, ok := ast.Unparen(kv.Value).(*ast.CallExpr)
		if !ok {
			return true
		}
		format := ""
		if len(call.Args) > 0 {
			if tv, ok := ep.Info.Types[call.Args[0]]; ok && tv.Value != nil {
				format = tv.Value.ExactString()
			}
		}
		// verbs in order; an argument that is a raw header value is admitted under %q only
		verbs := regexp.MustCompile(`%[-+# 0-9.]*[a-zA-Z]`).FindAllString(format, -1)
		for i, a := range call.Args[1:] {
			id, ok := ast.Unparen(a).(*ast.Ident)
			if !ok || !raw[ep.Info.ObjectOf(id)] {
				continue
			}
			verb := ""
			if i < len(verbs) {
				verb = verbs[i]
			}
			if !strings.HasSuffix(verb, "q") {
				bad = fmt.Sprintf("%s printed with %q", id.Name, verb)
				bpos = call.Pos()
			}
		}
		return true
	})
	// the validator's error is part of the description: follow the raw value into the emitted validators (parameters that
	// receive it, transitively) and apply the same test to every formatted error they build
	tainted := map[types.Object]bool{}
	for o := range raw {
		tainted[o] = true
	}
	vbad := ""
	var vpos token.Pos
	nFormatted := 0
	for round := 0; round < 6; round++ {
		grew := false
		for _, efd := range ep.Funcs {
			if efd.Body == nil {
				continue
			}
			ast.Inspect(efd.Body, func(nd ast.Node) bool {
				call, ok := nd.(*ast.CallExpr)
				if !ok {
					return true
				}
				cal := ep.CalleeOf(call)
				if cal == nil {
					return true
				}
				if cal.Pkg() == ep.Pkg {
					cd := ep.Funcs[ep.RecName(cal)]
					if cd == nil || cd.Type.Params == nil {
						return true
					}
					var params []*ast.Ident
					for _, f := range cd.Type.Params.List {
						params = append(params, f.Names...)
					}
					for i, a := range call.Args {
						if id, ok := ast.Unparen(a).(*ast.Ident); ok && tainted[ep.Info.ObjectOf(id)] && i < len(params) {
							if po := ep.Info.ObjectOf(params[i]); po != nil && !tainted[po] {
								tainted[po] = true
								grew = true
							}
						}
					}
				}
				return true
			})
		}
		if !grew {
			break
		}
	}
	for _, efd := range ep.Funcs {
		if efd.Body == nil {
			continue
		}
		ast.Inspect(efd.Body, func(nd ast.Node) bool {
			call, ok := nd.(*ast.CallExpr)
			if !ok || len(call.Args) < 2 {
				return true
			}
			cal := ep.CalleeOf(call)
			if cal == nil || cal.Pkg() == nil || cal.Pkg().Path() != "fmt" || !(cal.Name() == "Errorf" || cal.Name() == "Sprintf") {
				return true
			}
			format := ""
			if tv, ok := ep.Info.Types[call.Args[0]]; ok && tv.Value != nil {
				format = tv.Value.ExactString()
			}
			verbs := regexp.MustCompile(`%[-+# 0-9.]*[a-zA-Z]`).FindAllString(format, -1)
			for i, a := range call.Args[1:] {
				id, ok := ast.Unparen(a).(*ast.Ident)
				if !ok || !tainted[ep.Info.ObjectOf(id)] {
					continue
				}
				nFormatted++
				verb := ""
				if i < len(verbs) {
					verb = verbs[i]
				}
				if !strings.HasSuffix(verb, "q") && vbad == "" {
					vbad = fmt.Sprintf("%s: %s printed with %q", efd.Name.Name, id.Name, verb)
					vpos = call.Pos()
				}
			}
			return true
		})
	}
	vp := ep.GenPos(fd.Pos())
	if vbad != "" {
		vp = ep.GenPos(vpos)
	}
	r.CheckD(vbad == "", rid, "errors built by the emitted header validators do not embed the raw header value (only under %q)", vp,
		"an emitted header validator formats the raw header value into its error ("+vbad+"), and validateHeaders copies that error into FieldViolation.Description: a value that is not valid UTF-8 makes the marshalling of the ValidationError fail, and the client gets a bare text 400 without the violation list", map[string]any{"tainted_values": len(tainted), "formatted_uses": nFormatted})
	pos := ep.GenPos(fd.Pos())
	if bad != "" {
		pos = ep.GenPos(bpos)
	}
	r.Check(n > 0 && bad == "", rid, "header violation descriptions do not embed the raw header value", pos,
		"validateHeaders puts the raw header value into FieldViolation.Description ("+bad+"): header values are arbitrary bytes; a value that is not valid UTF-8 makes protojson/proto.Marshal of the ValidationError fail, and the response degrades to a bare text 400 without any violation (also for the other offending headers of the request)")
}

// caseFolded: does the expression (through local definitions in body, three deep, and through helper functions whose
// every return is folded) pass through a case-normalising call? helper resolves a call to the helper's declaration.
func caseFolded(info *types.Info, body ast.Node, e ast.Expr, depth int, helper ...func(*ast.CallExpr) (*ast.FuncDecl, *types.Info)) bool {
	foldFns := map[string]bool{"strings.ToLower": true, "strings.ToUpper": true, "net/http.CanonicalHeaderKey": true, "net/textproto.CanonicalMIMEHeaderKey": true}
	hit := false
	ast.Inspect(e, func(n ast.Node) bool {
		switch x := n.(type) {
		case *ast.CallExpr:
			if sel, ok := x.Fun.(*ast.SelectorExpr); ok {
				if f, ok := info.Uses[sel.Sel].(*types.Func); ok && foldFns[f.FullName()] {
					hit = true
				}
			}
			if !hit && depth < 3 && len(helper) > 0 && helper[0] != nil {
				if fd, hinfo := helper[0](x); fd != nil && fd.Body != nil {
					nRet, all := 0, true
					ast.Inspect(fd.Body, func(m ast.Node) bool {
						if _, isLit := m.(*ast.FuncLit); isLit {
							return false
						}
						if ret, ok := m.(*ast.ReturnStmt); ok && len(ret.Results) == 1 {
							nRet++
							if !caseFolded(hinfo, fd.Body, ret.Results[0], depth+1, helper...) {
								all = false
							}
						}
						return true
					})
					if nRet > 0 && all {
						hit = true
					}
				}
			}
		case *ast.Ident:
			if depth < 3 {
				obj := info.ObjectOf(x)
				if _, isVar := obj.(*types.Var); !isVar {
					return true
				}
				ast.Inspect(body, func(m ast.Node) bool {
					if as, ok := m.(*ast.AssignStmt); ok && len(as.Lhs) == len(as.Rhs) {
						for i, lh := range as.Lhs {
							if id, ok := lh.(*ast.Ident); ok && info.ObjectOf(id) == obj && caseFolded(info, body, as.Rhs[i], depth+1, helper...) {
								hit = true
							}
						}
					}
					return true
				})
			}
		}
		return !hit
	})
	return hit
}

// c09CombineKeys — R09o. annotations.CombineHeaders decides "the same header" for the OpenAPI parameter list and the TS
// route; every index into its name-keyed map (store and lookup) must use a case-folded name, as the Go server's merge does.
func c09CombineKeys(c *Ctx, rid string) {
	r := c.R
	fn := c.P.Func("internal/annotations", "CombineHeaders")
	if fn == nil {
		r.Unres(rid, "CombineHeaders", "", "not found")
		return
	}
	n := 0
	// CombineHeaders and the functions of its package it hands the map to
	fns := []*types.Func{fn}
	for _, f := range c.P.Reach(fn) {
		if f != fn && f.Pkg() == fn.Pkg() && c.P.Decls[f] != nil {
			fns = append(fns, f)
		}
	}
	for _, f := range fns {
		decl := c.P.Decls[f]
		if decl == nil || decl.Body == nil {
			continue
		}
		info := c.P.DeclPkg[f].TypesInfo
		ast.Inspect(decl.Body, func(nd ast.Node) bool {
			ix, ok := nd.(*ast.IndexExpr)
			if !ok {
				return true
			}
			tv, ok := info.Types[ix.X]
			if !ok || tv.Type == nil {
				return true
			}
			mt, isMap := tv.Type.Underlying().(*types.Map)
			if !isMap || !isStringType(mt.Key()) {
				return true
			}
			if pt, ok := mt.Elem().(*types.Pointer); !ok || !typeIsNamed(pt.Elem(), "sebuf/http", "Header") {
				return true
			}
			n++
			r.Check(caseFolded(info, decl.Body, ix.Index, 0, func(call *ast.CallExpr) (*ast.FuncDecl, *types.Info) {
				if cal := Callee(info, call); cal != nil && c.P.Decls[cal] != nil {
					return c.P.Decls[cal], c.P.DeclPkg[cal].TypesInfo
				}
				return nil, nil
			}), rid, fmt.Sprintf("%s: %s is indexed by a case-folded name (index site %d)", f.Name(), types.ExprString(ix.X), n), c.P.Pos(ix.Pos()),
				f.Name()+" indexes "+types.ExprString(ix)+" by the declared spelling: a method-level header spelled in another letter case does not replace the service-level one, the operation publishes two parameters for one (case-insensitive) header and the generated servers disagree with the document about which declaration is in force")
			return true
		})
	}
	decl := c.P.Decls[fn]
	if n == 0 {
		r.Unres(rid, "CombineHeaders name-keyed map", c.P.Pos(decl.Pos()), "no map indexed by header name found: the merge by name changed shape")
	}
}

func isStringType(t types.Type) bool {
	b, ok := t.Underlying().(*types.Basic)
	return ok && b.Info()&types.IsString != 0
}

// outerAddrStoredInLoop — R09p. In the OpenAPI generator: the address of a local variable that is declared outside a loop,
// re-assigned inside it and stored (composite literal field, assignment, append) once per iteration is one pointer shared by
// every element built by the loop: all of them read the value of the last iteration (e.g. Parameter.Required of every header).
func outerAddrStoredInLoop(c *Ctx, rid string, rels ...string) {
	r := c.R
	nAddr, nBad, nOther := 0, 0, 0
	for _, rel := range rels {
		pk := c.P.Pkg(rel)
		if pk == nil {
			r.Unres(rid, rel, "", "package not loaded")
			continue
		}
		info := pk.TypesInfo
		for _, nf := range sortedFuncNames(c.oaDecls(rel)) {
			decl := c.oaDecls(rel)[nf.fn]
			if decl == nil || decl.Body == nil {
				continue
			}
			parents := parentMap(decl.Body)
			ast.Inspect(decl.Body, func(nd ast.Node) bool {
				ue, ok := nd.(*ast.UnaryExpr)
				if !ok || ue.Op != token.AND {
					return true
				}
				id, ok := ast.Unparen(ue.X).(*ast.Ident)
				if !ok {
					if _, isSel := ast.Unparen(ue.X).(*ast.SelectorExpr); isSel {
						nOther++
					}
					return true
				}
				v, ok := info.ObjectOf(id).(*types.Var)
				if !ok || v.Pkg() == nil || v.Parent() == v.Pkg().Scope() {
					return true
				}
				// stored, not just lent to a call?
				stored := false
				switch p := parents[ast.Node(ue)].(type) {
				case *ast.KeyValueExpr:
					stored = p.Value == ast.Expr(ue)
				case *ast.CompositeLit:
					stored = true
				case *ast.AssignStmt:
					for _, rh := range p.Rhs {
						if rh == ast.Expr(ue) {
							stored = true
						}
					}
				case *ast.CallExpr:
					if fid, ok := p.Fun.(*ast.Ident); ok && fid.Name == "append" {
						stored = true
					}
				}
				if !stored {
					return true
				}
				// innermost enclosing loop whose body does not contain v's declaration
				var loop ast.Node
				var body *ast.BlockStmt
				for p := parents[ast.Node(ue)]; p != nil; p = parents[p] {
					switch l := p.(type) {
					case *ast.RangeStmt:
						loop, body = l, l.Body
					case *ast.ForStmt:
						loop, body = l, l.Body
					default:
						continue
					}
					break
				}
				if loop == nil {
					return true
				}
				nAddr++
				if v.Pos() >= loop.Pos() && v.Pos() < loop.End() {
					return true // the loop's own per-iteration variable, or declared in the body
				}
				assignedInLoop := false
				ast.Inspect(body, func(m ast.Node) bool {
					if as, ok := m.(*ast.AssignStmt); ok {
						for _, lh := range as.Lhs {
							if li, ok := ast.Unparen(lh).(*ast.Ident); ok && info.ObjectOf(li) == types.Object(v) {
								assignedInLoop = true
							}
						}
					}
					return true
				})
				if assignedInLoop {
					nBad++
					r.Bad(rid, fmt.Sprintf("%s.%s: &%s stored per iteration", pkgShort(rel), nf.name, id.Name), c.P.Pos(ue.Pos()),
						fmt.Sprintf("%s stores &%s once per iteration of the loop at %s, but %s is declared outside the loop and re-assigned inside it: every element shares one pointer and reads the value of the last iteration (for header parameters: the `required` flag of the last header is published for all of them, so a required header is published as optional while the servers still enforce it)", nf.name, id.Name, c.P.Pos(loop.Pos()), id.Name), nil)
				}
				return true
			})
		}
	}
	r.OKd(rid, "addresses of locals stored inside loops inspected", "", map[string]any{"stored_addresses_of_locals_in_loops": nAddr, "addresses_of_fields_seen": nOther, "shared_across_iterations": nBad})
}

// c09MergeKeysFolded — R09n / R10m. In the emitted validateHeaders, the loops that merge the service-level and the
// method-level headers into one map: every index into that map — the store and the "already seen" lookup that decides
// whether the name is appended to the order list — uses a case-folded name (through locals and helper functions).
func c09MergeKeysFolded(c *Ctx, ep *EmittedPkg, rid string) {
	r := c.R
	vh := ep.Funcs["validateHeaders"]
	if vh == nil {
		r.Unres(rid, "validateHeaders", "", "emitted function not found")
		return
	}
	isStringMap := func(e ast.Expr) bool {
		tv, ok := ep.Info.Types[e]
		if !ok || tv.Type == nil {
			return false
		}
		mt, ok := tv.Type.Underlying().(*types.Map)
		return ok && isStringType(mt.Key())
	}
	var mergeLoops []*ast.RangeStmt
	ast.Inspect(vh.Body, func(n ast.Node) bool {
		rs, ok := n.(*ast.RangeStmt)
		if !ok {
			return true
		}
		stores := false
		ast.Inspect(rs.Body, func(m ast.Node) bool {
			if as, ok := m.(*ast.AssignStmt); ok {
				for _, lh := range as.Lhs {
					if ix, ok := lh.(*ast.IndexExpr); ok && isStringMap(ix.X) {
						stores = true
					}
				}
			}
			return true
		})
		if stores {
			mergeLoops = append(mergeLoops, rs)
		}
		return true
	})
	if len(mergeLoops) < 2 {
		r.Unres(rid, "validateHeaders merge loops", ep.GenPos(vh.Pos()), fmt.Sprintf("expected the service-level and the method-level merge loop, found %d", len(mergeLoops)))
		return
	}
	helper := func(call *ast.CallExpr) (*ast.FuncDecl, *types.Info) {
		if cal := ep.CalleeOf(call); cal != nil {
			return ep.Funcs[ep.RecName(cal)], ep.Info
		}
		return nil, nil
	}
	for _, ml := range mergeLoops {
		ml := ml
		site := 0
		stores := map[*ast.IndexExpr]bool{}
		ast.Inspect(ml.Body, func(n ast.Node) bool {
			if as, ok := n.(*ast.AssignStmt); ok {
				for _, lh := range as.Lhs {
					if ix, ok := lh.(*ast.IndexExpr); ok {
						stores[ix] = true
					}
				}
			}
			return true
		})
		ast.Inspect(ml.Body, func(n ast.Node) bool {
			ix, ok := n.(*ast.IndexExpr)
			if !ok || !isStringMap(ix.X) {
				return true
			}
			site++
			role := "lookup"
			if stores[ix] {
				role = "store"
			}
			r.Check(caseFolded(ep.Info, ml.Body, ix.Index, 0, helper), rid, fmt.Sprintf("validateHeaders: merge over %s: %s %d into %s uses a case-folded name", ep.Text(ml.X), role, site, ep.Text(ix.X)), ep.GenPos(ix.Pos()),
				"the merge indexes "+ep.Text(ix)+" by a name that keeps the declared letter case: a method-level declaration spelled in another case does not replace the service-level one, and a lookup by the raw name never finds the folded key — the header is listed (and its violation reported) twice")
			return true
		})
	}
}
