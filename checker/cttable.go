package main

// cttable.go — content-type dispatch tables of emitted Go code (server runtime
// and client helpers): which codec each content-type string selects.

import (
	"go/ast"
	"go/parser"
	"go/token"
	"go/types"
	"sort"
	"strconv"
	"strings"
)

type ctArm struct {
	Labels []string // resolved content-type strings; nil = default
	Codec  string   // json | binary | mixed | none
	Sets   []string // string constants assigned in the arm (response content type)
}

type ctTable struct {
	Tag string // text of the expression the table dispatches on
	Fn   string
	Arms []ctArm
	Pos  token.Pos
}

// constStrings collects top-level string constants of parsed files.
func constStrings(files ...*ast.File) map[string]string {
	out := map[string]string{}
	for _, f := range files {
		for _, d := range f.Decls {
			gd, ok := d.(*ast.GenDecl)
			if !ok || gd.Tok != token.CONST {
				continue
			}
			for _, sp := range gd.Specs {
				vs := sp.(*ast.ValueSpec)
				for i, n := range vs.Names {
					if i < len(vs.Values) {
						if bl, ok := vs.Values[i].(*ast.BasicLit); ok && bl.Kind == token.STRING {
							s, _ := strconv.Unquote(bl.Value)
							out[n.Name] = s
						}
					}
				}
			}
		}
	}
	return out
}

func codecOf(n ast.Node) string {
	json, bin := false, false
	ast.Inspect(n, func(m ast.Node) bool {
		if call, ok := m.(*ast.CallExpr); ok {
			s := types.ExprString(call.Fun)
			switch {
			case strings.HasPrefix(s, "protojson."), strings.HasSuffix(s, ".MarshalJSON"), strings.HasSuffix(s, ".UnmarshalJSON"),
				s == "bindDataFromJSONRequest":
				json = true
			case s == "proto.Marshal", s == "proto.Unmarshal", s == "bindDataFromBinaryRequest":
				bin = true
			case strings.HasPrefix(s, "proto.MarshalOptions{") || strings.HasPrefix(s, "proto.UnmarshalOptions{") || strings.HasPrefix(s, "(proto.MarshalOptions{") || strings.HasPrefix(s, "(proto.UnmarshalOptions{"):
				// proto.MarshalOptions{…}.Marshal / MarshalAppend, proto.UnmarshalOptions{…}.Unmarshal: the binary wire codec
				bin = true
			}
		}
		return true
	})
	switch {
	case json && bin:
		return "mixed"
	case json:
		return "json"
	case bin:
		return "binary"
	}
	return "none"
}

// extractCTTable finds the switch over the content type in fd.
func extractCTTable(fd *ast.FuncDecl, consts map[string]string) *ctTable {
	var t *ctTable
	ast.Inspect(fd.Body, func(n ast.Node) bool {
		sw, ok := n.(*ast.SwitchStmt)
		if !ok || sw.Tag == nil || t != nil {
			return true
		}
		tag := types.ExprString(sw.Tag)
		if !strings.Contains(strings.ToLower(tag), "contenttype") {
			return true
		}
		t = &ctTable{Fn: fd.Name.Name, Pos: sw.Pos(), Tag: tag}
		for _, st := range sw.Body.List {
			cc := st.(*ast.CaseClause)
			arm := ctArm{Codec: codecOf(&ast.BlockStmt{List: cc.Body})}
			for _, e := range cc.List {
				switch x := ast.Unparen(e).(type) {
				case *ast.Ident:
					if v, ok := consts[x.Name]; ok {
						arm.Labels = append(arm.Labels, v)
					} else {
						arm.Labels = append(arm.Labels, "?"+x.Name)
					}
				case *ast.BasicLit:
					s, _ := strconv.Unquote(x.Value)
					arm.Labels = append(arm.Labels, s)
				default:
					arm.Labels = append(arm.Labels, "?"+types.ExprString(e))
				}
			}
			sort.Strings(arm.Labels)
			ast.Inspect(&ast.BlockStmt{List: cc.Body}, func(m ast.Node) bool {
				if as, ok := m.(*ast.AssignStmt); ok {
					for _, rh := range as.Rhs {
						if bl, ok := rh.(*ast.BasicLit); ok && bl.Kind == token.STRING {
							s, _ := strconv.Unquote(bl.Value)
							arm.Sets = append(arm.Sets, s)
						}
					}
				}
				return true
			})
			t.Arms = append(t.Arms, arm)
		}
		return false
	})
	if t == nil {
		t = extractCTIfChain(fd, consts)
	}
	return t
}

// extractCTIfChain: the same table spelled as a chain of `if <content type> == A || <content type> == B { … }`
// statements (else-if arms included) at the top of a block; what follows the chain in that block is the default arm.
func extractCTIfChain(fd *ast.FuncDecl, consts map[string]string) *ctTable {
	var t *ctTable
	label := func(e ast.Expr) string {
		switch x := ast.Unparen(e).(type) {
		case *ast.Ident:
			if v, ok := consts[x.Name]; ok {
				return v
			}
			return "?" + x.Name
		case *ast.BasicLit:
			s, _ := strconv.Unquote(x.Value)
			return s
		}
		return "?" + types.ExprString(e)
	}
	// labels of a disjunction of equality tests on one content-type expression
	var condLabels func(e ast.Expr, tag *string) ([]string, bool)
	condLabels = func(e ast.Expr, tag *string) ([]string, bool) {
		be, ok := ast.Unparen(e).(*ast.BinaryExpr)
		if !ok {
			return nil, false
		}
		switch be.Op {
		case token.LOR:
			a, ok1 := condLabels(be.X, tag)
			b, ok2 := condLabels(be.Y, tag)
			return append(a, b...), ok1 && ok2
		case token.EQL:
			x, y := be.X, be.Y
			if !strings.Contains(strings.ToLower(types.ExprString(x)), "contenttype") || isConstLike(x, consts) {
				x, y = y, x
			}
			tx := types.ExprString(x)
			if !strings.Contains(strings.ToLower(tx), "contenttype") || isConstLike(x, consts) {
				return nil, false
			}
			if *tag != "" && *tag != tx {
				return nil, false
			}
			*tag = tx
			return []string{label(y)}, true
		}
		return nil, false
	}
	mkArm := func(body []ast.Stmt, labels []string) ctArm {
		arm := ctArm{Codec: codecOf(&ast.BlockStmt{List: body}), Labels: labels}
		sort.Strings(arm.Labels)
		ast.Inspect(&ast.BlockStmt{List: body}, func(m ast.Node) bool {
			if as, ok := m.(*ast.AssignStmt); ok {
				for _, rh := range as.Rhs {
					if bl, ok := rh.(*ast.BasicLit); ok && bl.Kind == token.STRING {
						s, _ := strconv.Unquote(bl.Value)
						arm.Sets = append(arm.Sets, s)
					}
				}
			}
			return true
		})
		return arm
	}
	ast.Inspect(fd.Body, func(n ast.Node) bool {
		blk, ok := n.(*ast.BlockStmt)
		if !ok || t != nil {
			return true
		}
		for i, st := range blk.List {
			ifs, ok := st.(*ast.IfStmt)
			if !ok {
				continue
			}
			tag := ""
			labels, ok := condLabels(ifs.Cond, &tag)
			if !ok {
				continue
			}
			t = &ctTable{Fn: fd.Name.Name, Pos: ifs.Pos(), Tag: tag}
			t.Arms = append(t.Arms, mkArm(ifs.Body.List, labels))
			var rest []ast.Stmt
			cur := ifs
			for cur != nil {
				switch e := cur.Else.(type) {
				case *ast.IfStmt:
					if ls, ok := condLabels(e.Cond, &tag); ok {
						t.Arms = append(t.Arms, mkArm(e.Body.List, ls))
						cur = e
						continue
					}
					cur = nil
				case *ast.BlockStmt:
					rest = e.List
					cur = nil
				default:
					cur = nil
				}
			}
			// further ifs of the chain at the same level, then the default
			j := i + 1
			for ; j < len(blk.List); j++ {
				nx, ok := blk.List[j].(*ast.IfStmt)
				if !ok {
					break
				}
				ls, ok := condLabels(nx.Cond, &tag)
				if !ok || nx.Else != nil {
					break
				}
				t.Arms = append(t.Arms, mkArm(nx.Body.List, ls))
			}
			if rest == nil {
				rest = blk.List[j:]
			}
			t.Arms = append(t.Arms, mkArm(rest, nil))
			return false
		}
		return true
	})
	return t
}

func isConstLike(e ast.Expr, consts map[string]string) bool {
	switch x := ast.Unparen(e).(type) {
	case *ast.Ident:
		_, ok := consts[x.Name]
		return ok
	case *ast.BasicLit:
		return true
	}
	return false
}

// codecFor returns the codec the table selects for a content-type string.
func (t *ctTable) codecFor(ct string) (string, []string) {
	var def *ctArm
	for i := range t.Arms {
		a := &t.Arms[i]
		if a.Labels == nil {
			def = a
			continue
		}
		for _, l := range a.Labels {
			if l == ct {
				return a.Codec, a.Sets
			}
		}
	}
	if def != nil {
		return def.Codec, def.Sets
	}
	return "none", nil
}

func (t *ctTable) labels() []string {
	var out []string
	for _, a := range t.Arms {
		out = append(out, a.Labels...)
	}
	sort.Strings(out)
	return out
}

// ParseUnit parses one emitted Go unit (syntax only).
func ParseUnit(u *Unit) (*token.FileSet, *ast.File, error) {
	fset := token.NewFileSet()
	f, err := parser.ParseFile(fset, "unit"+u.Suffix(), u.Text(), parser.ParseComments)
	return fset, f, err
}
