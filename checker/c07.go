package main

// c07.go — C07: wire JSON and handler inputs inhabit the generated TypeScript types.
//
// No TypeScript type checker exists in the sandbox and inhabitation quantifies
// over values; decided here is the agreement of the TypeScript type mapping
// with the documented wire mapping, by abstract evaluation of tscommon's own
// functions over the finite field-shape domain, plus structural rules:
//
//   R07a  TSFieldType, evaluated for each field shape under every annotation
//         scenario, is the TypeScript type of the JSON type the documented
//         mapping puts on the wire (number/string/boolean/enum name/message
//         name, T[] and Record<string, T>)
//   R07b  declaration markers: nullable → `| null`, proto3 optional and singular
//         message → `?`, same rule for flattened children
//   R07c  the ts-client and ts-server units contain the same type declarations
//         (lines printed by tscommon) under the same decisions
//   R07d  declared property names are spelled by the accessors of the wire keys
//   R07e  the TS server converts query strings and path segments to the declared
//         type of the field, with the same type function the declaration uses
//   R07f  presence: implicit-presence fields are declared required although
//         protojson omits zero values (reported)

import (
	"fmt"
	"go/ast"
	"go/types"
	"regexp"
	"strings"
)

func tsOfWire(s Shape, sc c06Scenario) string {
	elem := func() string {
		switch wireElem(s.Kind, sc) {
		case "{type=[boolean]}":
			return "boolean"
		case "{type=[integer]}", "{type=[integer] min0}", "{type=[number]}":
			return "number"
		case "{type=[string]}":
			if s.Kind == "enum" {
				return "ENUM"
			}
			return "string"
		case "$ref":
			return "MESSAGE"
		}
		return "?"
	}()
	switch s.Card {
	case "list":
		return elem + "[]"
	case "map":
		return "Record<string, " + elem + ">"
	}
	return elem
}

var tsEnumHole = regexp.MustCompile(`⟦[^⟧]*\.Enum\.Desc\.Name\(\)⟧`)
var tsMsgHole = regexp.MustCompile(`⟦[^⟧]*\.Message\.Desc\.Name\(\)⟧`)

func checkC07(c *Ctx) {
	r := c.R
	r.Explain = "There is no TypeScript type checker in the sandbox and inhabitation of a type quantifies over values; neither is attempted. Decided: R07a tscommon.TSFieldType is abstractly evaluated (walker over its syntax tree, nothing is run) for each of the 90 field shapes under every annotation scenario that changes the JSON type; the result must be the TypeScript type of the JSON type the documented mapping puts on the wire. R07b GenerateFieldDeclaration / GenerateFlattenedFields are evaluated for the presence classes: nullable → `T | null`, proto3 optional and singular message → `name?: T`, otherwise `name: T`; nullable wins over optional in both functions. R07c under identical decisions the lines tscommon prints into the ts-client unit and into the ts-server unit are the same sequence. R07d every declared property name hole is spelled by JSONName (with the flatten prefix) or the discriminator, as the wire keys are; a property named otherwise is reported (the nested discriminated oneof wrapper). R07e the TS server converts query strings and path segments by tscommon.TSScalarTypeForField of the bound field with Number(…)/=== \"true\" arms. R07f protojson omits zero values of implicit-presence fields while the interface declares them required (reported). Not decided: structural typing of emitted code, values."
	r.Rule("R07a", "TypeScript field type of every shape and scenario is the type of the documented wire form", 150)
	r.Rule("R07b", "presence markers of declarations", 6)
	r.Rule("R07c", "ts-client and ts-server emit the same type declarations", 1)
	r.Rule("R07d", "declared property names are spelled like the wire keys", 3)
	r.Rule("R07e", "the TS server converts URL strings to the declared field type", 4)
	r.Rule("R07f", "required declarations are always present on the wire", 1)

	tf := c.P.Func("internal/tscommon", "TSFieldType")
	if tf == nil {
		r.Unres("R07a", "TSFieldType", "", "not found")
		return
	}
	pos := c.P.Pos(c.P.Decls[tf].Pos())
	type agg struct {
		shapes    []string
		got, want string
	}
	bad := map[string]*agg{}
	n := 0
	for _, s := range AllShapes() {
		for _, sc := range c06Scenarios(s) {
			if sc.Nullable || sc.EmptyNull {
				continue // markers: R07b
			}
			fix := sc.fix(s, "field")
			fixTS := func(dk, cr string) (int, bool) {
				k := eraseIters(dk)
				// the map value is Fields[1]
				if s.Card == "map" && strings.Contains(k, "field.Message.Fields[1]") {
					vs := Shape{Kind: s.Kind, Card: "singular", Pres: "implicit"}
					if a, ok := vs.Answer("field.Message.Fields[1]", k, cr); ok {
						return a, true
					}
					if strings.Contains(k, "annotations.") {
						return fix(strings.Replace(k, "field.Message.Fields[1]", "field", 1), cr)
					}
				}
				return fix(dk, cr)
			}
			outs, probs, capped := c.W.EvalAll(tf, fixTS, true, 64)
			key := fmt.Sprintf("%s, %s", s, sc.Name)
			if len(probs) > 0 || capped || len(outs) == 0 {
				r.Undec("R07a", key, pos, fmt.Sprintf("TSFieldType does not evaluate for this shape (outcomes=%d capped=%v problems=%v)", len(outs), capped, probs))
				continue
			}
			got := map[string]bool{}
			for _, o := range outs {
				t := valText(o.Result)
				t = tsEnumHole.ReplaceAllString(t, "ENUM")
				t = tsMsgHole.ReplaceAllString(t, "MESSAGE")
				got[t] = true
			}
			want := tsOfWire(s, sc)
			gs := sortedKeys(got)
			n++
			if len(gs) == 1 && gs[0] == want {
				r.OK("R07a", key, "")
				continue
			}
			k := fmt.Sprintf("%s %s, %s: TypeScript %s, wire %s", cardClass(s), s.Kind, sc.Name, strings.Join(gs, " / "), want)
			if bad[k] == nil {
				bad[k] = &agg{got: strings.Join(gs, " / "), want: want}
			}
			bad[k].shapes = append(bad[k].shapes, s.String())
		}
	}
	for _, k := range sortedKeys(bad) {
		a := bad[k]
		r.Bad("R07a", k, pos, fmt.Sprintf("for %s tscommon declares %s while the documented mapping puts a value of TypeScript type %s on the wire", strings.Join(a.shapes, ", "), a.got, a.want), nil)
	}
	r.Count("shape x scenario evaluated", n)

	r.Rule("R07g", "scenario messages: the TypeScript declaration has exactly the top-level properties the documented mapping puts on the wire", 5)
	crossScenarioKeys(c, "R07g", "ts")
	c07Markers(c)
	c07Siblings(c)
	c07Names(c)
	c07ServerInputs(c, "R07e")
	r.Rule("R07n", "the set of types both TS plugins declare is closed under every edge a printed property type can follow: plain, repeated and map-valued enum fields, map value messages, nested message fields", 6)
	c07DeclaredTypesClosed(c, "R07n")
	r.Rule("R07o", "the flatten and discriminated-oneof encoders remove the wrapper key whenever the field is set (shared with C06/R06n): a key the TypeScript union does not declare never reaches the wire", 2)
	wrapperKeyAlwaysRemoved(c, "R07o")
	r.Rule("R07h", "every JSON arm of the Go server's response encoder consults the message's own codec first: the declared (annotated) TypeScript type is what is on the wire whatever the request's content type (shared with C06/R06f)", 2)
	codecPrecedence(c, "R07h", false)
	c07HandlerPropertyNames(c)
	r.Rule("R07j", "a flattened oneof whose variant children share a name with a parent property (plain, optional, member of another oneof, discriminator) is refused: the intersection type Base & Payload would declare the property twice with different types (scenarios shared with C12/R12g)", 5)
	c12ScenariosRule(c, "R07j", func(fn, rule string) bool { return fn == "validateOneofFlatten" })
	r.Rule("R07k", "codec collectors visit nested declarations unconditionally (shared with C04/R04i): a nested annotated message gets the codec that writes the declared TypeScript form", 14)
	collectorRecursion(c, "R07k")
	c07RootUnwrapPredicate(c)
	r.Rule("R07m", "reads of the run-wide unwrap table fall back to the descriptor itself (shared with C04/R04j, C15/R15f): an imported wrapper message is written in the unwrapped form the TypeScript type declares", 2)
	c.checkGlobalTableReads("R07m")
	c07Presence(c)
}

// c07Markers: R07b — evaluate the two declaration printers for the presence classes.
func c07Markers(c *Ctx) {
	r := c.R
	for _, spec := range []struct{ fn, prefix string }{{"GenerateFieldDeclaration", "field"}, {"GenerateFlattenedFields", "childMsg.Fields@"}} {
		fn := c.P.Func("internal/tscommon", spec.fn)
		if fn == nil {
			r.Unres("R07b", spec.fn, "", "not found")
			continue
		}
		pos := c.P.Pos(c.P.Decls[fn].Pos())
		for _, cs := range []struct {
			name     string
			s        Shape
			nullable bool
			want     string
		}{
			{"implicit string", Shape{Kind: "string", Card: "singular", Pres: "implicit"}, false, `^  \S+: [^?|]+;$`},
			{"optional string", Shape{Kind: "string", Card: "singular", Pres: "optional"}, false, `^  \S+\?: [^|]+;$`},
			{"optional string, nullable", Shape{Kind: "string", Card: "singular", Pres: "optional"}, true, `^  [^?]+: .+ \| null;$`},
			{"singular message", Shape{Kind: "message", Card: "singular", Pres: "implicit"}, false, `^  \S+\?: [^|]+;$`},
			{"repeated message", Shape{Kind: "message", Card: "list"}, false, `^  [^?]+: .+\[\];$`},
			{"map of string", Shape{Kind: "string", Card: "map"}, false, `^  [^?]+: Record<string, .+>;$`},
		} {
			sc := c06Scenario{Nullable: cs.nullable}
			base := sc.fix(cs.s, spec.prefix)
			fix := func(dk, cr string) (int, bool) {
				k := eraseIters(dk)
				if k == "n:childMsg.Fields" {
					return 1, true
				}
				if cs.s.Card == "map" && strings.Contains(k, ".Message.Fields[1]") {
					vs := Shape{Kind: cs.s.Kind, Card: "singular", Pres: "implicit"}
					pfx := spec.prefix + ".Message.Fields[1]"
					if a, ok := vs.Answer(pfx, k, cr); ok {
						return a, true
					}
				}
				return base(dk, cr)
			}
			run := c.W.NewRun(map[string]int{}, false)
			run.InlineAll = true
			run.AmbientPrinter = true
			run.Fix = fix
			var lines []string
			run.Start(fn)
			for _, u := range run.Units {
				for _, l := range u.Lines {
					lines = append(lines, holeFree(lineText(l.Segs)))
				}
			}
			// lines printed through the Printer parameter are collected in the ambient unit
			got := strings.Join(lines, "\n")
			okm := len(lines) == 1 && regexp.MustCompile(cs.want).MatchString(lines[0])
			r.Check(okm, "R07b", spec.fn+": "+cs.name, pos,
				fmt.Sprintf("%s declares a %s field as %q; expected a line matching %s (nullable → `| null` and required key, proto3 optional / singular message → `?`)", spec.fn, cs.name, got, cs.want))
		}
	}
}

// c07Siblings: R07c.
func c07Siblings(c *Ctx) {
	r := c.R
	cri := c.Root(pkgTSClient, "_client.ts")
	sri := c.Root(pkgTSServer, "_server.ts")
	if cri == nil || sri == nil {
		r.Unres("R07c", "TS unit roots", "", "not found")
		return
	}
	level := 1
	cex := c.Explore(cri.Fn, level, 20000)
	sex := c.Explore(sri.Fn, level, 20000)
	typeLines := func(u *Unit) string {
		var b strings.Builder
		for _, l := range u.Lines {
			if l.Fn != nil && l.Fn.Pkg() != nil && strings.HasSuffix(l.Fn.Pkg().Path(), "/internal/tscommon") {
				name := l.Fn.Name()
				if name == "WriteErrorTypes" {
					continue
				}
				t := keyText(l.Segs)
				t = strings.NewReplacer("tsclientgen.", "ts.", "tsservergen.", "ts.").Replace(t)
				b.WriteString(t)
				b.WriteByte('\n')
			}
		}
		return b.String()
	}
	byDec := map[string]string{}
	for _, v := range cex.Variants {
		if len(v.Units) > 0 {
			byDec[v.DecString()] = typeLines(v.Units[0])
		}
	}
	compared, diff := 0, ""
	diffPos := c.P.Pos(c.P.Decls[sri.Fn].Pos())
	for _, v := range sex.Variants {
		if len(v.Units) == 0 {
			continue
		}
		ct, ok := byDec[v.DecString()]
		if !ok {
			continue
		}
		compared++
		if st := typeLines(v.Units[0]); st != ct && diff == "" {
			cl, sl := strings.Split(ct, "\n"), strings.Split(st, "\n")
			for i := 0; i < len(cl) || i < len(sl); i++ {
				a, b := "", ""
				if i < len(cl) {
					a = cl[i]
				}
				if i < len(sl) {
					b = sl[i]
				}
				if a != b {
					diff = fmt.Sprintf("under decisions [%s] line %d of the type section: client %q, server %q", v.DecString(), i+1, a, b)
					break
				}
			}
		}
	}
	r.Check(diff == "" && compared > 20, "R07c", "ts-client and ts-server print the same type declarations", diffPos,
		fmt.Sprintf("the two TypeScript plugins declare different types for the same messages (%d decision vectors compared): %s", compared, diff))
	r.Count("decision vectors compared", compared)
	// the declaration loops visit every collected enum and message (loop lengths beyond the explored 0/1/2)
	for _, rel := range []string{pkgTSClient, pkgTSServer} {
		loops := 0
		for fn, decl := range c.oaDecls(rel) {
			info := c.P.DeclPkg[fn].TypesInfo
			ast.Inspect(decl.Body, func(n ast.Node) bool {
				rs, ok := n.(*ast.RangeStmt)
				if !ok {
					return true
				}
				x := types.ExprString(rs.X)
				if !strings.HasSuffix(x, ".OrderedEnums()") && !strings.HasSuffix(x, ".OrderedMessages()") {
					return true
				}
				// only loops whose body declares types
				declares := false
				ast.Inspect(rs.Body, func(m ast.Node) bool {
					if call, ok := m.(*ast.CallExpr); ok {
						if cal := Callee(info, call); cal != nil {
							t := cal
							// void forwarding wrapper: func f(p, x) { tscommon.G(tscommon.Printer(p), x) }
							if d := c.P.Decls[cal]; d != nil && d.Body != nil && len(d.Body.List) == 1 {
								if es, ok := d.Body.List[0].(*ast.ExprStmt); ok {
									if inner, ok := es.X.(*ast.CallExpr); ok {
										if ic := Callee(c.P.DeclPkg[cal].TypesInfo, inner); ic != nil {
											t = ic
										}
									}
								}
							}
							if t.Pkg() != nil && strings.HasSuffix(t.Pkg().Path(), "/internal/tscommon") && (t.Name() == "GenerateEnumType" || t.Name() == "GenerateInterface") {
								declares = true
							}
						}
					}
					return true
				})
				if !declares {
					return true
				}
				loops++
				filtered := ""
				ast.Inspect(rs.Body, func(m ast.Node) bool {
					switch b := m.(type) {
					case *ast.BranchStmt:
						filtered = b.Tok.String()
					case *ast.IfStmt:
						filtered = "if " + types.ExprString(b.Cond)
					case *ast.ReturnStmt:
						filtered = "return"
					}
					return true
				})
				r.Check(filtered == "", "R07c", fmt.Sprintf("%s: the declaration loop over %s visits every element", pkgShort(rel), x[strings.LastIndex(x, ".")+1:]), c.P.Pos(rs.Pos()),
					fmt.Sprintf("%s declares types in a loop over %s that contains `%s`: some collected types are not declared although interfaces refer to them", FuncName(fn), x, filtered))
				return true
			})
		}
		r.Check(loops == 2, "R07c", pkgShort(rel)+": one declaration loop for enums and one for messages", "", fmt.Sprintf("%d declaration loops found in %s", loops, rel))
	}
	// both units obtain their declarations from tscommon only
	for _, spec := range [][2]string{{pkgTSClient, "client"}, {pkgTSServer, "server"}} {
		own := 0
		for fn, decl := range c.oaDecls(spec[0]) {
			info := c.P.DeclPkg[fn].TypesInfo
			ast.Inspect(decl.Body, func(n ast.Node) bool {
				call, ok := n.(*ast.CallExpr)
				if !ok || len(call.Args) == 0 {
					return true
				}
				if tv, ok := info.Types[call.Args[0]]; ok && tv.Value != nil {
					s := strings.Trim(tv.Value.ExactString(), `"`)
					if s == "export interface %s {" || strings.HasPrefix(s, "export type %s =") {
						own++
					}
				}
				return true
			})
		}
		r.Check(own == 0, "R07c", "ts-"+spec[1]+" declares message types through tscommon only", "",
			fmt.Sprintf("the ts-%s generator prints %d message type declarations of its own", spec[1], own))
	}
}

// c07Names: R07d — holes in property-name position of declaration lines.
func c07Names(c *Ctx) {
	r := c.R
	ri := c.Root(pkgTSClient, "_client.ts")
	if ri == nil {
		r.Unres("R07d", "ts-client unit", "", "not found")
		return
	}
	ex := c.Explore(ri.Fn, 1, 20000)
	type site struct{ pos, ex string }
	classes := map[string]site{}
	propLine := regexp.MustCompile(`^\s+(?:\| \{ )?`)
	for _, v := range ex.Variants {
		for _, u := range v.Units {
			for _, l := range u.Lines {
				if l.Fn == nil || l.Fn.Pkg() == nil || !strings.HasSuffix(l.Fn.Pkg().Path(), "/internal/tscommon") {
					continue
				}
				t := lineText(l.Segs)
				if !strings.HasPrefix(t, "  ") || strings.HasPrefix(strings.TrimSpace(t), "//") {
					continue
				}
				// property-name position: a hole directly followed by ':' or '?:' in a constant segment
				for i, sg := range l.Segs {
					if sg.Hole == nil || i+1 >= len(l.Segs) || l.Segs[i+1].Hole != nil {
						continue
					}
					next := l.Segs[i+1].Const
					if !(strings.HasPrefix(next, ": ") || strings.HasPrefix(next, "?: ")) {
						continue
					}
					cls := accessorClass(sg.Hole.Key)
					if _, ok := classes[cls]; !ok {
						classes[cls] = site{c.P.Pos(l.Pos), holeFree(t)}
					}
				}
				_ = propLine
			}
		}
	}
	allowed := regexp.MustCompile(`^(JSONName\(\)|\.Prefix|\.Discriminator)$|JSONName\(\)\}?"?$`)
	for _, cls := range sortedKeys(classes) {
		s := classes[cls]
		r.Check(allowed.MatchString(cls) || strings.Contains(cls, "JSONName()"), "R07d", "property name in "+cls, s.pos,
			fmt.Sprintf("tscommon declares a property whose name is spelled by %s (emitted: %s); the wire keys of a message are the fields' JSON names, the flatten prefix + JSON name and the discriminator: this property never appears on the wire and the keys that do are not declared at this position", cls, strings.TrimSpace(s.ex)))
	}
	r.Count("property-name accessor classes", len(classes))
}

// c07ServerInputs: R07e.
func c07ServerInputs(c *Ctx, rid string) {
	r := c.R
	tsf := c.P.Func("internal/tscommon", "TSScalarTypeForField")
	for _, spec := range []struct{ fn, what string }{{"Generator.generateQueryParamField", "query parameter"}, {"Generator.generatePathParamMerge", "path parameter"}} {
		fn := c.P.Func(pkgTSServer, spec.fn)
		if fn == nil || tsf == nil {
			r.Unres(rid, spec.fn, "", "not found")
			continue
		}
		decl := c.P.Decls[fn]
		info := c.P.DeclPkg[fn].TypesInfo
		// a switch on TSScalarTypeForField(<field>) with arms TSNumber → Number(…), TSBoolean → === "true"
		okSwitch := false
		arms := map[string]string{}
		ast.Inspect(decl.Body, func(n ast.Node) bool {
			sw, ok := n.(*ast.SwitchStmt)
			if !ok || sw.Tag == nil {
				return true
			}
			tag := ast.Unparen(sw.Tag)
			if id, ok := tag.(*ast.Ident); ok {
				if d := localDef(info, decl.Body, id); d != nil {
					tag = d
				}
			}
			call, ok := tag.(*ast.CallExpr)
			if !ok || Callee(info, call) != tsf {
				return true
			}
			okSwitch = true
			for _, cs := range sw.Body.List {
				cc := cs.(*ast.CaseClause)
				label := "default"
				if len(cc.List) > 0 {
					label = types.ExprString(cc.List[0])
					label = label[strings.LastIndex(label, ".")+1:]
				}
				for _, st := range cc.Body {
					ast.Inspect(st, func(m ast.Node) bool {
						if c2, ok := m.(*ast.CallExpr); ok && len(c2.Args) > 0 {
							if tv, ok := info.Types[c2.Args[0]]; ok && tv.Value != nil {
								arms[label] = strings.Trim(tv.Value.ExactString(), `"`)
							}
						}
						return true
					})
				}
			}
			return true
		})
		pos := c.P.Pos(decl.Pos())
		r.Check(okSwitch, rid, spec.what+" conversion is selected by TSScalarTypeForField of the bound field", pos,
			spec.fn+" does not select the conversion with tscommon.TSScalarTypeForField (the function the interface declaration uses): a field whose declared type depends on an annotation (int64_encoding=NUMBER) is handed to the handler with another type")
		r.Check(strings.Contains(arms["TSNumber"], "Number("), rid, spec.what+": number fields are converted with Number(…)", pos,
			fmt.Sprintf("%s: the arm for fields declared number emits %q: the handler receives a string where the request interface declares number", spec.fn, arms["TSNumber"]))
		r.Check(strings.Contains(arms["TSBoolean"], `=== \"true\"`) || strings.Contains(arms["TSBoolean"], `=== "true"`), rid, spec.what+": boolean fields are converted with === \"true\"", pos,
			fmt.Sprintf("%s: the arm for fields declared boolean emits %q", spec.fn, arms["TSBoolean"]))
	}
}

// c07Presence: R07f.
func c07Presence(c *Ctx) {
	r := c.R
	ep, err := c.ServerRuntime()
	if err != nil {
		r.Unres("R07f", "server runtime", "", err.Error())
		return
	}
	fd := ep.Funcs["marshalResponse"]
	if fd == nil {
		r.Unres("R07f", "marshalResponse", "", "not found")
		return
	}
	emits := false
	ast.Inspect(fd.Body, func(n ast.Node) bool {
		if sel, ok := n.(*ast.SelectorExpr); ok && (sel.Sel.Name == "EmitUnpopulated" || sel.Sel.Name == "EmitDefaultValues") {
			emits = true
		}
		if kv, ok := n.(*ast.KeyValueExpr); ok {
			if k := types.ExprString(kv.Key); k == "EmitUnpopulated" || k == "EmitDefaultValues" {
				emits = true
			}
		}
		return true
	})
	r.Check(emits, "R07f", "implicit-presence fields declared required are always on the wire", ep.GenPos(fd.Pos()),
		"the Go server encodes responses with protojson's default options, which omit implicit-presence fields holding their zero value (\"\", 0, false, empty list/map), while tscommon declares those fields as required properties (`name: string;`): a response whose field is zero is not a value of the declared interface (the property is undefined at run time)")
}

func init() { props["C07"] = checkC07 }

// c07HandlerPropertyNames: R07i — the TS server stores a path value under the bound field's JSON name (the name the
// request interface declares). The function that resolves path variables to fields is interpreted on a request
// message whose field has an explicit json_name; the property name it yields must be that JSON name.
func c07HandlerPropertyNames(c *Ctx, rid ...string) {
	r := c.R
	rule := "R07i"
	if len(rid) > 0 {
		rule = rid[0]
	}
	r.Rule(rule, "URL values are stored under the property names the request interface declares (the fields' JSON names)", 1)
	fn := c.P.Func(pkgTSServer, "resolvePathParamFields")
	if fn == nil {
		r.Unres(rule, "resolvePathParamFields", "", "not found")
		return
	}
	pos := c.P.Pos(c.P.Decls[fn].Pos())
	prev := c.W.Concrete
	c.W.Concrete = true
	defer func() { c.W.Concrete = prev }()
	doc := fld("document_id", "string")
	doc.JSON = "docId"
	sec := fld("section_no", "int32")
	m := cMethod("Get", cMessage("Req", doc, sec), cMessage("Resp"), nil)
	run := c.W.NewRun(map[string]int{}, false)
	run.InlineAll, run.FollowSlices = true, true
	run.CallHook = c.cdescHook
	run.StartArgs(fn, map[string]Val{"pathParams": VList{Key: "pp", Elems: []Val{constStr("document_id"), constStr("section_no")}}, "method": m})
	if len(run.Used) > 0 || run.Aborted != "" {
		r.Undec(rule, "path variables resolved to request properties", pos, fmt.Sprintf("open decisions %v aborted %q", usedKeys(run), run.Aborted))
		return
	}
	var got []string
	res := run.Result
	if tup, ok := res.(VTuple); ok && len(tup) > 0 {
		res = tup[0]
	}
	if l, ok := res.(VList); ok {
		for _, e := range l.Elems {
			if st, ok := e.(*VStruct); ok {
				// the string-valued members of the row other than the variable's own spelling
				for _, k := range sortedKeys(st.Fields) {
					if sv, ok := st.Fields[k].(VStr); ok {
						if cs, isConst := sv.isConst(); isConst && cs != "document_id" && cs != "section_no" {
							got = append(got, cs)
						}
					}
				}
			}
		}
	}
	want := []string{"docId", "sectionNo"}
	r.Check(strings.Join(got, ",") == strings.Join(want, ","), rule, "path variables {document_id (json_name docId), section_no} are bound to the properties docId, sectionNo", pos,
		fmt.Sprintf("resolvePathParamFields yields the property names %v for the path variables {document_id (json_name \"docId\"), section_no}; the request interface declares %v: the handler receives the path value under an undeclared property and the declared one stays undefined", got, want))
}

// c07RootUnwrapPredicate — R07l. Both TS plugins declare an RPC's result as the bare array / record exactly when
// annotations.IsRootUnwrap(message) holds; the Go server writes the bare value for a message whose single field carries
// (sebuf.http.unwrap), repeated OR map. The predicate is interpreted on concrete messages.
func c07RootUnwrapPredicate(c *Ctx) {
	r := c.R
	r.Rule("R07l", "the root-unwrap predicate the TS plugins use to declare an RPC's result as a bare array or record holds for a single unwrap field of either cardinality (repeated, map) and for nothing else", 5)
	fn := c.P.Func("internal/annotations", "IsRootUnwrap")
	if fn == nil {
		r.Unres("R07l", "annotations.IsRootUnwrap", "", "not found")
		return
	}
	pos := c.P.Pos(c.P.Decls[fn].Pos())
	prev := c.W.Concrete
	c.W.Concrete = true
	defer func() { c.W.Concrete = prev }()
	tru := VBool{B: true}
	item := cMessage("Quote", fld("price", "double"))
	entry := cMessage("QuotesEntry", fld("key", "string"), fld("value", "message").msg(item))
	for _, sc := range []struct {
		name string
		msg  *VStruct
		want bool
	}{
		{"single repeated field with unwrap", cMessage("R", fld("items", "message").msg(item).list().ann("HasUnwrapAnnotation", tru)), true},
		{"single map field with unwrap", cMessage("M", fld("quotes", "message").msg(entry).mapf().ann("HasUnwrapAnnotation", tru)), true},
		{"single repeated scalar field with unwrap", cMessage("S", fld("tags", "string").list().ann("HasUnwrapAnnotation", tru)), true},
		{"unwrap field beside another field", cMessage("T", fld("items", "message").msg(item).list().ann("HasUnwrapAnnotation", tru), fld("next", "string")), false},
		{"single repeated field without unwrap", cMessage("U", fld("items", "message").msg(item).list()), false},
	} {
		run := c.W.NewRun(map[string]int{}, false)
		run.InlineAll, run.FollowSlices = true, true
		run.CallHook = c.cdescHook
		run.StartArgs(fn, map[string]Val{"message": sc.msg})
		key := "IsRootUnwrap: " + sc.name
		b, ok := run.Result.(VBool)
		if !ok || len(run.Used) > 0 {
			r.Undec("R07l", key, pos, fmt.Sprintf("result %T, open decisions %v", run.Result, usedKeys(run)))
			continue
		}
		r.Check(b.B == sc.want, "R07l", key, pos,
			fmt.Sprintf("IsRootUnwrap answers %v for a message with a %s: the TS client and server then declare the RPC's result as %s while the Go server writes %s", b.B, sc.name, map[bool]string{true: "the bare value", false: "the wrapper object"}[b.B], map[bool]string{true: "the bare array / record", false: "the wrapper object"}[sc.want]))
	}
}

// c07DeclaredTypesClosed — R07n. Both TS plugins declare exactly the messages and enums tscommon.MessageSet collects.
// AddMessage is interpreted on a concrete message that reaches an enum through every kind of edge — a plain field, a
// repeated field, the value of a map, a field of a map's value message, a field of a nested message field — and the
// collected sets must contain every enum and every non-synthetic message: a type that is printed (Record<string, Color>)
// but not collected has no declaration in the module.
func c07DeclaredTypesClosed(c *Ctx, rid string) {
	r := c.R
	fn := c.P.Func("internal/tscommon", "MessageSet.AddMessage")
	if fn == nil {
		r.Unres(rid, "tscommon.MessageSet.AddMessage", "", "not found")
		return
	}
	pos := c.P.Pos(c.P.Decls[fn].Pos())
	prev := c.W.Concrete
	c.W.Concrete = true
	defer func() { c.W.Concrete = prev }()
	enumField := func(name string, e *VStruct) *cField {
		f := fld(name, "enum")
		f.val().Fields["Enum"] = e
		return f
	}
	mapOf := func(name string, value *cField) *cField {
		entry := cMessage(strings.Title(snakeToCamelJSON(name))+"Entry", fld("key", "string"), value)
		entry.Fields["Desc"].(*VStruct).Fields["IsMapEntry()"] = VBool{B: true}
		f := fld(name, "message").msg(entry)
		f.Map = true
		return f
	}
	mk := func(n string) *VStruct { return cEnum(n, "pkg."+n, cEnumValue{n + "_ZERO", ""}, cEnumValue{n + "_ONE", ""}) }
	plain, rep, mapVal, inMapMsg, inNested := mk("PlainE"), mk("RepE"), mk("MapValE"), mk("InMapMsgE"), mk("InNestedE")
	mapMsg := cMessage("MapMsg", fld("n", "string"), enumField("e", inMapMsg))
	nested := cMessage("Nested", enumField("e", inNested))
	holder := cMessage("Holder",
		enumField("plain", plain),
		enumField("rep", rep).list(),
		mapOf("roles", enumField("value", mapVal)),
		mapOf("items", fld("value", "message").msg(mapMsg)),
		fld("nested", "message").msg(nested))
	cdescID--
	msgs := &VStruct{Name: "map", Fields: map[string]Val{}, id: cdescID, Concrete: true}
	cdescID--
	enums := &VStruct{Name: "map", Fields: map[string]Val{}, id: cdescID, Concrete: true}
	ms := cstruct("MessageSet", map[string]Val{"messages": msgs, "enums": enums, "order": VList{Key: "order", Elems: []Val{}}})
	run := c.W.NewRun(map[string]int{}, false)
	run.InlineAll, run.FollowSlices = true, true
	run.CallHook = c.cdescHook
	run.StartArgs(fn, map[string]Val{"ms": ms, "msg": holder})
	if len(run.Used) > 0 || len(run.Problems) > 0 || run.Aborted != "" {
		r.Undec(rid, "MessageSet.AddMessage on the scenario message", pos, fmt.Sprintf("interpretation left decisions open: %v %v aborted %q", usedKeys(run), run.Problems, run.Aborted))
		return
	}
	got := map[string]bool{}
	for _, m := range []*VStruct{msgs, enums} {
		for _, k := range m.Keys {
			got[valText(k)] = true
		}
	}
	for _, w := range []struct{ name, via string }{
		{"pkg.Holder", "the message itself"}, {"pkg.MapMsg", "the value message of a map field"}, {"pkg.Nested", "a message field"},
		{"pkg.PlainE", "a plain enum field"}, {"pkg.RepE", "a repeated enum field"}, {"pkg.MapValE", "the enum value of a map field"},
		{"pkg.InMapMsgE", "an enum field of a map's value message"}, {"pkg.InNestedE", "an enum field of a nested message field"},
	} {
		r.Check(got[w.name], rid, "the TS type collector reaches "+w.via, pos,
			fmt.Sprintf("MessageSet.AddMessage(Holder) collects %v but not %s, reached through %s: both TS plugins print the type's name in a property type and never declare it", sortedKeys(got), w.name, w.via))
	}
	for k := range got {
		if strings.HasSuffix(k, "Entry") {
			r.Bad(rid, "synthetic map entries are not declared", pos, "MessageSet.AddMessage collects the synthetic map entry "+k+" as a message to declare", nil)
		}
	}
}
