package main

// C11 — malformed traffic is rejected cleanly and never crashes server or client.

import (
	"fmt"
	"go/ast"
	"go/token"
	"go/types"
	"sort"
	"strings"
)

func init() { props["C11"] = checkC11 }

// decoder calls whose error must not be dropped in emitted decoders.
var decodeCallees = []string{"UnmarshalJSON", "json.Unmarshal", "hex.DecodeString", "DecodeString", "time.Parse", "strconv.Parse", "protojson.Unmarshal", "proto.Unmarshal", "io.ReadAll", "json.Marshal", "protojson.Marshal"}

// swallowExcused: (emitter function, callee) pairs where only the success arm is
// handled, confirmed by reading: on failure the untouched token reaches
// protojson.Unmarshal, which either rejects it (the error resurfaces as 400) or
// accepts a legitimate proto3 JSON alternative form of the same value.
var swallowExcused = map[string]string{
	// keyed by (unit, callee): the emitting function's name is not part of the identity, a clean-up may rename or split it
	"_encoding.pb.go json.Unmarshal":                           "a non-number token stays as it is; protojson accepts a decimal string for int64 (proto3 JSON) and rejects anything else (singular and element-wise)",
	"_timestamp_format.pb.go json.Unmarshal":                   "a non-integer token stays; protojson accepts only an RFC 3339 string there and rejects anything else",
	"_timestamp_format.pb.go time.Parse":                       "a string that is not a date stays; protojson accepts only RFC 3339 and rejects anything else",
	"_bytes_encoding.pb.go json.Unmarshal":                     "a non-string token stays; protojson rejects non-string bytes values",
	"_bytes_encoding.pb.go base64.RawStdEncoding.DecodeString": "protojson's bytes decoder accepts standard and URL alphabets with or without padding and yields the same bytes",
	"_bytes_encoding.pb.go base64.URLEncoding.DecodeString":    "same",
	"_bytes_encoding.pb.go base64.RawURLEncoding.DecodeString": "same",
	"_enum_encoding.pb.go json.Unmarshal":                      "alternative forms (name, number) are tried in turn; when none decodes the function returns an error",
	"_client.pb.go c.unmarshalResponse":                        "the typed error bodies are tried in turn; the fallback returns an error carrying status and raw body",
}

// discardExcused: `x, _ = f(...)` sites that cannot fail.
var discardExcused = map[string]string{
	"json.Marshal": "marshalling a string, integer, []string or map[string]json.RawMessage cannot fail",
}

type errUse struct {
	Callee string
	Kind   string // propagated | success-arm-only | discarded | untested
	Pos    token.Pos
	Emit   string // generator function that emitted the call line
}

// classifyByName is the name-based (untyped) variant of classifyErrorUse for
// parsed, holed units.
func classifyByName(call *ast.CallExpr, parents map[ast.Node]ast.Node) string {
	p := parents[call]
	for {
		if pe, ok := p.(*ast.ParenExpr); ok {
			p = parents[pe]
			continue
		}
		break
	}
	retNonNil := func(b *ast.BlockStmt, errName string) bool {
		if len(b.List) == 0 {
			return false
		}
		ret, ok := b.List[len(b.List)-1].(*ast.ReturnStmt)
		if !ok || len(ret.Results) == 0 {
			return false
		}
		last := ret.Results[len(ret.Results)-1]
		if id, ok := last.(*ast.Ident); ok && id.Name == "nil" {
			return false
		}
		return true
	}
	testOf := func(ifs *ast.IfStmt, errName string) string {
		be, ok := ast.Unparen(ifs.Cond).(*ast.BinaryExpr)
		if !ok {
			return "untested"
		}
		id, ok1 := ast.Unparen(be.X).(*ast.Ident)
		if !ok1 || id.Name != errName || !isNilIdent(be.Y) {
			// compound conditions: err != nil && !errors.Is(...)
			if strings.Contains(types.ExprString(ifs.Cond), errName+" != nil") && retNonNil(ifs.Body, errName) {
				return "propagated"
			}
			return "untested"
		}
		switch be.Op {
		case token.NEQ:
			if retNonNil(ifs.Body, errName) {
				return "propagated"
			}
			return "untested"
		case token.EQL:
			return "success-arm-only"
		}
		return "untested"
	}
	switch x := p.(type) {
	case *ast.ReturnStmt:
		return "propagated"
	case *ast.AssignStmt:
		if len(x.Lhs) == 0 {
			return "untested"
		}
		last, ok := x.Lhs[len(x.Lhs)-1].(*ast.Ident)
		if !ok {
			return "untested"
		}
		if last.Name == "_" {
			return "discarded"
		}
		if ifs, ok := parents[x].(*ast.IfStmt); ok && ifs.Init == ast.Stmt(x) {
			return testOf(ifs, last.Name)
		}
		var list []ast.Stmt
		switch b := parents[x].(type) {
		case *ast.BlockStmt:
			list = b.List
		case *ast.CaseClause:
			list = b.Body
		}
		if list == nil {
			return "untested"
		}
		// the test may follow the enclosing switch/if (x assigned in every arm, tested once after)
		var outer []ast.Stmt
		for q := parents[x]; q != nil; q = parents[q] {
			if sw, ok := q.(*ast.SwitchStmt); ok {
				switch b := parents[sw].(type) {
				case *ast.BlockStmt:
					for j, st := range b.List {
						if st == ast.Stmt(sw) {
							outer = b.List[j+1:]
						}
					}
				}
				break
			}
			// if m, ok := v.(I); ok { err = a() } else { err = b() }; if err != nil { return err }
			if ifs, ok := q.(*ast.IfStmt); ok {
				if _, chained := parents[ifs].(*ast.IfStmt); !chained {
					var plist []ast.Stmt
					switch b := parents[ifs].(type) {
					case *ast.BlockStmt:
						plist = b.List
					case *ast.CaseClause:
						plist = b.Body
					}
					for j, st := range plist {
						if st == ast.Stmt(ifs) {
							outer = plist[j+1:]
						}
					}
					break
				}
			}
			if _, ok := q.(*ast.FuncLit); ok {
				break
			}
		}
		for i, s := range list {
			if s == ast.Stmt(x) {
				for _, nx := range append(append([]ast.Stmt{}, list[i+1:]...), outer...) {
					if ifs, ok := nx.(*ast.IfStmt); ok && strings.Contains(types.ExprString(ifs.Cond), last.Name) {
						return testOf(ifs, last.Name)
					}
					// statements that do not mention the error may come in between
					mentions := false
					ast.Inspect(nx, func(m ast.Node) bool {
						if id, ok := m.(*ast.Ident); ok && id.Name == last.Name {
							mentions = true
						}
						return true
					})
					if mentions {
						return "untested"
					}
					if _, isRet := nx.(*ast.ReturnStmt); isRet {
						return "untested"
					}
				}
			}
		}
		return "untested"
	case *ast.ExprStmt:
		return "discarded"
	}
	return "untested"
}

func checkC11(c *Ctx) {
	r := c.R
	r.Explain = "The statement quantifies over all byte strings; what a decoder does with a byte string is not visible in the shape of the code, and robustness inside protojson / encoding/json / protovalidate is a fuzzing question this family does not address. Five structural clauses are decided on the reconstructed emitted code. R11a: in the type-checked BindingMiddleware handler no go/cfg path writes an error response and afterwards dispatches (so a request whose body could not be decoded is never handed to the service), and inside the body binders every error-returning call is tested before a success return. R11b: every value handed to writeErrorWithHandler by the middleware has static type *ValidationError (400-typed, never 5xx). R11c: in every variant of every emitted decoder/encoder, the error of json.Unmarshal, hex/base64 DecodeString, time.Parse, strconv.Parse*, protojson/proto Unmarshal is propagated; sites that handle only the success arm are allowed only if listed in a reasoned exception table keyed by (emitter, callee). R11e: both body binders hand io.ReadAll the request body itself (or http.MaxBytesReader, which fails on over-long input), never a silently truncating reader. R11d: emitted Go contains no panic, no single-value type assertion, no constant index without a dominating length guard, and no use of a call's result before its error was tested (client: resp after `if err != nil`)."
	r.Trusted = []string{"protojson.Unmarshal is strict about the token kinds it accepts per field type; its bytes decoder accepts the four base64 alphabets/padding forms"}
	r.Rule("R11a", "no dispatch after an error response was written; body binders test every error before succeeding", 4)
	r.Rule("R11b", "middleware failures are 400-typed values (*ValidationError)", 4)
	r.Rule("R11c", "error discipline in emitted decoders: decode errors are propagated (reasoned exceptions only)", 25)
	r.Rule("R11d", "no unchecked crash construct in emitted Go (panic, bare type assertion, unguarded constant index, result used before its error test)", 8)

	ep, err := c.ServerRuntime()
	if err != nil {
		r.Unres("R11a", "emitted server runtime", "", err.Error())
		return
	}
	fd, lit := middlewareLit(ep)
	if lit == nil {
		r.Unres("R11a", "BindingMiddleware handler literal", "", "not found")
		return
	}
	r.Rule("R11i", "a body that cannot be decoded is answered with the structured 400 whatever bytes it contains (shared with C10/R10j: the decoder's error text is sanitised before it becomes a proto3 string)", 1)
	decodeErrorTextSanitised(c, "R11i")
	r.Rule("R11k", "no emitted MarshalJSON/UnmarshalJSON hands its own receiver to json.Marshal/json.Unmarshal (unbounded recursion: the process dies instead of answering 400)", 1)
	codecPairShape(c, "", "R11k")
	r.Rule("R11j", "a URL value that cannot be converted is answered with the structured 400 whatever bytes it decodes to: the binders put the raw value into the violation text only under %q (shared with C02/R02q)", 2)
	if ep, err := c.ServerRuntime(); err == nil {
		urlValueNotEchoed(c, ep, "R11j")
	} else {
		r.Unres("R11j", "emitted server runtime", "", err.Error())
	}
	// ---- R11g / R11h on every emitted Go unit variant
	r.Rule("R11g", "emitted decoders parse the whole input: no json.NewDecoder(...).Decode, which stops after the first JSON value and lets trailing bytes pass (json.Unmarshal rejects them)", 1)
	r.Rule("R11h", "every request the emitted Go client sends is created with the caller's context (http.NewRequestWithContext): a peer that never completes its answer cannot hold the caller beyond its deadline", 1)
	{
		nUnits, nReq := 0, 0
		badDec, badDecPos, badReq, badReqPos := "", "", "", ""
		for _, ri := range c.Roots() {
			if (ri.Pkg != pkgHTTP && ri.Pkg != pkgClient) || !strings.HasSuffix(ri.Suffix, ".go") {
				continue
			}
			ex := c.ExploreT(ri.Fn, 4000)
			for _, v := range ex.Variants {
				for _, u := range v.Units {
					fset, f, err := ParseUnit(u)
					if err != nil {
						continue
					}
					nUnits++
					gen := func(p token.Pos) string {
						line := fset.Position(p).Line
						if line >= 1 && line <= len(u.Lines) {
							return c.P.Pos(u.Lines[line-1].Pos)
						}
						return ""
					}
					ast.Inspect(f, func(nd ast.Node) bool {
						call, ok := nd.(*ast.CallExpr)
						if !ok {
							return true
						}
						switch fun := types.ExprString(call.Fun); {
						case fun == "json.NewDecoder":
							if badDec == "" {
								badDec, badDecPos = "*"+ri.Suffix, gen(call.Pos())
							}
						case fun == "http.NewRequest":
							nReq++
							if badReq == "" {
								badReq, badReqPos = "*"+ri.Suffix, gen(call.Pos())
							}
						case fun == "http.NewRequestWithContext":
							nReq++
						}
						return true
					})
				}
			}
		}
		r.CheckD(badDec == "", "R11g", "no streaming JSON decoder in emitted Go", badDecPos,
			"an emitted "+badDec+" decodes with json.NewDecoder(…).Decode: only the first JSON value is consumed, so a body such as `{…}{…}` or `{…} garbage` is accepted and dispatched instead of answered with 400", map[string]any{"unit_variants": nUnits})
		r.CheckD(badReq == "" && nReq > 0, "R11h", "emitted client requests carry the caller's context", badReqPos,
			"an emitted "+badReq+" builds a request with http.NewRequest (no context): the call ignores the caller's deadline and cancellation, so a stalled or endless response holds the caller forever", map[string]any{"request_constructions": nReq})
	}
	// ---- R11f whether the body of a body verb is decoded depends on the verb only
	r.Rule("R11f", "whether BindingMiddleware decodes the request body depends on the route's verb only, never on a property of the request (Content-Length, a header, the body being nil): an undecoded body is a malformed body that is dispatched", 1)
	bodyDecodeGuard(c, ep, "R11f")
	// ---- R11e the body binders decode the whole body or fail: no silently truncating reader
	r.Rule("R11e", "the body binders read the request body through a reader that reports over-long input as an error (r.Body or http.MaxBytesReader), never a silently truncating one", 2)
	for _, name := range []string{"bindDataFromJSONRequest", "bindDataFromBinaryRequest"} {
		bf := ep.Funcs[name]
		if bf == nil {
			r.Unres("R11e", name, "", "emitted function not found")
			continue
		}
		n := 0
		ast.Inspect(bf.Body, func(nd ast.Node) bool {
			call, ok := nd.(*ast.CallExpr)
			if !ok {
				return true
			}
			cal := ep.CalleeOf(call)
			if cal == nil || cal.Pkg() == nil || cal.Pkg().Path() != "io" || cal.Name() != "ReadAll" || len(call.Args) != 1 {
				return true
			}
			n++
			arg := ast.Unparen(call.Args[0])
			src := types.ExprString(arg)
			ok2 := src == "r.Body"
			if c2, isCall := arg.(*ast.CallExpr); isCall {
				if c2f := ep.CalleeOf(c2); c2f != nil && c2f.Pkg() != nil && c2f.Pkg().Path() == "net/http" && c2f.Name() == "MaxBytesReader" {
					ok2 = true
				}
			}
			r.Check(ok2, "R11e", name+": io.ReadAll reads the request body itself", ep.GenPos(call.Pos()),
				fmt.Sprintf("%s reads the body through %s: input beyond the reader's limit is cut off without an error, so the prefix of an over-long body is decoded and (when it happens to be well-formed, e.g. length-delimited protobuf or a JSON document followed by padding) dispatched as if it were the request, instead of the request being refused", name, src))
			return true
		})
		if n == 0 {
			r.Bad("R11e", name+": reads the request body", ep.GenPos(bf.Pos()), "no io.ReadAll call found in the body binder", nil)
		}
	}
	// ---- R11a
	lf := func(call *ast.CallExpr) []string {
		if cal := ep.CalleeOf(call); cal != nil && ep.RecName(cal) == "writeErrorWithHandler" {
			return []string{"X"}
		}
		if isDispatch(ep, call) {
			return []string{"D"}
		}
		return nil
	}
	found, tr := FindPath(lit.Body, lf, "0", func(s, l string) string {
		if l == "X" {
			return "err"
		}
		if l == "D" && s == "err" {
			return "bad"
		}
		return ""
	}, func(s string) bool { return s == "bad" })
	pos := ""
	var det map[string]any
	if found {
		pos = ep.GenPos(tr[0])
		det = map[string]any{"path": traceLines(ep, tr)}
	}
	r.CheckD(!found, "R11a", "BindingMiddleware: no dispatch after an error response", pos,
		"a path writes the error response and then still reaches next.ServeHTTP: the service is invoked with a request the server could not (fully) decode or validate, and its output is appended to the error body", det)
	_ = fd
	for _, name := range []string{"bindDataFromJSONRequest", "bindDataFromBinaryRequest", "bindDataBasedOnContentType"} {
		f := ep.Funcs[name]
		if f == nil {
			r.Unres("R11a", name, "", "not emitted")
			continue
		}
		parents := parentMap(f.Body)
		ast.Inspect(f.Body, func(n ast.Node) bool {
			call, ok := n.(*ast.CallExpr)
			if !ok {
				return true
			}
			cal := ep.CalleeOf(call)
			if cal == nil {
				return true
			}
			res := cal.Type().(*types.Signature).Results()
			if res.Len() == 0 || !isErrorType(res.At(res.Len()-1).Type()) {
				return true
			}
			kind := classifyByName(call, parents)
			okk := kind == "propagated"
			why := kind
			if okk {
				// the test must come before any success return: no `return nil` between call and test
				if as, isAs := parents[call].(*ast.AssignStmt); isAs {
					if blk, isBlk := parents[as].(*ast.BlockStmt); isBlk {
						errName := types.ExprString(as.Lhs[len(as.Lhs)-1])
						after := false
						for _, st := range blk.List {
							if st == ast.Stmt(as) {
								after = true
								continue
							}
							if !after {
								continue
							}
							if ifs, isIf := st.(*ast.IfStmt); isIf {
								if strings.Contains(types.ExprString(ifs.Cond), errName) {
									break
								}
								// an earlier success return
								ast.Inspect(ifs.Body, func(m ast.Node) bool {
									if ret, isRet := m.(*ast.ReturnStmt); isRet && len(ret.Results) == 1 && isNilIdent(ret.Results[0]) {
										okk = false
										why = "a success return (`" + ep.Line(ifs.Pos()) + "`) comes before the error of " + cal.Name() + " is tested"
									}
									return true
								})
							}
						}
					}
				}
			}
			key := fmt.Sprintf("%s: error of %s is tested before any success return", name, qnameShort(cal))
			r.Check(okk, "R11a", key, ep.GenPos(call.Pos()), "a failed read/decode does not surface as an error: "+why)
			return true
		})
	}

	// ---- R11b
	nW := 0
	ast.Inspect(lit.Body, func(n ast.Node) bool {
		call, ok := n.(*ast.CallExpr)
		if !ok {
			return true
		}
		if cal := ep.CalleeOf(call); cal == nil || ep.RecName(cal) != "writeErrorWithHandler" || len(call.Args) < 3 {
			return true
		}
		nW++
		tv := ep.Info.Types[call.Args[2]]
		ok400 := tv.Type != nil && typeIsNamed(tv.Type, "sebuf/http", "ValidationError")
		r.Check(ok400, "R11b", fmt.Sprintf("BindingMiddleware error response #%d is a *ValidationError (%s)", nW, types.ExprString(call.Args[2])), ep.GenPos(call.Pos()),
			fmt.Sprintf("the middleware answers a malformed request with a value of type %v: defaultErrorStatusCode maps it to 500, not 400", tv.Type))
		return true
	})
	// the body-failure value carries exactly one violation naming "body"
	bodyViol := false
	ast.Inspect(lit.Body, func(n ast.Node) bool {
		if cl, ok := n.(*ast.CompositeLit); ok {
			if tv, ok := ep.Info.Types[cl]; ok && typeIsNamed(tv.Type, "sebuf/http", "FieldViolation") && strings.Contains(ep.Text(cl), `Field: "body"`) {
				bodyViol = true
			}
		}
		return true
	})
	r.Check(bodyViol, "R11b", "a body that cannot be decoded yields a violation for field \"body\"", ep.GenPos(lit.Pos()), "the body-decoding failure is not reported as a violation of field \"body\"")

	// ---- R11c / R11d over all Go unit variants
	type agg struct {
		kinds map[string]int
		pos   string
		line  string
	}
	sites := map[string]*agg{}
	crash := map[string]string{}
	crashPos := map[string]string{}
	nVariants, nFuncs := 0, 0
	blank := map[string]string{}
	nBlankOK := 0
	for _, ri := range c.Roots() {
		if (ri.Pkg != pkgHTTP && ri.Pkg != pkgClient) || !strings.HasSuffix(ri.Suffix, ".go") {
			continue
		}
		ex := c.ExploreT(ri.Fn, 4000)
		for _, v := range ex.Variants {
			for _, u := range v.Units {
				fset, f, perr := ParseUnit(u)
				if perr != nil {
					continue
				}
				nVariants++
				genFn := func(p token.Pos) (string, string) {
					line := fset.Position(p).Line
					if line >= 1 && line <= len(u.Lines) {
						l := u.Lines[line-1]
						name := "?"
						if l.Fn != nil {
							name = l.Fn.Name()
						}
						return name, c.P.Pos(l.Pos)
					}
					return "?", ""
				}
				for _, d := range f.Decls {
					fdecl, ok := d.(*ast.FuncDecl)
					if !ok || fdecl.Body == nil {
						continue
					}
					nFuncs++
					parents := parentMap(fdecl.Body)
					isDecoder := strings.Contains(fdecl.Name.Name, "Unmarshal") || strings.HasPrefix(fdecl.Name.Name, "bind") ||
						fdecl.Name.Name == "handleErrorResponse" || fdecl.Name.Name == "convertStringToFieldValue" || containsCall(fdecl.Body, "c.unmarshalResponse")
					ast.Inspect(fdecl.Body, func(n ast.Node) bool {
						switch x := n.(type) {
						case *ast.CallExpr:
							fun := types.ExprString(x.Fun)
							if id, ok := x.Fun.(*ast.Ident); ok && id.Name == "panic" {
								em, p := genFn(x.Pos())
								crash[ri.Pkg+" "+em+" panic"] = "emitted code calls panic"
								crashPos[ri.Pkg+" "+em+" panic"] = p
							}
							// an allocation sized by a number the peer sends (Content-Length) panics or exhausts memory
							if id, ok := x.Fun.(*ast.Ident); ok && id.Name == "make" && len(x.Args) >= 2 {
								for _, sz := range x.Args[1:] {
									if strings.Contains(types.ExprString(sz), "ContentLength") {
										_, p := genFn(x.Pos())
										k := pkgShort(ri.Pkg) + " *" + ri.Suffix + ": allocation sized by the peer's Content-Length"
										crash[k] = "emitted code allocates " + holeFree(types.ExprString(x)) + ": the size is taken from a header the peer controls; an absurd value makes make panic (len out of range) or exhausts memory before a single byte was read, instead of the read failing with an error"
										crashPos[k] = p
									}
								}
							}
							match := ""
							for _, dcl := range decodeCallees {
								if fun == dcl || strings.HasPrefix(fun, dcl) || strings.HasSuffix(fun, "."+dcl) {
									match = fun
								}
							}
							if match == "" || !isDecoder {
								return true
							}
							kind := classifyByName(x, parents)
							em, p := genFn(x.Pos())
							key := pkgShort(ri.Pkg) + " " + ri.Suffix + " " + match
							_ = em
							if sites[key] == nil {
								sites[key] = &agg{kinds: map[string]int{}, pos: p}
							}
							sites[key].kinds[kind]++
						case *ast.TypeAssertExpr:
							if x.Type == nil {
								return true // type switch
							}
							okForm := false
							if as, ok := parents[x].(*ast.AssignStmt); ok && len(as.Lhs) == 2 && len(as.Rhs) == 1 {
								okForm = true
							}
							if vs, ok := parents[x].(*ast.ValueSpec); ok && len(vs.Names) == 2 {
								okForm = true
							}
							if !okForm {
								em, p := genFn(x.Pos())
								k := pkgShort(ri.Pkg) + " " + em + " type assertion " + holeFree(types.ExprString(x))
								crash[k] = "single-value type assertion panics when the dynamic type differs"
								crashPos[k] = p
							}
						case *ast.AssignStmt:
							// x, _ = CALL: the blank swallows an error unless CALL is one of the total encoders the emitters use
							if len(x.Lhs) >= 2 && len(x.Rhs) == 1 {
								if id, ok := x.Lhs[len(x.Lhs)-1].(*ast.Ident); ok && id.Name == "_" {
									if call, ok := x.Rhs[0].(*ast.CallExpr); ok {
										fun := holeFree(types.ExprString(call.Fun))
										if !(fun == "json.Marshal" && len(call.Args) == 1 && totalJSONArg(call.Args[0], fdecl)) && !strings.HasSuffix(fun, ".Write") {
											em, p := genFn(x.Pos())
											k := pkgShort(ri.Pkg) + " " + em + " discards the error of " + fun
											blank[k] = p
										} else {
											nBlankOK++
										}
									}
								}
							}
							// v, err := CALL ; first use of v must follow the err test
							if len(x.Lhs) == 2 && len(x.Rhs) == 1 && x.Tok == token.DEFINE {
								if _, isCall := x.Rhs[0].(*ast.CallExpr); !isCall {
									return true
								}
								v, ok1 := x.Lhs[0].(*ast.Ident)
								e, ok2 := x.Lhs[1].(*ast.Ident)
								if !ok1 || !ok2 || v.Name == "_" || !strings.Contains(strings.ToLower(e.Name), "err") {
									return true
								}
								var list []ast.Stmt
								if b, ok := parents[x].(*ast.BlockStmt); ok {
									list = b.List
								}
								tested := false
								after := false
								for _, st := range list {
									if st == ast.Stmt(x) {
										after = true
										continue
									}
									if !after {
										continue
									}
									if ifs, ok := st.(*ast.IfStmt); ok && strings.Contains(types.ExprString(ifs.Cond), e.Name+" != nil") && terminates(ifs.Body) {
										tested = true
										break
									}
									if ifs, ok := st.(*ast.IfStmt); ok && types.ExprString(ifs.Cond) == e.Name+" == nil" && ifs.Else == nil {
										// the value is used only inside the success arm
										usedOutside := false
										for _, later := range list {
											if later.Pos() > ifs.End() {
												ast.Inspect(later, func(m ast.Node) bool {
													if sel, ok := m.(*ast.SelectorExpr); ok {
														if id, ok := sel.X.(*ast.Ident); ok && id.Name == v.Name {
															usedOutside = true
														}
													}
													return true
												})
											}
										}
										if !usedOutside {
											tested = true
											break
										}
									}
									derefs := false
									ast.Inspect(st, func(m ast.Node) bool {
										if sel, ok := m.(*ast.SelectorExpr); ok {
											if id, ok := sel.X.(*ast.Ident); ok && id.Name == v.Name {
												derefs = true
											}
										}
										return true
									})
									if derefs && !tested {
										em, p := genFn(st.Pos())
										k := pkgShort(ri.Pkg) + " " + em + " uses " + v.Name + " before testing " + e.Name
										crash[k] = "the result of " + holeFree(types.ExprString(x.Rhs[0])) + " is dereferenced before its error is tested: a nil result panics"
										crashPos[k] = p
										break
									}
								}
							}
						case *ast.IndexExpr:
							bl, ok := x.Index.(*ast.BasicLit)
							if !ok || bl.Kind != token.INT {
								return true
							}
							base := types.ExprString(x.X)
							if !visiblySlice(fdecl, x.X) {
								return true
							}
							if !lenGuardedByName(parents, x, base) {
								em, p := genFn(x.Pos())
								k := pkgShort(ri.Pkg) + " " + em + " index " + holeFree(base) + "[" + bl.Value + "]"
								crash[k] = "constant index without a dominating length guard"
								crashPos[k] = p
							}
						}
						return true
					})
				}
			}
		}
	}
	r.Count("go_unit_variants_parsed", nVariants)
	r.Count("emitted_functions_walked", nFuncs)
	keys := make([]string, 0, len(sites))
	for k := range sites {
		keys = append(keys, k)
	}
	sort.Strings(keys)
	for _, k := range keys {
		a := sites[k]
		parts := strings.SplitN(k, " ", 3)
		em, callee := parts[1], parts[2]
		var bad []string
		for kind := range a.kinds {
			switch kind {
			case "propagated":
			case "success-arm-only":
				if _, ok := swallowExcused[em+" "+callee]; !ok {
					bad = append(bad, "only the success arm is handled: on a decode error the original token is passed on unchanged")
				}
			case "discarded":
				excused := false
				for pfx := range discardExcused {
					if strings.HasPrefix(callee, pfx) {
						excused = true
					}
				}
				if !excused {
					bad = append(bad, "the error is discarded")
				}
			default:
				bad = append(bad, "the error is assigned but not tested by a returning branch")
			}
		}
		sort.Strings(bad)
		r.CheckD(len(bad) == 0, "R11c", k, a.pos, "a decoding error is swallowed in emitted code: "+strings.Join(bad, "; "), map[string]any{"uses": a.kinds, "excuse": swallowExcused[em+" "+callee]})
	}
	for _, k := range sortedKeys(blank) {
		r.Bad("R11c", k, blank[k], "emitted code assigns the error result of a call that can fail to the blank identifier: the failure (for example an instant outside the representable range) is swallowed, the value becomes empty and the request or response is accepted without the field instead of being refused", nil)
	}
	r.OKd("R11c", "blank-assigned results in emitted Go come only from json.Marshal of total values and ResponseWriter.Write", "", map[string]any{"sites": nBlankOK, "other": len(blank)})
	for _, k := range sortedKeys(crash) {
		r.Bad("R11d", k, crashPos[k], crash[k], nil)
	}
	r.OKd("R11d", "emitted Go variants scanned for panic / bare assertion / unguarded index / use-before-error-test", "", map[string]any{"variants": nVariants, "functions": nFuncs, "findings": len(crash)})
	// typed runtime: same scan was name-based; additionally count guarded constructs as obligations
	nIdx := 0
	for name, f := range ep.Funcs {
		if f.Body == nil {
			continue
		}
		parents := parentMap(f.Body)
		ast.Inspect(f.Body, func(n ast.Node) bool {
			if ix, ok := n.(*ast.IndexExpr); ok {
				if bl, ok := ix.Index.(*ast.BasicLit); ok && bl.Kind == token.INT {
					nIdx++
					base := types.ExprString(ix.X)
					r.Check(lenGuardedByName(parents, ix, base), "R11d", fmt.Sprintf("runtime %s: %s[%s] is length-guarded", name, base, bl.Value), ep.GenPos(ix.Pos()), "constant index without a dominating length guard in the server runtime")
				}
			}
			return true
		})
	}
}

// visiblySlice: e is an identifier that the function declares as a slice (a
// parameter or var of type []T, or the result of strings.Split / FindStringSubmatch
// / a make([]T…)). Arrays, maps and selectors are not index-checked here.
func visiblySlice(fd *ast.FuncDecl, e ast.Expr) bool {
	id, ok := ast.Unparen(e).(*ast.Ident)
	if !ok {
		return false
	}
	isSliceType := func(t ast.Expr) bool {
		at, ok := t.(*ast.ArrayType)
		return ok && at.Len == nil
	}
	res := false
	for _, f := range fd.Type.Params.List {
		for _, n := range f.Names {
			if n.Name == id.Name && (isSliceType(f.Type)) {
				res = true
			}
		}
	}
	ast.Inspect(fd.Body, func(n ast.Node) bool {
		switch x := n.(type) {
		case *ast.ValueSpec:
			for _, nm := range x.Names {
				if nm.Name == id.Name && x.Type != nil && isSliceType(x.Type) {
					res = true
				}
			}
		case *ast.AssignStmt:
			for i, l := range x.Lhs {
				if li, ok := l.(*ast.Ident); ok && li.Name == id.Name && i < len(x.Rhs) {
					if call, ok := x.Rhs[i].(*ast.CallExpr); ok {
						fn := types.ExprString(call.Fun)
						if strings.HasPrefix(fn, "strings.Split") || strings.Contains(fn, "Submatch") || strings.HasSuffix(fn, ".GetElements") || fn == "strings.Fields" {
							res = true
						}
						if fn == "make" && len(call.Args) > 0 && isSliceType(call.Args[0]) {
							res = true
						}
					}
					if ix, ok := x.Rhs[i].(*ast.IndexExpr); ok {
						// values := query[param.QueryName]  (map of slices)
						_ = ix
						res = true
					}
				}
			}
		}
		return true
	})
	return res
}

func pkgShort(p string) string { return strings.TrimPrefix(p, "internal/") }

func qnameShort(f *types.Func) string {
	q := qname(f)
	if i := strings.LastIndex(q, "/"); i >= 0 {
		return q[i+1:]
	}
	return q
}

// impliedLen returns the lower bound on len(base) that cond establishes when
// it evaluates to `truth`.
func impliedLen(cond ast.Expr, base string, truth bool) int {
	cond = ast.Unparen(cond)
	switch x := cond.(type) {
	case *ast.UnaryExpr:
		if x.Op == token.NOT {
			return impliedLen(x.X, base, !truth)
		}
	case *ast.BinaryExpr:
		switch x.Op {
		case token.LAND:
			a, b := impliedLen(x.X, base, truth), impliedLen(x.Y, base, truth)
			if truth {
				return max(a, b)
			}
			return min(a, b)
		case token.LOR:
			a, b := impliedLen(x.X, base, truth), impliedLen(x.Y, base, truth)
			if truth {
				return min(a, b)
			}
			return max(a, b)
		}
		lenSide, numSide, op := x.X, x.Y, x.Op
		if types.ExprString(ast.Unparen(numSide)) == "len("+base+")" {
			lenSide, numSide = numSide, lenSide
			switch op {
			case token.LSS:
				op = token.GTR
			case token.GTR:
				op = token.LSS
			case token.LEQ:
				op = token.GEQ
			case token.GEQ:
				op = token.LEQ
			}
		}
		if types.ExprString(ast.Unparen(lenSide)) != "len("+base+")" {
			return 0
		}
		bl, ok := ast.Unparen(numSide).(*ast.BasicLit)
		if !ok || bl.Kind != token.INT {
			return 0
		}
		n := 0
		fmt.Sscanf(bl.Value, "%d", &n)
		if !truth {
			switch op { // negate
			case token.EQL:
				op = token.NEQ
			case token.NEQ:
				op = token.EQL
			case token.LSS:
				op = token.GEQ
			case token.LEQ:
				op = token.GTR
			case token.GTR:
				op = token.LEQ
			case token.GEQ:
				op = token.LSS
			}
		}
		switch op {
		case token.EQL, token.GEQ:
			return n
		case token.GTR:
			return n + 1
		case token.NEQ:
			if n == 0 {
				return 1
			}
		}
	}
	return 0
}

// lenGuardedByName: a dominating condition establishes len(base) > index
// (enclosing if / &&-left / ||-left / early exit / for condition).
func lenGuardedByName(parents map[ast.Node]ast.Node, at ast.Node, base string) bool {
	idx := 0
	if ix, ok := at.(*ast.IndexExpr); ok {
		if bl, ok := ix.Index.(*ast.BasicLit); ok {
			fmt.Sscanf(bl.Value, "%d", &idx)
		}
	}
	var child ast.Node = at
	for p := parents[at]; p != nil; child, p = p, parents[p] {
		switch x := p.(type) {
		case *ast.IfStmt:
			if x.Body == child && impliedLen(x.Cond, base, true) > idx {
				return true
			}
			if x.Else == child && impliedLen(x.Cond, base, false) > idx {
				return true
			}
		case *ast.BinaryExpr:
			if x.Op == token.LAND && x.Y == child && impliedLen(x.X, base, true) > idx {
				return true
			}
			if x.Op == token.LOR && x.Y == child && impliedLen(x.X, base, false) > idx {
				return true
			}
		case *ast.BlockStmt:
			for _, st := range x.List {
				if st == child || st.Pos() >= child.Pos() {
					break
				}
				if ifs, ok := st.(*ast.IfStmt); ok && ifs.Else == nil && terminates(ifs.Body) && impliedLen(ifs.Cond, base, false) > idx {
					return true
				}
			}
		case *ast.FuncLit, *ast.FuncDecl:
			return false
		}
	}
	return false
}

// totalJSONArg: json.Marshal cannot fail on the argument — a string/number produced by a formatter or accessor
// (t.Format(…), t.Unix(), strconv.Format*, EncodeToString, x.Field), a string literal, or a local declared as a
// slice/map of such values. A time.Time, an arbitrary struct or an interface value can fail (Time.MarshalJSON
// rejects years outside 0…9999) and must not have its error discarded.
func totalJSONArg(arg ast.Expr, fd *ast.FuncDecl) bool {
	switch x := ast.Unparen(arg).(type) {
	case *ast.BasicLit:
		return true
	case *ast.CallExpr:
		if sel, ok := x.Fun.(*ast.SelectorExpr); ok {
			switch sel.Sel.Name {
			case "Format", "Unix", "UnixMilli", "UnixMicro", "EncodeToString", "FormatInt", "FormatUint", "FormatFloat", "FormatBool", "Itoa", "String", "Quote":
				return true
			}
		}
		if id, ok := x.Fun.(*ast.Ident); ok && (id.Name == "string" || id.Name == "int64" || id.Name == "float64") {
			return true
		}
		return false
	case *ast.SelectorExpr:
		// x.Field: a scalar field of the message (the emitters apply this to 64-bit integer fields)
		if id, ok := x.X.(*ast.Ident); ok && id.Name == "x" {
			return true
		}
		return false
	case *ast.Ident:
		// a local declared as []T / map[K]V / string in this function
		okDecl := false
		ast.Inspect(fd.Body, func(n ast.Node) bool {
			switch d := n.(type) {
			case *ast.DeclStmt:
				if gd, ok := d.Decl.(*ast.GenDecl); ok {
					for _, sp := range gd.Specs {
						if vs, ok := sp.(*ast.ValueSpec); ok {
							for _, nm := range vs.Names {
								if nm.Name == x.Name {
									switch t := vs.Type.(type) {
									case *ast.ArrayType, *ast.MapType:
										okDecl = true
									case *ast.Ident:
										okDecl = t.Name == "string" || strings.HasPrefix(t.Name, "int") || strings.HasPrefix(t.Name, "uint") || t.Name == "bool"
									}
								}
							}
						}
					}
				}
			case *ast.AssignStmt:
				if d.Tok == token.DEFINE && len(d.Rhs) == 1 {
					for _, l := range d.Lhs {
						if lid, ok := l.(*ast.Ident); ok && lid.Name == x.Name {
							if call, ok := d.Rhs[0].(*ast.CallExpr); ok {
								if f, ok := call.Fun.(*ast.Ident); ok && f.Name == "make" && len(call.Args) > 0 {
									switch call.Args[0].(type) {
									case *ast.ArrayType, *ast.MapType:
										okDecl = true
									}
								}
							}
						}
					}
				}
			}
			return true
		})
		return okDecl
	}
	return false
}

// bodyDecodeGuard — R11f. Every condition that guards the call of the body decoder inside the per-request handler of
// BindingMiddleware may refer to registration-time values only (the verb parameter, constants). A condition that
// reads the request (r.ContentLength, r.Header, r.Body == nil …) lets some framing of a malformed body skip the decoder:
// the zero request is then validated and dispatched and the caller gets 200 instead of 400.
func bodyDecodeGuard(c *Ctx, ep *EmittedPkg, rid string) {
	r := c.R
	fd, lit := middlewareLit(ep)
	if fd == nil || lit == nil {
		r.Unres(rid, "BindingMiddleware handler literal", "", "not found")
		return
	}
	// objects declared inside the handler literal (its parameters and locals) are per-request values
	// a local of the handler whose only definition is computed from registration-time values is itself one
	defsOf := map[types.Object][]ast.Expr{}
	ast.Inspect(lit.Body, func(nd ast.Node) bool {
		if as, ok := nd.(*ast.AssignStmt); ok {
			for i, l := range as.Lhs {
				if id, ok := l.(*ast.Ident); ok {
					if o := ep.Info.ObjectOf(id); o != nil {
						if len(as.Lhs) == len(as.Rhs) {
							defsOf[o] = append(defsOf[o], as.Rhs[i])
						} else {
							defsOf[o] = append(defsOf[o], as.Rhs...)
						}
					}
				}
			}
		}
		return true
	})
	var perRequest func(o types.Object, depth int) bool
	perRequest = func(o types.Object, depth int) bool {
		if o == nil || !(o.Pos() >= lit.Pos() && o.Pos() <= lit.End()) {
			return false
		}
		ds := defsOf[o]
		if len(ds) != 1 || depth > 4 {
			return true // a parameter of the handler (r, w), or a local assigned more than once
		}
		dep := false
		ast.Inspect(ds[0], func(m ast.Node) bool {
			if id, ok := m.(*ast.Ident); ok {
				if v, isVar := ep.Info.Uses[id].(*types.Var); isVar && perRequest(v, depth+1) {
					dep = true
				}
			}
			return !dep
		})
		return dep
	}
	var stack []ast.Node
	n := 0
	ast.Inspect(lit.Body, func(nd ast.Node) bool {
		if nd == nil {
			stack = stack[:len(stack)-1]
			return true
		}
		stack = append(stack, nd)
		call, ok := nd.(*ast.CallExpr)
		if !ok {
			return true
		}
		f := ep.CalleeOf(call)
		if f == nil || ep.RecName(f) != "bindDataBasedOnContentType" {
			return true
		}
		n++
		var bad []string
		var bpos token.Pos
		for i := len(stack) - 2; i >= 0; i-- {
			var conds []ast.Expr
			switch x := stack[i].(type) {
			case *ast.IfStmt:
				// the call lies in the body or the else arm: the condition decides either way; a call inside the
				// condition/init itself is not guarded by it
				if i+1 < len(stack) && (stack[i+1] == ast.Node(x.Body) || (x.Else != nil && stack[i+1] == ast.Node(x.Else))) {
					conds = append(conds, x.Cond)
				}
			case *ast.CaseClause:
				conds = append(conds, x.List...)
				if i >= 2 {
					if sw, ok := stack[i-2].(*ast.SwitchStmt); ok && sw.Tag != nil {
						conds = append(conds, sw.Tag)
					}
				}
			}
			for _, cnd := range conds {
				ast.Inspect(cnd, func(m ast.Node) bool {
					if id, ok := m.(*ast.Ident); ok {
						if o := ep.Info.Uses[id]; perRequest(o, 0) {
							if _, isVar := o.(*types.Var); isVar {
								bad = append(bad, ep.Text(cnd))
								if bpos == token.NoPos {
									bpos = cnd.Pos()
								}
								return false
							}
						}
					}
					return true
				})
			}
		}
		// early exits ahead of the call that depend on the request and skip the decoder without an error response are
		// covered by R11a/R02b (every dispatching path passes the binder); here only the guards around the call
		pos := ep.GenPos(call.Pos())
		if bpos != token.NoPos {
			pos = ep.GenPos(bpos)
		}
		r.Check(len(bad) == 0, rid, "the guards around the body decoder in BindingMiddleware read registration-time values only", pos,
			"the body decoder is called only under "+strings.Join(dedupeSorted(bad), " and ")+", a property of the individual request: a request framed so that the condition is false (chunked transfer: ContentLength is -1) carries a body that is never decoded — malformed bytes are ignored, the zero request is dispatched and answered with 200")
		return true
	})
	if n == 0 {
		r.Unres(rid, "call of bindDataBasedOnContentType in the handler literal", ep.GenPos(lit.Pos()), "not found")
	}
}
