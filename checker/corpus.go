package main

// corpus.go — concrete descriptor files, one family per codec feature, on which
// the unit emitters of both Go plugins are interpreted (walker in concrete mode,
// nothing is executed). Each file has: an annotated top-level message; an
// un-annotated parent with an annotated nested message (declared first, so a
// collector that stops at un-annotated parents misses it); an annotated parent
// with an annotated nested message; an un-annotated bystander.

import (
	"fmt"
	"go/ast"
	"go/types"
	"regexp"
	"strings"
)

func enumConst(label string, n int64) Val { return VInt{N: n, Label: label} }

func tsField(name string) *cField {
	ts := cMessage("Timestamp", fld("seconds", "int64"), fld("nanos", "int32"))
	ts.Fields["Desc"].(*VStruct).Fields["FullName()"] = constStr("google.protobuf.Timestamp")
	return fld(name, "message").msg(ts)
}

type corpusFile struct {
	Name string
	File *VStruct
}

// featureField returns annotated field(s) of the feature, numbered to keep names distinct.
func corpusFeatureFields(suffix string, n int) []*cField {
	p := fmt.Sprintf("f%d_", n)
	switch suffix {
	case "_encoding.pb.go":
		num := enumConst("Int64Encoding_INT64_ENCODING_NUMBER", 2)
		str := enumConst("Int64Encoding_INT64_ENCODING_STRING", 1)
		return []*cField{fld(p+"count", "int64").ann("GetInt64Encoding", num), fld(p+"total", "uint64").ann("GetInt64Encoding", num),
			fld(p+"ids", "sint64").list().ann("GetInt64Encoding", num), fld(p+"sizes", "fixed64").list().ann("GetInt64Encoding", num),
			fld(p+"as_text", "int64").ann("GetInt64Encoding", str), fld(p+"plain", "int64"),
			// the annotation on kinds it does not apply to (accepted and ignored by both plugins)
			fld(p+"small", "uint32").ann("GetInt64Encoding", num), fld(p+"counters", "message").mapf().ann("GetInt64Encoding", num)}
	case "_nullable.pb.go":
		a := fld(p+"nick", "string").ann("IsNullableField", VBool{B: true})
		a.Opt = true
		b := fld(p+"age", "int32").ann("IsNullableField", VBool{B: true})
		b.Opt = true
		c := fld(p+"other", "string")
		c.Opt = true
		return []*cField{a, b, c}
	case "_empty_behavior.pb.go":
		part := func() *VStruct { return cMessage("Part", fld("v", "string")) }
		return []*cField{fld(p+"a", "message").msg(part()).ann("GetEmptyBehavior", enumConst("EmptyBehavior_EMPTY_BEHAVIOR_NULL", 2)),
			fld(p+"b", "message").msg(part()).ann("GetEmptyBehavior", enumConst("EmptyBehavior_EMPTY_BEHAVIOR_OMIT", 3)),
			fld(p+"c", "message").msg(part()).ann("GetEmptyBehavior", enumConst("EmptyBehavior_EMPTY_BEHAVIOR_PRESERVE", 1)),
			fld(p+"d", "message").msg(part())}
	case "_timestamp_format.pb.go":
		return []*cField{tsField(p+"created").ann("GetTimestampFormat", enumConst("TimestampFormat_TIMESTAMP_FORMAT_UNIX_SECONDS", 2)),
			tsField(p+"updated").ann("GetTimestampFormat", enumConst("TimestampFormat_TIMESTAMP_FORMAT_UNIX_MILLIS", 3)),
			tsField(p+"day").ann("GetTimestampFormat", enumConst("TimestampFormat_TIMESTAMP_FORMAT_DATE", 4)),
			tsField(p+"rfc").ann("GetTimestampFormat", enumConst("TimestampFormat_TIMESTAMP_FORMAT_RFC3339", 1)), tsField(p + "plain")}
	case "_bytes_encoding.pb.go":
		return []*cField{fld(p+"hex", "bytes").ann("GetBytesEncoding", enumConst("BytesEncoding_BYTES_ENCODING_HEX", 5)),
			fld(p+"raw", "bytes").ann("GetBytesEncoding", enumConst("BytesEncoding_BYTES_ENCODING_BASE64_RAW", 2)),
			fld(p+"url", "bytes").ann("GetBytesEncoding", enumConst("BytesEncoding_BYTES_ENCODING_BASE64URL", 3)),
			fld(p+"urlraw", "bytes").ann("GetBytesEncoding", enumConst("BytesEncoding_BYTES_ENCODING_BASE64URL_RAW", 4)),
			fld(p+"std", "bytes").ann("GetBytesEncoding", enumConst("BytesEncoding_BYTES_ENCODING_BASE64", 1)), fld(p+"plain", "bytes")}
	case "_flatten.pb.go":
		return []*cField{fld(p+"addr", "message").msg(cMessage("Addr", fld("street", "string"), fld("zip_code", "string"))).ann("IsFlattenField", VBool{B: true}).ann("GetFlattenPrefix", constStr(p)),
			fld(p+"geo", "message").msg(cMessage("Geo", fld("lat", "double"))).ann("IsFlattenField", VBool{B: true}), fld(p+"label", "string"),
			// a flattened field declared `optional` (member of a synthetic oneof)
			func() *cField {
				f := fld(p+"dest", "message").msg(cMessage("Dest", fld("city", "string"))).ann("IsFlattenField", VBool{B: true}).ann("GetFlattenPrefix", constStr(p+"dest_"))
				f.Opt = true
				return f
			}()}
	}
	return nil
}

func corpusFor(suffix string) []corpusFile {
	switch suffix {
	case "_enum_encoding.pb.go":
		prio := cEnum("Task_Priority", "pkg.Task.Priority", cEnumValue{"PRIORITY_LOW", "low"}, cEnumValue{"PRIORITY_MEDIUM", ""}, cEnumValue{"PRIORITY_HIGH", "high"})
		kind2 := cEnum("Shipment_Leg_Priority", "pkg.Shipment.Leg.Priority", cEnumValue{"EXPRESS", "x"}, cEnumValue{"STANDARD", ""})
		top := cEnum("Color", "pkg.Color", cEnumValue{"COLOR_RED", "red"}, cEnumValue{"COLOR_BLUE", ""})
		plain := cEnum("Plain", "pkg.Plain", cEnumValue{"PLAIN_A", ""}, cEnumValue{"PLAIN_B", ""})
		// custom strings with characters a Go string literal must escape (both plugins must spell them alike)
		delim := cEnum("Delimiter", "pkg.Delimiter", cEnumValue{"DELIMITER_TAB", "a\tb"}, cEnumValue{"DELIMITER_BACKSLASH", "x\\y"}, cEnumValue{"DELIMITER_QUOTE", "q\"r"}, cEnumValue{"DELIMITER_NONE", ""})
		task := nest(cMessage("Task", fld("id", "string")), nil, []*VStruct{prio})
		ship := nest(cMessage("Shipment", fld("id", "string")), []*VStruct{nest(cMessage("Shipment_Leg", fld("n", "int32")), nil, []*VStruct{kind2})}, nil)
		return []corpusFile{{"enums: partially annotated, nested, same short name, custom strings needing escapes", cFile([]*VStruct{task, ship}, []*VStruct{top, plain, delim}, nil)}}
	case "_oneof_discriminator.pb.go":
		var out []corpusFile
		for _, flat := range []bool{false, true} {
			mk := func(name string) *VStruct {
				a := fld("text", "message").msg(cMessage("TextContent", fld("body", "string")))
				b := fld("image_ref", "message").msg(cMessage("ImageContent", fld("url", "string"), fld("alt_text", "string"))).ann("GetOneofVariantValue", constStr("img"))
				m := cMessage(name, fld("id", "string"), a, b)
				o := cOneof(m, "content", a, b)
				o.Fields["@GetOneofConfig"] = oneofConfig("kind", flat)
				return m
			}
			plainParent := nest(cMessage("Envelope", fld("id", "string")), []*VStruct{mk("Envelope_Inner")}, nil)
			annParent := nest(mk("Outer"), []*VStruct{mk("Outer_Inner")}, nil)
			out = append(out, corpusFile{fmt.Sprintf("discriminated oneofs (flatten=%v): top-level, nested under plain and annotated parents", flat),
				cFile([]*VStruct{plainParent, mk("Event"), annParent, cMessage("Bystander", fld("x", "string"))}, nil, nil)})
		}
		return out
	}
	if corpusFeatureFields(suffix, 0) == nil {
		return nil
	}
	n := 0
	mk := func(name string) *VStruct {
		n++
		fs := append([]*cField{fld("id", "string")}, corpusFeatureFields(suffix, n)...)
		return cMessage(name, fs...)
	}
	plainParent := nest(cMessage("Envelope", fld("id", "string")), []*VStruct{mk("Envelope_Inner")}, nil)
	annParent := nest(mk("Outer"), []*VStruct{mk("Outer_Inner")}, nil)
	return []corpusFile{{"annotated messages: top-level, nested under plain and annotated parents, bystander",
		cFile([]*VStruct{plainParent, mk("Top"), annParent, cMessage("Bystander", fld("x", "string"))}, nil, nil)}}
}

// corpusDumpMain: debugging aid — `sebufcheck corpusdump [-repo R] [suffix] [-show]`.
func corpusDumpMain(args []string) {
	repo := "/repo"
	show := false
	var sufs []string
	for i := 0; i < len(args); i++ {
		switch {
		case args[i] == "-repo" && i+1 < len(args):
			repo = args[i+1]
			i++
		case args[i] == "-show":
			show = true
		default:
			sufs = append(sufs, args[i])
		}
	}
	p, err := LoadRepo(repo)
	if err != nil {
		fmt.Println("LOAD ERROR", err)
		return
	}
	c := &Ctx{P: p, W: NewWalker(p), Tier: "quick", R: NewReport("CORPUS", "quick"), exps: map[string]*Exploration{}}
	if len(sufs) == 0 {
		sufs = []string{"_encoding.pb.go", "_enum_encoding.pb.go", "_nullable.pb.go", "_empty_behavior.pb.go", "_timestamp_format.pb.go", "_bytes_encoding.pb.go", "_flatten.pb.go", "_oneof_discriminator.pb.go"}
	}
	for _, suf := range sufs {
		for _, cf := range corpusFor(suf) {
			for _, pkg := range []string{pkgHTTP, pkgClient} {
				units, _, prob := c.runUnitConcrete(pkg, suf, cf.File)
				fmt.Printf("CORPUS %s %s [%s]: units=%d lines=%d problem=%q\n", pkgShort(pkg), suf, cf.Name, len(units), len(unitLines(units)), prob)
				if show {
					for _, l := range unitLines(units) {
						fmt.Println("   |" + l)
					}
				}
			}
		}
	}
}

// flattenedArmsSetOneof: on the corpus file with flattened discriminated oneofs, every `case "<value>":` arm of the
// emitted decoder's discriminator switch sets the oneof at the top level of the arm (not under a condition on
// the presence of variant keys): the discriminator alone selects a variant, also one whose fields are all
// default or that has no fields.
func flattenedArmsSetOneof(c *Ctx, rid string) {
	r := c.R
	for _, pkg := range []string{pkgHTTP, pkgClient} {
		for _, cf := range corpusFor("_oneof_discriminator.pb.go") {
			units, pos, prob := c.runUnitConcrete(pkg, "_oneof_discriminator.pb.go", cf.File)
			name := pkgShort(pkg) + " *_oneof_discriminator.pb.go on " + cf.Name
			if prob != "" || len(units) == 0 {
				r.Undec(rid, name, pos, "unit does not evaluate on the corpus file: "+prob)
				continue
			}
			fset, f, err := ParseUnit(units[0])
			if err != nil {
				r.Undec(rid, name, pos, "reconstructed unit does not parse: "+err.Error())
				continue
			}
			_ = fset
			arms, bad := 0, []string{}
			for _, d := range f.Decls {
				fd, ok := d.(*ast.FuncDecl)
				if !ok || fd.Body == nil || fd.Name.Name != "UnmarshalJSON" {
					continue
				}
				ast.Inspect(fd.Body, func(n ast.Node) bool {
					sw, ok := n.(*ast.SwitchStmt)
					if !ok || sw.Tag == nil || types.ExprString(sw.Tag) != "disc" {
						return true
					}
					for _, st := range sw.Body.List {
						cc := st.(*ast.CaseClause)
						if len(cc.List) == 0 {
							continue
						}
						// message variants: the arm decodes something (it is not an empty arm for a scalar variant)
						if len(cc.Body) == 0 {
							continue
						}
						arms++
						set := false
						for _, s2 := range cc.Body {
							if as, ok := s2.(*ast.AssignStmt); ok {
								for _, l := range as.Lhs {
									if strings.HasPrefix(types.ExprString(l), "x.") {
										set = true
									}
								}
							}
							// the non-flattened arm reads its variant under `if variantRaw, exists := raw[…]; exists {`: the
							// variant is on the wire under its own key there, absence of the key means absence of the variant
							if ifs, ok := s2.(*ast.IfStmt); ok && ifs.Init != nil {
								ia, ok := ifs.Init.(*ast.AssignStmt)
								if ok && len(ia.Lhs) == 2 && len(ia.Rhs) == 1 && types.ExprString(ifs.Cond) == types.ExprString(ia.Lhs[1]) {
									_, ok = ia.Rhs[0].(*ast.IndexExpr)
								} else {
									ok = false
								}
								if ok {
									ast.Inspect(ifs.Body, func(m ast.Node) bool {
										if as, ok := m.(*ast.AssignStmt); ok {
											for _, l := range as.Lhs {
												if strings.HasPrefix(types.ExprString(l), "x.") {
													set = true
												}
											}
										}
										return true
									})
								}
							}
						}
						if !set {
							bad = append(bad, fd.Recv.List[0].Type.(*ast.StarExpr).X.(*ast.Ident).Name+" case "+types.ExprString(cc.List[0]))
						}
					}
					return true
				})
			}
			r.Check(len(bad) == 0 && arms > 0, rid, name+": every variant arm of the decoder sets the oneof", pos,
				fmt.Sprintf("%d arm(s) do not set the oneof unconditionally (%v): a body that carries the discriminator but none of the variant's own keys — which is what the encoder writes for a variant whose fields are all default — decodes to an unset oneof", len(bad), bad))
		}
	}
}

// timestampDecoderPrecision: the emitted timestamp_format decoders turn the wire value back into an RFC 3339
// string for protojson; the layout must keep sub-second digits (time.RFC3339Nano), otherwise a UNIX_MILLIS value
// loses its milliseconds on every decode.
func timestampDecoderPrecision(c *Ctx, rid string) {
	r := c.R
	reFmt := regexp.MustCompile(`\.Format\(([^)]*)\)`)
	for _, pkg := range []string{pkgHTTP, pkgClient} {
		for _, cf := range corpusFor("_timestamp_format.pb.go") {
			units, pos, prob := c.runUnitConcrete(pkg, "_timestamp_format.pb.go", cf.File)
			name := pkgShort(pkg) + " *_timestamp_format.pb.go"
			if prob != "" || len(units) == 0 {
				r.Undec(rid, name, pos, "unit does not evaluate on the corpus file: "+prob)
				continue
			}
			dir := ""
			n := 0
			var bad []string
			for _, l := range unitLines(units) {
				if strings.HasPrefix(l, "func (x ") {
					dir = ""
					if strings.Contains(l, "UnmarshalJSON(") {
						dir = "dec"
					}
				}
				if dir != "dec" {
					continue
				}
				for _, m := range reFmt.FindAllStringSubmatch(l, -1) {
					n++
					if m[1] != "time.RFC3339Nano" {
						bad = append(bad, strings.TrimSpace(l))
					}
				}
			}
			r.Check(len(bad) == 0 && n >= 3, rid, name+": decoders re-encode instants with sub-second precision", pos,
				fmt.Sprintf("the emitted decoder formats the decoded instant with a layout that drops fractional seconds (%d of %d sites, e.g. %q): a UNIX_MILLIS value such as 1700000000123 reaches the handler (and the caller) as 1700000000000", len(bad), n, firstOf(bad)))
		}
	}
}

func firstOf(xs []string) string {
	if len(xs) == 0 {
		return ""
	}
	return xs[0]
}

// formatArmsSymmetric: on the corpus files of timestamp_format, bytes_encoding and int64_encoding, the set of
// keys the emitted encoder rewrites equals the set of keys the emitted decoder converts back, per message, and is
// exactly the set of fields annotated with a non-default constant (whatever way the emitters select the arm:
// switch, lookup table, helper).
func formatArmsSymmetric(c *Ctx, rid string) {
	r := c.R
	// a key is converted where it is assigned (raw["k"] = … / raw["k"], _ = …), not where it is merely read
	reKey := regexp.MustCompile(`raw\["([^"]+)"\](?:, _)? =[^=]`)
	expect := map[string][]string{
		"_timestamp_format.pb.go": {"Created", "Updated", "Day"},
		"_bytes_encoding.pb.go":   {"Hex", "Raw", "Url", "Urlraw"},
		"_encoding.pb.go":         {"Count", "Total", "Ids", "Sizes"},
	}
	for _, pkg := range []string{pkgHTTP, pkgClient} {
		for _, suf := range []string{"_timestamp_format.pb.go", "_bytes_encoding.pb.go", "_encoding.pb.go"} {
			for _, cf := range corpusFor(suf) {
				units, pos, prob := c.runUnitConcrete(pkg, suf, cf.File)
				name := pkgShort(pkg) + " *" + suf
				if prob != "" || len(units) == 0 {
					r.Undec(rid, name, pos, "unit does not evaluate on the corpus file: "+prob)
					continue
				}
				enc, dec := map[string]map[string]bool{}, map[string]map[string]bool{}
				msg, dir := "", ""
				reRecv := regexp.MustCompile(`^func \(x \*(\w+)\) (MarshalJSON|UnmarshalJSON)\(`)
				for _, l := range unitLines(units) {
					if m := reRecv.FindStringSubmatch(l); m != nil {
						msg, dir = m[1], m[2]
						if enc[msg] == nil {
							enc[msg], dec[msg] = map[string]bool{}, map[string]bool{}
						}
						continue
					}
					if strings.HasPrefix(l, "func ") {
						dir = ""
					}
					for _, m := range reKey.FindAllStringSubmatch(l, -1) {
						switch dir {
						case "MarshalJSON":
							enc[msg][m[1]] = true
						case "UnmarshalJSON":
							dec[msg][m[1]] = true
						}
					}
				}
				var bad []string
				for _, m := range sortedKeys(enc) {
					a, b := sortedKeys(enc[m]), sortedKeys(dec[m])
					if strings.Join(a, ",") != strings.Join(b, ",") {
						bad = append(bad, fmt.Sprintf("%s: the encoder rewrites %v, the decoder converts back %v", m, a, b))
					}
					// exactly the annotated, non-default fields
					var wantKeys []string
					for k := range enc[m] {
						_ = k
					}
					n := 0
					for _, k := range a {
						for _, e := range expect[suf] {
							if strings.HasSuffix(k, e) {
								n++
							}
						}
					}
					if n != len(expect[suf]) || len(a) != len(expect[suf]) {
						bad = append(bad, fmt.Sprintf("%s: the encoder rewrites %v; the fields annotated with a non-default constant end in %v", m, a, expect[suf]))
					}
					_ = wantKeys
				}
				if len(enc) < 4 {
					bad = append(bad, fmt.Sprintf("only %d of the 4 annotated corpus messages have a codec", len(enc)))
				}
				r.Check(len(bad) == 0, rid, name+": encoder and decoder convert the same keys (the fields with a non-default constant)", pos, strings.Join(bad, "; "))
			}
		}
	}
}

// timestampEncoderUTC: an emitted encoder that formats an instant with a layout (DATE: "2006-01-02") does so in
// UTC — the value comes from AsTime() (UTC by definition) or is converted with .UTC(); time.Unix(…) alone is in the
// process's local zone, and the decoder parses the date as UTC midnight.
func timestampEncoderUTC(c *Ctx, rid string) {
	r := c.R
	reDef := regexp.MustCompile(`^\s*(\w+) := (.+)$`)
	reFmt := regexp.MustCompile(`(\w+)\.Format\(`)
	for _, pkg := range []string{pkgHTTP, pkgClient} {
		for _, cf := range corpusFor("_timestamp_format.pb.go") {
			units, pos, prob := c.runUnitConcrete(pkg, "_timestamp_format.pb.go", cf.File)
			name := pkgShort(pkg) + " *_timestamp_format.pb.go"
			if prob != "" || len(units) == 0 {
				r.Undec(rid, name, pos, "unit does not evaluate on the corpus file: "+prob)
				continue
			}
			dir := ""
			defs := map[string]string{}
			n := 0
			var bad []string
			for _, l := range unitLines(units) {
				if strings.HasPrefix(l, "func (x ") {
					dir = ""
					defs = map[string]string{}
					if strings.Contains(l, "MarshalJSON()") {
						dir = "enc"
					}
				}
				if dir != "enc" {
					continue
				}
				if m := reDef.FindStringSubmatch(l); m != nil {
					defs[m[1]] = strings.TrimSpace(m[2])
				}
				for _, m := range reFmt.FindAllStringSubmatch(l, -1) {
					n++
					d := defs[m[1]]
					if !(strings.HasSuffix(d, ".AsTime()") || strings.HasSuffix(d, ".UTC()") || strings.HasSuffix(d, ".In(time.UTC)")) {
						bad = append(bad, fmt.Sprintf("%s := %s; %s", m[1], d, strings.TrimSpace(l)))
					}
				}
			}
			r.Check(len(bad) == 0 && n >= 1, rid, name+": encoders format instants in UTC", pos,
				fmt.Sprintf("the emitted encoder formats an instant that is not in UTC (%d of %d sites, e.g. %q): in a process whose local zone is not UTC a DATE value near midnight is written as the neighbouring day, and the decoder reads it as UTC midnight of that day", len(bad), n, firstOf(bad)))
		}
	}
}
