#!/usr/bin/env python3-vt
"""Validate MANIFEST.json and evidence files against the harness schemas."""
import json, sys, glob, jsonschema
ms = json.load(open('/root/.vp/MANIFEST.schema.json'))
es = json.load(open('/root/.vp/EVIDENCE.schema.json'))
ok = True
try:
    jsonschema.validate(json.load(open('/verif/MANIFEST.json')), ms)
    print('MANIFEST ok')
except Exception as e:
    ok = False; print('MANIFEST INVALID', str(e)[:300])
for f in sorted(glob.glob('/verif/evidence/C*.json')):
    try:
        jsonschema.validate(json.load(open(f)), es)
    except Exception as e:
        ok = False; print(f, 'INVALID', str(e)[:300])
print('evidence files checked:', len(glob.glob('/verif/evidence/C*.json')))
sys.exit(0 if ok else 1)
