package main

// cdesc.go — concrete descriptor scenarios for message-level validators.
//
// The field-level predicates are decided exhaustively over the shape domain
// (E5). Message-level validators (collision maps, path/query/body coverage,
// oneof rules) relate several fields of one message; they are evaluated here by
// the walker in "concrete" mode on small hand-built descriptor values: structs
// standing for *protogen.Message / Field / Oneof / Method / Service whose
// descriptor methods and annotation accessors are answered from the value
// (CallHook), with maps, errors and slices modelled as values. Nothing is
// executed; the validator's syntax tree is interpreted. Each scenario states a
// documented rule instance and the verdict the rule demands.

import (
	"fmt"
	"go/types"
	"strings"
)

var cdescID = -1

func cstruct(name string, fields map[string]Val) *VStruct {
	cdescID--
	return &VStruct{Name: name, Fields: fields, id: cdescID, Concrete: true}
}

var kindNum = map[string]int64{"double": 1, "float": 2, "int64": 3, "uint64": 4, "int32": 5, "fixed64": 6, "fixed32": 7, "bool": 8, "string": 9, "group": 10,
	"message": 11, "bytes": 12, "uint32": 13, "enum": 14, "sfixed32": 15, "sfixed64": 16, "sint32": 17, "sint64": 18}

var kindLabel = map[string]string{"double": "DoubleKind", "float": "FloatKind", "int64": "Int64Kind", "uint64": "Uint64Kind", "int32": "Int32Kind", "fixed64": "Fixed64Kind",
	"fixed32": "Fixed32Kind", "bool": "BoolKind", "string": "StringKind", "group": "GroupKind", "message": "MessageKind", "bytes": "BytesKind", "uint32": "Uint32Kind", "enum": "EnumKind",
	"sfixed32": "Sfixed32Kind", "sfixed64": "Sfixed64Kind", "sint32": "Sint32Kind", "sint64": "Sint64Kind"}

type cField struct {
	Name, JSON, Kind string
	List, Map, Opt   bool
	Msg              *VStruct
	Ann              map[string]Val // "@IsFlattenField": VBool…, answered to annotations accessors
	v                *VStruct
}

func snakeToCamelJSON(s string) string {
	parts := strings.Split(s, "_")
	for i := 1; i < len(parts); i++ {
		if parts[i] != "" {
			parts[i] = strings.ToUpper(parts[i][:1]) + parts[i][1:]
		}
	}
	return strings.Join(parts, "")
}

func (f *cField) val() *VStruct {
	if f.v != nil {
		return f.v
	}
	if f.JSON == "" {
		f.JSON = snakeToCamelJSON(f.Name)
	}
	desc := cstruct("FieldDesc", map[string]Val{
		"Name()": constStr(f.Name), "JSONName()": constStr(f.JSON), "IsList()": VBool{B: f.List}, "IsMap()": VBool{B: f.Map},
		"HasOptionalKeyword()": VBool{B: f.Opt}, "Kind()": VInt{N: kindNum[f.Kind], Label: kindLabel[f.Kind]},
		"HasPresence()": VBool{B: f.Opt || f.Kind == "message"}, "Options()": VNil{},
	})
	var msg Val = VNil{}
	if f.Msg != nil {
		msg = f.Msg
	}
	fields := map[string]Val{"Desc": desc, "Message": msg, "Enum": VNil{}, "Oneof": VNil{}, "GoName": constStr(strings.Title(snakeToCamelJSON(f.Name))),
		"Comments": cstruct("CommentSet", map[string]Val{"Leading": constStr("")})}
	for k, v := range f.Ann {
		fields[k] = v
	}
	f.v = cstruct("Field", fields)
	return f.v
}

func cMessage(name string, fields ...*cField) *VStruct {
	fl := VList{Key: "fields", Elems: []Val{}}
	for _, f := range fields {
		fl.Elems = append(fl.Elems, f.val())
	}
	desc := cstruct("MessageDesc", map[string]Val{"Name()": constStr(name), "FullName()": constStr("pkg." + name), "IsMapEntry()": VBool{}})
	// protogen: a proto3 `optional` field is the only member of a synthetic oneof, listed in Message.Oneofs
	ofs := VList{Key: "oneofs", Elems: []Val{}}
	for _, f := range fields {
		if f.Opt && !f.List && !f.Map {
			if _, has := f.val().Fields["Oneof"].(*VStruct); !has {
				o := cstruct("Oneof", map[string]Val{"Desc": cstruct("OneofDesc", map[string]Val{"Name()": constStr("_" + f.Name), "IsSynthetic()": VBool{B: true}}), "GoName": constStr("X_" + strings.Title(snakeToCamelJSON(f.Name))),
					"Fields": VList{Key: "ofields", Elems: []Val{f.val()}}})
				f.val().Fields["Oneof"] = o
				ofs.Elems = append(ofs.Elems, o)
			}
		}
	}
	return cstruct("Message", map[string]Val{"Fields": fl, "Oneofs": ofs, "Messages": VList{Key: "msgs", Elems: []Val{}}, "Enums": VList{Key: "enums", Elems: []Val{}}, "Desc": desc,
		"GoIdent": cstruct("GoIdent", map[string]Val{"GoName": constStr(name)}), "Comments": cstruct("CommentSet", map[string]Val{"Leading": constStr("")})})
}

// cOneof groups fields of msg into a oneof (real, not synthetic).
func cOneof(msg *VStruct, name string, members ...*cField) *VStruct {
	ml := VList{Key: "ofields", Elems: []Val{}}
	o := cstruct("Oneof", map[string]Val{"Desc": cstruct("OneofDesc", map[string]Val{"Name()": constStr(name), "IsSynthetic()": VBool{}}), "GoName": constStr(strings.Title(name))})
	for _, m := range members {
		m.val().Fields["Oneof"] = o
		ml.Elems = append(ml.Elems, m.val())
	}
	o.Fields["Fields"] = ml
	ol := msg.Fields["Oneofs"].(VList)
	ol.Elems = append(ol.Elems, o)
	msg.Fields["Oneofs"] = ol
	return o
}

func cMethod(name string, in, out *VStruct, ann map[string]Val) *VStruct {
	f := map[string]Val{"Input": in, "Output": out, "GoName": constStr(name), "Desc": cstruct("MethodDesc", map[string]Val{"Name()": constStr(name)})}
	for k, v := range ann {
		f[k] = v
	}
	return cstruct("Method", f)
}

func cService(name string, methods ...*VStruct) *VStruct {
	ml := VList{Key: "methods", Elems: []Val{}}
	for _, m := range methods {
		ml.Elems = append(ml.Elems, m)
	}
	return cstruct("Service", map[string]Val{"Methods": ml, "GoName": constStr(name), "Desc": cstruct("ServiceDesc", map[string]Val{"Name()": constStr(name)})})
}

func cHTTPConfig(path, method string) *VStruct {
	ps := VList{Key: "pp", Elems: []Val{}}
	for _, m := range c03ParamRe.FindAllStringSubmatch(path, -1) {
		ps.Elems = append(ps.Elems, constStr(m[1]))
	}
	return cstruct("HTTPConfig", map[string]Val{"Path": constStr(path), "Method": constStr(method), "PathParams": ps})
}

func cQueryParams(fields ...[2]string) VList {
	l := VList{Key: "qps", Elems: []Val{}}
	for _, f := range fields {
		l.Elems = append(l.Elems, cstruct("QueryParam", map[string]Val{"FieldName": constStr(f[0]), "ParamName": constStr(f[1]), "FieldJSONName": constStr(snakeToCamelJSON(f[0])),
			"FieldGoName": constStr(f[0]), "Required": VBool{}, "FieldKind": constStr("string"), "Field": VNil{}}))
	}
	return l
}

// cdescHook answers descriptor methods and option-reading annotation accessors
// from concrete scenario values.
func (c *Ctx) cdescHook(fn *types.Func, recv Val, args []Val) (Val, bool) {
	if st, ok := recv.(*VStruct); ok && st.Concrete {
		if v, ok := st.Fields[fn.Name()+"()"]; ok {
			return v, true
		}
	}
	if st, ok := recv.(*VStruct); ok && st.Name == "builder" && fn.Pkg() != nil && fn.Pkg().Path() == "strings" {
		switch fn.Name() {
		case "WriteString":
			if len(args) == 1 {
				a, _ := toStr(st.Fields["buf"])
				b, _ := toStr(args[0])
				st.Fields["buf"] = foldConsts(VStr{Segs: append(append([]Seg{}, a.Segs...), b.Segs...)})
				return VTuple{VInt{}, VNil{}}, true
			}
		case "String":
			return st.Fields["buf"], true
		}
	}
	if st, ok := recv.(*VStruct); ok && st.Name == "omap" && fn.Name() == "Len" {
		return VInt{N: int64(len(st.Fields))}, true
	}
	if iv, ok := recv.(VInt); ok && fn.Name() == "String" && strings.HasSuffix(iv.Label, "Kind") {
		return constStr(strings.ToLower(strings.TrimSuffix(iv.Label, "Kind"))), true
	}
	if fn.Pkg() != nil && fn.Pkg().Path() == modPath+"/internal/annotations" && len(args) >= 1 && c.W.readsOptions(fn) {
		if st, ok := args[0].(*VStruct); ok && st.Concrete {
			// functions that merely call other accessors are interpreted; base accessors are answered
			if !c.W.readsOptionsDirect(fn) {
				return nil, false
			}
			if v, ok := st.Fields["@"+fn.Name()]; ok {
				return v, true
			}
			// unset annotation: the zero value of the result
			sig := fn.Type().(*types.Signature)
			if sig.Results().Len() == 1 {
				switch u := sig.Results().At(0).Type().Underlying().(type) {
				case *types.Basic:
					switch {
					case u.Info()&types.IsBoolean != 0:
						return VBool{}, true
					case u.Info()&types.IsString != 0:
						return constStr(""), true
					case u.Info()&types.IsInteger != 0:
						return VInt{N: 0, Label: "0"}, true
					}
				default:
					return VNil{}, true
				}
			}
		}
	}
	return nil, false
}

// ---- enums, nested declarations, files

type cEnumValue struct{ Name, Custom string }

// cEnum: a protogen.Enum value; goPrefix is the Go name prefix of its values ("Priority" → Priority_LOW).
func cEnum(name, fullName string, vals ...cEnumValue) *VStruct {
	vl := VList{Key: "evals", Elems: []Val{}}
	for i, v := range vals {
		f := map[string]Val{
			"Desc":    cstruct("EnumValueDesc", map[string]Val{"Name()": constStr(v.Name), "Number()": VInt{N: int64(i), Label: fmt.Sprint(i)}, "Options()": VNil{}}),
			"GoIdent": cstruct("GoIdent", map[string]Val{"GoName": constStr(name + "_" + v.Name)}),
		}
		f["@GetEnumValueMapping"] = constStr(v.Custom)
		vl.Elems = append(vl.Elems, cstruct("EnumValue", f))
	}
	return cstruct("Enum", map[string]Val{"Values": vl, "GoIdent": cstruct("GoIdent", map[string]Val{"GoName": constStr(name)}),
		"Desc":     cstruct("EnumDesc", map[string]Val{"Name()": constStr(name[strings.LastIndex(name, "_")+1:]), "FullName()": constStr(fullName)}),
		"Comments": cstruct("CommentSet", map[string]Val{"Leading": constStr("")})})
}

// nest puts children into parent.Messages / parent.Enums.
func nest(parent *VStruct, msgs []*VStruct, enums []*VStruct) *VStruct {
	ml := parent.Fields["Messages"].(VList)
	for _, m := range msgs {
		ml.Elems = append(ml.Elems, m)
	}
	parent.Fields["Messages"] = ml
	el, _ := parent.Fields["Enums"].(VList)
	if el.Elems == nil {
		el = VList{Key: "enums", Elems: []Val{}}
	}
	for _, e := range enums {
		el.Elems = append(el.Elems, e)
	}
	parent.Fields["Enums"] = el
	return parent
}

func cFile(msgs []*VStruct, enums []*VStruct, services []*VStruct) *VStruct {
	ml, el, sl := VList{Key: "m", Elems: []Val{}}, VList{Key: "e", Elems: []Val{}}, VList{Key: "s", Elems: []Val{}}
	for _, m := range msgs {
		ml.Elems = append(ml.Elems, m)
	}
	for _, e := range enums {
		el.Elems = append(el.Elems, e)
	}
	for _, s := range services {
		sl.Elems = append(sl.Elems, s)
	}
	return cstruct("File", map[string]Val{"Messages": ml, "Services": sl, "Enums": el,
		"GoPackageName": constStr("pkg"), "GeneratedFilenamePrefix": constStr("x"), "GoImportPath": constStr("x/pkg"), "Desc": cstruct("FileDesc", map[string]Val{"Path()": constStr("x.proto")})})
}

// runUnitConcrete reconstructs the unit (pkg, suffix) for a concrete scenario file.
// problem != "" when the walker left decisions open or aborted.
func (c *Ctx) runUnitConcrete(pkg, suffix string, file *VStruct) (units []*Unit, pos string, problem string) {
	ri := c.Root(pkg, suffix)
	if ri == nil {
		return nil, "", "unit root not found"
	}
	pos = c.P.Pos(c.P.Decls[ri.Fn].Pos())
	prevC, prevE := c.W.Concrete, c.W.ExternStructs
	c.W.Concrete, c.W.ExternStructs = true, true
	defer func() { c.W.Concrete, c.W.ExternStructs = prevC, prevE }()
	run := c.W.NewRun(map[string]int{}, false)
	run.InlineAll, run.FollowSlices = true, true
	run.CallHook = c.xHookT
	run.StartArgs(ri.Fn, map[string]Val{"file": file})
	if len(run.Used) > 0 || run.Aborted != "" {
		return run.Units, pos, fmt.Sprintf("open decisions %v, aborted %q", usedKeys(run), run.Aborted)
	}
	return run.Units, pos, ""
}

func unitLines(units []*Unit) []string {
	var out []string
	for _, u := range units {
		for _, l := range u.Lines {
			out = append(out, lineText(l.Segs))
		}
	}
	return out
}
