package main

// C14 — go-http and go-client emit interchangeable codec files.

import (
	"fmt"
	"go/types"
	"sort"
	"strings"
)

func init() { props["C14"] = checkC14 }

const (
	pkgHTTP   = "internal/httpgen"
	pkgClient = "internal/clientgen"
)

// unitDeclaresCodec: the unit's emitted text declares MarshalJSON/UnmarshalJSON
// methods, i.e. it changes how a message encodes.
func unitDeclaresCodec(ex *Exploration) bool {
	for _, v := range ex.Variants {
		for _, u := range v.Units {
			for _, l := range u.Lines {
				t := lineText(l.Segs)
				if strings.HasPrefix(t, "func (") && (strings.Contains(t, ") MarshalJSON()") || strings.Contains(t, ") UnmarshalJSON(")) {
					return true
				}
			}
		}
	}
	return false
}

func normHeader(s string) string {
	s = strings.Replace(s, "protoc-gen-go-client", "protoc-gen-go-*", 1)
	s = strings.Replace(s, "protoc-gen-go-http", "protoc-gen-go-*", 1)
	return s
}

// compareUnits returns "" when the two units are the same file apart from the
// generator name in the header comment.
func (c *Ctx) compareUnits(a, b *Unit) (string, map[string]any) {
	if a.NameText() != b.NameText() {
		return "file names differ", map[string]any{"http": a.NameText(), "client": b.NameText()}
	}
	n := len(a.Lines)
	if len(b.Lines) < n {
		n = len(b.Lines)
	}
	for i := 0; i < n; i++ {
		ta, tb := lineText(a.Lines[i].Segs), lineText(b.Lines[i].Segs)
		if i == 0 {
			ta, tb = normHeader(ta), normHeader(tb)
		}
		if ta != tb && c.differOnlyInOpaqueHoles(a.Lines[i].Segs, b.Lines[i].Segs) {
			// the symbolic walk cannot see through a helper one generator calls and the other does not
			// (a one-sided extraction): the constant text agrees; what the hole prints is decided by R14e
			// on the concrete corpus
			c.R.Count("R14a_lines_deferred_to_R14e_(opaque_helper_result)", 1)
			continue
		}
		if ta != tb {
			return fmt.Sprintf("emitted line %d differs", i+1), map[string]any{
				"http_line": ta, "client_line": tb,
				"http_at": c.P.Pos(a.Lines[i].Pos), "client_at": c.P.Pos(b.Lines[i].Pos)}
		}
	}
	if len(a.Lines) != len(b.Lines) {
		d := map[string]any{"http_lines": len(a.Lines), "client_lines": len(b.Lines)}
		if len(a.Lines) > n {
			d["first_extra_http"] = lineText(a.Lines[n].Segs)
			d["http_at"] = c.P.Pos(a.Lines[n].Pos)
		} else {
			d["first_extra_client"] = lineText(b.Lines[n].Segs)
			d["client_at"] = c.P.Pos(b.Lines[n].Pos)
		}
		return "one file has extra lines", d
	}
	return "", nil
}

// differOnlyInOpaqueHoles: both lines have the same constant text around the same number of holes, and every
// hole that differs is, on at least one side, the result of a repository helper the walker did not follow.
func (c *Ctx) differOnlyInOpaqueHoles(a, b []Seg) bool {
	a, b = foldConsts(VStr{Segs: a}).Segs, foldConsts(VStr{Segs: b}).Segs
	if len(a) != len(b) {
		return false
	}
	opaque := func(h *Hole) bool {
		for name := range c.W.OpaqueHelpers {
			if strings.Contains(h.Key, name+"(") {
				return true
			}
		}
		return false
	}
	for i := range a {
		ha, hb := a[i].Hole, b[i].Hole
		if (ha == nil) != (hb == nil) {
			return false
		}
		if ha == nil {
			if a[i].Const != b[i].Const {
				return false
			}
			continue
		}
		if HoleName(ha) != HoleName(hb) && !opaque(ha) && !opaque(hb) {
			return false
		}
	}
	return true
}

func checkC14(c *Ctx) {
	r := c.R
	r.Explain = "Decides structural clauses of C14 statically. R14c: the set of codec file names (units whose emitted text declares MarshalJSON/UnmarshalJSON) each Go plugin can create is read from the reconstructed NewGeneratedFile name expressions and must pair up. R14a: for each paired unit, the emission grammars of the two generators are walked under identical decisions (every arm of every guard, and — thorough — every pair of arms) and the emitted lines must be equal apart from the generator name in line 1. R14b: both plugins' generateFile are walked under identical decisions (in particular 'file has no services') and must create the same set of paired codec files. R14d: non-emitting helpers reached from a paired unit (collectors, predicates) are compared modulo local renaming; equality is a certificate, a difference (one copy refactored) is not by itself a violation. R14e: both plugins' unit emitters, collectors included, are interpreted (walker in concrete mode) on the same concrete corpus files — annotated messages at top level, nested under un-annotated and under annotated parents, every annotation constant, annotations on unexpected kinds, partially annotated enums with equal short names — and must print the same lines. Not decided: nothing value-level is needed; equality is decided on the explored decision combinations, not proved for all."
	r.Trusted = []string{"protogen.GeneratedFile.P prints its arguments concatenated (compiler/protogen/protogen.go)", "go/types resolution of callees"}
	r.Rule("R14c", "every codec unit of one Go plugin has a twin with the same file-name expression in the other", 8)
	r.Rule("R14a", "paired units: identical emitted lines under identical decisions (header generator name excepted)", 8)
	r.Rule("R14b", "generateFile of both plugins creates the same paired codec files under identical decisions", 4)
	r.Rule("R14d", "helpers (non-emitting) reached from paired units: syntactic certificate (identical modulo renaming), differences are decided by R14a/R14e", 1)
	r.Rule("R14f", "each Go plugin calls every codec emitter on every successful path of generateFile: neither skips a codec file (for a file without services, without messages, with enums only) that the other one writes (shared with C05/R05j)", 2)
	codecEmittersUnconditional(c, "R14f")
	r.Rule("R14e", "both plugins emit the same codec file for every concrete corpus file (annotated messages at top level, nested under plain and annotated parents, partially annotated enums, every annotation constant)", 8)

	level := 1
	maxRuns := 4000
	if c.Thorough() {
		level = 2
		maxRuns = 60000
	}
	roots := c.Roots()
	byPkg := map[string]map[string]RootInfo{pkgHTTP: {}, pkgClient: {}}
	for _, ri := range roots {
		if m, ok := byPkg[ri.Pkg]; ok {
			m[ri.Suffix] = ri
		}
	}
	r.Count("unit_roots", len(roots))
	if len(byPkg[pkgHTTP]) < 10 || len(byPkg[pkgClient]) < 8 {
		r.Unres("R14c", "unit-inventory", "", fmt.Sprintf("expected >=10 go-http and >=8 go-client units, found %d and %d", len(byPkg[pkgHTTP]), len(byPkg[pkgClient])))
		return
	}
	// ---- R14c pairing
	var paired []string
	for _, pk := range []string{pkgHTTP, pkgClient} {
		other := pkgClient
		if pk == pkgClient {
			other = pkgHTTP
		}
		for _, suf := range sortedKeys(byPkg[pk]) {
			ri := byPkg[pk][suf]
			ex := c.Explore(ri.Fn, 1, 4000)
			for _, pr := range ex.Problems {
				r.Unres("R14c", "unmodelled:"+FuncName(ri.Fn), "", pr)
			}
			if !unitDeclaresCodec(ex) {
				continue
			}
			_, has := byPkg[other][suf]
			key := fmt.Sprintf("%s unit *%s has twin in %s", pk, suf, other)
			r.Check(has, "R14c", key, c.P.Pos(c.P.Decls[ri.Fn].Pos()),
				fmt.Sprintf("%s declares JSON codecs in *%s but %s has no emitter for a file of that name: a package generated with that plugin alone encodes differently", FuncName(ri.Fn), suf, other))
			if has && pk == pkgHTTP {
				paired = append(paired, suf)
			}
		}
	}
	sort.Strings(paired)
	r.Count("paired_units", len(paired))

	// ---- R14a emission equivalence of paired units
	compared := 0
	for _, suf := range paired {
		h, cl := byPkg[pkgHTTP][suf], byPkg[pkgClient][suf]
		for dir, pair := range [][2]RootInfo{{h, cl}, {cl, h}} {
			ex := c.Explore(pair[0].Fn, level, maxRuns)
			bad := ""
			var detail map[string]any
			for _, v := range ex.Variants {
				run := c.W.NewRun(copyDec(v.Dec), v.Rotate)
				run.Start(pair[1].Fn)
				compared++
				ua, ub := v.Units, run.Units
				if dir == 1 {
					ua, ub = ub, ua
				}
				if run.Aborted != "" || len(ua) != len(ub) {
					bad = "under the same decisions one generator emits the file and the other does not"
					detail = map[string]any{"decisions": v.DecString(), "http_units": len(ua), "client_units": len(ub)}
					break
				}
				for i := range ua {
					if msg, d := c.compareUnits(ua[i], ub[i]); msg != "" {
						bad = msg
						d["decisions"] = v.DecString()
						detail = d
						break
					}
				}
				if bad != "" {
					break
				}
			}
			key := fmt.Sprintf("*%s %s", suf, map[int]string{0: "http-decisions", 1: "client-decisions"}[dir])
			r.CheckD(bad == "", "R14a", key, c.P.Pos(c.P.Decls[pair[0].Fn].Pos()),
				fmt.Sprintf("go-http and go-client emit different content for *%s: %s", suf, bad), detail)
		}
	}
	r.Count("variant_pairs_compared", compared)

	// ---- R14b wiring in generateFile
	gh, gc := c.P.Func(pkgHTTP, "Generator.generateFile"), c.P.Func(pkgClient, "Generator.generateFile")
	if gh == nil || gc == nil {
		r.Unres("R14b", "generateFile", "", "generateFile not found in both Go generator packages")
	} else {
		pairedSet := map[string]bool{}
		for _, s := range paired {
			pairedSet[s] = true
		}
		wl := 1
		if c.Thorough() {
			wl = 2
		}
		unitSet := func(us []*Unit) map[string]bool {
			m := map[string]bool{}
			for _, u := range us {
				if pairedSet[u.Suffix()] {
					m[u.Suffix()] = true
				}
			}
			return m
		}
		nw := 0
		for dir, pair := range [][2]*types.Func{{gh, gc}, {gc, gh}} {
			ex := c.Explore(pair[0], wl, 30000)
			for _, pr := range ex.Problems {
				r.Unres("R14b", "unmodelled:"+FuncName(pair[0]), "", pr)
			}
			seenBad := map[string]bool{}
			for _, v := range ex.Variants {
				run := c.W.NewRun(copyDec(v.Dec), v.Rotate)
				run.Start(pair[1])
				nw++
				a, b := unitSet(v.Units), unitSet(run.Units)
				if dir == 1 {
					a, b = b, a
				}
				for _, suf := range paired {
					if a[suf] != b[suf] && !seenBad[suf] {
						seenBad[suf] = true
						who, miss := "go-http", "go-client"
						if b[suf] {
							who, miss = miss, who
						}
						// name the guard responsible: the smallest decision set
						r.Bad("R14b", fmt.Sprintf("*%s emitted by %s only", suf, who), c.P.Pos(c.P.Decls[pair[1]].Pos()),
							fmt.Sprintf("under decisions {%s} %s creates *%s and %s does not: the plugins' generateFile wire this codec under different guards", v.DecString(), who, suf, miss),
							map[string]any{"decisions": v.DecString(), "http_units": sortedKeys(a), "client_units": sortedKeys(b)})
					}
				}
			}
			for _, suf := range paired {
				if !seenBad[suf] {
					r.OK("R14b", fmt.Sprintf("*%s wiring (%s decisions)", suf, map[int]string{0: "http", 1: "client"}[dir]), "")
				}
			}
		}
		r.Count("wiring_variant_pairs", nw)
	}

	// ---- R14d helpers: a syntactic certificate only. Copies that are the same function modulo local
	// renaming need no further argument; copies that differ (one side was refactored) are decided by
	// R14a (string/bool case tables are followed by the walker) and by R14e on the concrete corpus.
	rename := map[string]string{"writeEncodingHeader": "writeHeader", "clientgen": "gen", "httpgen": "gen"}
	var hRoots, cRoots []*types.Func
	for _, suf := range paired {
		hRoots = append(hRoots, byPkg[pkgHTTP][suf].Fn)
		cRoots = append(cRoots, byPkg[pkgClient][suf].Fn)
	}
	name := func(f *types.Func) string { return strings.SplitN(FuncName(f), ".", 2)[1] }
	hReach, cReach := map[string]*types.Func{}, map[string]*types.Func{}
	for _, f := range c.P.Reach(hRoots...) {
		if strings.HasSuffix(f.Pkg().Path(), pkgHTTP) {
			hReach[name(f)] = f
		}
	}
	for _, f := range c.P.Reach(cRoots...) {
		if strings.HasSuffix(f.Pkg().Path(), pkgClient) {
			cReach[name(f)] = f
		}
	}
	emitDiff, same := 0, 0
	var differing []string
	for _, n := range sortedKeys(hReach) {
		hf := hReach[n]
		cn := n
		if n == "(*Generator).writeHeader" {
			cn = "(*Generator).writeEncodingHeader"
		}
		cf, ok := cReach[cn]
		if c.W.IsEmitter(hf) {
			if ok && c.P.CanonFunc(hf, rename) != c.P.CanonFunc(cf, rename) {
				emitDiff++
			}
			continue
		}
		if ok && c.P.CanonFunc(hf, rename) == c.P.CanonFunc(cf, rename) {
			same++
		} else {
			differing = append(differing, n)
		}
	}
	for _, n := range sortedKeys(cReach) {
		if _, ok := hReach[n]; !ok && !c.W.IsEmitter(cReach[n]) && n != "(*Generator).writeEncodingHeader" {
			differing = append(differing, n+" (go-client only)")
		}
	}
	r.OKd("R14d", "non-emitting helpers of paired units: syntactic certificate", "", map[string]any{"identical_modulo_renaming": same, "differing_or_unpaired (decided by R14a/R14e)": differing})

	// ---- R14e concrete corpus: both plugins' unit emitters are interpreted on the same concrete files
	for _, suf := range paired {
		files := corpusFor(suf)
		if len(files) == 0 {
			if suf == "_unwrap.pb.go" || suf == "_error_impl.pb.go" {
				continue
			}
			r.Undec("R14e", "*"+suf+": no corpus file for this paired unit", "", "a paired codec unit has no concrete corpus; add one to corpus.go")
			continue
		}
		for _, cf := range files {
			hu, hpos, hprob := c.runUnitConcrete(pkgHTTP, suf, cf.File)
			cu, _, cprob := c.runUnitConcrete(pkgClient, suf, cf.File)
			key := "*" + suf + " on " + cf.Name
			if hprob != "" || cprob != "" {
				r.Undec("R14e", key, hpos, fmt.Sprintf("the unit does not evaluate on the corpus file: go-http %q, go-client %q", hprob, cprob))
				continue
			}
			hl, cl := unitLines(hu), unitLines(cu)
			bad := ""
			if len(hu) != len(cu) {
				bad = fmt.Sprintf("go-http creates %d file(s), go-client %d", len(hu), len(cu))
			} else if len(hl) == 0 {
				bad = "neither plugin emits the unit for the corpus file (the corpus does not exercise it)"
			} else {
				for i := 0; i < len(hl) || i < len(cl); i++ {
					a, b := "", ""
					if i < len(hl) {
						a = hl[i]
					}
					if i < len(cl) {
						b = cl[i]
					}
					if normHeader(a) != normHeader(b) {
						bad = fmt.Sprintf("line %d differs: go-http %q, go-client %q", i+1, a, b)
						break
					}
				}
			}
			r.Check(bad == "", "R14e", key, hpos, fmt.Sprintf("go-http and go-client emit different *%s for the same concrete file (%s): %s", suf, cf.Name, bad))
		}
	}
	r.Count("emitters_with_differing_ast_decided_by_R14a", emitDiff)
}
