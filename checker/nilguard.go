package main

// nilguard.go — domain-specific nil-guard discipline for the optional links of
// *protogen.Field (Message, Enum, Oneof). A dereference E.Message.<sel> must be
// dominated, inside its function, by a guard that establishes E.Message != nil.

import (
	"go/ast"
	"go/token"
	"go/types"
	"strings"

	"golang.org/x/tools/go/packages"
)

type derefSite struct {
	Fn    *types.Func
	Expr  *ast.SelectorExpr // E.Message (the link being dereferenced)
	Base  string            // canonical text of E
	Link  string            // Message | Enum | Oneof
	Guard string            // how it is guarded ("" = unguarded)
}

// impliesLink: condition cond (when true) establishes base.link != nil.
func (c *Ctx) impliesLink(info *types.Info, cond ast.Expr, base, link string, depth int) bool {
	cond = ast.Unparen(cond)
	switch x := cond.(type) {
	case *ast.BinaryExpr:
		switch x.Op {
		case token.LAND:
			return c.impliesLink(info, x.X, base, link, depth) || c.impliesLink(info, x.Y, base, link, depth)
		case token.LOR:
			return c.impliesLink(info, x.X, base, link, depth) && c.impliesLink(info, x.Y, base, link, depth)
		case token.NEQ:
			if isNilIdent(x.Y) && types.ExprString(ast.Unparen(x.X)) == base+"."+link {
				return true
			}
		case token.EQL:
			// E.Desc.Kind() == protoreflect.MessageKind  (Message) / EnumKind (Enum)
			l, r := types.ExprString(ast.Unparen(x.X)), types.ExprString(ast.Unparen(x.Y))
			if l == base+".Desc.Kind()" {
				if link == "Message" && (strings.HasSuffix(r, "MessageKind") || strings.HasSuffix(r, "GroupKind")) {
					return true
				}
				if link == "Enum" && strings.HasSuffix(r, "EnumKind") {
					return true
				}
			}
		}
	case *ast.CallExpr:
		s := types.ExprString(x)
		if link == "Message" && (s == base+".Desc.IsMap()") {
			return true
		}
		// repository predicate P(E): follow its body (single return of a condition)
		if cal := Callee(info, x); cal != nil && depth < 3 {
			if decl := c.P.Decls[cal]; decl != nil && decl.Body != nil && len(x.Args) >= 1 && len(decl.Type.Params.List) >= 1 {
				// find which parameter receives base
				pi := -1
				for i, a := range x.Args {
					if types.ExprString(ast.Unparen(a)) == base {
						pi = i
					}
				}
				if pi >= 0 {
					var pname string
					i := 0
					for _, f := range decl.Type.Params.List {
						for _, n := range f.Names {
							if i == pi {
								pname = n.Name
							}
							i++
						}
					}
					if pname != "" {
						pinfo := c.P.DeclPkg[cal].TypesInfo
						// every `return <expr>` must imply the link (returns of `false` are fine)
						all, any := true, false
						ast.Inspect(decl.Body, func(n ast.Node) bool {
							if ret, ok := n.(*ast.ReturnStmt); ok && len(ret.Results) == 1 {
								if id, ok := ast.Unparen(ret.Results[0]).(*ast.Ident); ok && id.Name == "false" {
									return true
								}
								any = true
								if !c.impliesLink(pinfo, ret.Results[0], pname, link, depth+1) {
									all = false
								}
							}
							return true
						})
						if any && all {
							return true
						}
					}
				}
			}
		}
	}
	return false
}

// impliesNoLink: cond (when true) is consistent with base.link == nil, i.e.
// its NEGATION establishes the link (used for early exits `if cond { continue }`).
func (c *Ctx) negationImpliesLink(info *types.Info, cond ast.Expr, base, link string) bool {
	cond = ast.Unparen(cond)
	switch x := cond.(type) {
	case *ast.UnaryExpr:
		if x.Op == token.NOT {
			return c.impliesLink(info, x.X, base, link, 0)
		}
	case *ast.BinaryExpr:
		switch x.Op {
		case token.LOR: // !(a||b) = !a && !b
			return c.negationImpliesLink(info, x.X, base, link) || c.negationImpliesLink(info, x.Y, base, link)
		case token.LAND:
			return c.negationImpliesLink(info, x.X, base, link) && c.negationImpliesLink(info, x.Y, base, link)
		case token.EQL:
			if isNilIdent(x.Y) && types.ExprString(ast.Unparen(x.X)) == base+"."+link {
				return true
			}
		case token.NEQ:
			l, r := types.ExprString(ast.Unparen(x.X)), types.ExprString(ast.Unparen(x.Y))
			if l == base+".Desc.Kind()" {
				if link == "Message" && strings.HasSuffix(r, "MessageKind") {
					return true
				}
				if link == "Enum" && strings.HasSuffix(r, "EnumKind") {
					return true
				}
			}
		}
	}
	return false
}

func isNilIdent(e ast.Expr) bool {
	id, ok := ast.Unparen(e).(*ast.Ident)
	return ok && id.Name == "nil"
}

func terminates(b *ast.BlockStmt) bool {
	if len(b.List) == 0 {
		return false
	}
	switch s := b.List[len(b.List)-1].(type) {
	case *ast.ReturnStmt:
		return true
	case *ast.BranchStmt:
		return s.Tok == token.CONTINUE || s.Tok == token.BREAK
	case *ast.ExprStmt:
		if call, ok := s.X.(*ast.CallExpr); ok {
			if id, ok := call.Fun.(*ast.Ident); ok && id.Name == "panic" {
				return true
			}
		}
	}
	return false
}

// DerefSites lists every dereference of an optional Field link in pk with its guard.
func (c *Ctx) DerefSites(pk *packages.Package) []derefSite {
	info := pk.TypesInfo
	var out []derefSite
	for _, f := range pk.Syntax {
		for _, d := range f.Decls {
			fd, ok := d.(*ast.FuncDecl)
			if !ok || fd.Body == nil {
				continue
			}
			fn, _ := info.Defs[fd.Name].(*types.Func)
			parents := parentMap(fd.Body)
			// an optional link handed to a repository function that dereferences the parameter without a nil test
			// is a dereference at the call site
			ast.Inspect(fd.Body, func(n ast.Node) bool {
				call, ok := n.(*ast.CallExpr)
				if !ok {
					return true
				}
				callee := Callee(info, call)
				if callee == nil || c.P.Decls[callee] == nil {
					return true
				}
				for i, a := range call.Args {
					inner, ok := ast.Unparen(a).(*ast.SelectorExpr)
					if !ok {
						continue
					}
					link := inner.Sel.Name
					if link != "Message" && link != "Enum" && link != "Oneof" {
						continue
					}
					tv, ok := info.Types[inner.X]
					if !ok || !typeIsNamed(tv.Type, "compiler/protogen", "Field") {
						continue
					}
					if !c.derefsParamUnguarded(callee, i) {
						continue
					}
					base := types.ExprString(ast.Unparen(inner.X))
					site := derefSite{Fn: fn, Expr: inner, Base: base, Link: link}
					site.Guard = c.findGuard(info, parents, a, base, link)
					out = append(out, site)
				}
				return true
			})
			ast.Inspect(fd.Body, func(n ast.Node) bool {
				outer, ok := n.(*ast.SelectorExpr)
				if !ok {
					return true
				}
				inner, ok := ast.Unparen(outer.X).(*ast.SelectorExpr)
				if !ok {
					return true
				}
				link := inner.Sel.Name
				if link != "Message" && link != "Enum" && link != "Oneof" {
					return true
				}
				tv, ok := info.Types[inner.X]
				if !ok || !typeIsNamed(tv.Type, "compiler/protogen", "Field") {
					return true
				}
				base := types.ExprString(ast.Unparen(inner.X))
				site := derefSite{Fn: fn, Expr: inner, Base: base, Link: link}
				site.Guard = c.findGuard(info, parents, outer, base, link)
				out = append(out, site)
				return true
			})
		}
	}
	return out
}

func (c *Ctx) findGuard(info *types.Info, parents map[ast.Node]ast.Node, at ast.Node, base, link string) string {
	var child ast.Node = at
	for p := parents[at]; p != nil; child, p = p, parents[p] {
		switch x := p.(type) {
		case *ast.BinaryExpr:
			// right operand of && is guarded by the left one
			if x.Op == token.LAND && x.Y == child && c.impliesLink(info, x.X, base, link, 0) {
				return "&&-left: " + types.ExprString(x.X)
			}
			if x.Op == token.LOR && x.Y == child && c.negationImpliesLink(info, x.X, base, link) {
				return "||-left: " + types.ExprString(x.X)
			}
		case *ast.IfStmt:
			if x.Body == child && c.impliesLink(info, x.Cond, base, link, 0) {
				return "if: " + types.ExprString(x.Cond)
			}
			if x.Else == child && c.negationImpliesLink(info, x.Cond, base, link) {
				return "else of: " + types.ExprString(x.Cond)
			}
		case *ast.CaseClause:
			// switch E.Desc.Kind() { case MessageKind: } / switch { case cond: }
			if sw, ok := parents[parents[x]].(*ast.SwitchStmt); ok {
				for _, ce := range x.List {
					if sw.Tag == nil {
						if c.impliesLink(info, ce, base, link, 0) && len(x.List) == 1 {
							return "case: " + types.ExprString(ce)
						}
					} else if types.ExprString(ast.Unparen(sw.Tag)) == base+".Desc.Kind()" {
						s := types.ExprString(ce)
						okAll := true
						for _, ce2 := range x.List {
							s2 := types.ExprString(ce2)
							if link == "Message" && !(strings.HasSuffix(s2, "MessageKind") || strings.HasSuffix(s2, "GroupKind")) {
								okAll = false
							}
							if link == "Enum" && !strings.HasSuffix(s2, "EnumKind") {
								okAll = false
							}
							if link == "Oneof" {
								okAll = false
							}
						}
						if okAll {
							return "switch kind case: " + s
						}
					}
				}
				// earlier cases of a tagless switch that exit are not considered
				// default/other case after `case E.Desc.IsMap():` etc. gives nothing
			}
		case *ast.BlockStmt:
			// early exits before `child` in this block
			for _, st := range x.List {
				if st == child || st.Pos() >= child.Pos() {
					break
				}
				if ifs, ok := st.(*ast.IfStmt); ok && ifs.Else == nil && terminates(ifs.Body) && c.negationImpliesLink(info, ifs.Cond, base, link) {
					return "early exit: " + types.ExprString(ifs.Cond)
				}
			}
		case *ast.FuncLit, *ast.FuncDecl:
			return ""
		}
		if cc, ok := p.(*ast.CaseClause); ok {
			for _, st := range cc.Body {
				if st == child || st.Pos() >= child.Pos() {
					break
				}
				if ifs, ok := st.(*ast.IfStmt); ok && ifs.Else == nil && terminates(ifs.Body) && c.negationImpliesLink(info, ifs.Cond, base, link) {
					return "early exit: " + types.ExprString(ifs.Cond)
				}
			}
		}
	}
	return ""
}

// derefsParamUnguarded: the callee selects a field/method of its i-th parameter and has no `if p == nil { return … }`
// ahead of it (top-level statements only).
func (c *Ctx) derefsParamUnguarded(callee *types.Func, i int) bool {
	decl := c.P.Decls[callee]
	if decl == nil || decl.Body == nil {
		return false
	}
	info := c.P.DeclPkg[callee].TypesInfo
	var pobj types.Object
	k := 0
	for _, f := range decl.Type.Params.List {
		for _, n := range f.Names {
			if k == i {
				pobj = info.Defs[n]
			}
			k++
		}
	}
	if pobj == nil {
		return false
	}
	if _, isPtr := pobj.Type().Underlying().(*types.Pointer); !isPtr {
		return false
	}
	for _, st := range decl.Body.List {
		// a nil test on the parameter that leaves the function guards everything after it
		if ifs, ok := st.(*ast.IfStmt); ok && terminates(ifs.Body) {
			guards := false
			ast.Inspect(ifs.Cond, func(n ast.Node) bool {
				if be, ok := n.(*ast.BinaryExpr); ok && be.Op == token.EQL {
					if id, ok := ast.Unparen(be.X).(*ast.Ident); ok && info.ObjectOf(id) == pobj && isNilIdent(be.Y) {
						guards = true
					}
				}
				return true
			})
			if guards {
				return false
			}
		}
		derefs := false
		ast.Inspect(st, func(n ast.Node) bool {
			if sel, ok := n.(*ast.SelectorExpr); ok {
				if id, ok := ast.Unparen(sel.X).(*ast.Ident); ok && info.ObjectOf(id) == pobj {
					derefs = true
				}
			}
			return true
		})
		if derefs {
			return true
		}
	}
	return false
}
