package main

// C02 — URL-carried fields reach the handler with the URL's value, for every verb.

import (
	"fmt"
	"go/ast"
	"go/token"
	"go/types"
	"regexp"
	"strings"
)

func init() { props["C02"] = checkC02 }

// middlewareLit returns the handler literal inside the emitted BindingMiddleware.
func middlewareLit(ep *EmittedPkg) (*ast.FuncDecl, *ast.FuncLit) {
	fd := ep.Funcs["BindingMiddleware"]
	if fd == nil || fd.Body == nil {
		return nil, nil
	}
	var lit *ast.FuncLit
	ast.Inspect(fd.Body, func(n ast.Node) bool {
		if l, ok := n.(*ast.FuncLit); ok && lit == nil {
			lit = l
			return false
		}
		return true
	})
	return fd, lit
}

// localVar finds the object of a variable defined in body by name.
func localVar(ep *EmittedPkg, body ast.Node, name string) types.Object {
	var obj types.Object
	ast.Inspect(body, func(n ast.Node) bool {
		if id, ok := n.(*ast.Ident); ok && id.Name == name && obj == nil {
			if o := ep.Info.Defs[id]; o != nil {
				obj = o
			}
		}
		return obj == nil
	})
	return obj
}

func paramObj(ep *EmittedPkg, ft *ast.FuncType, name string) types.Object {
	for _, f := range ft.Params.List {
		for _, n := range f.Names {
			if n.Name == name {
				return ep.Info.Defs[n]
			}
		}
	}
	return nil
}

// isDispatch: next.ServeHTTP(...)
func isDispatch(ep *EmittedPkg, call *ast.CallExpr) bool {
	cal := ep.CalleeOf(call)
	if cal == nil || qname(cal) != "net/http.(Handler).ServeHTTP" {
		return false
	}
	sel, ok := call.Fun.(*ast.SelectorExpr)
	if !ok {
		return false
	}
	id, ok := ast.Unparen(sel.X).(*ast.Ident)
	return ok && id.Name == "next"
}

func traceLines(ep *EmittedPkg, tr []token.Pos) []string {
	var out []string
	for _, p := range tr {
		out = append(out, fmt.Sprintf("%s  [%s]", ep.Line(p), ep.GenPos(p)))
	}
	return out
}

func checkC02(c *Ctx) {
	r := c.R
	r.Explain = "Decides structural clauses of C02 on the emitted server runtime, which is reconstructed from the generator's syntax tree (it is a constant of the source) and type-checked. R02a (lost write): effect summaries are computed bottom-up over the emitted functions (writes a message: protoreflect Set/Append; resets it: protojson.Unmarshal / proto.Unmarshal / UnmarshalJSON); in the go/cfg graph of the BindingMiddleware handler no path may write the request message from the URL, then reset it, and then dispatch. R02b: every path that dispatches has called bindPathParams and bindQueryParams (for every verb: they are not under the verb test) and their failure arms end in writeErrorWithHandler + return. R02c: every FieldViolation built in the URL binders names the parameter's field. R02f: the string-to-field conversion table pairs each kind with the parser, bit size and protoreflect constructor of that kind. R02d: the TS server's query-parameter emitter is reached for every verb and path parameters are merged after the body is parsed. R02e: OpenAPI declares query parameters unconditionally. Not decided: what a given string converts to (library value semantics), percent-decoding, repeated occurrences."
	r.Trusted = []string{"protojson.Unmarshal and proto.Unmarshal reset the target message before decoding (encoding/protojson/decode.go, proto/decode.go: UnmarshalOptions.unmarshal calls Reset unless Merge is set)",
		"generated message types implement proto.Message, so any(toBind).(proto.Message) succeeds", "stub of buf.build/go/protovalidate (4 symbols) used for type-checking only"}
	r.Rule("R02a", "no path binds URL values into the request, then resets the request by decoding the body, then dispatches", 1)
	r.Rule("R02b", "every dispatching path has bound path and query parameters; binder failures end in an error response and return", 4)
	r.Rule("R02c", "violations built by the URL binders name the bound field", 4)
	r.Rule("R02f", "conversion table: kind ↔ strconv parser ↔ bit size ↔ protoreflect constructor", 8)
	r.Rule("R02g", "a query parameter is left unbound only when its key is absent from the URL", 2)
	r.Rule("R02d", "TS server: query binding for every verb; path merge after body parse", 2)
	r.Rule("R02e", "OpenAPI: query parameters declared for every verb", 1)

	ep, err := c.ServerRuntime()
	if err != nil {
		r.Unres("R02a", "emitted server runtime", "", err.Error())
		return
	}
	r.Count("emitted_functions_typed", len(ep.Funcs))
	eff := NewEffects(ep)
	fd, lit := middlewareLit(ep)
	if lit == nil {
		r.Unres("R02a", "BindingMiddleware handler literal", "", "emitted BindingMiddleware has no handler function literal")
		return
	}
	toBind := localVar(ep, lit.Body, "toBind")
	if toBind == nil {
		r.Unres("R02a", "toBind", ep.GenPos(fd.Pos()), "the request message variable toBind is not declared in the handler")
		return
	}
	d := eff.derived(lit.Body, toBind)
	lf := func(call *ast.CallExpr) []string {
		var ls []string
		for _, ev := range eff.callEvents(call, d) {
			switch ev.Kind {
			case EffWrite:
				ls = append(ls, "W")
			case EffReset:
				ls = append(ls, "R")
			}
		}
		if cal := ep.CalleeOf(call); cal != nil {
			switch ep.RecName(cal) {
			case "bindPathParams":
				ls = append(ls, "P")
			case "bindQueryParams":
				ls = append(ls, "Q")
			}
		}
		if isDispatch(ep, call) {
			ls = append(ls, "D")
		}
		return ls
	}
	// sanity: the summaries see the binders as writers and the body binder as resetter
	wP := eff.Has(objOf(ep, "bindPathParams"), EffWrite, 1)
	c02Presence(c, ep)
	wQ := eff.Has(objOf(ep, "bindQueryParams"), EffWrite, 1)
	rB := eff.Has(objOf(ep, "bindDataBasedOnContentType"), EffReset, 1)
	if !wP || !wQ || !rB {
		r.Unres("R02a", "effect summaries", ep.GenPos(fd.Pos()), fmt.Sprintf("expected bindPathParams/bindQueryParams to write their message (%v,%v) and bindDataBasedOnContentType to reset it (%v)", wP, wQ, rB))
	}
	// ---- R02a
	found, tr := FindPath(lit.Body, lf, "0", func(s, l string) string {
		switch {
		case l == "W":
			return "w"
		case l == "R" && s == "w":
			return "wr"
		case l == "D" && s == "wr":
			return "lost"
		}
		return ""
	}, func(s string) bool { return s == "lost" })
	pos := ""
	var det map[string]any
	if found {
		pos = ep.GenPos(tr[len(tr)-2])
		det = map[string]any{"path": traceLines(ep, tr)}
	}
	r.CheckD(!found, "R02a", "BindingMiddleware: URL bind -> resetting body decode -> dispatch", pos,
		"a field bound from the path or query string is erased by the body decode that follows (protojson/proto Unmarshal reset the message): POST /users/{id} with body {\"name\":\"x\"} reaches the handler with id == \"\"", det)

	// ---- R02b
	for _, lab := range []struct{ l, name string }{{"P", "bindPathParams"}, {"Q", "bindQueryParams"}} {
		lab := lab
		found, tr := FindPath(lit.Body, lf, "0", func(s, l string) string {
			if l == lab.l {
				return "seen"
			}
			if l == "D" && s == "0" {
				return "skipped"
			}
			return ""
		}, func(s string) bool { return s == "skipped" })
		pos := ""
		if found {
			pos = ep.GenPos(tr[len(tr)-1])
		}
		// the `any(toBind).(proto.Message)` test cannot fail for generated messages: paths through its else arm are pruned by FindPathPruned
		if found {
			found, tr = FindPathPruned(ep, lit.Body, lf, "0", func(s, l string) string {
				if l == lab.l {
					return "seen"
				}
				if l == "D" && s == "0" {
					return "skipped"
				}
				return ""
			}, func(s string) bool { return s == "skipped" })
			if found {
				pos = ep.GenPos(tr[len(tr)-1])
			}
		}
		r.Check(!found, "R02b", "BindingMiddleware: every dispatch is preceded by "+lab.name, pos,
			"a path reaches next.ServeHTTP without binding the URL parameters (for some verb or branch): URL-carried fields do not reach the handler")
		// failure arm
		ok, why, p2 := binderFailureArm(ep, lit, lab.name)
		r.Check(ok, "R02b", "BindingMiddleware: failure of "+lab.name+" ends in writeErrorWithHandler + return", ep.GenPos(p2), why)
	}

	// ---- R02c
	binderViolationFields(c, ep, "R02c")

	// ---- R02f conversion table
	checkConversionTable(c, ep, "R02f")

	// ---- R02d TS server
	checkTSQueryBinding(c)

	// ---- R02e OpenAPI
	if pm := c.P.Func("internal/openapiv3", "Generator.processMethod"); pm == nil {
		r.Unres("R02e", "openapiv3.processMethod", "", "not found")
	} else {
		decl := c.P.Decls[pm]
		info := c.P.DeclPkg[pm].TypesInfo
		var sites []token.Pos
		ast.Inspect(decl.Body, func(n ast.Node) bool {
			if call, ok := n.(*ast.CallExpr); ok {
				if cal := Callee(info, call); cal != nil && cal == c.P.Func(pkgOpenAPI, "Generator.buildQueryParameters") {
					sites = append(sites, call.Pos())
				}
			}
			return true
		})
		ok := false
		var esc token.Pos
		if len(sites) > 0 {
			ok, esc = mustPass(info, decl.Body, sites)
		}
		r.Check(ok, "R02e", "openapiv3.processMethod declares query parameters on every path", c.P.Pos(esc),
			"query parameters are not declared for every verb in the OpenAPI operation")
	}
	c02QueryWiring(c)
	r.Rule("R02k", "the TS server percent-decodes path values per segment, after splitting the encoded path (shared with C08/R08b)", 2)
	tsServerSegmentDecode(c, "R02k")
	r.Rule("R02l", "the request message is allocated inside the per-request handler (a message shared by all requests of a route keeps URL-bound values of earlier requests)", 1)
	requestAllocatedPerRequest(c, ep, "R02l")
	r.Rule("R02j", "the URL value handed to the kind conversion is the value taken from the URL, unmodified", 1)
	convertKeepsValue(c, ep, "R02j")
	r.Rule("R02m", "each string the URL binders convert is an element of the URL's own value list (r.PathValue / r.URL.Query()), never a derived string", 3)
	urlValueProvenance(c, ep, "R02m")
	c02PathVariableAgreement(c)
	r.Rule("R02r", "the URL binders visit every parameter of the route: their loop over the parameter table is left only with a violation, never with a successful return or a break", 2)
	bindersVisitEveryParameter(c, ep, "R02r")
	r.Rule("R02q", "violations of the URL binders are deliverable: the raw URL value is formatted into a description only under %q (strconv's errors quote their input)", 2)
	urlValueNotEchoed(c, ep, "R02q")
	r.Rule("R02o", "the server decodes a request body for exactly POST, PUT and PATCH (shared with C01/R01b): a bodiless verb's URL-bound request is not refused, or overwritten, because of body bytes", 1)
	if _, lit := middlewareLit(ep); lit != nil {
		verbs := guardConstSet(ep.Info, lit.Body, func(call *ast.CallExpr) bool {
			f := ep.CalleeOf(call)
			return f != nil && ep.RecName(f) == "bindDataBasedOnContentType"
		})
		r.CheckD(sameSet(verbs, []string{"PATCH", "POST", "PUT"}), "R02o", "BindingMiddleware reaches the body decoder exactly for PATCH, POST, PUT", ep.GenPos(lit.Pos()),
			fmt.Sprintf("the emitted BindingMiddleware decodes a body for the verbs %v: for GET/DELETE routes every field is carried by the URL (generation-time coverage), so body bytes that do not decode into the message turn a well-formed URL request into a 400, and decodable ones are decoded into fields the URL then overwrites", verbs), map[string]any{"verbs": verbs})
	} else {
		r.Unres("R02o", "BindingMiddleware handler literal", "", "not found")
	}
	c07HandlerPropertyNames(c, "R02p")
	c02ParamTableFidelity(c)
}

// urlValueProvenance — R02m. In the emitted bindPathParams / bindQueryParams every first argument of the kind conversion is traced
// back through locals, index expressions and range statements to its origin, which must be r.PathValue(…) or an element of
// r.URL.Query()[…] (url.Values.Get included). Any library call on the way (strings.Split, TrimSpace, Join, ToLower, url.*Unescape …)
// means the handler receives something else than the URL carried; a call of another emitted function is not followed (UNDECIDED).
func urlValueProvenance(c *Ctx, ep *EmittedPkg, rid string) {
	r := c.R
	conv := ep.Funcs["convertStringToFieldValue"]
	if conv == nil {
		r.Unres(rid, "convertStringToFieldValue", "", "emitted function not found")
		return
	}
	for _, name := range []string{"bindPathParams", "bindQueryParams"} {
		fd := ep.Funcs[name]
		if fd == nil {
			r.Unres(rid, name, "", "emitted function not found")
			continue
		}
		// definitions of locals: object -> defining expression (or the ranged expression, marked)
		type def struct {
			e     ast.Expr
			elems bool // the local is an element (range value) of e
			n     int
		}
		defs := map[types.Object]*def{}
		note := func(id *ast.Ident, e ast.Expr, elems bool) {
			o := ep.Info.ObjectOf(id)
			if o == nil {
				return
			}
			if d := defs[o]; d != nil {
				d.n++
				return
			}
			defs[o] = &def{e: e, elems: elems, n: 1}
		}
		ast.Inspect(fd.Body, func(n ast.Node) bool {
			switch x := n.(type) {
			case *ast.AssignStmt:
				if len(x.Lhs) == len(x.Rhs) {
					for i, l := range x.Lhs {
						if id, ok := l.(*ast.Ident); ok && id.Name != "_" {
							note(id, x.Rhs[i], false)
						}
					}
				} else if len(x.Rhs) == 1 {
					for _, l := range x.Lhs {
						if id, ok := l.(*ast.Ident); ok && id.Name != "_" {
							note(id, x.Rhs[0], false)
						}
					}
				}
			case *ast.RangeStmt:
				if id, ok := x.Value.(*ast.Ident); ok && id.Name != "_" {
					note(id, x.X, true)
				}
			}
			return true
		})
		isURLValues := func(t types.Type) bool { return t != nil && t.String() == "net/url.Values" }
		var trace func(e ast.Expr, depth int) (string, bool) // (reason, decided-bad); "" = fine
		trace = func(e ast.Expr, depth int) (string, bool) {
			if depth > 8 {
				return "definition chain too long", false
			}
			e = ast.Unparen(e)
			switch x := e.(type) {
			case *ast.Ident:
				o := ep.Info.ObjectOf(x)
				d := defs[o]
				if d == nil {
					return "no definition of " + x.Name + " in the binder", false
				}
				if d.n > 1 {
					return x.Name + " is assigned more than once", false
				}
				return trace(d.e, depth+1)
			case *ast.IndexExpr:
				if isURLValues(ep.Info.TypeOf(x.X)) {
					return trace(x.X, depth+1) // query[name]: the value list of one key
				}
				return trace(x.X, depth+1) // values[0]
			case *ast.CallExpr:
				f := ep.CalleeOf(x)
				switch qname(f) {
				case "net/http.(Request).PathValue", "net/url.(URL).Query", "net/url.(Values).Get":
					return "", false
				}
				if f != nil && f.Pkg() == ep.Pkg {
					return "the value passes through the emitted function " + f.Name() + " (not followed)", false
				}
				return "the value passes through " + ep.Text(x.Fun) + "(…)", true
			case *ast.SliceExpr, *ast.BinaryExpr, *ast.BasicLit, *ast.CompositeLit:
				return "the value is " + ep.Text(e), true
			case *ast.SelectorExpr:
				return "the value is read from " + ep.Text(e), false
			}
			return "unrecognised expression " + ep.Text(e), false
		}
		n := 0
		ast.Inspect(fd.Body, func(nd ast.Node) bool {
			call, ok := nd.(*ast.CallExpr)
			if !ok || len(call.Args) == 0 {
				return true
			}
			if f := ep.CalleeOf(call); f == nil || ep.RecName(f) != "convertStringToFieldValue" {
				return true
			}
			n++
			key := fmt.Sprintf("%s: conversion #%d receives an element of the URL's value list", name, n)
			reason, bad := trace(call.Args[0], 0)
			switch {
			case reason == "":
				r.OK(rid, key, ep.GenPos(call.Pos()))
			case bad:
				r.Bad(rid, key, ep.GenPos(call.Pos()), name+" converts "+ep.Text(call.Args[0])+", but "+reason+": the handler receives strings the URL did not carry (a repeated value containing the separator is split, a value is trimmed/re-cased/re-decoded), or a malformed value is accepted instead of answered with 400", nil)
			default:
				r.Undec(rid, key, ep.GenPos(call.Pos()), reason)
			}
			return true
		})
		if n == 0 {
			r.Unres(rid, name, ep.GenPos(fd.Pos()), "no call of convertStringToFieldValue found")
		}
	}
}

func objOf(ep *EmittedPkg, name string) *types.Func {
	fd := ep.Funcs[name]
	if fd == nil {
		return nil
	}
	f, _ := ep.Info.Defs[fd.Name].(*types.Func)
	return f
}

// binderFailureArm: `if err := <name>(…); err != nil { writeErrorWithHandler(w, r, err, …); return }`
func binderFailureArm(ep *EmittedPkg, lit *ast.FuncLit, name string) (bool, string, token.Pos) {
	var res bool
	why := "call of " + name + " not found in if-init form"
	var pos token.Pos
	ast.Inspect(lit.Body, func(n ast.Node) bool {
		ifs, ok := n.(*ast.IfStmt)
		if !ok || ifs.Init == nil {
			return true
		}
		as, ok := ifs.Init.(*ast.AssignStmt)
		if !ok || len(as.Rhs) != 1 || len(as.Lhs) != 1 {
			return true
		}
		call, ok := as.Rhs[0].(*ast.CallExpr)
		if !ok {
			return true
		}
		cal := ep.CalleeOf(call)
		if cal == nil || ep.RecName(cal) != name {
			return true
		}
		pos = call.Pos()
		errObj := ep.Info.ObjectOf(as.Lhs[0].(*ast.Ident))
		be, ok := ast.Unparen(ifs.Cond).(*ast.BinaryExpr)
		if !ok || be.Op != token.NEQ || !isNilIdent(be.Y) {
			why = "result of " + name + " is not tested with != nil"
			return false
		}
		if id, ok := ast.Unparen(be.X).(*ast.Ident); !ok || ep.Info.ObjectOf(id) != errObj {
			why = "the tested variable is not the binder's result"
			return false
		}
		if len(ifs.Body.List) == 0 {
			why = "empty failure arm"
			return false
		}
		if _, isRet := ifs.Body.List[len(ifs.Body.List)-1].(*ast.ReturnStmt); !isRet {
			why = "failure arm of " + name + " does not return: the handler is dispatched after a binding error"
			return false
		}
		wrote := false
		ast.Inspect(ifs.Body, func(m ast.Node) bool {
			if c2, ok := m.(*ast.CallExpr); ok {
				if cal2 := ep.CalleeOf(c2); cal2 != nil && ep.RecName(cal2) == "writeErrorWithHandler" && len(c2.Args) >= 3 {
					if id, ok := ast.Unparen(c2.Args[2]).(*ast.Ident); ok && ep.Info.ObjectOf(id) == errObj {
						wrote = true
					}
				}
			}
			return true
		})
		if !wrote {
			why = "failure arm of " + name + " does not hand the violation to writeErrorWithHandler"
			return false
		}
		res = true
		return false
	})
	return res, why, pos
}

// FindPathPruned is FindPath with branches that cannot be taken removed:
// `if x, ok := any(v).(proto.Message); ok` always takes the then arm.
func FindPathPruned(ep *EmittedPkg, body *ast.BlockStmt, lf labelFn, start string, step func(state, label string) string, accept func(state string) bool) (bool, []token.Pos) {
	// rewrite: collect the `ok` objects of comma-ok assertions to proto.Message
	always := map[types.Object]bool{}
	ast.Inspect(body, func(n ast.Node) bool {
		as, ok := n.(*ast.AssignStmt)
		if !ok || len(as.Lhs) != 2 || len(as.Rhs) != 1 {
			return true
		}
		ta, ok := ast.Unparen(as.Rhs[0]).(*ast.TypeAssertExpr)
		if !ok || ta.Type == nil {
			return true
		}
		if tv, ok := ep.Info.Types[ta.Type]; ok && typeIsNamed(tv.Type, "protobuf/reflect/protoreflect", "ProtoMessage") || types.ExprString(ta.Type) == "proto.Message" {
			if id, ok := as.Lhs[1].(*ast.Ident); ok {
				if o := ep.Info.ObjectOf(id); o != nil {
					always[o] = true
				}
			}
		}
		return true
	})
	return findPathFiltered(body, lf, start, step, accept, func(cond ast.Expr) int {
		if id, ok := ast.Unparen(cond).(*ast.Ident); ok && always[ep.Info.ObjectOf(id)] {
			return 1 // skip else
		}
		return -1
	})
}

func checkConversionTable(c *Ctx, ep *EmittedPkg, rule string) {
	r := c.R
	f := ep.Funcs["convertStringToFieldValue"]
	if f == nil {
		r.Unres(rule, "convertStringToFieldValue", "", "emitted function not found")
		return
	}
	type row struct {
		parser string
		bits   string
		ctor   string
	}
	oracle := map[string]row{
		"Int32Kind": {"ParseInt", "32", "ValueOfInt32"}, "Sint32Kind": {"ParseInt", "32", "ValueOfInt32"}, "Sfixed32Kind": {"ParseInt", "32", "ValueOfInt32"},
		"Int64Kind": {"ParseInt", "64", "ValueOfInt64"}, "Sint64Kind": {"ParseInt", "64", "ValueOfInt64"}, "Sfixed64Kind": {"ParseInt", "64", "ValueOfInt64"},
		"Uint32Kind": {"ParseUint", "32", "ValueOfUint32"}, "Fixed32Kind": {"ParseUint", "32", "ValueOfUint32"},
		"Uint64Kind": {"ParseUint", "64", "ValueOfUint64"}, "Fixed64Kind": {"ParseUint", "64", "ValueOfUint64"},
		"BoolKind": {"ParseBool", "", "ValueOfBool"}, "FloatKind": {"ParseFloat", "32", "ValueOfFloat32"}, "DoubleKind": {"ParseFloat", "64", "ValueOfFloat64"},
		"StringKind": {"", "", "ValueOfString"},
	}
	seen := map[string]bool{}
	ast.Inspect(f.Body, func(n ast.Node) bool {
		cc, ok := n.(*ast.CaseClause)
		if !ok || cc.List == nil {
			return true
		}
		got := row{}
		ast.Inspect(cc, func(m ast.Node) bool {
			call, ok := m.(*ast.CallExpr)
			if !ok {
				return true
			}
			cal := ep.CalleeOf(call)
			if cal == nil || cal.Pkg() == nil {
				return true
			}
			if cal.Pkg().Path() == "strconv" && strings.HasPrefix(cal.Name(), "Parse") {
				got.parser = cal.Name()
				if len(call.Args) > 0 {
					if tv, ok := ep.Info.Types[call.Args[len(call.Args)-1]]; ok && tv.Value != nil && cal.Name() != "ParseBool" {
						got.bits = tv.Value.ExactString()
					}
				}
			}
			if strings.HasSuffix(cal.Pkg().Path(), "protoreflect") && strings.HasPrefix(cal.Name(), "ValueOf") {
				got.ctor = cal.Name()
			}
			return true
		})
		for _, ke := range cc.List {
			kind := types.ExprString(ke)
			kind = kind[strings.LastIndex(kind, ".")+1:]
			seen[kind] = true
			want, known := oracle[kind]
			if !known {
				r.Bad(rule, "convertStringToFieldValue case "+kind, ep.GenPos(cc.Pos()), "kind has no scalar string form in the oracle table", nil)
				continue
			}
			r.CheckD(got == want, rule, "convertStringToFieldValue case "+kind, ep.GenPos(cc.Pos()),
				fmt.Sprintf("a URL value of kind %s is converted with %s(bits %s) -> %s; the kind requires %s(bits %s) -> %s (out-of-range values would wrap or be refused wrongly)", kind, got.parser, got.bits, got.ctor, want.parser, want.bits, want.ctor),
				map[string]any{"parser": got.parser, "bits": got.bits, "constructor": got.ctor})
		}
		return true
	})
	for k := range oracle {
		if !seen[k] {
			r.Bad(rule, "convertStringToFieldValue case "+k, ep.GenPos(f.Pos()), "scalar kind accepted as path/query parameter has no conversion arm", nil)
		}
	}
}

func checkTSQueryBinding(c *Ctx) {
	r := c.R
	fn := c.P.Func("internal/tsservergen", "Generator.generateRouteEntry")
	if fn == nil {
		r.Unres("R02d", "tsservergen.generateRouteEntry", "", "not found")
		return
	}
	decl := c.P.Decls[fn]
	info := c.P.DeclPkg[fn].TypesInfo
	parents := parentMap(decl.Body)
	var qCall, bodyCall, mergeCall *ast.CallExpr
	ast.Inspect(decl.Body, func(n ast.Node) bool {
		if call, ok := n.(*ast.CallExpr); ok {
			if cal := Callee(info, call); cal != nil {
				switch cal.Name() {
				case "generateQueryParamParsing":
					qCall = call
				case "generateBodyParsing":
					bodyCall = call
				case "generatePathParamMerge":
					mergeCall = call
				}
			}
		}
		return true
	})
	if qCall == nil || bodyCall == nil || mergeCall == nil {
		r.Unres("R02d", "ts route entry emitters", c.P.Pos(decl.Pos()), "query/body/merge emitters not all found in generateRouteEntry")
		return
	}
	underVerb := ""
	for p := parents[ast.Node(qCall)]; p != nil; p = parents[p] {
		if ifs, ok := p.(*ast.IfStmt); ok && strings.Contains(types.ExprString(ifs.Cond), "hasBody") {
			underVerb = types.ExprString(ifs.Cond)
		}
	}
	r.Check(underVerb == "", "R02d", "ts-server: query parameters are bound for every verb", c.P.Pos(qCall.Pos()),
		"the TS server parses query-annotated fields only when the verb has no body (emitter is under `"+underVerb+"`): POST /x?f=1 with f annotated as query never reaches the handler")
	r.Check(mergeCall.Pos() > bodyCall.Pos() && mergeCall.Pos() > qCall.Pos(), "R02d", "ts-server: path parameters are merged after the body / query object is built", c.P.Pos(mergeCall.Pos()),
		"path parameters are merged before the request object is built: the body parse overwrites them")
}

// c02Presence: R02g — a URL parameter is skipped only when it is absent.
func c02Presence(c *Ctx, ep *EmittedPkg, rid ...string) {
	r := c.R
	rule := "R02g"
	if len(rid) > 0 {
		rule = rid[0]
	}
	fd := ep.Funcs["bindQueryParams"]
	if fd == nil {
		r.Unres(rule, "bindQueryParams", "", "not emitted")
		return
	}
	n := 0
	ast.Inspect(fd.Body, func(nd ast.Node) bool {
		rs, ok := nd.(*ast.RangeStmt)
		if !ok || types.ExprString(rs.X) != "params" {
			return true
		}
		for _, st := range rs.Body.List {
			ifs, ok := st.(*ast.IfStmt)
			if !ok {
				continue
			}
			skips := false
			ast.Inspect(ifs.Body, func(m ast.Node) bool {
				if b, ok := m.(*ast.BranchStmt); ok && b.Tok == token.CONTINUE {
					skips = true
				}
				return true
			})
			// an arm that binds the value and then moves on to the next parameter is not a skip
			binds := false
			ast.Inspect(ifs.Body, func(m ast.Node) bool {
				if call, ok := m.(*ast.CallExpr); ok {
					if sel, ok := call.Fun.(*ast.SelectorExpr); ok && (sel.Sel.Name == "Set" || sel.Sel.Name == "Append" || sel.Sel.Name == "Mutable") {
						binds = true
					}
				}
				return true
			})
			if !skips || binds {
				continue
			}
			n++
			cond := types.ExprString(ifs.Cond)
			okCond := false
			// len(values) == 0 where values := query[param.QueryName]
			if be, ok := ast.Unparen(ifs.Cond).(*ast.BinaryExpr); ok && be.Op == token.EQL {
				if call, ok := be.X.(*ast.CallExpr); ok && types.ExprString(call.Fun) == "len" && types.ExprString(be.Y) == "0" && len(call.Args) == 1 {
					if id, ok := call.Args[0].(*ast.Ident); ok {
						if d := localDef(ep.Info, fd.Body, id); d != nil {
							if ix, ok := d.(*ast.IndexExpr); ok {
								if t := ep.Info.TypeOf(ix.X); t != nil && strings.HasSuffix(t.String(), "url.Values") {
									okCond = true
								}
							}
						}
					}
				}
				if isNilIdent(be.Y) {
					okCond = true // unknown field: nothing to bind
				}
			}
			r.Check(okCond, rule, "bindQueryParams skips a parameter only under: "+cond, ep.GenPos(ifs.Pos()),
				fmt.Sprintf("bindQueryParams leaves a query parameter unbound when `%s`: that is not an absence test on the values of the key (len(query[name]) == 0), so a parameter that is present with an empty value (?page=) is treated as not supplied — an unparsable value is dispatched as zero instead of answered with 400, and a required empty string is reported missing", cond))
		}
		return true
	})
	r.Check(n >= 1, rule, "bindQueryParams has an absence test", ep.GenPos(fd.Pos()), "no skip condition found in the parameter loop")
}

// binderViolationFields: every FieldViolation built in the URL binders names the
// bound field (param.FieldName), in every error arm.
func binderViolationFields(c *Ctx, ep *EmittedPkg, rid string) {
	r := c.R
	// fieldOf: the Field expression of a FieldViolation literal
	fieldOf := func(cl *ast.CompositeLit) ast.Expr {
		for _, el := range cl.Elts {
			if kv, ok := el.(*ast.KeyValueExpr); ok {
				if id, ok := kv.Key.(*ast.Ident); ok && id.Name == "Field" {
					return kv.Value
				}
			}
		}
		return nil
	}
	isViolation := func(nd ast.Node) (*ast.CompositeLit, bool) {
		cl, ok := nd.(*ast.CompositeLit)
		if !ok {
			return nil, false
		}
		tv, ok := ep.Info.Types[cl]
		return cl, ok && typeIsNamed(tv.Type, "sebuf/http", "FieldViolation")
	}
	// helper constructors: emitted functions that build a violation whose Field is one of their parameters
	// (func newParamViolation(field, description string) …): parameter index by function
	helperParam := map[string]int{}
	for name, fd := range ep.Funcs {
		if fd.Body == nil || fd.Type.Params == nil {
			continue
		}
		var params []string
		for _, p := range fd.Type.Params.List {
			for _, n := range p.Names {
				params = append(params, n.Name)
			}
		}
		ast.Inspect(fd.Body, func(nd ast.Node) bool {
			if cl, ok := isViolation(nd); ok {
				if id, ok := fieldOf(cl).(*ast.Ident); ok {
					for i, pn := range params {
						if pn == id.Name {
							helperParam[name] = i
						}
					}
				}
			}
			return true
		})
	}
	for _, name := range []string{"bindPathParams", "bindQueryParams"} {
		f := ep.Funcs[name]
		if f == nil {
			r.Unres(rid, name, "", "emitted function not found")
			continue
		}
		n := 0
		check := func(e ast.Expr, pos token.Pos) {
			n++
			fieldExpr := ""
			if e != nil {
				fieldExpr = types.ExprString(e)
			}
			r.Check(fieldExpr == "param.FieldName", rid, fmt.Sprintf("%s violation #%d names param.FieldName", name, n), ep.GenPos(pos),
				"a URL-binding violation does not name the bound field (Field: "+fieldExpr+")")
		}
		ast.Inspect(f.Body, func(nd ast.Node) bool {
			if cl, ok := isViolation(nd); ok {
				check(fieldOf(cl), cl.Pos())
				return true
			}
			if call, ok := nd.(*ast.CallExpr); ok {
				if cal := ep.CalleeOf(call); cal != nil {
					if idx, ok := helperParam[cal.Name()]; ok && idx < len(call.Args) {
						check(call.Args[idx], call.Pos())
					}
				}
			}
			return true
		})
	}

}

// c02QueryWiring: R02h — the servers' per-method query configuration lists the
// query-annotated fields whatever the method's (sebuf.http.config) says or omits.
func c02QueryWiring(c *Ctx) {
	r := c.R
	r.Rule("R02h", "both servers list the query-annotated fields of the request for every configuration (config absent, verb only, path only, both) and verb", 12)
	var scs []c03Scenario
	scs = append(scs, c03Scenario{Base: "/zqb", Query: true}, c03Scenario{Query: true})
	for _, v := range []string{"GET", "POST", "DELETE"} {
		scs = append(scs, c03Scenario{Base: "/zqb", Cfg: &c03Cfg{Method: v}, Query: true}, c03Scenario{Base: "/zqb", Cfg: &c03Cfg{Method: v, Path: "/zqp/{id}"}, Query: true})
	}
	scs = append(scs, c03Scenario{Base: "/zqb", Cfg: &c03Cfg{Path: "/zqp"}, Query: true})
	for _, s := range scs {
		for _, g := range []struct{ name, pkg, suffix, want string }{
			{"Go server", pkgHTTP, "_http.pb.go", `QueryName: "zqquery"`},
			{"TS server", pkgTSServer, "_server.ts", `params.get("zqquery")`},
		} {
			if g.name == "TS server" && (s.Cfg == nil || (s.Cfg.Method != "GET" && s.Cfg.Method != "DELETE")) {
				continue // body verbs: the TS server reads no query parameters at all (R02d, recorded finding)
			}
			txt := c.observeEmittedText(g.pkg, g.suffix, s)
			pos := ""
			if ri := c.c03Root(g.pkg, g.suffix); ri != nil {
				pos = c.P.Pos(c.P.Decls[ri.Fn].Pos())
			}
			if txt == "" {
				r.Unres("R02h", g.name+": "+s.String(), pos, "unit does not reconstruct for this configuration")
				continue
			}
			r.Check(strings.Contains(txt, g.want), "R02h", g.name+": "+s.String(), pos,
				fmt.Sprintf("%s: the %s generated for a request with a query-annotated field does not contain %s: the value sent in the query string never reaches the handler's request message", s, g.name, g.want))
		}
	}
}

// c02ParamTableFidelity: R02i — each entry of the emitted per-method query/path parameter tables carries the
// annotation's own values: QueryName ← ParamName, FieldName ← FieldName, Required ← Required, nothing else.
func c02ParamTableFidelity(c *Ctx) {
	r := c.R
	r.Rule("R02i", "the emitted query-parameter table copies name, field and required flag of the annotation verbatim", 1)
	ri := c.Root(pkgHTTP, "_http.pb.go")
	if ri == nil {
		r.Unres("R02i", "_http.pb.go", "", "unit root not found")
		return
	}
	ex := c.ExploreT(ri.Fn, 4000)
	type bad struct{ pos, msg string }
	bads := map[string]bad{}
	n := 0
	want := []*regexp.Regexp{regexp.MustCompile(`\.ParamName$`), regexp.MustCompile(`\.FieldName$`), regexp.MustCompile(`^(strconv\.FormatBool\()?[^&|!]*\.Required\)?$`)}
	names := []string{"QueryName", "FieldName", "Required"}
	for _, v := range ex.Variants {
		for _, u := range v.Units {
			for _, l := range u.Lines {
				t := lineText(l.Segs)
				if !strings.HasPrefix(strings.TrimSpace(t), `{QueryName: "`) {
					continue
				}
				n++
				var holes []*Hole
				for _, sg := range l.Segs {
					if sg.Hole != nil {
						holes = append(holes, sg.Hole)
					}
				}
				if len(holes) != 3 {
					bads["shape"] = bad{c.P.Pos(l.Pos), fmt.Sprintf("the table entry is printed with %d variable parts instead of three (name, field, required): %s — a part of the annotation is replaced by a constant or a decision of the generator", len(holes), holeFree(t))}
					continue
				}
				for i, h := range holes {
					k := eraseIters(h.Key)
					if !want[i].MatchString(k) {
						bads[names[i]] = bad{c.P.Pos(l.Pos), fmt.Sprintf("%s of the emitted QueryParamConfig is %s, not the annotation's own value: the server's binder then treats the parameter differently from what the contract (OpenAPI, clients) publishes", names[i], k)}
					}
				}
			}
		}
	}
	for _, k := range sortedKeys(bads) {
		r.Bad("R02i", "query parameter table: "+k, bads[k].pos, bads[k].msg, nil)
	}
	if n == 0 {
		r.Undec("R02i", "query parameter table entries", "", "no `{QueryName: …}` line in any variant of *_http.pb.go")
		return
	}
	r.OKd("R02i", "query parameter table entries copy the annotation", "", map[string]any{"lines": n, "deviations": len(bads)})
}

// requestAllocatedPerRequest: in the emitted BindingMiddleware the request message (new(Req)) is created inside the
// function literal that serves a request, never in the enclosing function, which runs once per route.
func requestAllocatedPerRequest(c *Ctx, ep *EmittedPkg, rid string) {
	r := c.R
	fd, lit := middlewareLit(ep)
	if fd == nil || lit == nil {
		r.Unres(rid, "BindingMiddleware handler literal", "", "not found")
		return
	}
	n := 0
	var outside token.Pos
	ast.Inspect(fd.Body, func(nd ast.Node) bool {
		call, ok := nd.(*ast.CallExpr)
		if !ok {
			return true
		}
		id, ok := call.Fun.(*ast.Ident)
		if !ok || id.Name != "new" || len(call.Args) != 1 {
			return true
		}
		if _, isB := ep.Info.Uses[id].(*types.Builtin); !isB {
			return true
		}
		if tv, ok := ep.Info.Types[call.Args[0]]; !ok || !tv.IsType() {
			return true
		} else if _, isTP := tv.Type.(*types.TypeParam); !isTP {
			return true
		}
		n++
		if !(call.Pos() >= lit.Pos() && call.Pos() < lit.End()) {
			outside = call.Pos()
		}
		return true
	})
	pos := ep.GenPos(fd.Pos())
	if outside != token.NoPos {
		pos = ep.GenPos(outside)
	}
	r.Check(n > 0 && outside == token.NoPos, rid, "BindingMiddleware allocates the request message per request", pos,
		"the request message is created outside the per-request function literal: every request to the route binds into the same message; a request without a body (GET, DELETE, empty body) keeps the path and query values an earlier request left there, and concurrent requests race")
}

// convertKeepsValue: convertStringToFieldValue never reassigns its string parameter (no trimming, case folding,
// unescaping): the value the handler sees is the value the URL carries.
func convertKeepsValue(c *Ctx, ep *EmittedPkg, rid string) {
	r := c.R
	fd := ep.Funcs["convertStringToFieldValue"]
	if fd == nil {
		r.Unres(rid, "convertStringToFieldValue", "", "emitted function not found")
		return
	}
	var strParams []types.Object
	for _, f := range fd.Type.Params.List {
		for _, nm := range f.Names {
			if o := ep.Info.Defs[nm]; o != nil {
				if b, ok := o.Type().Underlying().(*types.Basic); ok && b.Info()&types.IsString != 0 {
					strParams = append(strParams, o)
				}
			}
		}
	}
	bad := ""
	var bpos token.Pos
	ast.Inspect(fd.Body, func(nd ast.Node) bool {
		as, ok := nd.(*ast.AssignStmt)
		if !ok {
			return true
		}
		for _, l := range as.Lhs {
			if id, ok := l.(*ast.Ident); ok && as.Tok != token.DEFINE {
				for _, p := range strParams {
					if ep.Info.ObjectOf(id) == p {
						bad = types.ExprString(as.Lhs[0]) + " = " + types.ExprString(as.Rhs[0])
						bpos = as.Pos()
					}
				}
			}
		}
		return true
	})
	pos := ep.GenPos(fd.Pos())
	if bad != "" {
		pos = ep.GenPos(bpos)
	}
	r.Check(len(strParams) > 0 && bad == "", rid, "convertStringToFieldValue converts the URL value as given", pos,
		"convertStringToFieldValue rewrites the URL value before converting it ("+bad+"): for string fields the handler no longer receives the value given in the URL (leading/trailing blanks, case, …)")
}

// c02PathVariableAgreement — R02n. A path parameter of the published OpenAPI operation promises the caller that the value put
// into that URL segment reaches the request field of that name. The Go server keeps that promise only for the variables listed
// in its emitted PathParamConfig table. For route configurations with variables in the method path and in the service base
// path, both sides are evaluated (OpenAPI: extractMethodHTTPInfo interpreted; Go server: the table lines reconstructed) and
// every variable the contract binds must be bound by the server.
func c02PathVariableAgreement(c *Ctx) {
	r := c.R
	r.Rule("R02n", "every path parameter the OpenAPI operation binds to a request field is in the Go server's path-binding table (also for variables of the service base path)", 4)
	ri := c.c03Root(pkgHTTP, "_http.pb.go")
	if ri == nil {
		r.Unres("R02n", "_http.pb.go", "", "unit root not found")
		return
	}
	tabRe := regexp.MustCompile(`URLParam:\s*"([^"]*)",\s*FieldName:\s*"([^"]*)"`)
	for _, s := range []c03Scenario{
		{Base: "/zqb", Cfg: &c03Cfg{Path: "/zqp/{pvone}", Method: "GET"}},
		{Base: "/zqb/{pvbase}", Cfg: &c03Cfg{Path: "/zqp/{pvone}", Method: "POST"}},
		{Base: "/zqb/{pvbase}/v1/", Cfg: &c03Cfg{Path: "/{pvone}/zqp/{pvtwo}", Method: "PUT"}},
		{Base: "/{pvbase}", Cfg: &c03Cfg{Path: "/zqp", Method: "PATCH"}},
		{Base: "", Cfg: &c03Cfg{Path: "/zqp/{pvone}/{pvtwo}", Method: "DELETE"}},
	} {
		run := c.runScenario(ri.Fn, s)
		if run.Aborted != "" {
			r.Unres("R02n", "Go server table: "+s.String(), "", run.Aborted)
			continue
		}
		bound := map[string]bool{}
		pos := ""
		for _, u := range run.Units {
			for _, l := range u.Lines {
				if m := tabRe.FindStringSubmatch(keyText(l.Segs)); m != nil {
					pos = c.P.Pos(l.Pos)
					if m[1] == m[2] {
						bound[m[1]] = true
					} else {
						r.Bad("R02n", "Go server path table entry binds the variable to the field of its own name ("+s.String()+")", pos,
							fmt.Sprintf("%s: the emitted PathParamConfig binds URL variable %q to field %q", s, m[1], m[2]), nil)
					}
				}
			}
		}
		_, _, ops, opos, oerr := c.observeOpenAPI(s)
		if oerr != "" {
			r.Unres("R02n", "OpenAPI path parameters: "+s.String(), opos, oerr)
			continue
		}
		var missing []string
		for _, p := range ops {
			if !bound[p] {
				missing = append(missing, p)
			}
		}
		for _, p := range s.params() {
			if !bound[p] {
				missing = append(missing, p+" (method path)")
			}
		}
		if pos == "" {
			pos = opos
		}
		r.CheckD(len(missing) == 0, "R02n", "contract-bound path variables are server-bound: "+s.String(), opos,
			fmt.Sprintf("%s: the OpenAPI operation declares path parameters %v (each bound to the request field of that name) but the Go server's PathParamConfig table binds only %v — %v is carried in the URL and never reaches the handler's request message", s, ops, sortedKeys(bound), missing),
			map[string]any{"openapi": ops, "go_server_table": sortedKeys(bound)})
	}
}

// urlValueNotEchoed — R02q / R10l / R11j. The URL binders answer a value they cannot convert with a ValidationError whose
// description names the parameter and carries strconv's error (which quotes its input). The raw URL value itself — any
// bytes after percent-decoding — must not be formatted into the description except under %q: a description that is not
// valid UTF-8 cannot be marshalled, and the 400 degrades to a bare text body without the violation.
func urlValueNotEchoed(c *Ctx, ep *EmittedPkg, rid string) {
	r := c.R
	for _, name := range []string{"bindPathParams", "bindQueryParams"} {
		fd := ep.Funcs[name]
		if fd == nil {
			r.Unres(rid, name, "", "emitted function not found")
			continue
		}
		tainted := map[types.Object]bool{}
		isRawSource := func(e ast.Expr) bool {
			raw := false
			ast.Inspect(e, func(n ast.Node) bool {
				switch x := n.(type) {
				case *ast.CallExpr:
					switch qname(ep.CalleeOf(x)) {
					case "net/http.(Request).PathValue", "net/url.(URL).Query", "net/url.(Values).Get":
						raw = true
					}
				case *ast.Ident:
					if tainted[ep.Info.ObjectOf(x)] {
						raw = true
					}
				}
				return true
			})
			return raw
		}
		for round := 0; round < 4; round++ {
			ast.Inspect(fd.Body, func(n ast.Node) bool {
				switch x := n.(type) {
				case *ast.AssignStmt:
					if len(x.Lhs) == len(x.Rhs) {
						for i, l := range x.Lhs {
							if id, ok := l.(*ast.Ident); ok && isRawSource(x.Rhs[i]) {
								// the result of a conversion (converted, err := convert(v)) is not the raw text
								if call, isCall := ast.Unparen(x.Rhs[i]).(*ast.CallExpr); isCall {
									if f := ep.CalleeOf(call); f != nil && f.Pkg() == ep.Pkg {
										continue
									}
								}
								if o := ep.Info.ObjectOf(id); o != nil {
									if b, ok := o.Type().Underlying().(*types.Basic); !ok || b.Info()&types.IsString != 0 {
										tainted[o] = true
									}
								}
							}
						}
					}
				case *ast.RangeStmt:
					if id, ok := x.Value.(*ast.Ident); ok && isRawSource(x.X) {
						if o := ep.Info.ObjectOf(id); o != nil {
							tainted[o] = true
						}
					}
				}
				return true
			})
		}
		n := 0
		bad := ""
		var bpos token.Pos
		// every text the binder formats (the violation's description, whether it is written into the literal here or handed
		// to a helper that builds the violation)
		ast.Inspect(fd.Body, func(nd ast.Node) bool {
			root, ok := nd.(*ast.CallExpr)
			if !ok {
				return true
			}
			if cal := ep.CalleeOf(root); cal == nil || cal.Pkg() == nil || cal.Pkg().Path() != "fmt" || !strings.HasSuffix(cal.Name(), "f") {
				return true
			}
			n++
			ast.Inspect(root, func(m ast.Node) bool {
				call, ok := m.(*ast.CallExpr)
				if !ok || len(call.Args) < 2 {
					return true
				}
				cal := ep.CalleeOf(call)
				if cal == nil || cal.Pkg() == nil || cal.Pkg().Path() != "fmt" {
					return true
				}
				format := ""
				if tv, ok := ep.Info.Types[call.Args[0]]; ok && tv.Value != nil {
					format = tv.Value.ExactString()
				}
				verbs := regexp.MustCompile(`%[-+# 0-9.]*[a-zA-Z]`).FindAllString(format, -1)
				for i, a := range call.Args[1:] {
					id, ok := ast.Unparen(a).(*ast.Ident)
					if !ok || !tainted[ep.Info.ObjectOf(id)] {
						continue
					}
					// a string of type error is not raw text
					if isErrorType(ep.Info.TypeOf(a)) {
						continue
					}
					verb := ""
					if i < len(verbs) {
						verb = verbs[i]
					}
					if !strings.HasSuffix(verb, "q") && bad == "" {
						bad = fmt.Sprintf("%s printed with %q", id.Name, verb)
						bpos = call.Pos()
					}
				}
				return true
			})
			return true
		})
		pos := ep.GenPos(fd.Pos())
		if bad != "" {
			pos = ep.GenPos(bpos)
		}
		r.CheckD(n > 0 && bad == "", rid, name+": violation descriptions do not embed the raw URL value (only under %q)", pos,
			"the emitted "+name+" formats the raw URL value into FieldViolation.Description ("+bad+"): a segment or query value that percent-decodes to invalid UTF-8 (/items/%FF) gives a ValidationError that cannot be marshalled, and the client receives text/plain 400 without the violation that names the field", map[string]any{"descriptions": n, "raw_values": len(tainted)})
	}
}

// bindersVisitEveryParameter — R02r / R03g. The URL binders loop over the route's parameter table. Inside that loop the only
// way out of the function is a failure (a non-nil violation): `return nil` for one parameter — an absent optional one —
// leaves every parameter declared after it unbound although the URL carries it.
func bindersVisitEveryParameter(c *Ctx, ep *EmittedPkg, rid string) {
	r := c.R
	for _, name := range []string{"bindPathParams", "bindQueryParams"} {
		fd := ep.Funcs[name]
		if fd == nil {
			r.Unres(rid, name, "", "emitted function not found")
			continue
		}
		// the slice parameter that holds the table
		tables := map[types.Object]bool{}
		for _, f := range fd.Type.Params.List {
			for _, n := range f.Names {
				if o := ep.Info.Defs[n]; o != nil {
					if _, isSlice := o.Type().Underlying().(*types.Slice); isSlice {
						tables[o] = true
					}
				}
			}
		}
		nLoops := 0
		bad := ""
		var bpos token.Pos
		parents := parentMap(fd.Body)
		ast.Inspect(fd.Body, func(nd ast.Node) bool {
			rs, ok := nd.(*ast.RangeStmt)
			if !ok {
				return true
			}
			if id := rootIdentOf(rs.X); id == nil || !tables[ep.Info.ObjectOf(id)] {
				return true
			}
			nLoops++
			ast.Inspect(rs.Body, func(m ast.Node) bool {
				switch x := m.(type) {
				case *ast.FuncLit:
					return false
				case *ast.ReturnStmt:
					if len(x.Results) == 1 && isNilIdent(x.Results[0]) && bad == "" {
						bad, bpos = "return nil", x.Pos()
					}
				case *ast.BranchStmt:
					if x.Tok == token.BREAK && bad == "" {
						// a break that leaves the parameter loop (not a switch or an inner loop)
						inner := false
						for p := parents[ast.Node(x)]; p != nil && p != ast.Node(rs); p = parents[p] {
							switch p.(type) {
							case *ast.ForStmt, *ast.RangeStmt, *ast.SwitchStmt, *ast.TypeSwitchStmt, *ast.SelectStmt:
								inner = true
							}
						}
						if !inner && x.Label == nil {
							bad, bpos = "break", x.Pos()
						}
					}
				}
				return true
			})
			return true
		})
		pos := ep.GenPos(fd.Pos())
		if bad != "" {
			pos = ep.GenPos(bpos)
		}
		r.Check(nLoops > 0 && bad == "", rid, name+": the parameter loop is left only with a violation", pos,
			"the emitted "+name+" leaves its loop over the route's parameters with `"+bad+"`: every parameter declared after the one that triggered it stays unbound although the URL carries a value for it — the handler sees zero values the caller did not send")
	}
}
